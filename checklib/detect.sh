#!/bin/bash
# usage: detect.sh <worktree> <mutation-dir-name> <property> <seed-id> [extra properties to also run...]
# Applies the patch to /repo, runs ./check <property> quick, undoes it, stores the mutation under seeded/<seed-id>/
set -u
wt=$1; m=$2; prop=$3; sid=$4; shift 4
md=$wt/mutations/$m
cd /verif
git -C /repo status --short | grep -q . && { echo "/repo not clean"; exit 2; }
# evidence files describe the unchanged tree: keep them aside while the patched tree is checked
ev=$(mktemp -d); cp -a evidence/. $ev/
git -C /repo apply $md/patch.diff || { echo "patch does not apply to /repo"; exit 2; }
./check $prop quick > $md/check.log 2>&1; rc=$?
others=""
for q in "$@"; do ./check $q quick > $md/check-$q.log 2>&1; others="$others $q=$?"; done
git -C /repo checkout -q -- .
cp -a $ev/. evidence/; rm -rf $ev
grep -E "VIOLATION|KNOWN-FINDING" $md/check.log | head -3
tail -1 $md/check.log
echo "check rc=$rc others:$others"
mkdir -p /verif/seeded/$sid
cp $md/patch.diff $md/demo.diff $md/README.md /verif/seeded/$sid/
python3 - "$md" "$prop" "$sid" "$rc" "$others" <<'PY'
import json,sys
md,prop,sid,rc,others=sys.argv[1:6]
conf=json.load(open(md+"/confirmed.json"))
viol=[l.strip() for l in open(md+"/check.log") if "VIOLATION" in l][:2]
meta={"property":prop,"source":"independent sub-agent given only the property text (statement + quantifier) and a scratch worktree",
 "needs_to_manifest":"see README.md","demo_cmd":conf.pop("demo_cmd"),"confirmed":conf,"check_quick_rc":int(rc),"check_output":viol,
 "other_checks":others.strip()}
json.dump(meta,open("/verif/seeded/%s/meta.json"%sid,"w"),indent=1)
PY
