#!/bin/bash
# usage: harmlessmatrix.sh [ids...] -- apply each refactoring of /verif/harmless to /repo, run EVERY property's quick check, undo.
# Any VIOLATION is a false alarm to be looked at.  Never leaves /repo modified.  Results: work/harmlessmatrix.txt
cd /verif
out=work/harmlessmatrix.txt; mkdir -p work; : > $out
ids="$@"; [ -z "$ids" ] && ids=$(ls harmless | grep -v README)
git -C /repo status --short | grep -q . && { echo "/repo not clean"; exit 2; }
ev=$(mktemp -d); cp -a evidence/. $ev/
for hid in $ids; do
  git -C /repo apply /verif/harmless/$hid/patch.diff 2>/dev/null || { echo "$hid patch-does-not-apply" | tee -a $out; continue; }
  alarms=""
  for p in C01 C02 C03 C04 C05 C06 C07 C08 C09 C10 C11 C12 C13 C14 C15 C16 C17 C18 C19 C20; do
    ./check $p quick > work/harmless-$hid-$p.log 2>&1 || alarms="$alarms $p"
  done
  git -C /repo checkout -q -- .
  echo "$hid alarms:${alarms:- none}" | tee -a $out
  echo "{\"alarms\": \"${alarms# }\"}" > harmless/$hid/result.json
done
cp -a $ev/. evidence/; rm -rf $ev
git -C /repo status --short | grep -q . && echo "WARNING: /repo modified"
echo HARMLESS-MATRIX-DONE | tee -a $out
