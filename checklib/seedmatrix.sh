#!/bin/bash
# usage: seedmatrix.sh [ids...]  -- apply each seeded patch to /repo, run its property's quick check, undo; print a table.
# Never leaves /repo modified. Results: /verif/work/seedmatrix.txt
cd /verif
out=work/seedmatrix.txt; mkdir -p work; : > $out
ids="$@"; [ -z "$ids" ] && ids=$(ls seeded)
git -C /repo status --short | grep -q . && { echo "/repo not clean"; exit 2; }
# evidence files describe the unchanged tree: keep them aside while patched trees are checked
ev=$(mktemp -d); cp -a evidence/. $ev/
for sid in $ids; do
  d=seeded/$sid
  prop=$(jq -r .property $d/meta.json)
  git -C /repo apply /verif/$d/patch.diff 2>/dev/null || { echo "$sid $prop patch-does-not-apply" | tee -a $out; continue; }
  ./check $prop quick > work/seedmatrix-$sid.log 2>&1; rc=$?
  git -C /repo checkout -q -- .
  v=$(grep -c "^VIOLATION" work/seedmatrix-$sid.log)
  streams=$(grep "^VIOLATION" work/seedmatrix-$sid.log | sed 's/.*replays\/[^-]*-[0-9]*-//; s/\.json.*//' | tr '\n' ',' )
  echo "$sid $prop rc=$rc violations=$v streams=$streams $(tail -1 work/seedmatrix-$sid.log | sed 's/.*cases//')" | tee -a $out
done
cp -a $ev/. evidence/; rm -rf $ev
git -C /repo status --short | grep -q . && echo "WARNING: /repo modified"
echo MATRIX-DONE | tee -a $out
