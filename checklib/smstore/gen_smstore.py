import re
src=open('Omaha/Lemmas/SMDraws.lean').read()
a=src.index("theorem dr_applyPoll")
body=src[a:]
b1=body.index("theorem popHttp_counters")
b2=body.index("/-! ### The chain -/")
first=body[:b1]
body=body[b2:]
c1=body.index("theorem reportCheckInterval_counters")
c2=body.index("/-! ### Beyond one check")
extra = """theorem sl_requestPhase (params : RequestParams) (apps : List App) (w : World) :
    Sl w (requestPhase params apps w).2.2 := by
  unfold requestPhase
  simp only
  have h0 := (sl_yield (.state (.checking params.source)) w).trans (sl_reportCheckInterval params.source _)
  generalize reportCheckInterval params.source (yieldEv (.state (.checking params.source)) w) = w1 at h0
  have hs : Sl w1 (nextGuid w1).2 := sl_same rfl rfl
  exact (h0.trans hs).trans (sl_attemptLoop 3 1 (checkBuilder params apps (nextGuid w1).1) (nextGuid w1).2)

theorem sl_performUpdateCheck (params : RequestParams) (apps : List App) (w : World) :
    Sl w (performUpdateCheck params apps w).2 := by
  rw [performUpdateCheck_eq]
  have h := sl_requestPhase params apps w
  generalize requestPhase params apps w = r at h
  obtain ⟨res, attempts, w2⟩ := r
  cases res with
  | error f => exact h.trans (sl_metric _ _)
  | ok body => exact (h.trans (sl_metric _ _)).trans (sl_responsePhase _ _ _ _ _)

"""
body=body[:c1]+extra+body[c2:]
body=re.sub(r"/-- A step that changes neither the trace nor a counter\. -/\ntheorem dr_upd.*?dr_same ht hg hn hc\n\n", "", body, flags=re.S)
body=re.sub(r"/-- Prefix a step that changes neither the trace nor a counter\. -/\ntheorem dr_pre.*?\.trans h\n\n", "", body, flags=re.S)
h1=body.index("/-- **one_draw_per_request (histories).**")
body=body[:h1]
body=re.sub(r"theorem dr_recordFirstSeen.*?\n\n", "", body, flags=re.S)
body=re.sub(r"theorem dr_durationMetric.*?\n\n", "", body, flags=re.S)
body=re.sub(r"theorem dr_recordFinish.*?theorem dr_reportInstall", "theorem dr_reportInstall", body, flags=re.S)
def ren(t):
    t=t.replace("dr_same rfl rfl rfl rfl","sl_same rfl rfl").replace("dr_upd _ _ rfl rfl rfl rfl","sl_upd _ _ rfl rfl")
    t=re.sub(r"dr_pre \((.*?)\) rfl rfl rfl rfl", r"sl_pre (\1) rfl rfl", t)
    t=t.replace("(fun _ _ h => by cases h)","(fun _ h => by cases h)")
    t=t.replace("⟨⟨[], by simp [nextGuid], Dec.nil _ _, Dec.nil _ _, fun _ _ h => by cases h⟩, by simp [nextGuid], by simp [nextGuid], rfl⟩","sl_same rfl rfl")
    return t.replace("Dr","Sl").replace("dr_","sl_")
first=ren(first); body=ren(body)
header=open('/verif/checklib/smstore/smstore_header.lean').read()
hsplit=header.index("theorem sendRequest_store")
out=header[:hsplit]+first+header[hsplit:]+body+open('/verif/checklib/smstore/smstore_footer.lean').read()
open('Omaha/Lemmas/SMStore.lean','w').write(out)
print(len(out.split('\n')))
