/-- **The store is the replay of the history's storage log.** Over any number of iterations of `run`,
the final store is the initial store with exactly the successful storage operations of the trace
applied in order: no other part of the model touches storage. -/
theorem history_store_is_replay (us : List UnitEnv) (rs : RunState) (w : World) :
    ∃ d, (runUnits us rs w).2.2.trace = d ++ w.trace ∧ (runUnits us rs w).2.2.store = replay d w.store := by
  have key : Sl w (runUnits us rs w).2.2 := by
    induction us generalizing rs w with
    | nil => exact Sl.refl _
    | cons u rest ih =>
      simp only [runUnits]
      have h1 := sl_runUnit u rs w
      generalize runUnit u rs w = r at h1
      obtain ⟨a, b, x⟩ := r
      cases a with
      | completed => exact h1.trans (ih b x)
      | stalled => exact h1
      | outside => exact h1
  exact key.ext

end Omaha.SM
