/-
The store is a replay of the logged storage operations ("storage log" chain).

`Sl w w'`: the trace of `w'` extends that of `w` by some actions `d`, and the store of `w'` is the
store of `w` with the *successful storage operations among `d`* applied in order.  One lemma per model
function, up to `runUnits`: nothing in the model changes the store except through a logged operation.
Consequence (Props/C08): what survives a crash after any prefix of a history's trace is determined by
the storage operations of that prefix, and the committed map only ever changes at a logged,
successful `commit`.
-/
import Omaha.Lemmas.SMSim

namespace Omaha.SM

open Omaha

/-- Apply the successful storage operations among `d` (newest first), oldest first. -/
def replay : List Action → Store → Store
  | [], s => s
  | a :: older, s =>
    match a with
    | .storage op true => applyOp op (replay older s)
    | _ => replay older s

theorem replay_append (d2 d1 : List Action) (s : Store) : replay (d2 ++ d1) s = replay d2 (replay d1 s) := by
  induction d2 with
  | nil => rfl
  | cons a d2 ih =>
    simp only [List.cons_append, replay, ih]

structure Sl (w w' : World) : Prop where
  ext : ∃ d, w'.trace = d ++ w.trace ∧ w'.store = replay d w.store

theorem Sl.refl (w : World) : Sl w w := ⟨⟨[], rfl, rfl⟩⟩

theorem Sl.trans {w1 w2 w3 : World} (h1 : Sl w1 w2) (h2 : Sl w2 w3) : Sl w1 w3 := by
  obtain ⟨d1, e1, s1⟩ := h1
  obtain ⟨d2, e2, s2⟩ := h2
  exact ⟨⟨d2 ++ d1, by rw [e2, e1, List.append_assoc], by rw [s2, s1, replay_append]⟩⟩

theorem sl_emit (a : Action) (w : World) (h : ∀ op, a ≠ .storage op true) : Sl w (emit a w) := by
  refine ⟨⟨[a], rfl, ?_⟩⟩
  cases a with
  | storage op ok =>
    cases ok with
    | true => exact absurd rfl (h op)
    | false => rfl
  | _ => rfl

theorem sl_yield (e : Event) (w : World) : Sl w (yieldEv e w) := sl_emit _ _ (fun _ h => by cases h)
theorem sl_metric (m : Metric) (w : World) : Sl w (metric m w) := sl_emit _ _ (fun _ h => by cases h)

theorem sl_same {w w' : World} (ht : w'.trace = w.trace) (hs : w'.store = w.store) : Sl w w' :=
  ⟨⟨[], by simp [ht], by simp [replay, hs]⟩⟩

theorem sl_upd (w w' : World) (ht : w'.trace = w.trace) (hs : w'.store = w.store) : Sl w w' := sl_same ht hs

theorem sl_pre {w w' w'' : World} (h : Sl w' w'') (ht : w'.trace = w.trace) (hs : w'.store = w.store) : Sl w w'' :=
  (sl_same ht hs).trans h

theorem sl_tick (dt : Clock) (w : World) : Sl w (tick dt w) := sl_same rfl rfl

theorem popFail_same (w : World) : (popFail w).2.trace = w.trace ∧ (popFail w).2.store = w.store := by
  unfold popFail
  split <;> exact ⟨rfl, rfl⟩

/-- **The one place the store changes**: a storage operation is logged with its success flag, and the
store changes exactly when the flag says it succeeded. -/
theorem sl_storeOp (op : StoreOp) (w : World) : Sl w (storeOp op w).2 := by
  unfold storeOp
  obtain ⟨ht, hs⟩ := popFail_same w
  generalize popFail w = p at ht hs
  obtain ⟨fail, w1⟩ := p
  simp only at ht hs ⊢
  cases fail with
  | true =>
    simp only [if_true]
    exact ⟨⟨[.storage op false], by simp [emit, ht], by simp [emit, replay, hs]⟩⟩
  | false =>
    simp only [Bool.false_eq_true, if_false]
    exact ⟨⟨[.storage op true], by simp [emit, ht], by simp [emit, replay, hs]⟩⟩

theorem sl_storeOp_ (op : StoreOp) (w : World) : Sl w (storeOp_ op w) := sl_storeOp op w

theorem sl_setOptionInt (k : Bytes) (v : Option Int) (w : World) : Sl w (setOptionInt k v w).2 := by
  unfold setOptionInt; split <;> exact sl_storeOp _ _

theorem sl_setTime (k : Bytes) (t : Int) (w : World) : Sl w (setTime k t w).2 := sl_setOptionInt _ _ _

theorem sl_persistCtx (w : World) : Sl w (persistCtx w) := by
  unfold persistCtx
  simp only
  exact ((sl_setOptionInt _ _ w).trans (sl_setOptionInt _ _ _)).trans (sl_setOptionInt _ _ _)

theorem sl_persistApps (apps : List App) (w : World) : Sl w (persistApps apps w) := by
  induction apps generalizing w with
  | nil => exact Sl.refl _
  | cons a rest ih => exact (sl_storeOp_ _ w).trans (ih _)

theorem sl_persistData (w : World) : Sl w (persistData w) := by
  unfold persistData
  exact ((sl_persistCtx w).trans (sl_persistApps _ _)).trans (sl_storeOp_ _ _)

theorem sl_recordNewPlan (planId : Bytes) (now : Int) (w : World) : Sl w (recordNewPlan planId now w).2 := by
  unfold recordNewPlan
  have h1 := sl_storeOp (.set kInstallPlanId (.str planId)) w
  split
  · exact h1
  · have h2 := h1.trans (sl_setTime kFirstSeen now _)
    split
    · exact h2.trans (sl_storeOp_ _ _)
    · exact h2.trans (sl_storeOp_ _ _)

theorem sl_recordFirstSeen (planId : Bytes) (now : Int) (w : World) : Sl w (recordFirstSeen planId now w).2 := by
  unfold recordFirstSeen
  split
  · exact Sl.refl _
  · exact sl_recordNewPlan _ _ _

theorem sl_durationMetric (startWall : Int) (results : List AppResult) (w : World) : Sl w (durationMetric startWall results w).2 := by
  unfold durationMetric
  split
  · exact sl_metric _ _
  · exact Sl.refl _

theorem sl_recordFinish (planId : Nat) (firstSeen finish : Int) (nv : List (Bytes × Option Bytes)) (w : World) :
    Sl w (recordFinish planId firstSeen finish nv w).2 := by
  unfold recordFinish
  simp only
  have h1 : Sl w (firstSeenMetric firstSeen finish w) := by
    unfold firstSeenMetric
    split
    · exact sl_metric _ _
    · exact Sl.refl _
  have h2 := h1.trans (sl_setTime kFinishTime finish _)
  generalize (setTime kFinishTime finish (firstSeenMetric firstSeen finish w)).2 = w2 at h2
  have h3 : Sl w (setTargetVersion nv w2) := by
    unfold setTargetVersion
    split
    · exact h2.trans (sl_storeOp_ _ _)
    · exact h2
  exact (h3.trans (sl_storeOp_ .commit _)).trans (sl_emit _ _ (fun _ h => by cases h))

theorem sendRequest_store (k : ReqKind) (b : Request.Builder) (w : World) :
    ∃ req, (sendRequest k b w).2.trace = .http req (sendRequest k b w).1 :: w.trace ∧ (sendRequest k b w).2.store = w.store := by
  obtain ⟨req, _, ht⟩ := sendRequest_trace k b w
  refine ⟨req, ht, ?_⟩
  unfold sendRequest
  simp only [emit]
  have hp : ∀ x : World, (popHttp k x).2.store = x.store := by
    intro x; unfold popHttp
    cases k <;> simp only <;> split <;> rfl
  split <;> rw [hp]

theorem sl_request (k : ReqKind) (b : Request.Builder) (w : World) :
    Sl w (omahaRequest k (withRequestId b w).1 (withRequestId b w).2).2 := by
  unfold omahaRequest
  have h0 : Sl w (withRequestId b w).2 := sl_same rfl rfl
  generalize withRequestId b w = bw at h0
  obtain ⟨b1, w1⟩ := bw
  simp only at h0 ⊢
  split
  · exact h0.trans (sl_emit _ _ (fun _ h => by cases h))
  · obtain ⟨req, ht, hs⟩ := sendRequest_store k b1 w1
    have h1 : Sl w1 (sendRequest k b1 w1).2 := ⟨⟨[.http req (sendRequest k b1 w1).1], ht, by simp [replay, hs]⟩⟩
    exact (h0.trans h1).trans (sl_handleOutcome _ _)

