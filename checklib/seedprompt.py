import json,sys
pid=sys.argv[1]
rnd=sys.argv[2] if len(sys.argv)>2 else ""          # "2" for a second round: worktree seed2-<id>, avoid list
import glob,os
avoid=[]
if rnd:
    for d in sorted(glob.glob('/verif/seeded/%s-m*'%pid)):
        avoid.append(open(d+'/README.md').readline().lstrip('# ').strip())
for l in open('/verif/properties.jsonl'):
    p=json.loads(l)
    if p['id']==pid: break
wt=f"/tmp/wt/seed{rnd}-{pid}"
print(f"""You are helping test a verification tool by writing realistic *seeded defects* for a Rust library. Work ONLY inside the scratch git worktree {wt} (a checkout of google/omaha-client: Rust client library for Google's Omaha update protocol; crates omaha-client and mock-omaha-server). Do not read or write anything under /verif or /repo. The sandbox is offline: always use `cargo ... --offline` and set CARGO_NET_OFFLINE=true; use `-j 6` to limit parallelism.

The library is supposed to satisfy this semantic property:

TITLE: {p['title']}

STATEMENT: {p['statement']}

QUANTIFIED OVER: {p['quantifier']['text']}

Your task: produce TWO different changes to the library source (not tests) each of which BREAKS this property while (a) still compiling, and (b) still passing the whole existing test suite (`cargo test --workspace --offline -j 6`, 248 tests). Each change should look like a plausible refactoring/optimisation/bug a maintainer could introduce, be small (a few lines to ~30 lines), and must need something SPECIFIC to manifest: a particular interleaving, a crash or fault at a particular point, a multi-step sequence of operations, an unusual input, or two cooperating sites that each look fine alone. Do NOT produce changes that ordinary use would expose at once. The two changes should break different clauses of the property and live in different code sites if possible.

For each change k in (m1, m2) create the directory {wt}/mutations/<k>/ containing:
  - patch.diff : `git diff` of the library change only (must apply with `git apply` on a clean checkout of HEAD)
  - demo.diff  : a separate diff that ADDS a demonstration (a new test module/file or new #[test] functions, touching no existing test) which FAILS with patch.diff applied and PASSES on clean HEAD. demo.diff must apply with `git apply` both on clean HEAD and on HEAD+patch.diff (so keep it in separate files/regions from patch.diff; a new file under omaha-client/src/state_machine/ or similar wired in by one `#[cfg(test)] mod ...;` line is the usual way).
  - README.md  : what was changed, which clause of the property it breaks, what it needs in order to manifest, and the exact demo command (e.g. `cargo test -p omaha_client --offline -j 6 --lib <filter>`).

Verify all of this yourself before finishing: (1) with patch.diff applied the full suite passes; (2) with patch.diff + demo.diff the demo command fails; (3) with demo.diff alone on clean HEAD the demo command passes. Leave the worktree clean (git checkout -- . ; remove untracked files except the mutations/ directory; you may leave target/). Reuse the same target directory for all builds to save disk and time. Report back briefly: for each change, one paragraph on what it is and the demo command.""")
if avoid:
    print("\nEarlier volunteers already tried the following ideas; come up with DIFFERENT ones (different clause of the property, different code site, or a different kind of trigger - e.g. concurrency / ordering of simultaneously ready futures, restart after a crash, boundary values, rarely used configuration, interaction of two features):")
    for a in avoid: print("  - "+a)

