#!/bin/sh
# usage: lb.sh Module [maxlines] -- build one Lean module and show errors in full
cd /verif/lean && lake build "$1" 2>&1 | grep -v "^⚠\|^✔\|Replayed\|unusedVariables\|^Hint\|^Note: This linter" | awk '/error:/{p=1} p' | head -${2:-120}
