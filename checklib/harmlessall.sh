#!/bin/bash
# usage: harmlessall.sh <worktree> <dir-name> <id>
# Applies a behaviour-preserving refactoring to /repo, runs EVERY property's quick check, undoes it; any VIOLATION is a
# false alarm to be looked at.  Stores the refactoring under /verif/harmless/<id>/ with the outcome.
set -u
wt=$1; m=$2; hid=$3
md=$wt/mutations/$m
cd /verif
git -C /repo status --short | grep -q . && { echo "/repo not clean"; exit 2; }
ev=$(mktemp -d); cp -a evidence/. $ev/
git -C /repo apply $md/patch.diff || { echo "patch does not apply to /repo"; exit 2; }
alarms=""; : > $md/checkall.log
for p in C01 C02 C03 C04 C05 C06 C07 C08 C09 C10 C11 C12 C13 C14 C15 C16 C17 C18 C19 C20; do
  ./check $p quick > $md/check-$p.log 2>&1; rc=$?
  echo "$p rc=$rc $(grep VIOLATION $md/check-$p.log | tr '\n' ' ') $(tail -1 $md/check-$p.log)" >> $md/checkall.log
  [ $rc -ne 0 ] && alarms="$alarms $p"
done
git -C /repo checkout -q -- .
cp -a $ev/. evidence/; rm -rf $ev
echo "$hid alarms:${alarms:- none}"
mkdir -p /verif/harmless/$hid
cp $md/patch.diff $md/README.md /verif/harmless/$hid/
echo "{\"alarms\": \"${alarms# }\"}" > /verif/harmless/$hid/result.json
