#!/bin/sh
# usage: mkwt.sh <name>  -- create a scratch worktree of /repo HEAD under /tmp/wt/<name>
set -e
d=/tmp/wt/$1
git -C /repo worktree add --detach "$d" HEAD >/dev/null 2>&1
mkdir -p "$d/mutations"
echo "$d"
