#!/usr/bin/env python3
"""Show the first differing trace line of disagreeing sm cases: smdiff.py <dir> [n]"""
import sys
d=sys.argv[1]; n=int(sys.argv[2]) if len(sys.argv)>2 else 5
ins=open(d+'/sm.in').read().split('\n'); impl=open(d+'/sm.impl').read().split('\n'); model=open(d+'/sm.model').read().split('\n')
shown=0; kinds={}
for i,(a,b) in enumerate(zip(impl,model)):
    if a==b or b=='outside-model': continue
    A=a.split('\t'); B=b.split('\t')
    k=None
    for j in range(max(len(A),len(B))):
        x=A[j] if j<len(A) else '<end>'; y=B[j] if j<len(B) else '<end>'
        if x!=y:
            k=(x.split(' ')[0]+' '+(x.split(' ')[1] if ' ' in x else ''), y.split(' ')[0]+' '+(y.split(' ')[1] if ' ' in y else ''))
            kinds[k]=kinds.get(k,0)+1
            if shown<n and (len(sys.argv)<4 or sys.argv[3] in x or sys.argv[3] in y):
                shown+=1
                print('--- case',i+1,'line',j)
                for t in A[max(0,j-3):j]: print('    ',t[:300])
                print(' impl:',x[:600]); print(' modl:',y[:600])
            break
for k,v in sorted(kinds.items(),key=lambda x:-x[1])[:25]: print(v,k)
