"""Per-property configuration of ./check: theorem modules, correspondence streams, evidence texts."""

TRUSTED_BASE = [
    "Lean 4.33 kernel (thorough tier: re-checked by leanchecker); axioms at most propext, Classical.choice, Quot.sound (audited by #print axioms on every run)",
    "Lean compiler/runtime executing the model definitions in the driver `omaha_model`",
    "the correspondence check: /verif/harness (generators, canonicaliser) and /verif/check (diff); agreement of model and code is established on the generated cases only",
]

HOOK_COMMITS = []

# property id -> reason, for properties that are not claimed (default text: not built yet)
NOT_APPLICABLE = {}

PROPS = {
    "C20": {
        "lean_modules": ["Omaha.Props.C20"],
        "streams": [{"name": "version", "file": "version", "args": ["version"]}],
        "rule": "strings over {0,1,9,'.','+','-',' ','a'} up to length 4 (quick) / 6 (thorough) exhaustively, "
                "structured strings of 0..6 parts from a boundary-component table, component tuples for print/json/ofarr, "
                "and pairs for cmp; a case is non-trivial when the string contains a digit / the tuple is not all-zero / the pair differs; "
                "distinct = distinct input line",
        "trusted_extra": ["modelled, not verified: Rust's u32::from_str grammar, str::split, Display for u32, serde_json string quoting"],
        "assumptions": ["'decimal number' is read as what u32::from_str accepts (an optional leading '+' is accepted)"],
        "level_text": "Machine-checked Lean 4 theorems over all byte strings and all component tuples (parse_accepts_iff, parse_value, parse_wf, reject_*, part_ok_iff, print_four_parts, parse_print, print_injective, print_chars, ofArray_zero_fill, cmp_lt_iff/cmp_eq_iff/cmp_gt_iff/cmp_swap, lexLt_trans/irrefl/total) about the executable model Omaha.Version; the model is tied to version.rs by a differential run on every invocation (exhaustive short strings + boundary-structured inputs).",
        "level_note": "Trusted: Lean kernel; the hand-written model of u32::from_str/split/Display; the harness and diff. The proof covers the model for all inputs; agreement model=code is sampled (exhaustive for short strings).",
    },
}
