"""Per-property configuration of ./check: theorem modules, correspondence streams, evidence texts."""

TRUSTED_BASE = [
    "Lean 4.33 kernel (thorough tier: re-checked by leanchecker); axioms at most propext, Classical.choice, Quot.sound (audited by #print axioms on every run)",
    "Lean compiler/runtime executing the model definitions in the driver `omaha_model`",
    "the correspondence check: /verif/harness (generators, canonicaliser) and /verif/check (diff); agreement of model and code is established on the generated cases only",
]

HOOK_COMMITS = []

# property id -> reason, for properties that are not claimed (default text: not built yet)
NOT_APPLICABLE = {}

PROPS = {
    "C20": {
        "lean_modules": ["Omaha.Props.C20"],
        "streams": [{"name": "version", "file": "version", "args": ["version"]}],
        "rule": "strings over {0,1,9,'.','+','-',' ','a'} up to length 4 (quick) / 6 (thorough) exhaustively, "
                "structured strings of 0..6 parts from a boundary-component table, component tuples for print/json/ofarr, "
                "and pairs for cmp; a case is non-trivial when the string contains a digit / the tuple is not all-zero / the pair differs; "
                "distinct = distinct input line",
        "trusted_extra": ["modelled, not verified: Rust's u32::from_str grammar, str::split, Display for u32, serde_json string quoting"],
        "assumptions": ["'decimal number' is read as what u32::from_str accepts (an optional leading '+' is accepted)"],
        "level_text": "Machine-checked Lean 4 theorems over all byte strings and all component tuples (parse_accepts_iff, parse_value, parse_wf, reject_*, part_ok_iff, print_four_parts, parse_print, print_injective, print_chars, ofArray_zero_fill, cmp_lt_iff/cmp_eq_iff/cmp_gt_iff/cmp_swap, lexLt_trans/irrefl/total) about the executable model Omaha.Version; the model is tied to version.rs by a differential run on every invocation (exhaustive short strings + boundary-structured inputs).",
        "level_note": "Trusted: Lean kernel; the hand-written model of u32::from_str/split/Display; the harness and diff. The proof covers the model for all inputs; agreement model=code is sampled (exhaustive for short strings).",
    },
    "C19": {
        "lean_modules": ["Omaha.Props.C19"],
        "streams": [{"name": "time", "file": "time", "args": ["time"]}],
        "rule": "boundary enumeration (i64 microsecond extremes +-2, epoch +-2 us at ns granularity, every us boundary +-1 ns, platform SystemTime limits) "
                "plus random wall times / durations / kinds for to_micros, from_micros, roundtrip, truncate, set_time+get_time on MemStorage, "
                "add/sub (operator and assigning forms), complete_with, destructure, checked_to_micros, is_after_or_eq_any; "
                "non-trivial = value/duration not zero; distinct = distinct input line",
        "trusted_extra": ["modelled, not verified: std::time::{SystemTime, Duration, Instant} arithmetic and ranges on Linux (i64 seconds + nanoseconds); the Instant range is not modelled (monotonic values are kept far from it)"],
        "assumptions": ["overflowing add/sub is compared as 'implementation panics iff model returns none'"],
        "level_text": "Machine-checked Lean 4 theorems over all Int nanosecond / microsecond values (from_to_micros over the whole i64 range, toMicros_spec/toward_epoch/total, store_reload, truncate_agrees, truncate_idem, truncate_spec, pct_add/sub_components and their panic conditions, completeWith_spec, destructure_spec, after_or_eq_any_iff) about the executable model Omaha.Time, tied to time.rs / time/complex.rs / storage.rs by a differential run on every invocation.",
        "level_note": "Trusted: Lean kernel; the hand-written model of SystemTime/Duration arithmetic; harness and diff. Two genuine defects found by this check were repaired upstream (KNOWN_FINDINGS.txt: fixed 153a050, dbc6e81).",
    },
}
