"""Per-property configuration of ./check: theorem modules, correspondence streams, evidence texts."""

TRUSTED_BASE = [
    "Lean 4.33 kernel (thorough tier: re-checked by leanchecker); axioms at most propext, Classical.choice, Quot.sound (audited by #print axioms on every run)",
    "Lean compiler/runtime executing the model definitions in the driver `omaha_model`",
    "the correspondence check: /verif/harness (generators, canonicaliser) and /verif/check (diff); agreement of model and code is established on the generated cases only",
]

HOOK_COMMITS = []

# property id -> reason, for properties that are not claimed (default text: not built yet)
NOT_APPLICABLE = {}

PROPS = {
    "C20": {
        "lean_modules": ["Omaha.Props.C20"],
        "streams": [{"name": "version", "file": "version", "args": ["version"]}],
        "rule": "strings over {0,1,9,'.','+','-',' ','a'} up to length 4 (quick) / 6 (thorough) exhaustively, "
                "structured strings of 0..6 parts from a boundary-component table, component tuples for print/json/ofarr, "
                "and pairs for cmp; a case is non-trivial when the string contains a digit / the tuple is not all-zero / the pair differs; "
                "distinct = distinct input line",
        "trusted_extra": ["modelled, not verified: Rust's u32::from_str grammar, str::split, Display for u32, serde_json string quoting"],
        "assumptions": ["'decimal number' is read as what u32::from_str accepts (an optional leading '+' is accepted)"],
        "level_text": "Machine-checked Lean 4 theorems over all byte strings and all component tuples (parse_accepts_iff, parse_value, parse_wf, reject_*, part_ok_iff, print_four_parts, parse_print, print_injective, print_chars, ofArray_zero_fill, cmp_lt_iff/cmp_eq_iff/cmp_gt_iff/cmp_swap, lexLt_trans/irrefl/total) about the executable model Omaha.Version; the model is tied to version.rs by a differential run on every invocation (exhaustive short strings + boundary-structured inputs).",
        "level_note": "Trusted: Lean kernel; the hand-written model of u32::from_str/split/Display; the harness and diff. The proof covers the model for all inputs; agreement model=code is sampled (exhaustive for short strings).",
    },
    "C19": {
        "lean_modules": ["Omaha.Props.C19"],
        "streams": [{"name": "time", "file": "time", "args": ["time"]}],
        "rule": "boundary enumeration (i64 microsecond extremes +-2, epoch +-2 us at ns granularity, every us boundary +-1 ns, platform SystemTime limits) "
                "plus random wall times / durations / kinds for to_micros, from_micros, roundtrip, truncate, set_time+get_time on MemStorage, "
                "add/sub (operator and assigning forms), complete_with, destructure, checked_to_micros, is_after_or_eq_any; "
                "non-trivial = value/duration not zero; distinct = distinct input line",
        "trusted_extra": ["modelled, not verified: std::time::{SystemTime, Duration, Instant} arithmetic and ranges on Linux (i64 seconds + nanoseconds); the Instant range is not modelled (monotonic values are kept far from it)"],
        "assumptions": ["overflowing add/sub is compared as 'implementation panics iff model returns none'"],
        "level_text": "Machine-checked Lean 4 theorems over all Int nanosecond / microsecond values (from_to_micros over the whole i64 range, toMicros_spec/toward_epoch/total, store_reload, truncate_agrees, truncate_idem, truncate_spec, pct_add/sub_components and their panic conditions, completeWith_spec, destructure_spec, after_or_eq_any_iff) about the executable model Omaha.Time, tied to time.rs / time/complex.rs / storage.rs by a differential run on every invocation.",
        "level_note": "Trusted: Lean kernel; the hand-written model of SystemTime/Duration arithmetic; harness and diff. Two genuine defects found by this check were repaired upstream (KNOWN_FINDINGS.txt: fixed 153a050, dbc6e81).",
    },
    "C01": {
        "lean_modules": ["Omaha.Props.C01"],
        "streams": [{"name": "cup", "file": "cup", "args": ["cup"]}],
        "rule": "per exchange: random bodies (empty, JSON, around SHA-256 block boundaries, up to 4 KiB, non-UTF-8), nonces, key sets (latest + 0..3 historical from 4 test keys, duplicate ids), "
                "authentic ETag in the three encodings signed by the harness over a digest it composes itself, then 24 (quick) / 40 (thorough) mutations drawn from 22 kinds "
                "(bit flips of signature/hash/response/request/nonce, other/unregistered key id, swapped ETag of another genuine exchange, truncation, re-sign with another key, digest recomposed 8 wrong ways, "
                "hash prefix/extension, 5 non-canonical DER re-encodings, high-S twin, r/s = 0 or n, upper-case hex, random ASCII ETags, non-ASCII header bytes, absent header, bad hex, extra colon, duplicate id last-wins, swapped parts) "
                "plus a pure DER stream; non-trivial = every case (all have a non-default body or a mutation); distinct = (mutation kind, ETag encoding) / (DER r-length, s-length) class",
        "trusted_extra": ["modelled, not verified: sha2 (Lean SHA-256 oracle, validated on FIPS vectors), p256/ecdsa verification (Lean P-256 oracle, validated on RFC 6979 A.2.5), ecdsa::der strict DER rules, hex crate, http::HeaderValue::to_str",
                          "cryptographic assumptions (ECDSA unforgeability, SHA-256 collision resistance) appear only as explicit hypotheses of tamper_rejected / for_no_other, never as axioms"],
        "assumptions": ["the ECDSA twin (r, n-s) of a genuine signature is a valid signature (accepted by p256 and by the model alike)"],
        "level_text": "Machine-checked Lean 4 theorems, for every instantiation of hash and signature predicate and all byte strings: verify_iff (acceptance <-> the eight conjuncts of the property, signature returned unchanged), verify_total, the error kind for each first failing condition, txPreimage_injective and for_no_other (the signed message determines request hash, response hash, key id, nonce), tamper_rejected / tamper_req_hash_rejected / unknown_key_rejected, lookupKey_none_iff, stripEtag_infix/ascii/quoted/weak/plain; the model is run with its own SHA-256 and P-256 against the real StandardCupv2Handler on every invocation.",
        "level_note": "Trusted: Lean kernel; the hand-written model of cup_ecdsa.rs and of the third-party crates it calls (listed in trusted_base); harness and diff. Unforgeability and collision resistance are hypotheses.",
    },
    "C15": {
        "lean_modules": ["Omaha.Props.C15", "Omaha.Props.JsonText"],
        "streams": [{"name": "wire-req", "file": "wire-req", "args": ["wire-req"]}],
        "rule": "random configs (updater names / OS strings with quotes, backslashes, control and non-ASCII characters), all 8 parameter combinations, op sequences of 0..9 builder operations "
                "(update check / ping / event with all code combinations / request id / session id) over a pool of 1..3 app ids so that ids repeat with differing cohorts, versions, fingerprints, "
                "user-counting values and extra-field maps (incl. keys colliding with protocol fields); build, build again, continue with more ops, build; byte-exact body, headers, method, URI; "
                "non-trivial = at least 2 operations; distinct = (op-kind sequence, params, pool size)",
        "trusted_extra": ["modelled, not verified: serde derive attribute semantics and serde_json's compact writer/escaping (Json.render), http::HeaderValue validity, hashbrown clone preserving iteration order (extra fields are compared in the map's own order), uuid braced formatting"],
        "assumptions": ["GUIDs are drawn by the library (random in non-test builds); the harness reads them back from the serialised value and hands them to the model"],
        "level_text": "Machine-checked Lean 4 theorems over all operation sequences and all field values: apps_once_first_order (+ dedupL_nodup, mem_dedupL, dedupL_snoc), entry_spec (per app id: first insertion's app data, update check iff added with the params' flags, ping iff added, exactly the events added in order), ids_spec, applyAll_append (build_pure), app_members / event_members / body_members / cohort_only_set_fields / updatecheck_flags / ping_ad_eq_rd / headers_shape / build_spec at the JSON-value level; the text layer and the whole builder are tied to the real RequestBuilder byte-for-byte on every run.",
        "level_note": "Trusted: Lean kernel; the model of serde/serde_json/http behaviour; harness and diff. Text level: parse_render (Lemmas/JsonText: the model of serde_json's reader, in the mode every position accepts, reads the model of its compact writer back as the same document, for all documents with UTF-8 strings, u64 integers and nesting < 100) and body_reads_back (Props/JsonText: the body on the wire reads back as exactly bodyJson, nesting <= 6); that the two models are serde_json's behaviour is established by the correspondence (wire-req, resp).",
    },
    "C16": {
        "lean_modules": ["Omaha.Props.C16", "Omaha.Props.JsonText"],
        "streams": [{"name": "resp", "file": "resp", "args": ["resp"], "outside_ok": True}],
        "rule": "documents from an independent generator of the response grammar (own JSON writer: random member order, whitespace, \\u escapes incl. surrogate pairs, extension attributes at every level where the protocol allows them, "
                "unknown members elsewhere, null-vs-absent-vs-empty optionals, numbers at the u32/u64 boundaries), each also structurally mutated (drop / duplicate / retype / rename a member, number and string edge cases, injected known keys) "
                "and damaged at byte level (truncation, bit flip, trailing bytes, prefix variants, byte pokes, random bytes), plus escape/surrogate frames and nesting to depth 10 000 in skipped, extension and top positions; "
                "compared on a canonical dump of every decoded field (or reject); inputs the model declares outside its domain (array-for-struct, strings that are not UTF-8 in skipped positions, over-deep or wild numbers) are only checked for panic-freedom and counted; "
                "non-trivial = every case; distinct = (kind, app count, size bucket) / (mutation kinds, app count) class",
        "trusted_extra": ["modelled, not verified: serde_json's text grammar (strict and lenient readers, recursion limit), serde derive semantics (required/optional, flatten, field_identifier catch-all, duplicate-field rules, Content buffering), BTreeMap ordering of extension attributes",
                          "panic-freedom / stack safety of serde_json itself is tested by the correspondence runs (incl. 10 000-deep documents), not proved"],
        "assumptions": ["a JSON array in the position of a derived struct is read positionally by serde; the model declares such documents outside its domain unless they are too short to succeed"],
        "level_text": "Machine-checked Lean 4 theorems: decode_encode (every well-formed Response value of the protocol grammar is decoded field for field, via decodePackage/Action/Manifest/Urls/UpdateCheck/StatusStruct/App/DayStart_enc), accepted_has_required + req_missing/req_duplicate/as*_mistyped (missing, duplicated or wrongly typed required members are rejected), opt_absent/opt_null/opt_empty_string (absent = null, empty is kept), prefix_neutral / no_prefix_unchanged / double_prefix_rejected, parse_total, full_urls_product/length/mem; the JSON text reader and the typing rules are run against the real parse_json_response on every invocation.",
        "level_note": "Trusted: Lean kernel; the hand-written model of serde_json + serde derive; harness and diff. decode_encode is proved at the JSON-value level and lifted to text by decode_text_encode (Props/JsonText: written by the writer model, with or without the safety prefix, then read by parse_json_response's model, every well-formed response comes back; hypothesis GoodV = strings UTF-8, numbers u64, also inside extension attributes).",
    },
    "C03": {
        "lean_modules": ["Omaha.Props.C03", "Omaha.Props.Draws"],
        "streams": [{"name": "uri", "file": "uri", "args": ["uri"], "outside_ok": True}],   # + the sm projection added below
        "rule": "service URLs from a component grammar (14 schemes incl. mixed case / non-http / malformed, 25 authorities incl. IPv6 literals, userinfo, ports, percent signs, bracket and colon errors, 16 paths, 16 queries incl. a pre-existing cup2key, 5 fragments, several separators, origin form), "
                "every string over {h : / ? # @ [ ] % a . *} up to length 3 (quick) / 5 (thorough) alone and after 'http://h'; the real decorate_request runs on an Intermediate, its nonce is read back from the returned metadata; "
                "compared: decorated URL text, key id, metadata body = serialised body; whole requests (update check + ping, event report, ping; 1..3 apps, config and app strings with non-ASCII, control and quote characters) built by RequestBuilder::build with the handler: "
                "wire URL of the hyper request = model's decoration of the configured URL with the metadata's key id and nonce, metadata body = wire body bytes; nonce distinctness over the whole run is checked directly; non-trivial = every case; distinct = (component indices) / string / (kind, apps, non-ASCII, URL); "
                "plus the state-machine stream (see C02) projected on: the nonce index of every request of every history (none / first-occurrence index) and the metadata token of every installer call (metadata handed over = body and cup2key seen on the wire for that update check, response bytes and signature = what the server sent)",
        "trusted_extra": ["modelled, not verified: http::Uri parsing/printing (Scheme2::parse, Authority::parse, PathAndQuery::from_shared, from_parts, Display), format! of u64 and hex::encode",
                          "uniqueness of nonces is a property of the RNG: observed (pairwise distinct over each run), not proved"],
        "assumptions": ["an empty URI path and '/' are the same path; the scheme is compared case-insensitively (http/https are printed lower-case)"],
        "level_text": "Machine-checked Lean 4 theorems. Histories (Props/Draws, over any number of iterations of run from any start state): every_request_decorated_fresh_nonce (every request of every history - attempt, retry, event report, ping - carries a nonce exactly when a CUP handler is configured, and no nonce draw is used twice), nonce_count_eq_request_count. Over all URL byte strings, key ids and nonces: decorate_text (what the decorated URL is made of), appendQuery_parts, one_parameter_added, cup2key_shape (64 hex digits for a 32-byte nonce), param_chars, parse_wf, reparse and decorate_preserves (for http/https/origin-form URLs the decorated text parses back to the same scheme, authority, path and the old query followed by exactly the cup2key parameter); the URL model is run against the real StandardCupv2Handler::decorate_request on every invocation.",
        "level_note": "Trusted: Lean kernel; the hand-written model of http::Uri; harness and diff. reparse is proved for http, https and origin-form URLs (other schemes: correspondence only). In the state-machine model a nonce is a draw from a counter; that distinct draws of the real handler are distinct values is the RNG's property (observed). 'metadata = wire bytes' has no counterpart inside the model (the model has one request value): it is decided by the correspondence (uri stream on built requests; installer-call token of the sm stream).",
    },
}

# ---------------------------------------------------------------------------------------------
# state-machine properties: one shared stream `sm`, one projection per property

K_POLL = "x7365727665725f64696374617465645f706f6c6c5f696e74657276616c"
K_LUT = "x6c6173745f7570646174655f74696d65"
K_FAILS = "x636f6e73656375746976655f6661696c65645f7570646174655f636865636b73"

SM_RULE = ("histories of 1..4 units against the real StateMachine (start() or oneshot_check) through a scripted environment: "
           "random embedder presets (1..3 apps, system app inside or outside the set, invalid apps now and then), pre-existing storage of every type and magnitude on every key the library reads, "
           "CUP on/off with a real StandardCupv2Handler and a harness-side signer (authentic or one of 6 forgeries per response), per-attempt HTTP outcomes from {transport, timeout, caller error, 1xx/3xx/4xx/5xx with or without X-Retry-After, forged, unparseable 2xx, valid 2xx}, "
           "multi-app responses (any subset offered an update, unknown ids, duplicates, reordered), plan / policy / per-app installer outcomes, storage-failure masks, wall-clock jumps, timer firing orders, control requests at the wait, during the check and during the reboot wait; "
           "each unit (one loop iteration of run, or one oneshot_check) is one case, started from the state the real machine actually reached; non-trivial = every unit; distinct = (mode, trigger, decision, attempt outcomes, plan/policy outcome, offered count, end kind)")

SM_TRUSTED = ["modelled, not verified: futures::select!/join! semantics as far as the single-threaded scripted executor exercises them, serde_json for PersistedApp, rand/uuid draws (observed, canonicalised to first-occurrence indices)",
              "the state-machine model Omaha.SM.* is hand-written (one definition per Rust function); its tie to state_machine.rs is the per-unit differential run"]


def sm_stream(project):
    return [{"name": "sm", "file": "sm", "args": ["sm"], "outside_ok": True, "project": project}]


PROPS["C03"]["streams"] = PROPS["C03"]["streams"] + sm_stream([[r"H ", ["nonce="]], [r"I plan", ["meta="]]])
PROPS["C03"]["trusted_extra"] = PROPS["C03"]["trusted_extra"] + SM_TRUSTED


PROPS["C07"] = {
    "lean_modules": ["Omaha.Props.C07"],
    "streams": sm_stream([r"E proto", [r"P (next|allowed)", ["poll="]], r"S (set|remove) " + K_POLL, r"S commit", [r"Z ", ["poll="]]]),
    "rule": SM_RULE + "; projection: ProtocolStateChange events, the poll field of every policy call, storage operations on the poll key, commits, end-of-unit poll value",
    "trusted_extra": SM_TRUSTED + ["modelled, not verified: HeaderValue::to_str and u64::from_str (Dec.parseU64, proved equal to its grammar)"],
    "assumptions": ["'plain decimal u64' is what u64::from_str accepts (an optional leading '+')"],
    "level_text": "Machine-checked Lean 4 theorems: retry_after_spec / retry_after_none / retry_after_le_day / retry_after_grammar (the header value -> min(N,86400) s exactly for visible-ASCII decimal u64), poll_after_response (after every authenticated response of any status the context holds it), no_response_no_change, poll_change_announced (change => ProtocolStateChange, three context writes, commit, before anything else) and poll_same_silent, poll_latest_wins (over any sequence of exchanges), poll_restart / poll_restart_absent (loadCtx reads back the persisted encoding); tied to state_machine.rs by the per-unit differential run of the real StateMachine.",
    "level_note": "Trusted: Lean kernel; the hand-written state-machine model; harness (scripted environment, executor) and diff. Request-kind independence is by construction (one model function serves update checks, event reports and pings) and is exercised by the stream.",
}

PROPS["C06"] = {
    "lean_modules": ["Omaha.Props.C06", "Omaha.Props.Draws"],
    "streams": sm_stream([r"H uc", [r"H (ev|ping)", ["resp:", "fail:"]], r"T arm for:", r"M responsetime", r"M reqspercheck", r"E result"]),
    "rule": SM_RULE + "; projection: update-check requests in full (session / request id indices, payload, outcome), the existence and outcome of every event report and ping, every wait_for timer, the response-time and requests-per-check metrics, the check result; back-off jitter is observed from the armed durations and handed to the model, which accepts it only inside [0, 1000) ms",
    "trusted_extra": SM_TRUSTED + ["randomness of the back-off draw is a property of rand: observed, not proved"],
    "assumptions": [],
    "level_text": "Machine-checked Lean 4 theorems: attemptLoop_le / attempts_le_three (at most three update-check requests per check, by induction on the loop), ucCount_omahaRequest_other and report_single_shot (event reports and pings are one exchange at most and never add update-check requests), retry_iff (a further attempt iff transient failure, attempt < 3, no poll interval in force), never_retried, outcome_classification, giveUp_third, backoff_window and backoff_bases (2^(k-1) s +/- 500 ms), attempts_range / requests_per_check_range (the reported count is the number of attempts, 1..3); check_same_session_fresh_request_ids (Props/Draws: every attempt and report of a check carries the check's session id and a request id drawn after every earlier one and after the session id) with attempts_carry_flags / check_requests_carry_params of C05 for the payload; tied to state_machine.rs by the per-unit differential run.",
    "level_note": "Trusted: Lean kernel; the hand-written state-machine model; harness and diff. That each attempt has exactly one UpdateCheckResponseTime metric is checked by the correspondence (the model emits it under the same monotonic-clock condition as the code), not stated as a theorem.",
}

PROPS["C02"] = {
    "lean_modules": ["Omaha.Props.C02"],
    "streams": sm_stream([r"E ", r"S ", r"I ", r"H ", r"M (eventlost|reqspercheck|reason|attemptscheck)", [r"P (next|allowed)", ["apps=", "lut=", "poll=", "fails="]], r"Z "]),
    "rule": SM_RULE + "; with CUP on, each response is authentic or one of six forgeries (unsigned, signed for another body, wrong key, replay of the last genuine ETag, foreign nonce, garbage ETag) at every request position (update-check attempts, each event report, pings), carrying X-Retry-After, update offers, cohorts and error statuses; projection: every event, storage operation, installer call, request, the lost-event / requests-per-check / failure-reason metrics, the state handed to the policy, end-of-unit state",
    "trusted_extra": SM_TRUSTED + ["whether a response is authentic is decided by the real StandardCupv2Handler in the implementation and given to the model as a flag by the harness that forged or signed it (C01 characterises the handler)"],
    "assumptions": [],
    "level_text": "Machine-checked Lean 4 theorems: unauth_no_effect (processing a response that fails authentication changes neither context, apps nor store and emits nothing), unauth_request (the request returns the validation error; the exchange is the only action added), unauth_not_retried + attemptLoop_stops (the check ends at once, no further request), unauth_check_bookkeeping (one failed check, Internal reason, last-contact time / poll interval / apps untouched), report_lost_iff (an undelivered event report is exactly one lost-event metric), ping_failure_counts; the replay case is covered because authenticity is per exchange (nonce) and a replayed ETag is just another unauthentic response; tied to the code by the per-unit differential run with the real CUP handler.",
    "level_note": "Trusted: Lean kernel; the hand-written state-machine model; harness (incl. its signer/forger) and diff.",
}

PROPS["C08"] = {
    "lean_modules": ["Omaha.Props.C08"],
    "streams": sm_stream([r"E (sched|proto|result)", [r"P (next|allowed)", ["lut=", "lct=", "poll=", "fails="]], r"S (set|remove) (%s|%s|%s)" % (K_LUT, K_POLL, K_FAILS), r"S commit",
                          [r"Z ", ["lut=", "lct=", "poll=", "fails=", "pend=", "comm="]]]),
    "rule": SM_RULE + "; every unit starts from the committed + pending storage and the in-memory context the real machine had at that boundary (a mode=start unit is a rebuild on the committed map: the crash/restart case); projection: schedule / protocol / result events, the context handed to the policy, storage operations on the three context keys, commits, end-of-unit context and full storage",
    "trusted_extra": SM_TRUSTED + ["Storage contract assumed: writes are cached until commit, commit is atomic (the harness storage implements exactly that)"],
    "assumptions": ["crash consistency is stated for a storage that works (no injected write failures); with failing writes the code logs and continues, which C14 covers"],
    "level_text": "Machine-checked Lean 4 theorems: finishCheckOk/Err_failures, pingFailed/Succeeded_failures and failures_count (over any history the counter is the number of failures since the last success, saturating), finishCheckOk/Err_lastUpdate + talkedToOmaha_iff + ping lemmas (last-contact moves exactly on success, unparseable body, unusable plan, successful ping), closeCheck_trace (every check ends ScheduleChange, ProtocolStateChange, result, three context writes, one write per app, commit), persist_commit_crash_load (after persist + commit + crash, loadCtx returns exactly the context's durable view at microsecond precision), commit_get / crash_commit_get / committed_only_by_commit / failed_op_changes_nothing (only a successful commit changes what survives a crash); tied to the code by the per-unit differential run incl. rebuilds.",
    "level_note": "Trusted: Lean kernel; the hand-written state-machine and storage model; harness and diff. The every-prefix form of crash consistency is carried by committed_only_by_commit + persist_commit_crash_load per commit site rather than as one theorem over whole traces.",
}

PROPS["C04"] = {
    "lean_modules": ["Omaha.Props.C04"],
    "streams": sm_stream([r"E state", r"E insterr", r"E response", r"E result", [r"E sched", []], [r"E proto", []]]),
    "rule": SM_RULE + "; projection: the event stream as the observer sees it — every state change, installer-error event, announced server response (full decoded dump) and check result (apps, order, per-app action) in full, and the positions of the schedule / protocol-state events",
    "trusted_extra": SM_TRUSTED,
    "assumptions": ["when the policy defers or denies, every app of the response is listed with that decision (the code applies the decision to the response as a whole); per-app alignment is stated under the installer's contract of one result per offered app"],
    "level_text": "Machine-checked Lean 4 theorems, for every world and environment: performUpdateCheck_marks (the announcements of a check are CheckingForUpdates followed by exactly pathMarks of the path taken, where the path is a function of the request-phase outcome, the parse result and the plan / policy / installer answers) with the iff-clauses error_iff, noUpdate_iff, deferred_iff, installing_iff, installationError_iff, response_iff, insterr_per_failed + failedMessages_spec read off it; attemptLoop_marks (ErrorCheckingForUpdate exactly when the attempt loop ends without a response, over all retry sequences); handleOutcome_ok_iff (a body reaches the parser only from an authenticated 2xx exchange); startUpdateCheck_evs (first event CheckingForUpdates, last three = final schedule, final protocol state, exactly one result; nothing in between is a result / schedule / Idle / WaitingForReboot); performUpdateCheck_result with alignResults_spec, installResponses_ids/actions, makeAppResponses_ids (the result lists the response's apps in order, offered apps get the installer's results in order, the rest NoUpdate; reboot pending iff no app failed and the policy says so); afterCheck_marks / afterCheck_waiting (Idle follows every check, WaitingForReboot in between iff a reboot is pending, nothing else announced during the reboot wait). Tied to state_machine.rs by the per-unit differential run of the real StateMachine.",
    "level_note": "Trusted: Lean kernel; the hand-written state-machine model; harness (scripted environment, executor) and diff. Histories are covered because every unit of the correspondence starts from the state the real machine reached and the theorems hold for every start state.",
}

PROPS["C05"] = {
    "lean_modules": ["Omaha.Props.C05"],
    "streams": sm_stream([[r"P allowed", ["opts=", "->", "ok", "toosoon", "throttled", "denied"]], r"P canstart", r"P rebootallowed", r"P rebootneeded",
                          [r"H ", ["src=", "->"], r"uc=[^|]*"], r"I ", [r"Z ", []]]),
    "rule": SM_RULE + "; projection: every policy question with its options and answer (check allowed, update can start, reboot needed, reboot allowed), every request reduced to its kind, install source (checked against the interactivity header by the harness) and per-app update-check flags, every installer call (plan with its parameters, install, reboot), and whether the machine started at all",
    "trusted_extra": SM_TRUSTED,
    "assumptions": ["oneshot_check is an embedder-commanded single check with default parameters: the consent clause is about start(); the install and parameter clauses hold for both entry points",
                    "pings sent while waiting to reboot belong to the unit whose allowed check led to the pending reboot"],
    "level_text": "Machine-checked Lean 4 theorems: invalid_apps_inert / valid_apps_start / valid_iff (an empty id or version 0 anywhere means run does nothing at all); check_requests_carry_params (every request of a check — each attempt incl. retries, each event report — carries the check's install source and, wherever an update check is present, its flags; via the builder invariant Canon carried through every phase) and attempts_carry_flags (every attempt lists an update check with the policy's flags for every entry), run_check_uses_policy_params; negative_decision_inert, before_decision_inert, runUnit_negative_inert (nothing but timing questions, timers, the decision and replies happens before or without a positive decision: no request, plan, install or reboot); updatePhase_gates with install_iff, install_after_ok, rebootNeeded_iff (plan, then the policy's decision, then the install iff the decision was Ok, then the reboot-needed question iff no app failed — an exact decision table over all scripts); rebootLoop_true_last / rebootWait_true_last / waitForReboot_reboot (the reboot call happens iff the wait ended with the policy's most recent answer yes, directly after it) and afterCheck_no_reboot. Tied to state_machine.rs by the per-unit differential run.",
    "level_note": "Trusted: Lean kernel; the hand-written state-machine model; harness and diff. That the interactivity header agrees with the install source is checked on every request by the harness (a mismatch is rendered into the trace line).",
}

PROPS["C10"] = {
    "lean_modules": ["Omaha.Props.C10", "Omaha.Props.Draws"],
    "streams": sm_stream([[r"H uc", ["sid=", "rid="]],
                          [r"H ev", ["sid=", "rid=", "->"], r"(?<=[\[;])[^|;\]]*(?=\|)|ev=[^;\]]*|(?:resp|fail):\S*"],
                          r"M eventlost", r"E result", r"E state"]),
    "rule": SM_RULE + "; each of the four event-report slots of a unit gets its own delivery outcome (delivered, transport error, HTTP error, forged when CUP is on); projection: every event report reduced to session / request id indices, the app ids it lists and the events each carries (type, result, error code, previous and next version, download time), its delivery outcome, the lost-event metrics, and — for outcome-independence — the check's result and announced states",
    "trusted_extra": SM_TRUSTED,
    "assumptions": ["'counted once per event' is per logical event: one for a template report, one per carried event for the per-app result report (what the code does)",
                    "event_fields is stated for app sets with distinct ids (the embedder's app set is keyed by id); duplicate ids are exercised by the correspondence only"],
    "level_text": "Machine-checked Lean 4 theorems: check_same_session_fresh_request_ids and request_ids_never_reused (Props/Draws: all reports of a check carry the check's session id; every request id is a later draw than all earlier ones and than the session id, over whole histories); performUpdateCheck_sents / responsePhase_sents / installPhase_sents (reports_by_path: for every world and environment the event reports on the wire are exactly pathBuilders of the path taken — parse-error for all apps; plan-error / deferred / denied for the known offered apps; download-started, the per-app result report, update-complete for the installed apps iff any — in order, each at most once, minus those that cannot be built), reportEvent_sents / reportResults_sents / sents_omahaRequest (one call = at most one request with exactly the builder's payload: never retried), reportEvent_lost / reportResults_lost / losts_fold (an undelivered report is counted lost once per logical event, a delivered one never), eventBuilder_payload + nextVersions_has + parseError_all_apps + installedApps_spec + event_codes (event_fields: which apps, current version as previous version, manifest version as next version, protocol codes); same session on every request and parameters via C05's Canon chain; outcome-independence by C04's performUpdateCheck_result/marks (result and announcements are functions of the path, which does not read report outcomes). Tied to state_machine.rs by the per-unit differential run.",
    "level_note": "Trusted: Lean kernel; the hand-written state-machine model; harness and diff. Freshness of request ids is the theorem check_same_session_fresh_request_ids / request_ids_never_reused of Props/Draws (ids are draws from a counter; that distinct GUID draws are distinct values is the RNG's property, observed on every unit through first-occurrence indices of the GUIDs read off the wire).",
}

PROPS["C09"] = {
    "lean_modules": ["Omaha.Props.C09"],
    "streams": sm_stream([[r"P (next|allowed)", ["apps="]],
                          [r"H (uc|ping)", ["->"], r"(?<=[\[;])[^|;\]]*\|[^|]*\|[^|]*\|[^|]*\|[^|]*\|[^|]*(?=\|)|ping=[^|;\]]*"],
                          r"S set x(?!7365727665725f|6c6173745f|636f6e7365637574|696e7374616c6c5f|7570646174655f|7461726765745f)", r"S commit", r"E result",
                          [r"Z ", ["apps=", "comm="]]]),
    "rule": SM_RULE + "; responses carry every subset of cohort / cohorthint / cohortname as absent, empty or a value, daystart absent / without elapsed_days / with a day number, for any subset of the app set in any order plus unknown and duplicated ids; after a history the process restarts (up to twice) on the storage the library committed, with the embedder presetting a fresh random combination of cohort fields and user-counting day; projection: the app set handed to every policy call, the identification / cohort fields and ping dates of every update-check and ping request, storage writes under app ids, commits, the check result, end-of-unit app set and committed storage",
    "trusted_extra": SM_TRUSTED + ["the JSON text of a persisted app record (render, and decode at restart) is modelled; its round trip is established by the restart units of the correspondence, not as a theorem"],
    "assumptions": ["next_request_sends is stated for app sets with distinct ids; the response's day number is the same for every app (it comes from the response's daystart)"],
    "level_text": "Machine-checked Lean 4 theorems: cohort_merge / cohort_empty_overwrites (present-even-empty overwrites, absent keeps, per field), updateFromOmaha_spec / updateFromOmaha_unnamed / updateFromOmaha_keeps (every app named in the response — any order, any count — takes the merge with the first entry bearing its id and the response's day number; apps not named, and all other fields, unchanged), makeAppResponses_data / installResponses_data (what the check hands to the merge is the response's own cohort and day number on every path), finishCheckOk_apps / finishCheckErr_apps / check_keeps_apps_until_end / pingSucceeded_apps / pingFailed_apps (only successful checks and pings change apps), checkBuilder_wire / pingBuilder_wire (the next request sends exactly the app's cohort fields and ad = rd = its day number), persistData_ops / persistApps_ops / finishCheckOk_persists_merged / pingSucceeded_persists_merged / persistedAppJson_shape (one write per app under its id carrying the merged values, then a commit, in the same batch as the check's context), loadApp_spec / loadApp_absent / loadApp_undecodable (restore fills exactly the unset fields). Tied to the code by the per-unit differential run incl. restarts on library-written storage.",
    "level_note": "Trusted: Lean kernel; the hand-written state-machine model; harness and diff. Histories: every unit starts from the app set and storage the real machine reached; the per-step theorems hold for every start state.",
}


def _hx(k):
    return "x" + k.encode().hex()

K_C18 = "|".join(_hx(k) for k in ["install_plan_id", "update_first_seen_time", "update_finish_time", "target_version", "consecutive_failed_install_attempts"])

PROPS["C18"] = {
    "lean_modules": ["Omaha.Props.C18"],
    "streams": sm_stream([r"S (set|remove) (%s)" % K_C18, r"S commit", r"M (firstseen|attemptsinstall|waitedreboot|updok|updfail)", r"P rebootneeded", r"I (install|reboot)",
                          [r"I plan", ["->"]], [r"Z ", ["comm="]]]),
    "rule": SM_RULE + "; plan ids repeat across units and restarts (and match or differ from a pre-stored id), per-app result vectors mix installed / deferred / failed in any order, the system app is inside or outside the set and its manifest version present or absent, pre-stored finish time / target version are consistent or not with the OS version and the clocks (finish before, at, or after the restart time; monotonic clock at 0 or later), restarts happen on library-written storage; projection: storage operations on the five bookkeeping keys and commits, the first-seen / install-attempt / waited-for-reboot / update-duration metrics, the reboot-needed question, install and reboot calls, plan ids, end-of-unit committed storage",
    "trusted_extra": SM_TRUSTED + ["Storage contract assumed: writes cached until commit, commit atomic (the harness storage implements exactly that)"],
    "assumptions": ["first_seen_stable is stated for a storage that works at the moment the new plan is recorded; failing writes there are the C14 clause (both-or-neither is modelled and run)"],
    "level_text": "Machine-checked Lean 4 theorems: recordFirstSeen_same (same plan: nothing written, stored first-seen time used — for any world, hence after any number of attempts and restarts), recordFirstSeen_new (a different plan records id and time and commits at once; afterwards the store reads back exactly that id and the microsecond-truncated time with nothing pending, so a crash cannot lose it), crash_keeps_committed, firstSeenMetric_value; installSuccess_spec (the counter is touched iff some app failed, else iff some app installed — over all result vectors), reportAttemptsInstall_spec / _first (reported count = stored + 1, stored on failure, removed on success); recordFinish_order + setTargetVersion_spec (finish time, the system app's manifest version or UNKNOWN, and a commit all precede the reboot-needed question, and with C05's gates any reboot); runStart_shouldReport (pending iff finish time readable and target version = running OS version), reportWaited_spec (value and the three clock-consistency guards), waited_independent_of_delay (equals start-wall − finish whenever both clocks advanced equally since start), waitedStep_spec (on success: metric, both keys removed, commit, flag cleared so never again; otherwise nothing reported, nothing removed, retried next iteration). Tied to state_machine.rs by the per-unit differential run incl. restarts.",
    "level_note": "Trusted: Lean kernel; the hand-written state-machine and storage model; harness and diff.",
}

PROPS["C14"] = {
    "lean_modules": ["Omaha.Props.C14"],
    "streams": sm_stream([r"H ", r"E ", [r"Z ", []]]) + [
        {"name": "smfault", "file": "smfault", "args": ["smfault"]},
        {"name": "resp", "file": "resp", "args": ["resp"], "outside_ok": True},
        {"name": "uri", "file": "uri", "args": ["uri"], "outside_ok": True}],
    "rule": SM_RULE + "; storage is preloaded with values of every type and magnitude (wrong type, negative, 0, u32 and i64 extremes) on every key the library reads, up to 14 storage operations per unit fail according to a random mask, the wall clock jumps backwards / far into the future between interactions, responses are arbitrary (unparseable, truncated, forged incl. degenerate ETag header values, any status), service URLs may be invalid; every history runs under catch_unwind and a panic is a disagreement; projection (sm): every request and every event, and how the unit ended. Stream smfault runs each history twice against the real state machine — with the scripted storage failures and with a working storage — and requires identical request and event sequences. Streams resp and uri feed arbitrary bytes to the response parser and URL decoration (panic = disagreement)",
    "trusted_extra": SM_TRUSTED + ["panic-freedom of third-party parsers (serde_json, http::Uri) and stack safety are tested by the correspondence runs, not proved; the Lean model is total by construction"],
    "assumptions": ["a wrapping `as u64` cast of a negative stored install-attempt count is not a violation (no trap, no lost result)",
                    "metrics are not part of 'requests sent and events announced': values read back from storage flow into two metrics only (first-seen duration, install-attempt count)"],
    "level_text": "Machine-checked Lean 4 theorems: storage_failures_invisible (one iteration of run: from Sim-related worlds — same context, apps, clock, scripts; arbitrary storage contents — two runs that differ in which storage operations fail end the same way in Sim-related worlds, i.e. with equal visible traces), faulty_run_looks_healthy, storage_failures_invisible_oneshot, storage_failures_invisible_history (any number of iterations, any failure script in each: by induction); they rest on Lemmas/SMSim: the simulation relation Sim, invisibility of every storage/metric-only step (inv_*) and congruence of every model function (sim_*: ~50 lemmas up to runUnit, incl. the attempt loop and the reboot-wait loop by induction). Range invariants: satAdd32_le, loadFails_le, loadCtx_failures_le, failures_in_range_check / _ping (the u32 failure counter never leaves u32 for any stored value and any history step), attemptsInstall_in_range (the i64 install-attempt counter is written back as an i64 and reported as a u64 for every stored i64), durationMs_le, loadPoll_range, poll_header_le_day; check_delivers_result (every check ends with exactly one result). Tied to the code by the per-unit differential run under catch_unwind with hostile storage contents, failure masks, clock jumps and response bytes, and by the implementation-vs-implementation faulty/healthy stream.",
    "level_note": "Trusted: Lean kernel; the hand-written state-machine model; harness and diff. Two genuine defects found here were repaired upstream (KNOWN_FINDINGS.txt: fixed e81f7d7, 56a473c). Absence of panics inside serde_json / http / p256 is sampled, not proved.",
}

PROPS["C12"] = {
    "lean_modules": ["Omaha.Props.C12"],
    "streams": sm_stream([[r"P next", ["->", "W", "M", "C"]], [r"E sched", ["next="]], r"T arm", r"T fire",
                          [r"P allowed", ["opts=", "->", "ok", "toosoon", "throttled", "denied"]], r"P rebootallowed",
                          [r"H (uc|ping)", []], [r"Z ", []]]),
    "rule": SM_RULE + "; check timings are wall-only, monotonic-only or both, with and without a minimum wait (0 s, 60 s, 1800 s); the harness Timer blocks until the script fires it, and the script fires all timers in either order, only a proper subset (the unit must then stall), or a subset followed by a control request; throttled and denied iterations are followed by further iterations; in the reboot wait the 30-minute timer, the ping timers (each subset / order) and requests are interleaved; projection: the policy's timing answers, the announced next update time, every timer armed (kind and exact value) and fired, the check / reboot questions with their options, the existence of update-check and ping requests, how the unit ended",
    "trusted_extra": SM_TRUSTED + ["the Timer contract (a wait future completes when the harness fires it) is the harness's; futures::join semantics are modelled as 'all armed timers must have fired'"],
    "assumptions": [],
    "level_text": "Machine-checked Lean 4 theorems: ask_announce_arm (before a wait: policy question, ScheduleChange carrying exactly that timing, wait_for(min) iff a minimum wait is given and with exactly that duration, wait_until(time) with exactly that bound; the wait needs exactly the timers armed here), outerWait_timers_all_fired (no_early_check: the wait ends on timers only when every armed timer has fired, for every order and interleaving), outerWait_all_fired (either order suffices), outerWait_subset_waits (a proper subset never ends the wait), outerWait_ctl_first / outerWait_ctl_mem (a request ends it at once; nothing else does), scheduled_check_only_after_timers (in run, the scheduled-options policy question is asked exactly on the timers outcome); rebootWait_start (first question, 30-minute timer of exactly 1800 s, ping schedule by the same rule), rebootLoop_partial_fire / rebootLoop_last_fire_pings (ping_same_rule: the ping goes out when the last outstanding timer fires, then the timing is asked and armed again), rebootLoop_t30 (the 30-minute timer re-asks with the wait's options and is re-armed for exactly 30 minutes on refusal), rebootLoop_scheduled_ctl (a scheduled request asks nothing). Tied to state_machine.rs by the per-unit differential run with a blocking timer.",
    "level_note": "Trusted: Lean kernel; the hand-written state-machine model; harness (blocking Timer, manual executor) and diff.",
}

PROPS["C11"] = {
    "lean_modules": ["Omaha.Props.C11"],
    "streams": sm_stream([r"R ", [r"P allowed", ["opts=", "->", "ok", "toosoon", "throttled", "denied"]], r"P rebootallowed", r"I reboot",
                          [r"T fire", []], [r"H uc", []], [r"Z ", []]]) + [
        {"name": "ctl", "file": "ctl", "args": ["ctl"]}],
    "rule": SM_RULE + "; control requests (on-demand or scheduled options, each from a fresh clone of the handle) arrive while the machine waits for its timers (before any fires, or after a proper subset has fired), one or two arrive while the first update-check exchange is in flight, and any number arrive between the steps of the reboot wait, interleaved with the 30-minute timer and the ping timers; the executor polls the machine only when woken, so a request that would not wake it shows up as a stall; replies are compared per request. Projection: every reply, the options of the check-allowed and reboot-allowed questions, reboot calls, timer firings, the existence of the check, how the unit ended. Stream ctl (implementation only): after the state machine is dropped a request fails with a gone error at once; with every handle dropped the machine keeps checking on its timers",
    "trusted_extra": SM_TRUSTED + ["futures-channel mpsc and oneshot are not modelled beyond 'a request is taken at the select points'; the both-ready branch order of select! is not exercised (requests are injected at quiescent points)",
                                   "channel closure (gone error, dropped handles) is checked on the implementation by stream ctl, not modelled"],
    "assumptions": ["the state machine is !Send (Rc, LocalBoxFuture): all interleavings are those of a single-threaded executor"],
    "level_text": "Machine-checked Lean 4 theorems, for every schedule: decideAndCheck_replies (reply_exactly_once / reply_truthful for an iteration of run: the request that ended the wait gets exactly one reply, Started iff the policy allowed the check and Throttled iff it refused; each request during the check exactly one AlreadyRunning; each request taken in the reboot wait exactly one AlreadyRunning; no other replies), rebootLoop_replies / rebootWait_replies / waitForReboot_replies / afterCheck_replies (by induction over the reboot-wait script), addsT_startUpdateCheck (a check by itself replies to nobody), outerWait_ctl_first (C12: a request wakes the waiting machine with no timer firing), upgradeOpts_spec and rebootLoop_ondemand_ctl + rebootLoop_ondemand_sticky + rebootLoop_scheduled_ctl (an on-demand request — during the check or the wait — makes this and every later reboot question on-demand and reboots iff the policy agrees; a scheduled one asks nothing). Tied to state_machine.rs by the per-unit differential run with requests injected at every kind of blocking point, and by the ctl stream for channel closure.",
    "level_note": "Trusted: Lean kernel; the hand-written state-machine model; harness (manual executor, handle clones) and diff. Partial: the gone / dropped-handles clauses are tested on the implementation, not proved.",
}

PROPS["C13"] = {
    "lean_modules": ["Omaha.Props.C13"],
    "streams": [{"name": "gen", "file": "gen", "args": ["gen"]}] +
               sm_stream([r"E ", r"I (install|reboot)", [r"H ", []], [r"Z ", []]]),
    "rule": "stream gen: the real async_generator::generate with a task interpreting a program over {yield x, yield_all xs (incl. empty), self-wake, wait for external event k, drop the Yield handle, return r}, polled by hand with a flag waker under a schedule of polls and external events; all programs up to length 4 (quick) / 5 (thorough) over a 7-operation alphabet under an eager and a late-firing schedule, plus random programs of length <= 12 under random schedules with spurious polls, early / late / repeated events; compared: every poll result, whether the root waker was woken during each step, is_terminated() after each poll; non-trivial = the program yields at least one item; distinct = (program, schedule). Stream sm: " + SM_RULE + "; the harness installer reports progress one value at a time and with 2-3 reports in flight at once; the event stream is logged on consumer receipt and the machine is polled only when woken (so trace equality is back-pressure and wake-up discipline); projection: every event in order, install / reboot calls, the position of every request, how the unit ended",
    "trusted_extra": ["modelled, not verified: futures-channel mpsc with capacity 0 and one sender (queue of at most one item, sender parked from push to pop, receiver AtomicWaker, closure on sender drop), futures-util Send / SendAll / Fuse, as transcribed in Omaha/Gen.lean — validated against the real crates by the gen stream on every run",
                      "the state-machine side (events in order, progress before outcome, no stall under a wake-only executor) is the sm stream of the other properties"] + SM_TRUSTED,
    "assumptions": ["a program cannot yield after dropping its handle (not expressible in Rust); the model skips such operations and the generator never produces them"],
    "level_text": "Machine-checked Lean 4 theorems about Omaha.Gen, for every program and every schedule (by the invariant GInv over all reachable states: init_inv, runOps_post, pollTask_inv, pollNext_inv, fire_inv): stream_is_fifo (the items received are a prefix of the program's yields, in order: none lost, duplicated or reordered; drive_conserve: delivered ++ queued ++ still-to-push is always the yield sequence), completes_once + allOk_complete_all_items (Complete is returned at most once, only after every item, with the program's return value; before it only items or Pending, after it None forever), queue_at_most_one, no_progress_while_untaken (backpressure: while an emitted item is untaken, polling the task changes nothing — code after an emission runs only in a later poll than the one that delivered it), unwoken_pending_is_external_wait + fire_wakes + spurious_poll_pending (no_lost_wakeup: a Pending without a wake is a registered wait on an unfired external event whose firing wakes the task; every other Pending has already woken the root waker; spurious polls are harmless), runOps_settled / pollTask_is_settled; and runInstall_trace (SM model: every progress value, in order, directly after the install call and before its outcome is acted on). Tied to async_generator.rs by the gen stream (poll-by-poll, incl. wake flags) and to state_machine.rs by the sm stream under a wake-only executor.",
    "level_note": "Trusted: Lean kernel; the hand-written model of the channel and of poll_next; harness and diff. Partial: liveness under fairness (strict_executor_live) is not stated as a theorem — its safety core (no_lost_wakeup) is; into_yielded / into_complete / into_try_stream are thin filters over the same stream and are not modelled.",
}

PROPS["C17"] = {
    "lean_modules": ["Omaha.Props.C17", "Omaha.Props.JsonText"],
    "streams": [{"name": "mock", "file": "mock", "args": ["mock"]}],
    "rule": "stream mock: mock_omaha_server::handle_request is called in-process with requests built by the real RequestBuilder (update-check + ping requests, or event reports) for a 1..4-app set drawn in any order from 7 ids, with cohorts and all request parameters, a service URL with or without path / query / pre-existing or bare cup2key, decorated by the real StandardCupv2Handler configured with the server's latest key, one of its historical keys, an unknown key id, a known id with another key pair, or no CUP; the server is configured per app with each of the five response kinds, version / cohort / updates-disabled assertions that hold or not, an extra or missing app or no app at all, an ETag override, require_cup; the reply is parsed by the real client parser and verified by the real verifier for this exchange and against three other exchanges (other response body, other nonce, other request body); compared with the model: outcome (answer / 500 / assertion panic), response bytes, ETag kind, decoded document (canonical dump of every field), verification verdict against the specification and against the Lean verifier run on the mock's own signature; non-trivial = every case; distinct = (app count, key relation, URL, request kind, response kinds)",
    "trusted_extra": ["modelled, not verified: serde_json::Value key order (sorted) and to_vec, the url crate's query_pairs as far as the client's own cup2key parameter is concerned (no percent-decoding), hyper's Request/Response types; the TCP serving code and main.rs are outside the property (in-process handle_request)",
                      "the cryptographic hypothesis of client_verifies_mock_etag (a signature made by a key pair verifies under its public key) is an explicit hypothesis; the correspondence checks it on every signed reply with the real p256 and with the Lean P-256"],
    "assumptions": ["the client parser must reject the InvalidResponse kind — that is the configured outcome"],
    "level_text": "Machine-checked Lean 4 theorems: mock_apps_in_order + appVal_shape + appVal_id (one response app per requested app, in request order, with the requested id and the configured update check), client_accepts_mock_doc + decode_appVal + decode_responseVal / _err + decode_offer / decode_noupdate / decode_invalid / decode_updateCheckVal (the client's decoder accepts the server's document field for field for every configuration — and rejects exactly the deliberately invalid kind), mock_digest_eq_client (the digest the server signs is the client's transaction hash for the client's own cup2key, for every hash function), holdsKey_iff + inducedEtag_signed (an ETag is produced iff the named key id is the latest or a historical one), client_verifies_mock_etag (under the hypothesis that the signature verifies under the registered key, the client's verifier accepts hex(sig):hex(sha256(request)) for this exchange and returns the signature; uses hex_decode_encode, etagText_chars), etag_for_no_other (C01's injectivity: acceptance for another exchange needs a signature valid for another message), setResponses_effect / setResponses_keeps_keys (reconfiguration). Tied to mock-omaha-server/src/lib.rs by the in-process differential run with the real client on both ends.",
    "level_note": "Trusted: Lean kernel; the hand-written model of the mock server; harness and diff. mock_doc_reads_back (Props/JsonText) lifts client_accepts_mock_doc to the bytes: the document the mock renders is read by the client's JSON text reader as exactly responseVal. Partial: 'driving the real state machine against the in-process mock' is not a registered stream (the mock stream goes through the real RequestBuilder + CUP handler, handle_request and the real response parser / verifier); sockets / hyper serving are out of scope.",
}
