#!/bin/bash
# usage: tryseed.sh <worktree> <mutation-dir-name> <property> <seed-id> "<demo command>"
# 1. confirms in the scratch worktree: suite passes with patch; demo fails with patch, passes without
# 2. applies the patch to /repo, runs ./check <property> quick, undoes it
# 3. stores the mutation under /verif/seeded/<seed-id>/
set -u
wt=$1; m=$2; prop=$3; sid=$4; demo=$5
md=$wt/mutations/$m
cd $wt || exit 2
git checkout -q -- . ; git clean -fdq -e mutations -e target
export CARGO_NET_OFFLINE=true
r_suite=?; r_demo_with=?; r_demo_without=?
git apply $md/patch.diff || { echo "patch does not apply"; exit 2; }
if cargo test --workspace --offline -j 8 >/tmp/wt/suite.log 2>&1; then r_suite=pass; else r_suite=FAIL; fi
git apply $md/demo.diff || { echo "demo does not apply"; }
if (eval "$demo") >/tmp/wt/demo_with.log 2>&1; then r_demo_with=pass; else r_demo_with=fail; fi
git checkout -q -- . ; git clean -fdq -e mutations -e target
git apply $md/demo.diff
if (eval "$demo") >/tmp/wt/demo_without.log 2>&1; then r_demo_without=pass; else r_demo_without=fail; fi
git checkout -q -- . ; git clean -fdq -e mutations -e target
echo "suite-with-patch=$r_suite demo-with-patch=$r_demo_with demo-without-patch=$r_demo_without"
# 2. our check
cd /verif
git -C /repo apply $md/patch.diff || { echo "patch does not apply to /repo"; exit 2; }
./check $prop quick > /tmp/wt/check.log 2>&1; rc=$?
git -C /repo checkout -q -- .
grep -E "VIOLATION|KNOWN-FINDING" /tmp/wt/check.log | head -3
tail -1 /tmp/wt/check.log
echo "check rc=$rc"
# 3. store
mkdir -p /verif/seeded/$sid
cp $md/patch.diff $md/demo.diff $md/README.md /verif/seeded/$sid/
cat > /verif/seeded/$sid/meta.json <<EOF
{"property": "$prop", "source": "independent sub-agent given only the property text", "demo_cmd": "$demo",
 "confirmed": {"suite_with_patch": "$r_suite", "demo_with_patch": "$r_demo_with", "demo_without_patch": "$r_demo_without"},
 "check_quick_rc": $rc}
EOF
