#!/bin/bash
# usage: detectall.sh <worktree> <mutation-dir-name> <seed-id>
# Applies the patch to /repo, runs EVERY property's quick check, undoes it, stores the mutation under seeded/<seed-id>/
set -u
wt=$1; m=$2; sid=$3
md=$wt/mutations/$m
cd /verif
git -C /repo status --short | grep -q . && { echo "/repo not clean"; exit 2; }
ev=$(mktemp -d); cp -a evidence/. $ev/
git -C /repo apply $md/patch.diff || { echo "patch does not apply to /repo"; exit 2; }
hits=""; : > $md/checkall.log
for p in C01 C02 C03 C04 C05 C06 C07 C08 C09 C10 C11 C12 C13 C14 C15 C16 C17 C18 C19 C20; do
  ./check $p quick > $md/check-$p.log 2>&1; rc=$?
  echo "$p rc=$rc $(tail -1 $md/check-$p.log)" >> $md/checkall.log
  [ $rc -ne 0 ] && hits="$hits $p"
done
git -C /repo checkout -q -- .
cp -a $ev/. evidence/; rm -rf $ev
echo "$sid detected-by:${hits:- NONE}"
mkdir -p /verif/seeded/$sid
cp $md/patch.diff $md/demo.diff $md/README.md /verif/seeded/$sid/
python3 - "$md" "$sid" "$hits" <<'PY'
import json,sys,re
md,sid,hits=sys.argv[1:4]
conf=json.load(open(md+"/confirmed.json"))
readme=open(md+"/README.md").read()
claimed=sorted(set(re.findall(r"\bC[0-2][0-9]\b", readme)))
hl=hits.split()
meta={"property": (hl[0] if hl else (claimed[0] if claimed else "C00")), "claimed_by_author": claimed, "detected_by": hl,
 "source":"independent sub-agent given all 20 property texts and a set of source files (round 3)",
 "needs_to_manifest":"see README.md","demo_cmd":conf.pop("demo_cmd"),"confirmed":conf,"check_quick_rc": 1 if hl else 0}
json.dump(meta,open("/verif/seeded/%s/meta.json"%sid,"w"),indent=1)
PY
