#!/usr/bin/env python3
"""Regenerate /verif/MANIFEST.json from checklib/props.py (claimed) and properties.jsonl (the rest)."""
import json, os, sys
ROOT = os.path.dirname(os.path.dirname(os.path.abspath(__file__)))
sys.path.insert(0, os.path.join(ROOT, "checklib"))
from props import PROPS, NOT_APPLICABLE, HOOK_COMMITS

ids = [json.loads(l)["id"] for l in open(os.path.join(ROOT, "properties.jsonl"))]
checks = []
for pid in ids:
    if pid not in PROPS:
        continue
    c = PROPS[pid]
    checks.append({
        "property_id": pid,
        "quick_cmd": "./check %s quick" % pid,
        "thorough_cmd": "./check %s thorough" % pid,
        "evidence_file": "/verif/evidence/%s.json" % pid,
        "replay_cmd_template": "./check %s --replay {path}" % pid,
        "engine": "lean-proof+correspondence",
        "level_claimed": {"category": "proof", "text": c["level_text"], "design_ref": c.get("design_ref", "DESIGN.md §6 " + pid)},
        "level_note": c["level_note"],
        "technique": c.get("technique", "Lean 4 theorems over a hand-written executable model + differential correspondence check against the real code"),
    })
na = [{"property_id": pid, "reason": NOT_APPLICABLE.get(pid, "not yet claimed: the model/theorems for this property are not built yet (see DESIGN.md §9 build order); nothing is claimed on the strength of tests alone")}
      for pid in ids if pid not in PROPS]
m = {
    "version": 1,
    "setup_cmd": "./setup.sh",
    "hooks": {
        "guard": "omaha_client_verif",
        "enable": "none needed: every observable is reached through the public traits (PolicyEngine, HttpRequest, Installer, Timer, Storage, MetricsReporter, Cupv2Handler); no source hooks are committed",
        "baseline_off_cmd": "cd /repo && cargo test --workspace --no-fail-fast --offline",
        "source_commits": HOOK_COMMITS,
        "add_only": True,
    },
    "engines": [{
        "name": "lean-proof+correspondence", "path": "/verif/check",
        "serves_properties": [c["property_id"] for c in checks],
        "kind_free_text": "Lean 4 theorems (lake project /verif/lean) about an executable model; Rust harness /verif/harness runs the real crates in-process on generated inputs; the compiled model driver runs the same inputs; outputs are diffed; the Lean predicate is evaluated on the implementation's behaviour when they differ",
    }],
    "checks": checks,
    "notes": "See DESIGN.md. KNOWN_FINDINGS.txt lists genuine defects (finding:/fixed:).",
    "not_applicable": na,
}
json.dump(m, open(os.path.join(ROOT, "MANIFEST.json"), "w"), indent=1)
print("claimed:", [c["property_id"] for c in checks])
