#!/bin/bash
# usage: confirm.sh <worktree> <mutation-dir-name> "<demo command>"
# In the scratch worktree only: suite passes with patch; demo fails with patch, passes without.
# Writes <worktree>/mutations/<m>/confirmed.json
set -u
wt=$1; m=$2; demo=$3
md=$wt/mutations/$m
cd $wt || exit 2
git checkout -q -- . ; git clean -fdq -e mutations -e target
export CARGO_NET_OFFLINE=true
r_suite=?; r_demo_with=?; r_demo_without=?
git apply $md/patch.diff || { echo "patch does not apply"; exit 2; }
if cargo test --workspace --offline -j 6 >$md/suite.log 2>&1; then r_suite=pass; else r_suite=FAIL; fi
git apply $md/demo.diff || { echo "demo does not apply"; }
if (eval "$demo") >$md/demo_with.log 2>&1; then r_demo_with=pass; else r_demo_with=fail; fi
git checkout -q -- . ; git clean -fdq -e mutations -e target
git apply $md/demo.diff
if (eval "$demo") >$md/demo_without.log 2>&1; then r_demo_without=pass; else r_demo_without=fail; fi
git checkout -q -- . ; git clean -fdq -e mutations -e target
echo "{\"suite_with_patch\": \"$r_suite\", \"demo_with_patch\": \"$r_demo_with\", \"demo_without_patch\": \"$r_demo_without\", \"demo_cmd\": \"$demo\"}" > $md/confirmed.json
echo "$wt $m: suite-with-patch=$r_suite demo-with-patch=$r_demo_with demo-without-patch=$r_demo_without"
