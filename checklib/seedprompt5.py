import json,sys
tag=sys.argv[1]; theme=sys.argv[2]
props=[json.loads(l) for l in open('/verif/properties.jsonl')]
wt=f"/tmp/wt/seed10-{tag}"
plist="\n".join(f"[{p['id']}] {p['title']}: {p['statement']}" for p in props)
avoid=open('/tmp/wt/avoid.txt').read()
print(f"""You are helping test a verification tool by writing realistic *seeded defects* for a Rust library. Work ONLY inside the scratch git worktree {wt} (a checkout of google/omaha-client: Rust client library for Google's Omaha update protocol; crates omaha-client and mock-omaha-server). Do not read or write anything under /verif or /repo. The sandbox is offline: always use `cargo ... --offline` and set CARGO_NET_OFFLINE=true; use `-j 6` to limit parallelism.

The library is supposed to satisfy the following 20 semantic properties (each holds for all inputs, histories, schedules and crash points):

{plist}

Your task: produce TWO different changes to the library source (not tests), on the THEME: {theme}. Each must BREAK AT LEAST ONE of the properties above while (a) still compiling, and (b) still passing the whole existing test suite (`cargo test --workspace --offline -j 6`, 248 tests plus doctests). Each change should look like a plausible refactoring/optimisation/bug a maintainer could introduce, be small (a few lines to ~30 lines), and must need something SPECIFIC to manifest: a particular interleaving, a crash or fault at a particular point, a multi-step sequence of operations, an unusual input, a rarely used configuration, or two cooperating sites that each look fine alone (prefer the latter kinds: interactions between two features or two code sites). Do NOT produce changes that ordinary use would expose at once.

More than a hundred seeded defects have already been written by earlier volunteers; yours must be DIFFERENT from all of these (different mechanism, not just a different constant):
{avoid}

For each change k in (m1, m2) create the directory {wt}/mutations/<k>/ containing:
  - patch.diff : `git diff` of the library change only (must apply with `git apply` on a clean checkout of HEAD)
  - demo.diff  : a separate diff that ADDS a demonstration (a new test module/file or new #[test] functions, touching no existing test) which FAILS with patch.diff applied and PASSES on clean HEAD. demo.diff must apply with `git apply` both on clean HEAD and on HEAD+patch.diff (a new file wired in by one `#[cfg(test)] mod ...;` line is the usual way; for mock-omaha-server a new file under mock-omaha-server/tests/ needs no wiring).
  - README.md  : first line `# <short title>`; then what was changed, WHICH PROPERTY ID(S) it breaks and which clause, what it needs in order to manifest, and the exact demo command (e.g. `cargo test -p omaha_client --offline -j 6 --lib <filter>`; the package name is omaha_client with an underscore).

Verify all of this yourself before finishing: (1) with patch.diff applied the full suite passes; (2) with patch.diff + demo.diff the demo command fails; (3) with demo.diff alone on clean HEAD the demo command passes. Leave the worktree clean (git checkout -- . ; remove untracked files except the mutations/ directory; you may leave target/). Reuse the same target directory for all builds. Report back briefly: for each change, one paragraph with the property id(s) it breaks and the demo command.""")
