#!/usr/bin/env python3
"""Syntactic mutation sweep (development aid, not a registered check).

usage: mutants.py <source file relative to the repo> <stream>[,<stream>...] [--max N] [--seed S] [--out FILE]

Works entirely in scratch copies under /tmp/wt/mut (a git worktree of /repo HEAD) and
/tmp/wt/mut-harness (a copy of /verif/harness whose path dependencies point at the worktree); /repo and
/verif are only read.  For every mutant of the non-test part of the file:
  1. `cargo test -p <crate> --lib` in the worktree  -> does not compile / killed by the repository's tests / survives
  2. for survivors: build the harness copy, run the given streams, run the Lean model driver on the
     inputs and compare the two outputs in full            -> killed by the correspondence / survives both
Survivors of both are printed with their diff: each is either an equivalent mutant or a gap.
"""
import os, re, subprocess, sys, random, json, shutil, time

REPO = "/repo"
WT = "/tmp/wt/mut"
HC = "/tmp/wt/mut-harness"
MODEL = "/verif/lean/.lake/build/bin/omaha_model"
ENV = dict(os.environ, CARGO_NET_OFFLINE="true")


def sh(cmd, cwd=None, timeout=1800):
    # a mutant may hang the test suite or the harness: `timeout` kills the whole command, the verdict is "killed"
    if isinstance(cmd, str):
        cmd = "timeout -k 5 %d sh -c %s" % (timeout, "'" + cmd.replace("'", "'\\''") + "'")
    else:
        cmd = ["timeout", "-k", "5", str(timeout)] + cmd
    p = subprocess.run(cmd, cwd=cwd, shell=isinstance(cmd, str), stdout=subprocess.PIPE, stderr=subprocess.STDOUT, env=ENV)
    out = p.stdout.decode(errors="replace")
    if p.returncode in (124, 137):
        out += "\nTIMEOUT"
    return p.returncode, out


OPS = [
    (r"(?<![<>=!-])<=(?!=)", ["<"]), (r"(?<![<>=!-])>=(?!=)", [">"]),
    (r"(?<![<>=!\-&|])<(?![<=])(?=\s)", ["<="]), (r"(?<![<>=!\-&|])\s>(?![>=])(?=\s)", [" >="]),
    (r"==", ["!="]), (r"!=", ["=="]), (r"&&", ["||"]), (r"\|\|", ["&&"]),
    (r"\btrue\b", ["false"]), (r"\bfalse\b", ["true"]),
    (r"\bis_some\(\)", ["is_none()"]), (r"\bis_none\(\)", ["is_some()"]), (r"\bis_empty\(\)", ["len() == 1"]),
    (r"\bmin\(", ["max("]), (r"\bmax\(", ["min("]),
    (r"\+ 1\b", ["+ 2", "- 1"]), (r"- 1\b", ["+ 1"]),
    (r"\b(\d+)\b", None),  # numeric literal: +1
    (r"saturating_add", ["wrapping_add"]), (r"saturating_sub", ["wrapping_sub"]),
    (r"\.ok\(\)\?", [".ok().or(None)?"]),
    (r"if !", ["if "]),
    (r"Some\(([a-z_]+)\) =>", None),   # placeholder (skipped)
]


ENUMS = ["State", "InstallSource", "StartUpdateCheckResponse", "EventType", "EventResult", "EventErrorCode", "CheckDecision", "UpdateDecision",
         "RebootAfterUpdate", "Action", "OmahaStatus", "UpdateCheckFailureReason", "OmahaResponse", "UpdateCheckAssertion", "AppInstallResult"]


def mutants_of(lines, lo, hi):
    out = []
    # unit variants of the protocol / state enums as they occur in this file: swap one for another
    variants = {}
    for l in lines[lo:hi]:
        for m in re.finditer(r"\b(%s)::([A-Z]\w+)\b(?!\s*[\({])" % "|".join(ENUMS), l.split("//")[0]):
            variants.setdefault(m.group(1), set()).add(m.group(2))
    for i in range(lo, hi):
        l = lines[i]
        code = l.split("//")[0]
        if not code.strip() or code.strip().startswith("#") or "warn!" in code or "info!" in code or "error!" in code or "debug!" in code or "trace!" in code:
            continue
        for pat, reps in OPS:
            if reps is None:
                if pat == r"\b(\d+)\b":
                    for m in re.finditer(pat, code):
                        if m.start() > 0 and code[m.start() - 1] in "._'abcdefghijklmnopqrstuvwxyzABCDEFGHIJKLMNOPQRSTUVWXYZ":
                            continue
                        v = int(m.group(1))
                        new = code[:m.start()] + str(v + 1) + code[m.end():] + l[len(code):]
                        out.append((i, "%d->%d" % (v, v + 1), new))
                continue
            for m in re.finditer(pat, code):
                for r in reps:
                    new = code[:m.start()] + r + code[m.end():] + l[len(code):]
                    out.append((i, "%s->%s" % (m.group(0).strip(), r.strip()), new))
        for m in re.finditer(r"\b(%s)::([A-Z]\w+)\b(?!\s*[\({])" % "|".join(ENUMS), code):
            if "=>" in code and code.index("=>") > m.start():
                continue                                   # a pattern, not a value
            for v in sorted(variants.get(m.group(1), ())):
                if v != m.group(2):
                    out.append((i, "%s::%s->%s" % (m.group(1), m.group(2), v), code[:m.start(2)] + v + code[m.end(2):] + l[len(code):]))
                    break
        m = re.search(r"= Some\((.*)\);\s*$", code)
        if m:
            out.append((i, "Some->None", code[:m.start()] + "= None;\n"))
        # negate the condition of a plain `if` / `else if` / `while`
        m = re.match(r"^(\s*(?:\} else )?(?:if|while) )(?!let )(.+?)( \{\s*)$", code.rstrip("\n") if code.endswith("\n") else code)
        if m and "{" not in m.group(2):
            out.append((i, "negate-condition", m.group(1) + "!(" + m.group(2) + ")" + m.group(3) + l[len(code):] + ("" if l.endswith("\n") and (m.group(3) + l[len(code):]).endswith("\n") else "")))
        for a, b in (("break;", "continue;"), ("continue;", "break;"), (" += ", " -= "), (" -= ", " += ")):
            if a in code:
                out.append((i, "%s->%s" % (a.strip(), b.strip()), code.replace(a, b, 1) + l[len(code):]))
        # statement deletion: a call statement on its own line
        st = code.strip()
        if st.endswith(";") and not st.startswith(("let ", "return", "use ", "pub ", "}", "break", "continue")) and "=" not in st.split("(")[0]:
            out.append((i, "delete-statement", re.match(r"\s*", l).group(0) + "// deleted\n"))
    return out


def main():
    rel = sys.argv[1]
    streams = sys.argv[2].split(",")
    mx = int(sys.argv[sys.argv.index("--max") + 1]) if "--max" in sys.argv else 60
    seed = int(sys.argv[sys.argv.index("--seed") + 1]) if "--seed" in sys.argv else 1
    outp = sys.argv[sys.argv.index("--out") + 1] if "--out" in sys.argv else "/verif/work/mutants-%s.txt" % os.path.basename(rel)
    crate = "omaha_client" if rel.startswith("omaha-client") else "mock-omaha-server"
    # scratch copies
    if not os.path.isdir(WT):
        sh(["git", "-C", REPO, "worktree", "add", "--detach", WT, "HEAD"])
    sh("git checkout -q -- . && git clean -fdq -e target", cwd=WT)
    if not os.path.isdir(HC):
        shutil.copytree("/verif/harness", HC, ignore=shutil.ignore_patterns("target", "corpus"))
    else:
        for sub in ("src", "Cargo.toml", "Cargo.lock"):
            s = os.path.join("/verif/harness", sub); d = os.path.join(HC, sub)
            if os.path.isdir(s):
                shutil.rmtree(d, ignore_errors=True); shutil.copytree(s, d)
            elif os.path.exists(s):
                shutil.copy(s, d)
    t = open(os.path.join(HC, "Cargo.toml")).read().replace("/repo/", WT + "/")
    open(os.path.join(HC, "Cargo.toml"), "w").write(t)
    path = os.path.join(WT, rel)
    lines = open(path).read().split("\n")
    lines = [l + "\n" for l in lines]
    hi = len(lines)
    for i, l in enumerate(lines):
        if l.strip() == "#[cfg(test)]" and i + 1 < len(lines) and lines[i + 1].strip().startswith("mod "):
            if "{" in lines[i + 1]:
                hi = i; break
    ms = mutants_of(lines, 0, hi)
    random.Random(seed).shuffle(ms)
    ms = ms[:mx]
    log = open(outp, "a")
    log.write("# %s streams=%s candidates=%d seed=%d %s\n" % (rel, streams, len(ms), seed, time.ctime()))
    stats = {"nocompile": 0, "suite": 0, "corr": 0, "SURVIVED": 0}
    # baseline outputs of the model are recomputed per mutant (inputs depend on the implementation only via generation)
    for k, (i, what, new) in enumerate(ms):
        orig = lines[i]
        lines[i] = new
        open(path, "w").write("".join(lines))
        verdict = None
        # (the mock crate only compiles together with the client crate: feature unification)
        cmd = "cargo test --workspace --offline -j 8 2>&1 | grep -E 'test result|error|panicked' | tail -15" if crate != "omaha_client" else "cargo test -p %s --lib --offline -j 8 2>&1 | tail -15" % crate
        rc, out = sh(cmd, cwd=WT, timeout=900)
        if "TIMEOUT" in out or rc in (124, 137):
            verdict = "suite"
        elif "error[" in out or "error:" in out and "could not compile" in out:
            verdict = "nocompile"
        elif "test result: FAILED" in out or "panicked" in out and "test result: ok" not in out:
            verdict = "suite"
        elif "test result: ok" not in out:
            verdict = "nocompile"
        if verdict is None:
            rc, out = sh("cargo build --release --offline -j 8 2>&1 | tail -3", cwd=HC, timeout=1500)
            if rc != 0 or "error" in out:
                verdict = "nocompile"
            else:
                diffs = 0
                detail = ""
                for s in streams:
                    od = "/tmp/wt/mut-out"
                    shutil.rmtree(od, ignore_errors=True); os.makedirs(od)
                    rc, out = sh([os.path.join(HC, "target/release/omaha-verif-harness"), s, "--seed", "1", "--tier", "quick", "--out", od], cwd=HC, timeout=600)
                    if rc != 0:
                        diffs += 1; detail = "harness rc=%d" % rc; break
                    base = os.path.join(od, s)
                    with open(base + ".in", "rb") as fin, open(base + ".model", "wb") as fout:
                        subprocess.run([MODEL], stdin=fin, stdout=fout, timeout=1500)
                    a = open(base + ".impl").read().split("\n"); b = open(base + ".model").read().split("\n")
                    n = sum(1 for x, y in zip(a, b) if x != y and not (y == "outside-model" and x not in ("panic", "crash")))
                    if n or len(a) != len(b):
                        diffs += n + abs(len(a) - len(b)); detail = "%s:%d" % (s, n); break
                verdict = "corr" if diffs else "SURVIVED"
        stats[verdict] += 1
        log.write("%s line %d [%s] %s\n" % (verdict, i + 1, what, orig.strip()[:150]))
        if verdict == "SURVIVED":
            log.write("    mutated: %s\n" % new.strip()[:200])
        log.flush()
        lines[i] = orig
    open(path, "w").write("".join(lines))
    log.write("# done %s\n" % json.dumps(stats))
    log.close()
    print(json.dumps(stats))


if __name__ == "__main__":
    main()
