/-
`omaha_model`: reads one operation per line on stdin, prints one answer per line.
The answer is computed by the very definitions the theorems in `Omaha/Props` are about.
-/
import Omaha.Drv.Version
import Omaha.Drv.Time
import Omaha.Drv.Cup
import Omaha.Drv.Request
import Omaha.Drv.Response
import Omaha.Drv.Uri
import Omaha.Drv.SM
import Omaha.Drv.Gen
import Omaha.Drv.Mock
import Omaha.Drv.Storage
import Omaha.Drv.Chan

open Omaha Omaha.Drv

def handleLine (line : String) : String :=
  match words line with
  | "version" :: rest => handleVersion rest
  | "time" :: rest => handleTime rest
  | "cup" :: rest => handleCup rest
  | "wire-req" :: rest => handleRequest rest
  | "resp" :: rest => handleResponse rest
  | "uri" :: rest => handleUri rest
  | "sm" :: rest => handleSM rest
  | "gen" :: rest => handleGen rest
  | "mock" :: rest => handleMock rest
  | "storage" :: rest => handleStorage rest
  -- the real state machine against the in-process mock: units against the state-machine model, the
  -- exchanges against the mock model
  | "smmock" :: "sm" :: rest => handleSM rest
  | "smmock" :: "mock" :: rest => handleMock rest
  -- the implementation compared with itself under storage failures: the model's answer is what
  -- `storage_failures_invisible_history` (Props/C14) proves, for every history
  | "smfault" :: _ => "same"
  | "ctl" :: "seq" :: script :: _ => handleChan [script]
  -- single-shot channel closure cases: the two constants `gone_not_hanging` / `dropHandles_noop` (Props/C11Chan) give
  | "ctl" :: "gone" :: _ => "gone"
  | "ctl" :: "dropped" :: _ => "runs"
  | _ => "bad-op"

partial def loop (h : IO.FS.Stream) (out : IO.FS.Stream) : IO Unit := do
  let line ← h.getLine
  if line.isEmpty then return ()
  out.putStrLn (handleLine line)
  loop h out

def main : IO Unit := do
  let out ← IO.getStdout
  loop (← IO.getStdin) out
  out.flush
