import Omaha.Basic.Bytes
import Omaha.Version
