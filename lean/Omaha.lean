import Omaha.Basic.Bytes
import Omaha.Version
import Omaha.Time
import Omaha.Cup
import Omaha.Request
import Omaha.Response
import Omaha.Uri
