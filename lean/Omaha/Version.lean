/-
Model of omaha-client/src/version.rs: `FromStr`, `Display`, `From<[u32; n]>`, derived `Ord`/`Eq`,
and the serde impls (a JSON string holding exactly the `Display` text).
-/
import Omaha.Basic.Bytes

namespace Omaha

/-- `Version([u32; 4])`. Components are `Nat`; `WF` says they fit in 32 bits. -/
structure Version where
  a : Nat
  b : Nat
  c : Nat
  d : Nat
  deriving DecidableEq, Repr, Inhabited

namespace Version

def WF (v : Version) : Prop :=
  v.a ≤ Dec.u32Max ∧ v.b ≤ Dec.u32Max ∧ v.c ≤ Dec.u32Max ∧ v.d ≤ Dec.u32Max

instance (v : Version) : Decidable v.WF := by unfold WF; infer_instance

def toList (v : Version) : List Nat := [v.a, v.b, v.c, v.d]

/-- `From<[u32; n]>` for n = 1..4 (and the zero fill `from_str` performs): missing trailing
components are zero. Lists longer than four are not convertible (no such `From` impl). -/
def ofList : List Nat → Option Version
  | [] => some ⟨0, 0, 0, 0⟩          -- only reachable through `parse`, never (split is non-empty)
  | [a] => some ⟨a, 0, 0, 0⟩
  | [a, b] => some ⟨a, b, 0, 0⟩
  | [a, b, c] => some ⟨a, b, c, 0⟩
  | [a, b, c, d] => some ⟨a, b, c, d⟩
  | _ => none

/-- `mapM` over `Option` written out (keeps proofs first-order). -/
def parseParts : List Bytes → Option (List Nat)
  | [] => some []
  | p :: ps =>
    match Dec.parseU32 p, parseParts ps with
    | some n, some ns => some (n :: ns)
    | _, _ => none

/-- `Version::from_str`: split on '.', every part parsed by `u32::from_str`, at most four parts.
The two error kinds are not distinguished. -/
def parse (s : Bytes) : Option Version :=
  let parts := Bytes.splitOn 46 s
  if parts.length > 4 then none
  else match parseParts parts with
    | some ns => ofList ns
    | none => none

/-- `Display`: the four components joined by '.'. -/
def print (v : Version) : Bytes :=
  Bytes.joinWith 46 (v.toList.map Dec.render)

/-- Derived `Ord` on `[u32; 4]`: lexicographic, numeric per component. -/
def cmp (v w : Version) : Ordering :=
  (compare v.a w.a).then ((compare v.b w.b).then ((compare v.c w.c).then (compare v.d w.d)))

/-- serde `Serialize`: the JSON string token holding the display text (no character of it needs
escaping). -/
def toJsonText (v : Version) : Bytes := 34 :: (print v ++ [34])

end Version
end Omaha
