/-
The store is a replay of the logged storage operations ("storage log" chain).

`Sl w w'`: the trace of `w'` extends that of `w` by some actions `d`, and the store of `w'` is the
store of `w` with the *successful storage operations among `d`* applied in order.  One lemma per model
function, up to `runUnits`: nothing in the model changes the store except through a logged operation.
Consequence (Props/C08): what survives a crash after any prefix of a history's trace is determined by
the storage operations of that prefix, and the committed map only ever changes at a logged,
successful `commit`.
-/
import Omaha.Lemmas.SMSim

namespace Omaha.SM

open Omaha

/-- Apply the successful storage operations among `d` (newest first), oldest first. -/
def replay : List Action → Store → Store
  | [], s => s
  | a :: older, s =>
    match a with
    | .storage op true => applyOp op (replay older s)
    | _ => replay older s

theorem replay_append (d2 d1 : List Action) (s : Store) : replay (d2 ++ d1) s = replay d2 (replay d1 s) := by
  induction d2 with
  | nil => rfl
  | cons a d2 ih =>
    simp only [List.cons_append, replay, ih]

structure Sl (w w' : World) : Prop where
  ext : ∃ d, w'.trace = d ++ w.trace ∧ w'.store = replay d w.store

theorem Sl.refl (w : World) : Sl w w := ⟨⟨[], rfl, rfl⟩⟩

theorem Sl.trans {w1 w2 w3 : World} (h1 : Sl w1 w2) (h2 : Sl w2 w3) : Sl w1 w3 := by
  obtain ⟨d1, e1, s1⟩ := h1
  obtain ⟨d2, e2, s2⟩ := h2
  exact ⟨⟨d2 ++ d1, by rw [e2, e1, List.append_assoc], by rw [s2, s1, replay_append]⟩⟩

theorem sl_emit (a : Action) (w : World) (h : ∀ op, a ≠ .storage op true) : Sl w (emit a w) := by
  refine ⟨⟨[a], rfl, ?_⟩⟩
  cases a with
  | storage op ok =>
    cases ok with
    | true => exact absurd rfl (h op)
    | false => rfl
  | _ => rfl

theorem sl_yield (e : Event) (w : World) : Sl w (yieldEv e w) := sl_emit _ _ (fun _ h => by cases h)
theorem sl_metric (m : Metric) (w : World) : Sl w (metric m w) := sl_emit _ _ (fun _ h => by cases h)

theorem sl_same {w w' : World} (ht : w'.trace = w.trace) (hs : w'.store = w.store) : Sl w w' :=
  ⟨⟨[], by simp [ht], by simp [replay, hs]⟩⟩

theorem sl_upd (w w' : World) (ht : w'.trace = w.trace) (hs : w'.store = w.store) : Sl w w' := sl_same ht hs

theorem sl_pre {w w' w'' : World} (h : Sl w' w'') (ht : w'.trace = w.trace) (hs : w'.store = w.store) : Sl w w'' :=
  (sl_same ht hs).trans h

theorem sl_tick (dt : Clock) (w : World) : Sl w (tick dt w) := sl_same rfl rfl

theorem popFail_same (w : World) : (popFail w).2.trace = w.trace ∧ (popFail w).2.store = w.store := by
  unfold popFail
  split <;> exact ⟨rfl, rfl⟩

/-- **The one place the store changes**: a storage operation is logged with its success flag, and the
store changes exactly when the flag says it succeeded. -/
theorem sl_storeOp (op : StoreOp) (w : World) : Sl w (storeOp op w).2 := by
  unfold storeOp
  obtain ⟨ht, hs⟩ := popFail_same w
  generalize popFail w = p at ht hs
  obtain ⟨fail, w1⟩ := p
  simp only at ht hs ⊢
  cases fail with
  | true =>
    simp only [if_true]
    exact ⟨⟨[.storage op false], by simp [emit, ht], by simp [emit, replay, hs]⟩⟩
  | false =>
    simp only [Bool.false_eq_true, if_false]
    exact ⟨⟨[.storage op true], by simp [emit, ht], by simp [emit, replay, hs]⟩⟩

theorem sl_storeOp_ (op : StoreOp) (w : World) : Sl w (storeOp_ op w) := sl_storeOp op w

theorem sl_setOptionInt (k : Bytes) (v : Option Int) (w : World) : Sl w (setOptionInt k v w).2 := by
  unfold setOptionInt; split <;> exact sl_storeOp _ _

theorem sl_setTime (k : Bytes) (t : Int) (w : World) : Sl w (setTime k t w).2 := sl_setOptionInt _ _ _

theorem sl_persistCtx (w : World) : Sl w (persistCtx w) := by
  unfold persistCtx
  simp only
  exact ((sl_setOptionInt _ _ w).trans (sl_setOptionInt _ _ _)).trans (sl_setOptionInt _ _ _)

theorem sl_persistApps (apps : List App) (w : World) : Sl w (persistApps apps w) := by
  induction apps generalizing w with
  | nil => exact Sl.refl _
  | cons a rest ih => exact (sl_storeOp_ _ w).trans (ih _)

theorem sl_persistData (w : World) : Sl w (persistData w) := by
  unfold persistData
  exact ((sl_persistCtx w).trans (sl_persistApps _ _)).trans (sl_storeOp_ _ _)

theorem sl_recordNewPlan (planId : Bytes) (now : Int) (w : World) : Sl w (recordNewPlan planId now w).2 := by
  unfold recordNewPlan
  have h1 := sl_storeOp (.set kInstallPlanId (.str planId)) w
  split
  · exact h1
  · have h2 := h1.trans (sl_setTime kFirstSeen now _)
    split
    · exact h2.trans (sl_storeOp_ _ _)
    · exact h2.trans (sl_storeOp_ _ _)

theorem sl_recordFirstSeen (planId : Bytes) (now : Int) (w : World) : Sl w (recordFirstSeen planId now w).2 := by
  unfold recordFirstSeen
  split
  · exact Sl.refl _
  · exact sl_recordNewPlan _ _ _

theorem sl_durationMetric (startWall : Int) (results : List AppResult) (w : World) : Sl w (durationMetric startWall results w).2 := by
  unfold durationMetric
  split
  · exact sl_metric _ _
  · exact Sl.refl _

theorem sl_recordFinish (planId : Nat) (firstSeen finish : Int) (nv : List (Bytes × Option Bytes)) (w : World) :
    Sl w (recordFinish planId firstSeen finish nv w).2 := by
  unfold recordFinish
  simp only
  have h1 : Sl w (firstSeenMetric firstSeen finish w) := by
    unfold firstSeenMetric
    split
    · exact sl_metric _ _
    · exact Sl.refl _
  have h2 := h1.trans (sl_setTime kFinishTime finish _)
  generalize (setTime kFinishTime finish (firstSeenMetric firstSeen finish w)).2 = w2 at h2
  have h3 : Sl w (setTargetVersion nv w2) := by
    unfold setTargetVersion
    split
    · exact h2.trans (sl_storeOp_ _ _)
    · exact h2
  exact (h3.trans (sl_storeOp_ .commit _)).trans (sl_emit _ _ (fun _ h => by cases h))

theorem sl_applyPoll (poll : Option Nat) (w : World) : Sl w (applyPoll poll w) := by
  unfold applyPoll
  split
  · have h0 : Sl w ({ w with ctx := { w.ctx with st := { w.ctx.st with poll := poll } } } : World) := sl_same rfl rfl
    exact ((h0.trans (sl_yield _ _)).trans (sl_persistCtx _)).trans (sl_storeOp_ _ _)
  · exact Sl.refl _

theorem sl_handleOutcome (o : HttpOutcome) (w : World) : Sl w (handleOutcome o w).2 := by
  unfold handleOutcome
  cases o with
  | fail k dt => exact sl_tick _ _
  | response status ra body auth dt =>
    simp only
    split
    · exact sl_tick _ _
    · split
      · exact (sl_tick dt w).trans (sl_applyPoll _ _)
      · exact (sl_tick dt w).trans (sl_applyPoll _ _)

theorem sendRequest_store (k : ReqKind) (b : Request.Builder) (w : World) :
    ∃ req, (sendRequest k b w).2.trace = .http req (sendRequest k b w).1 :: w.trace ∧ (sendRequest k b w).2.store = w.store := by
  obtain ⟨req, _, ht⟩ := sendRequest_trace k b w
  refine ⟨req, ht, ?_⟩
  unfold sendRequest
  simp only [emit]
  have hp : ∀ x : World, (popHttp k x).2.store = x.store := by
    intro x; unfold popHttp
    cases k <;> simp only <;> split <;> rfl
  split <;> rw [hp]

theorem sl_request (k : ReqKind) (b : Request.Builder) (w : World) :
    Sl w (omahaRequest k (withRequestId b w).1 (withRequestId b w).2).2 := by
  unfold omahaRequest
  have h0 : Sl w (withRequestId b w).2 := sl_same rfl rfl
  generalize withRequestId b w = bw at h0
  obtain ⟨b1, w1⟩ := bw
  simp only at h0 ⊢
  split
  · exact h0.trans (sl_emit _ _ (fun _ h => by cases h))
  · obtain ⟨req, ht, hs⟩ := sendRequest_store k b1 w1
    have h1 : Sl w1 (sendRequest k b1 w1).2 := ⟨⟨[.http req (sendRequest k b1 w1).1], ht, by simp [replay, hs]⟩⟩
    exact (h0.trans h1).trans (sl_handleOutcome _ _)

/-! ### The chain -/

theorem sl_backoff (attempt : Nat) (w : World) : Sl w (backoff attempt w) := by
  unfold backoff
  simp only
  have h1 : Sl w (popJitter w).2.2 := by
    rw [popJitter_eq]; exact sl_same rfl rfl
  exact (h1.trans (sl_emit _ _ (fun _ h => by cases h))).trans (sl_same rfl rfl)

theorem sl_attemptLoop (fuel attempt : Nat) (b : Request.Builder) (w : World) : Sl w (attemptLoop fuel attempt b w).2.2 := by
  induction fuel generalizing attempt b w with
  | zero => unfold attemptLoop; exact Sl.refl _
  | succ fuel ih =>
    unfold attemptLoop
    simp only
    have h1 := sl_request .updateCheck b w
    generalize omahaRequest .updateCheck (withRequestId b w).1 (withRequestId b w).2 = r at h1
    have h2 : Sl w (if w.clock.mono ≤ r.2.clock.mono then metric (.responseTime (r.2.clock.mono - w.clock.mono).toNat (isOk r.1)) r.2 else r.2) := by
      split
      · exact h1.trans (sl_metric _ _)
      · exact h1
    generalize (if w.clock.mono ≤ r.2.clock.mono then metric (.responseTime (r.2.clock.mono - w.clock.mono).toNat (isOk r.1)) r.2 else r.2) = wm at h2
    cases r.1 with
    | ok body => exact h2
    | error f =>
      simp only
      split
      · exact h2.trans (sl_yield _ _)
      · exact (h2.trans (sl_backoff attempt wm)).trans (ih _ _ _)

theorem sl_reportEvent (params : RequestParams) (ev : Omaha.Event) (apps : List App) (session : Nat)
    (nv : List (Bytes × Option Bytes)) (ns : Option Nat) (w : World) :
    Sl w (reportEvent params ev apps session nv ns w) := by
  unfold reportEvent
  simp only
  generalize ({ (List.foldl _ _ apps : Request.Builder) with sessionId := some (guidBytes session) } : Request.Builder) = b1
  have h1 := sl_request .eventReport b1 w
  split
  · exact h1
  · exact h1.trans (sl_metric _ _)

theorem sl_lostFold (evs : List (App × Omaha.Event)) (w : World) :
    Sl w (evs.foldl (fun w (x : App × Omaha.Event) => metric (.eventLost x.2) w) w) := by
  induction evs generalizing w with
  | nil => exact Sl.refl _
  | cons e rest ih => exact (sl_metric _ w).trans (ih _)

theorem sl_reportResults (params : RequestParams) (evs : List (App × Omaha.Event)) (session : Nat) (w : World) :
    Sl w (reportResults params evs session w) := by
  unfold reportResults
  simp only
  generalize ({ (List.foldl _ _ evs : Request.Builder) with sessionId := some (guidBytes session) } : Request.Builder) = b1
  have h1 := sl_request .eventReport b1 w
  split
  · exact h1
  · exact h1.trans (sl_lostFold _ _)

theorem sl_reportCheckInterval (src : InstallSource) (w : World) : Sl w (reportCheckInterval src w) := by
  unfold reportCheckInterval
  simp only
  have fr : ∀ w1 : World, Sl w w1 → Sl w { w1 with ctx := { w1.ctx with sched := { w1.ctx.sched with lastCheck := some (.complex ⟨w.clock.wall, w.clock.mono⟩) } } } :=
    fun w1 h => h.trans (sl_same rfl rfl)
  apply fr
  split
  · split
    · exact sl_metric _ _
    · exact Sl.refl _
  · split
    · exact sl_metric _ _
    · exact Sl.refl _
  · exact Sl.refl _

theorem sl_progressFold (ps : List Nat) (w : World) : Sl w (ps.foldl (fun w k => yieldEv (.progress k) w) w) := by
  induction ps generalizing w with
  | nil => exact Sl.refl _
  | cons p rest ih => exact (sl_yield _ w).trans (ih _)

theorem sl_insterrFold (ms : List Nat) (w : World) : Sl w (ms.foldl (fun w m => yieldEv (.installerError m) w) w) := by
  induction ms generalizing w with
  | nil => exact Sl.refl _
  | cons p rest ih => exact (sl_yield _ w).trans (ih _)

theorem sl_runInstall (planId : Nat) (w : World) : Sl w (runInstall planId w) := by
  unfold runInstall
  exact ((sl_emit (.install planId w.env.progress w.env.results) w (fun _ h => by cases h)).trans (sl_progressFold _ _)).trans
    (sl_tick _ _)

theorem sl_reportInstall (params : RequestParams) (apps : List App) (session : Nat) (nv : List (Bytes × Option Bytes))
    (response : Resp.Response) (results : List AppResult) (ns : Option Nat) (w : World) :
    Sl w (reportInstall params apps session nv response results ns w) := by
  unfold reportInstall
  simp only
  have h := sl_reportResults params (resultEvents (knownResults apps response results) ns) session w
  split
  · exact h
  · exact h.trans (sl_reportEvent _ _ _ _ _ _ _)

theorem sl_finishInstall (planId : Nat) (firstSeen finish : Int) (nv : List (Bytes × Option Bytes))
    (response : Resp.Response) (results : List AppResult) (w : World) :
    Sl w (finishInstall planId firstSeen finish nv response results w).2 := by
  unfold finishInstall
  split
  · exact (sl_insterrFold _ _).trans (sl_yield _ _)
  · exact sl_recordFinish _ _ _ _ _

theorem sl_installPhase (params : RequestParams) (apps : List App) (session : Nat)
    (nv : List (Bytes × Option Bytes)) (response : Resp.Response) (planId : Nat) (w : World) :
    Sl w (installPhase params apps session nv response planId w).2 := by
  unfold installPhase
  simp only
  have h1 := (sl_yield (.state .installing) w).trans (sl_reportEvent params (eventSuccess 13) apps session nv none _)
  generalize reportEvent params (eventSuccess 13) apps session nv none (yieldEv (.state .installing) w) = w1 at h1
  have h2 := h1.trans (sl_recordFirstSeen (planIdText planId) w1.clock.wall w1)
  generalize recordFirstSeen (planIdText planId) w1.clock.wall w1 = r2 at h2
  have h3 := h2.trans (sl_runInstall planId r2.2)
  generalize runInstall planId r2.2 = w3 at h3
  have h4 := h3.trans (sl_durationMetric w1.clock.wall r2.2.env.results w3)
  generalize durationMetric w1.clock.wall r2.2.env.results w3 = r4 at h4
  have h5 := h4.trans (sl_reportInstall params apps session nv response r2.2.env.results r4.1 r4.2)
  exact h5.trans (sl_finishInstall _ _ _ _ _ _ _)

theorem sl_updatePhase (params : RequestParams) (apps : List App) (session : Nat) (response : Resp.Response)
    (w : World) : Sl w (updatePhase params apps session response w).2 := by
  unfold updatePhase
  simp only
  have h0 := sl_emit (.plan params.source w.cup.isSome w.env.plan) w (fun _ h => by cases h)
  split
  · unfold planFailedPhase
    exact ((h0.trans (sl_yield _ _)).trans (sl_yield _ _)).trans (sl_reportEvent _ _ _ _ _ _ _)
  · rename_i planId _
    have h1 := h0.trans (sl_emit (.policyCanStart planId (emit (.plan params.source w.cup.isSome w.env.plan) w).env.canStart) _ (fun _ h => by cases h))
    split
    · unfold deferredPhase
      exact (h1.trans (sl_reportEvent _ _ _ _ _ _ _)).trans (sl_yield _ _)
    · unfold deniedPhase
      exact h1.trans (sl_reportEvent _ _ _ _ _ _ _)
    · exact h1.trans (sl_installPhase _ _ _ _ _ _ _)

theorem sl_responsePhase (params : RequestParams) (apps : List App) (session : Nat) (body : Bytes) (w : World) :
    Sl w (responsePhase params apps session body w).2 := by
  unfold responsePhase
  split
  · exact Sl.refl _
  · unfold parseFailedPhase
    exact (sl_yield _ w).trans (sl_reportEvent _ _ _ _ _ _ _)
  · rename_i response _
    simp only
    have h0 := sl_yield (.serverResponse response) w
    split
    · unfold noUpdatePhase
      exact h0.trans (sl_yield _ _)
    · exact h0.trans (sl_updatePhase _ _ _ _ _)

theorem sl_requestPhase (params : RequestParams) (apps : List App) (w : World) :
    Sl w (requestPhase params apps w).2.2 := by
  unfold requestPhase
  simp only
  have h0 := (sl_yield (.state (.checking params.source)) w).trans (sl_reportCheckInterval params.source _)
  generalize reportCheckInterval params.source (yieldEv (.state (.checking params.source)) w) = w1 at h0
  have hs : Sl w1 (nextGuid w1).2 := sl_same rfl rfl
  exact (h0.trans hs).trans (sl_attemptLoop 3 1 (checkBuilder params apps (nextGuid w1).1) (nextGuid w1).2)

theorem sl_performUpdateCheck (params : RequestParams) (apps : List App) (w : World) :
    Sl w (performUpdateCheck params apps w).2 := by
  rw [performUpdateCheck_eq]
  have h := sl_requestPhase params apps w
  generalize requestPhase params apps w = r at h
  obtain ⟨res, attempts, w2⟩ := r
  cases res with
  | error f => exact h.trans (sl_metric _ _)
  | ok body => exact (h.trans (sl_metric _ _)).trans (sl_responsePhase _ _ _ _ _)

/-! ### Beyond one check: pings, the reboot wait, iterations of `run`, histories -/

theorem sl_reportAttemptsCheck (success : Bool) (w : World) : Sl w (reportAttemptsCheck success w) := by
  unfold reportAttemptsCheck
  simp only
  split
  · refine Sl.trans ?_ (sl_metric _ _)
    exact sl_upd _ _ rfl rfl
  · exact sl_upd _ _ rfl rfl

theorem sl_reportAttemptsInstall (s : Bool) (w : World) : Sl w (reportAttemptsInstall s w) := by
  unfold reportAttemptsInstall
  simp only
  split
  · exact (sl_metric _ w).trans (sl_storeOp_ _ _)
  · exact (sl_metric _ w).trans (sl_storeOp_ _ _)

theorem sl_setLastUpdate (w : World) : Sl w (setLastUpdate w) := sl_upd _ _ rfl rfl

theorem sl_prepareOk (ok : CheckOk) (w : World) : Sl w (prepareOk ok w) := by
  unfold prepareOk
  simp only
  have h1 : Sl w (reportAttemptsCheck true (setLastUpdate w)) :=
    (sl_setLastUpdate w).trans (sl_reportAttemptsCheck _ _)
  generalize reportAttemptsCheck true (setLastUpdate w) = x at h1
  have h2 : Sl w ({ x with apps := updateFromOmaha x.apps ok.responses } : World) :=
    h1.trans (sl_upd _ _ rfl rfl)
  split
  · exact h2.trans (sl_reportAttemptsInstall _ _)
  · exact h2

theorem sl_prepareErr (e : CheckErr) (w : World) : Sl w (prepareErr e w) := by
  unfold prepareErr
  simp only
  have h1 : Sl w (if talkedToOmaha e = true then setLastUpdate w else w) := by
    split
    · exact sl_setLastUpdate w
    · exact Sl.refl _
  exact (h1.trans (sl_metric _ _)).trans (sl_reportAttemptsCheck _ _)

theorem sl_closeCheck (r : Except CheckErr (List AppResp)) (w : World) : Sl w (closeCheck r w) := by
  unfold closeCheck
  simp only
  exact (((sl_yield _ w).trans (sl_yield _ _)).trans (sl_yield _ _)).trans (sl_persistData _)

theorem sl_startUpdateCheck (params : RequestParams) (w : World) : Sl w (startUpdateCheck params w).2 := by
  unfold startUpdateCheck
  have h1 := sl_performUpdateCheck params w.apps w
  generalize performUpdateCheck params w.apps w = pr at h1
  obtain ⟨res, w1⟩ := pr
  cases res with
  | none => exact h1
  | some cr =>
    cases cr with
    | ok ok => exact (h1.trans (sl_prepareOk ok w1)).trans (sl_closeCheck _ _)
    | error e => exact (h1.trans (sl_prepareErr e w1)).trans (sl_closeCheck _ _)

theorem sl_pingOmaha (w : World) : Sl w (pingOmaha w).2 := by
  unfold pingOmaha
  simp only
  generalize (List.foldl (fun b app => b.apply (.ping app)) ({ params := { source := .scheduledTask, useConfiguredProxies := true } } : Request.Builder) w.apps) = b0
  have h0 : Sl w (nextGuid w).2 := sl_same rfl rfl
  generalize ({ b0 with sessionId := some (guidBytes (nextGuid w).1) } : Request.Builder) = b1
  have h1 := h0.trans (sl_request .ping b1 (nextGuid w).2)
  generalize omahaRequest .ping (withRequestId b1 (nextGuid w).2).1 (withRequestId b1 (nextGuid w).2).2 = r at h1
  obtain ⟨res, w1⟩ := r
  have hfail : ∀ x : World, Sl x (pingFailed x) := by
    intro x; unfold pingFailed
    exact sl_pre (sl_persistData _) rfl rfl
  cases res with
  | error f => exact h1.trans (hfail _)
  | ok body =>
    simp only
    split
    · exact h1
    · exact h1.trans (hfail _)
    · rename_i response _
      refine h1.trans ?_
      unfold pingSucceeded
      simp only
      have t1 : Sl w1 (setLastUpdate { w1 with ctx := { w1.ctx with st := { w1.ctx.st with failures := 0 } } }) := sl_same rfl rfl
      generalize setLastUpdate { w1 with ctx := { w1.ctx with st := { w1.ctx.st with failures := 0 } } } = x at t1
      have t2 := t1.trans (sl_yield (.schedule x.ctx.sched) x)
      refine t2.trans ?_
      exact sl_pre (sl_persistData _) rfl rfl

theorem sl_updateNext (t : Timing) (w : World) : Sl w (updateNext t w) := by
  unfold updateNext
  simp only
  refine (sl_emit (.policyNext w.apps w.ctx.sched w.ctx.st t) w (fun _ h => by cases h)).trans ?_
  exact sl_pre (sl_yield _ _) rfl rfl

theorem sl_armWait (t : Timing) (w : World) : Sl w (armWait t w).2 := by
  unfold armWait
  split
  · simp only
    exact ((sl_emit _ w (fun _ h => by cases h)).trans (sl_emit _ _ (fun _ h => by cases h))).trans (sl_same rfl rfl)
  · simp only
    exact (sl_emit _ w (fun _ h => by cases h)).trans (sl_same rfl rfl)

theorem sl_rebootLoop (opts : InstallSource) (t30 : Nat) (pingNeed : List Nat) (steps : List (WaitStep × Clock))
    (answers : List Bool) (nexts : List Timing) (w : World) :
    Sl w (rebootLoop opts t30 pingNeed steps answers nexts w).2 := by
  induction steps generalizing opts t30 pingNeed answers nexts w with
  | nil => unfold rebootLoop; exact Sl.refl _
  | cons sd rest ih =>
    obtain ⟨step, dt⟩ := sd
    unfold rebootLoop
    simp only
    have h0 : Sl w (tick dt w) := sl_tick _ _
    cases step with
    | fire i =>
      simp only
      have h1 := h0.trans (sl_emit (.timerFire i) (tick dt w) (fun _ h => by cases h))
      split
      · have h2 := h1.trans (sl_emit (.policyRebootAllowed opts (popBool answers).1) _ (fun _ h => by cases h))
        split
        · exact h2
        · refine (h2.trans (sl_emit (.timerArm (.for_ (1800 * 1000000000))) _ (fun _ h => by cases h))).trans ?_
          exact sl_pre (ih _ _ _ _ _ _) rfl rfl
      · split
        · have h2 := h1.trans (sl_pingOmaha _)
          generalize pingOmaha (emit (.timerFire i) (tick dt w)) = pr at h2
          obtain ⟨r, w1⟩ := pr
          cases r with
          | none => exact h2
          | some u =>
            simp only
            exact ((h2.trans (sl_updateNext (popTiming nexts).1 w1)).trans (sl_armWait (popTiming nexts).1 _)).trans (ih _ _ _ _ _ _)
        · exact h1.trans (ih _ _ _ _ _ _)
    | ctl id src =>
      simp only
      have h1 := h0.trans (sl_emit (.reply id .alreadyRunning) (tick dt w) (fun _ h => by cases h))
      split
      · have h2 := h1.trans (sl_emit (.policyRebootAllowed .onDemand (popBool answers).1) _ (fun _ h => by cases h))
        split
        · exact h2
        · exact h2.trans (ih _ _ _ _ _ _)
      · exact h1.trans (ih _ _ _ _ _ _)

theorem sl_waitForReboot (opts : InstallSource) (u : UnitEnv) (w : World) : Sl w (waitForReboot opts u w).2 := by
  unfold waitForReboot doReboot
  have hw : Sl w (rebootWait opts u w).2 := by
    unfold rebootWait
    simp only
    have h0 := sl_emit (.policyRebootAllowed opts (popBool u.rebootAllowed).1) w (fun _ h => by cases h)
    generalize emit (.policyRebootAllowed opts (popBool u.rebootAllowed).1) w = w0 at h0
    split
    · exact h0
    · have h1 := h0.trans (sl_emit (.timerArm (.for_ (1800 * 1000000000))) w0 (fun _ h => by cases h))
      generalize emit (.timerArm (.for_ (1800 * 1000000000))) w0 = w1 at h1
      have h2 : Sl w ({ w1 with nTimer := w1.nTimer + 1 }) := h1.trans (sl_same rfl rfl)
      exact ((h2.trans (sl_updateNext (popTiming u.rebootNext).1 _)).trans (sl_armWait (popTiming u.rebootNext).1 _)).trans
        (sl_rebootLoop opts w1.nTimer _ u.rebootSteps (popBool u.rebootAllowed).2 (popTiming u.rebootNext).2 _)
  generalize rebootWait opts u w = p at hw
  obtain ⟨d, w1⟩ := p
  cases d with
  | none => exact hw
  | some b =>
    cases b
    · exact hw
    · exact hw.trans (sl_emit (.reboot u.rebootOk) w1 (fun _ h => by cases h))

theorem sl_afterCheck (u : UnitEnv) (opts : InstallSource) (reboot : Option Bool) (w : World) :
    Sl w (afterCheck u opts reboot w).2 := by
  unfold afterCheck
  cases reboot with
  | none => exact Sl.refl _
  | some b =>
    cases b with
    | false => exact sl_yield _ _
    | true =>
      simp only
      have h := (sl_yield (.state .waitingForReboot) w).trans (sl_waitForReboot opts u _)
      generalize waitForReboot opts u (yieldEv (.state .waitingForReboot) w) = p at h
      obtain ⟨r, w1⟩ := p
      cases r with
      | none => exact h
      | some b =>
        cases b
        · exact h
        · exact h.trans (sl_yield _ _)

theorem sl_replyCtl (ctl : Option Nat) (r : Reply) (w : World) : Sl w (replyCtl ctl r w) := by
  unfold replyCtl
  split
  · exact sl_emit _ _ (fun _ h => by cases h)
  · exact Sl.refl _

theorem sl_replyDuring (during : List (Nat × InstallSource)) (w : World) : Sl w (replyDuring during w) := by
  unfold replyDuring
  induction during generalizing w with
  | nil => exact Sl.refl _
  | cons d rest ih => exact (sl_emit _ w (fun _ h => by cases h)).trans (ih _)

theorem sl_decideAndCheck (u : UnitEnv) (opts : InstallSource) (ctl : Option Nat) (w : World) :
    Sl w (decideAndCheck u opts ctl w).2 := by
  unfold decideAndCheck
  simp only
  have h0 := sl_emit (.policyAllowed w.apps w.ctx.sched w.ctx.st opts u.allow) w (fun _ h => by cases h)
  generalize emit (.policyAllowed w.apps w.ctx.sched w.ctx.st opts u.allow) w = w0 at h0
  have pos : ∀ params, Sl w (afterCheck u (upgradeOpts u.during opts)
      (startUpdateCheck params (replyDuring u.during (replyCtl ctl .started w0))).1
      (startUpdateCheck params (replyDuring u.during (replyCtl ctl .started w0))).2).2 := by
    intro params
    exact (((h0.trans (sl_replyCtl _ _ _)).trans (sl_replyDuring _ _)).trans (sl_startUpdateCheck params _)).trans (sl_afterCheck _ _ _ _)
  cases u.allow with
  | tooSoon => exact h0.trans (sl_replyCtl _ _ _)
  | throttled => exact h0.trans (sl_replyCtl _ _ _)
  | denied => exact h0.trans (sl_replyCtl _ _ _)
  | ok params => exact pos params
  | okUpdateDeferred params => exact pos params

theorem sl_outerWait (need : List Nat) (steps : List WaitStep) (w : World) : Sl w (outerWait need steps w).2 := by
  induction steps generalizing need w with
  | nil => unfold outerWait; exact Sl.refl _
  | cons st rest ih =>
    cases st with
    | fire i =>
      unfold outerWait
      simp only
      split
      · exact sl_emit _ _ (fun _ h => by cases h)
      · exact (sl_emit (.timerFire i) w (fun _ h => by cases h)).trans (ih _ _)
    | ctl id src => unfold outerWait; exact Sl.refl _

theorem sl_waitedStep (rs : RunState) (w : World) : Sl w (waitedStep rs w).2 := by
  unfold waitedStep
  split
  · split
    · rename_i fin _
      have hx : ∀ x, reportWaited fin rs.startMono w = some x → Sl w x := by
        intro x h1
        unfold reportWaited at h1
        simp only at h1
        split at h1
        · cases h1
        · split at h1
          · cases h1
          · split at h1
            · cases h1
            · cases h1; exact sl_metric _ _
      cases h1 : reportWaited fin rs.startMono w with
      | none => exact Sl.refl _
      | some x =>
        exact (((hx x h1).trans (sl_storeOp_ _ _)).trans (sl_storeOp_ _ _)).trans (sl_storeOp_ _ _)
    · exact Sl.refl _
  · exact Sl.refl _

theorem sl_runUnit (u : UnitEnv) (rs : RunState) (w : World) : Sl w (runUnit u rs w).2.2 := by
  unfold runUnit
  simp only
  have h0 : Sl w ({ w with env := u.env, nTimer := 0 } : World) := sl_same rfl rfl
  generalize ({ w with env := u.env, nTimer := 0 } : World) = x at h0
  have h4 := ((((h0.trans (sl_waitedStep rs x)).trans (sl_updateNext u.next _)).trans (sl_armWait u.next _)).trans
    (sl_outerWait (armWait u.next (updateNext u.next (waitedStep rs x).2)).1 u.wake _)).trans (sl_tick u.wakeDt _)
  generalize tick u.wakeDt (outerWait (armWait u.next (updateNext u.next (waitedStep rs x).2)).1 u.wake (armWait u.next (updateNext u.next (waitedStep rs x).2)).2).2 = y at h4
  split
  · exact h4
  · exact h4.trans (sl_decideAndCheck _ _ _ _)
  · exact h4.trans (sl_decideAndCheck _ _ _ _)

/-- **The store is the replay of the history's storage log.** Over any number of iterations of `run`,
the final store is the initial store with exactly the successful storage operations of the trace
applied in order: no other part of the model touches storage. -/
theorem history_store_is_replay (us : List UnitEnv) (rs : RunState) (w : World) :
    ∃ d, (runUnits us rs w).2.2.trace = d ++ w.trace ∧ (runUnits us rs w).2.2.store = replay d w.store := by
  have key : Sl w (runUnits us rs w).2.2 := by
    induction us generalizing rs w with
    | nil => exact Sl.refl _
    | cons u rest ih =>
      simp only [runUnits]
      have h1 := sl_runUnit u rs w
      generalize runUnit u rs w = r at h1
      obtain ⟨a, b, x⟩ := r
      cases a with
      | completed => exact h1.trans (ih b x)
      | stalled => exact h1
      | outside => exact h1
  exact key.ext

end Omaha.SM
