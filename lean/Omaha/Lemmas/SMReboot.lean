/-
Tag bounds for the ping and the reboot wait, and for the steps of `run` around the check.
-/
import Omaha.Lemmas.SMGeneric

namespace Omaha.SM

open Omaha

/-- What the reboot wait may do: ask the policy (reboot allowed, next timing), arm and see timers
fire, answer control requests, ping (one request of kind ping, schedule / protocol events,
storage). The reboot itself is not included. -/
def tRebootWait : Tag → Bool
  | .pRebootAllowed | .timerArm | .timerFire | .pNext | .schedEv | .reply => true
  | .http k => k == .ping
  | .storage | .protoEv | .buildErr => true
  | _ => false

/-- A ping: one request of kind ping, a schedule event, protocol events, storage. -/
def tPing : Tag → Bool
  | .http k => k == .ping
  | .schedEv | .storage | .protoEv | .buildErr => true
  | _ => false

theorem tPing_le (t : Tag) (h : tPing t = true) : tRebootWait t = true := by
  cases t <;> simp_all [tPing, tRebootWait]

theorem addsT_pingSucceeded (ok : Tag → Bool) (hs : ok .storage = true) (hsch : ok .schedEv = true)
    (r : Resp.Response) (w : World) : AddsT ok w (pingSucceeded r w) := by
  unfold pingSucceeded
  simp only
  have step : ∀ w0 : World, AddsT ok w w0 → AddsT ok w (persistData w0) :=
    fun w0 h => h.trans (addsT_persistData ok hs w0)
  apply step
  refine ⟨[.event (.schedule (setLastUpdate { w with ctx := { w.ctx with st := { w.ctx.st with failures := 0 } } }).ctx.sched)], rfl, ?_⟩
  intro a ha
  simp only [List.mem_singleton] at ha
  subst ha
  simpa [Action.tag] using hsch

theorem addsT_pingOmaha (ok : Tag → Bool) (hk : ok (.http .ping) = true) (hs : ok .storage = true)
    (hp : ok .protoEv = true) (hb : ok .buildErr = true) (hsch : ok .schedEv = true) (w : World) :
    AddsT ok w (pingOmaha w).2 := by
  unfold pingOmaha
  simp only
  generalize (List.foldl (fun b app => b.apply (.ping app)) ({ params := { source := .scheduledTask, useConfiguredProxies := true } } : Request.Builder) w.apps) = b0
  have h0 : AddsT ok w (nextGuid w).2 := AddsT.of_eq _ _ _ rfl
  generalize hb1 : ({ b0 with sessionId := some (guidBytes (nextGuid w).1) } : Request.Builder) = b1
  have h1 := (h0.trans (addsT_withRequestId ok b1 (nextGuid w).2)).trans
    (addsT_omahaRequest ok .ping hk hs hp hb (withRequestId b1 (nextGuid w).2).1 (withRequestId b1 (nextGuid w).2).2)
  generalize omahaRequest .ping (withRequestId b1 (nextGuid w).2).1 (withRequestId b1 (nextGuid w).2).2 = r at h1
  obtain ⟨res, w1⟩ := r
  cases res with
  | error f =>
    simp only
    unfold pingFailed
    exact h1.trans ((AddsT.of_eq _ _ _ rfl).trans (addsT_persistData ok hs _))
  | ok body =>
    simp only
    split
    · exact h1
    · unfold pingFailed
      exact h1.trans ((AddsT.of_eq _ _ _ rfl).trans (addsT_persistData ok hs _))
    · exact h1.trans (addsT_pingSucceeded ok hs hsch _ _)

theorem addsT_updateNext (ok : Tag → Bool) (hn : ok .pNext = true) (hsch : ok .schedEv = true) (t : Timing) (w : World) :
    AddsT ok w (updateNext t w) := by
  unfold updateNext
  simp only
  refine (addsT_emit ok (.policyNext w.apps w.ctx.sched w.ctx.st t) w (by simpa [Action.tag] using hn)).trans ?_
  refine (AddsT.of_eq ok _ _ ?_).trans (addsT_yield ok (.schedule _) _ (by simpa [Action.tag] using hsch))
  rfl

theorem addsT_armWait (ok : Tag → Bool) (ha : ok .timerArm = true) (t : Timing) (w : World) :
    AddsT ok w (armWait t w).2 := by
  unfold armWait
  split
  · simp only
    exact ((addsT_emit ok _ w (by simpa [Action.tag] using ha)).trans
      (addsT_emit ok _ _ (by simpa [Action.tag] using ha))).trans (AddsT.of_eq _ _ _ rfl)
  · simp only
    exact (addsT_emit ok _ w (by simpa [Action.tag] using ha)).trans (AddsT.of_eq _ _ _ rfl)

theorem addsT_rebootLoop (opts : InstallSource) (t30 : Nat) (pingNeed : List Nat) (steps : List (WaitStep × Clock))
    (answers : List Bool) (nexts : List Timing) (w : World) :
    AddsT tRebootWait w (rebootLoop opts t30 pingNeed steps answers nexts w).2 := by
  induction steps generalizing opts t30 pingNeed answers nexts w with
  | nil => unfold rebootLoop; exact AddsT.refl _ _
  | cons sd rest ih =>
    obtain ⟨step, dt⟩ := sd
    unfold rebootLoop
    simp only
    have h0 : AddsT tRebootWait w (tick dt w) := addsT_tick _ _ _
    cases step with
    | fire i =>
      simp only
      have h1 := h0.trans (addsT_emit tRebootWait (.timerFire i) (tick dt w) rfl)
      split
      · -- the 30-minute timer
        have h2 := h1.trans (addsT_emit tRebootWait (.policyRebootAllowed opts (popBool answers).1) _ rfl)
        split
        · exact h2
        · exact ((h2.trans (addsT_emit tRebootWait (.timerArm (.for_ (1800 * 1000000000))) _ rfl)).trans
            (AddsT.of_eq _ _ _ rfl)).trans (ih _ _ _ _ _ _)
      · split
        · have h2 := h1.trans (addsT_pingOmaha tRebootWait rfl rfl rfl rfl rfl _)
          generalize pingOmaha (emit (.timerFire i) (tick dt w)) = pr at h2
          obtain ⟨r, w1⟩ := pr
          cases r with
          | none => exact h2
          | some u =>
            simp only
            have h3 := h2.trans (addsT_updateNext tRebootWait rfl rfl (popTiming nexts).1 w1)
            have h4 := h3.trans (addsT_armWait tRebootWait rfl (popTiming nexts).1 _)
            exact h4.trans (ih _ _ _ _ _ _)
        · exact h1.trans (ih _ _ _ _ _ _)
    | ctl id src =>
      simp only
      have h1 := h0.trans (addsT_emit tRebootWait (.reply id .alreadyRunning) (tick dt w) rfl)
      split
      · have h2 := h1.trans (addsT_emit tRebootWait (.policyRebootAllowed .onDemand (popBool answers).1) _ rfl)
        split
        · exact h2
        · exact h2.trans (ih _ _ _ _ _ _)
      · exact h1.trans (ih _ _ _ _ _ _)

/-- The reboot wait plus the reboot call. -/
def tReboot : Tag → Bool
  | .reboot => true
  | t => tRebootWait t

theorem tRebootWait_le (t : Tag) (h : tRebootWait t = true) : tReboot t = true := by
  cases t <;> simp_all [tRebootWait, tReboot]

theorem addsT_rebootWait (opts : InstallSource) (u : UnitEnv) (w : World) :
    AddsT tRebootWait w (rebootWait opts u w).2 := by
  unfold rebootWait
  simp only
  have h0 : AddsT tRebootWait w (emit (.policyRebootAllowed opts (popBool u.rebootAllowed).1) w) := addsT_emit _ _ _ rfl
  generalize emit (.policyRebootAllowed opts (popBool u.rebootAllowed).1) w = w0 at h0
  split
  · exact h0
  · have h1 := h0.trans (addsT_emit tRebootWait (.timerArm (.for_ (1800 * 1000000000))) w0 rfl)
    generalize emit (.timerArm (.for_ (1800 * 1000000000))) w0 = w1 at h1
    have h2 : AddsT tRebootWait w ({ w1 with nTimer := w1.nTimer + 1 }) := h1.trans (AddsT.of_eq _ _ _ rfl)
    have h3 := h2.trans (addsT_updateNext tRebootWait rfl rfl (popTiming u.rebootNext).1 _)
    have h4 := h3.trans (addsT_armWait tRebootWait rfl (popTiming u.rebootNext).1 _)
    exact h4.trans (addsT_rebootLoop opts w1.nTimer _ u.rebootSteps (popBool u.rebootAllowed).2 (popTiming u.rebootNext).2 _)

theorem addsT_waitForReboot (opts : InstallSource) (u : UnitEnv) (w : World) :
    AddsT tReboot w (waitForReboot opts u w).2 := by
  unfold waitForReboot doReboot
  have h := (addsT_rebootWait opts u w).mono tRebootWait_le
  generalize rebootWait opts u w = p at h
  obtain ⟨d, w1⟩ := p
  cases d with
  | none => exact h
  | some b =>
    cases b
    · exact h
    · exact h.trans (addsT_emit tReboot (.reboot u.rebootOk) w1 rfl)

end Omaha.SM
