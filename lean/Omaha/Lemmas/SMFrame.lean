/-
Frame lemmas: what no function inside an update check ever changes — the configuration, the CUP
setting, the system app id, the app set, and the part of the environment script that is read, not
consumed (plan / policy / installer answers).  Property theorems use them to state decision tables
in terms of the script *at the start* of the check.
-/
import Omaha.Lemmas.SMPhases

namespace Omaha.SM

open Omaha

structure Frame (w w' : World) : Prop where
  cfg : w'.cfg = w.cfg
  cup : w'.cup = w.cup
  sysApp : w'.sysApp = w.sysApp
  apps : w'.apps = w.apps
  plan : w'.env.plan = w.env.plan
  canStart : w'.env.canStart = w.env.canStart
  results : w'.env.results = w.env.results
  progress : w'.env.progress = w.env.progress
  installDt : w'.env.installDt = w.env.installDt
  rebootNeeded : w'.env.rebootNeeded = w.env.rebootNeeded
  failures : w'.ctx.st.failures = w.ctx.st.failures

theorem Frame.refl (w : World) : Frame w w := ⟨rfl, rfl, rfl, rfl, rfl, rfl, rfl, rfl, rfl, rfl, rfl⟩

theorem Frame.trans {w1 w2 w3 : World} (h1 : Frame w1 w2) (h2 : Frame w2 w3) : Frame w1 w3 :=
  ⟨h2.cfg.trans h1.cfg, h2.cup.trans h1.cup, h2.sysApp.trans h1.sysApp, h2.apps.trans h1.apps,
   h2.plan.trans h1.plan, h2.canStart.trans h1.canStart, h2.results.trans h1.results,
   h2.progress.trans h1.progress, h2.installDt.trans h1.installDt, h2.rebootNeeded.trans h1.rebootNeeded,
   h2.failures.trans h1.failures⟩

theorem emit_env (a : Action) (w : World) : (emit a w).env = w.env := rfl

theorem frame_emit (a : Action) (w : World) : Frame w (emit a w) := ⟨rfl, rfl, rfl, rfl, rfl, rfl, rfl, rfl, rfl, rfl, rfl⟩
theorem frame_yield (e : Event) (w : World) : Frame w (yieldEv e w) := frame_emit _ _
theorem frame_metric (m : Metric) (w : World) : Frame w (metric m w) := frame_emit _ _
theorem frame_tick (dt : Clock) (w : World) : Frame w (tick dt w) := ⟨rfl, rfl, rfl, rfl, rfl, rfl, rfl, rfl, rfl, rfl, rfl⟩

theorem frame_popFail (w : World) : Frame w (popFail w).2 := by
  unfold popFail; split <;> exact ⟨rfl, rfl, rfl, rfl, rfl, rfl, rfl, rfl, rfl, rfl, rfl⟩

theorem frame_storeOp (op : StoreOp) (w : World) : Frame w (storeOp op w).2 := by
  unfold storeOp
  simp only
  split
  · exact (frame_popFail w).trans (frame_emit _ _)
  · refine (frame_popFail w).trans ?_
    exact ⟨rfl, rfl, rfl, rfl, rfl, rfl, rfl, rfl, rfl, rfl, rfl⟩

theorem frame_storeOp_ (op : StoreOp) (w : World) : Frame w (storeOp_ op w) := frame_storeOp op w

theorem frame_setOptionInt (k : Bytes) (v : Option Int) (w : World) : Frame w (setOptionInt k v w).2 := by
  unfold setOptionInt; split <;> exact frame_storeOp _ _

theorem frame_setTime (k : Bytes) (t : Int) (w : World) : Frame w (setTime k t w).2 := frame_setOptionInt _ _ _

theorem frame_persistCtx (w : World) : Frame w (persistCtx w) := by
  unfold persistCtx
  exact ((frame_setOptionInt _ _ _).trans (frame_setOptionInt _ _ _)).trans (frame_setOptionInt _ _ _)

theorem frame_persistApps (apps : List App) (w : World) : Frame w (persistApps apps w) := by
  induction apps generalizing w with
  | nil => exact Frame.refl _
  | cons a rest ih => exact (frame_storeOp_ _ _).trans (ih _)

theorem frame_persistData (w : World) : Frame w (persistData w) := by
  unfold persistData
  exact ((frame_persistCtx w).trans (frame_persistApps _ _)).trans (frame_storeOp_ _ _)

theorem frame_applyPoll (poll : Option Nat) (w : World) : Frame w (applyPoll poll w) := by
  unfold applyPoll
  split
  · refine Frame.trans (w2 := yieldEv (.protocol { w.ctx.st with poll := poll }) { w with ctx := { w.ctx with st := { w.ctx.st with poll := poll } } }) ⟨rfl, rfl, rfl, rfl, rfl, rfl, rfl, rfl, rfl, rfl, rfl⟩ ?_
    exact (frame_persistCtx _).trans (frame_storeOp_ _ _)
  · exact Frame.refl _

theorem frame_popHttp (k : ReqKind) (w : World) : Frame w (popHttp k w).2 := by
  unfold popHttp
  cases k <;> simp only <;> split <;> exact ⟨rfl, rfl, rfl, rfl, rfl, rfl, rfl, rfl, rfl, rfl, rfl⟩

theorem frame_sendRequest (k : ReqKind) (b : Request.Builder) (w : World) : Frame w (sendRequest k b w).2 := by
  unfold sendRequest
  simp only
  have h0 : Frame w (if w.cup.isSome = true then { w with nNonce := w.nNonce + 1 } else w) := by
    split
    · exact ⟨rfl, rfl, rfl, rfl, rfl, rfl, rfl, rfl, rfl, rfl, rfl⟩
    · exact Frame.refl _
  exact (h0.trans (frame_popHttp k _)).trans (frame_emit _ _)

theorem frame_handleOutcome (o : HttpOutcome) (w : World) : Frame w (handleOutcome o w).2 := by
  unfold handleOutcome
  cases o with
  | fail k dt => exact frame_tick _ _
  | response status ra body auth dt =>
    simp only
    split
    · exact frame_tick _ _
    · split
      · exact (frame_tick dt w).trans (frame_applyPoll _ _)
      · exact (frame_tick dt w).trans (frame_applyPoll _ _)

theorem frame_omahaRequest (k : ReqKind) (b : Request.Builder) (w : World) : Frame w (omahaRequest k b w).2 := by
  unfold omahaRequest
  split
  · exact frame_emit _ _
  · exact (frame_sendRequest k b w).trans (frame_handleOutcome _ _)

theorem frame_withRequestId (b : Request.Builder) (w : World) : Frame w (withRequestId b w).2 :=
  ⟨rfl, rfl, rfl, rfl, rfl, rfl, rfl, rfl, rfl, rfl, rfl⟩

theorem frame_reportEvent (params : RequestParams) (ev : Omaha.Event) (apps : List App) (session : Nat)
    (nv : List (Bytes × Option Bytes)) (ns : Option Nat) (w : World) :
    Frame w (reportEvent params ev apps session nv ns w) := by
  unfold reportEvent
  simp only
  split
  · exact (frame_withRequestId _ w).trans (frame_omahaRequest _ _ _)
  · exact ((frame_withRequestId _ w).trans (frame_omahaRequest _ _ _)).trans (frame_metric _ _)

theorem frame_lostFold (evs : List (App × Omaha.Event)) (w : World) :
    Frame w (evs.foldl (fun w (x : App × Omaha.Event) => metric (.eventLost x.2) w) w) := by
  induction evs generalizing w with
  | nil => exact Frame.refl _
  | cons e rest ih => exact (frame_metric _ w).trans (ih _)

theorem frame_reportResults (params : RequestParams) (evs : List (App × Omaha.Event)) (session : Nat) (w : World) :
    Frame w (reportResults params evs session w) := by
  unfold reportResults
  simp only
  split
  · exact (frame_withRequestId _ w).trans (frame_omahaRequest _ _ _)
  · exact ((frame_withRequestId _ w).trans (frame_omahaRequest _ _ _)).trans (frame_lostFold _ _)

theorem frame_popJitter (w : World) : Frame w (popJitter w).2.2 := by
  unfold popJitter
  rcases hj : w.env.jitter with _ | ⟨j, js⟩ <;> rcases hb : w.env.backoffDt with _ | ⟨b, bs⟩ <;>
    simp only [hb] <;> exact ⟨rfl, rfl, rfl, rfl, rfl, rfl, rfl, rfl, rfl, rfl, rfl⟩

theorem frame_backoff (attempt : Nat) (w : World) : Frame w (backoff attempt w) := by
  unfold backoff
  simp only
  refine (frame_popJitter w).trans ?_
  exact ⟨rfl, rfl, rfl, rfl, rfl, rfl, rfl, rfl, rfl, rfl, rfl⟩

theorem frame_attemptLoop (fuel attempt : Nat) (b : Request.Builder) (w : World) :
    Frame w (attemptLoop fuel attempt b w).2.2 := by
  induction fuel generalizing attempt b w with
  | zero => unfold attemptLoop; exact Frame.refl _
  | succ fuel ih =>
    unfold attemptLoop
    simp only
    have h1 := (frame_withRequestId b w).trans (frame_omahaRequest .updateCheck (withRequestId b w).1 (withRequestId b w).2)
    generalize omahaRequest .updateCheck (withRequestId b w).1 (withRequestId b w).2 = r at h1
    have h2 : Frame w (if w.clock.mono ≤ r.2.clock.mono then metric (.responseTime (r.2.clock.mono - w.clock.mono).toNat (isOk r.1)) r.2 else r.2) := by
      split
      · exact h1.trans (frame_metric _ _)
      · exact h1
    generalize (if w.clock.mono ≤ r.2.clock.mono then metric (.responseTime (r.2.clock.mono - w.clock.mono).toNat (isOk r.1)) r.2 else r.2) = wm at h2
    cases r.1 with
    | ok body => exact h2
    | error f =>
      simp only
      split
      · exact h2.trans (frame_yield _ _)
      · exact (h2.trans (frame_backoff attempt wm)).trans (ih _ _ _)

theorem frame_reportCheckInterval (src : InstallSource) (w : World) : Frame w (reportCheckInterval src w) := by
  unfold reportCheckInterval
  simp only
  have fr : ∀ w1 : World, Frame w w1 → Frame w { w1 with ctx := { w1.ctx with sched := { w1.ctx.sched with lastCheck := some (.complex ⟨w.clock.wall, w.clock.mono⟩) } } } :=
    fun w1 h => h.trans ⟨rfl, rfl, rfl, rfl, rfl, rfl, rfl, rfl, rfl, rfl, rfl⟩
  apply fr
  split
  · split
    · exact frame_metric _ _
    · exact Frame.refl _
  · split
    · exact frame_metric _ _
    · exact Frame.refl _
  · exact Frame.refl _

theorem frame_recordNewPlan (planId : Bytes) (now : Int) (w : World) : Frame w (recordNewPlan planId now w).2 := by
  unfold recordNewPlan
  have h1 := frame_storeOp (.set kInstallPlanId (.str planId)) w
  have h2 := h1.trans (frame_setTime kFirstSeen now _)
  split
  · exact h1
  · split
    · exact h2.trans (frame_storeOp_ _ _)
    · exact h2.trans (frame_storeOp_ _ _)

theorem frame_recordFirstSeen (planId : Bytes) (now : Int) (w : World) : Frame w (recordFirstSeen planId now w).2 := by
  unfold recordFirstSeen
  split
  · exact Frame.refl _
  · exact frame_recordNewPlan planId now w

theorem frame_recordFinish (planId : Nat) (firstSeen finish : Int) (nv : List (Bytes × Option Bytes)) (w : World) :
    Frame w (recordFinish planId firstSeen finish nv w).2 := by
  unfold recordFinish
  simp only
  have h1 : Frame w (firstSeenMetric firstSeen finish w) := by
    unfold firstSeenMetric
    split
    · exact frame_metric _ _
    · exact Frame.refl _
  have h2 := h1.trans (frame_setTime kFinishTime finish _)
  generalize (setTime kFinishTime finish (firstSeenMetric firstSeen finish w)).2 = w2 at h2
  have h3 : Frame w (setTargetVersion nv w2) := by
    unfold setTargetVersion
    split
    · exact h2.trans (frame_storeOp_ _ _)
    · exact h2
  exact (h3.trans (frame_storeOp_ .commit _)).trans (frame_emit _ _)

theorem frame_progressFold (ps : List Nat) (w : World) :
    Frame w (ps.foldl (fun w k => yieldEv (.progress k) w) w) := by
  induction ps generalizing w with
  | nil => exact Frame.refl _
  | cons p rest ih => exact (frame_yield (.progress p) w).trans (ih _)

theorem frame_insterrFold (ms : List Nat) (w : World) :
    Frame w (ms.foldl (fun w m => yieldEv (.installerError m) w) w) := by
  induction ms generalizing w with
  | nil => exact Frame.refl _
  | cons p rest ih => exact (frame_yield (.installerError p) w).trans (ih _)

theorem frame_runInstall (planId : Nat) (w : World) : Frame w (runInstall planId w) := by
  unfold runInstall
  exact ((frame_emit (.install planId w.env.progress w.env.results) w).trans (frame_progressFold w.env.progress _)).trans
    (frame_tick _ _)

theorem frame_durationMetric (startWall : Int) (results : List AppResult) (w : World) :
    Frame w (durationMetric startWall results w).2 := by
  unfold durationMetric
  split
  · exact frame_metric _ _
  · exact Frame.refl _

theorem frame_reportInstall (params : RequestParams) (apps : List App) (session : Nat) (nv : List (Bytes × Option Bytes))
    (response : Resp.Response) (results : List AppResult) (ns : Option Nat) (w : World) :
    Frame w (reportInstall params apps session nv response results ns w) := by
  unfold reportInstall
  simp only
  have h := frame_reportResults params (resultEvents (knownResults apps response results) ns) session w
  split
  · exact h
  · exact h.trans (frame_reportEvent _ _ _ _ _ _ _)

theorem frame_finishInstall (planId : Nat) (firstSeen finish : Int) (nv : List (Bytes × Option Bytes))
    (response : Resp.Response) (results : List AppResult) (w : World) :
    Frame w (finishInstall planId firstSeen finish nv response results w).2 := by
  unfold finishInstall
  split
  · exact (frame_insterrFold _ _).trans (frame_yield _ _)
  · exact frame_recordFinish _ _ _ _ _

theorem frame_installPhase (params : RequestParams) (apps : List App) (session : Nat)
    (nv : List (Bytes × Option Bytes)) (response : Resp.Response) (planId : Nat) (w : World) :
    Frame w (installPhase params apps session nv response planId w).2 := by
  unfold installPhase
  simp only
  have h1 := (frame_yield (.state .installing) w).trans
    (frame_reportEvent params (eventSuccess 13) apps session nv none _)
  generalize reportEvent params (eventSuccess 13) apps session nv none (yieldEv (.state .installing) w) = w1 at h1
  have h2 := h1.trans (frame_recordFirstSeen (planIdText planId) w1.clock.wall w1)
  generalize recordFirstSeen (planIdText planId) w1.clock.wall w1 = r2 at h2
  have h3 := h2.trans (frame_runInstall planId r2.2)
  generalize runInstall planId r2.2 = w3 at h3
  have h4 := h3.trans (frame_durationMetric w1.clock.wall r2.2.env.results w3)
  generalize durationMetric w1.clock.wall r2.2.env.results w3 = r4 at h4
  have h5 := h4.trans (frame_reportInstall params apps session nv response r2.2.env.results r4.1 r4.2)
  exact h5.trans (frame_finishInstall _ _ _ _ _ _ _)

theorem frame_updatePhase (params : RequestParams) (apps : List App) (session : Nat) (response : Resp.Response)
    (w : World) : Frame w (updatePhase params apps session response w).2 := by
  unfold updatePhase
  simp only
  have h0 := frame_emit (.plan params.source w.cup.isSome w.env.plan) w
  split
  · unfold planFailedPhase
    exact ((h0.trans (frame_yield _ _)).trans (frame_yield _ _)).trans (frame_reportEvent _ _ _ _ _ _ _)
  · rename_i planId _
    have h1 := h0.trans (frame_emit (.policyCanStart planId (emit (.plan params.source w.cup.isSome w.env.plan) w).env.canStart) _)
    split
    · unfold deferredPhase
      exact (h1.trans (frame_reportEvent _ _ _ _ _ _ _)).trans (frame_yield _ _)
    · unfold deniedPhase
      exact h1.trans (frame_reportEvent _ _ _ _ _ _ _)
    · exact h1.trans (frame_installPhase _ _ _ _ _ _ _)

theorem frame_responsePhase (params : RequestParams) (apps : List App) (session : Nat) (body : Bytes) (w : World) :
    Frame w (responsePhase params apps session body w).2 := by
  unfold responsePhase
  split
  · exact Frame.refl _
  · unfold parseFailedPhase
    exact (frame_yield _ w).trans (frame_reportEvent _ _ _ _ _ _ _)
  · rename_i response _
    simp only
    have h0 := frame_yield (.serverResponse response) w
    split
    · unfold noUpdatePhase
      exact h0.trans (frame_yield _ _)
    · exact h0.trans (frame_updatePhase _ _ _ _ _)

theorem frame_performUpdateCheck (params : RequestParams) (apps : List App) (w : World) :
    Frame w (performUpdateCheck params apps w).2 := by
  unfold performUpdateCheck
  simp only
  have h0 := frame_yield (.state (.checking params.source)) w
  generalize yieldEv (.state (.checking params.source)) w = w0 at h0
  have h1 := h0.trans (frame_reportCheckInterval params.source w0)
  generalize reportCheckInterval params.source w0 = w1 at h1
  have h2 : Frame w (nextGuid w1).2 := h1.trans ⟨rfl, rfl, rfl, rfl, rfl, rfl, rfl, rfl, rfl, rfl, rfl⟩
  have h3 := h2.trans (frame_attemptLoop 3 1 (checkBuilder params apps (nextGuid w1).1) (nextGuid w1).2)
  generalize attemptLoop 3 1 (checkBuilder params apps (nextGuid w1).1) (nextGuid w1).2 = r at h3
  obtain ⟨res, attempts, w2⟩ := r
  have h4 := h3.trans (frame_metric (.requestsPerCheck attempts (isOk res)) w2)
  cases res with
  | error f => exact h4
  | ok body => exact h4.trans (frame_responsePhase _ _ _ _ _)

end Omaha.SM
