/-
Draw discipline: every request takes the next GUID draw as its request id and (with CUP) the next
nonce draw, so over any run the request ids are pairwise distinct, distinct from the session ids
drawn before them, and the nonces are pairwise distinct — whatever happens in between (retries,
event reports, pings, restarts of the loop).

`Dr w w'`: `w'` extends `w`'s trace; both counters are monotone; the request-id draws and nonce draws
of the requests added are strictly increasing in time and lie between the old and the new counter.
-/
import Omaha.Lemmas.SMSim

namespace Omaha.SM

open Omaha

def ridOf : Action → Option Nat
  | .http r _ => r.requestDraw
  | _ => none

def nonceOf : Action → Option Nat
  | .http r _ => r.nonceDraw
  | _ => none

/-- Newest first: strictly decreasing, all within `[lo, hi)`. -/
def Dec (l : List Nat) (lo hi : Nat) : Prop := l.Pairwise (· > ·) ∧ ∀ x ∈ l, lo ≤ x ∧ x < hi

theorem Dec.nil (lo hi : Nat) : Dec [] lo hi := ⟨List.Pairwise.nil, fun _ h => by cases h⟩

theorem Dec.append {l2 l1 : List Nat} {a b c : Nat} (h2 : Dec l2 b c) (h1 : Dec l1 a b) (hab : a ≤ b) (hbc : b ≤ c) :
    Dec (l2 ++ l1) a c := by
  refine ⟨List.pairwise_append.2 ⟨h2.1, h1.1, ?_⟩, ?_⟩
  · intro x hx y hy
    have := (h2.2 x hx).1
    have := (h1.2 y hy).2
    omega
  · intro x hx
    rcases List.mem_append.1 hx with h | h
    · have := h2.2 x h; omega
    · have := h1.2 x h; omega

theorem Dec.nodup {l : List Nat} {lo hi : Nat} (h : Dec l lo hi) : l.Nodup :=
  h.1.imp (fun hab => Nat.ne_of_gt hab)

structure Dr (w w' : World) : Prop where
  ext : ∃ d, w'.trace = d ++ w.trace ∧ Dec (d.filterMap ridOf) w.nGuid w'.nGuid ∧
          Dec (d.filterMap nonceOf) w.nNonce w'.nNonce ∧
          ∀ r o, Action.http r o ∈ d → r.nonceDraw.isSome = w.cup.isSome ∧ r.requestDraw.isSome = true
  guid : w.nGuid ≤ w'.nGuid
  nonce : w.nNonce ≤ w'.nNonce
  cup : w'.cup = w.cup

theorem Dr.refl (w : World) : Dr w w := ⟨⟨[], rfl, Dec.nil _ _, Dec.nil _ _, fun _ _ h => by cases h⟩, Nat.le_refl _, Nat.le_refl _, rfl⟩

theorem Dr.trans {w1 w2 w3 : World} (h1 : Dr w1 w2) (h2 : Dr w2 w3) : Dr w1 w3 := by
  obtain ⟨⟨d1, e1, r1, n1, k1⟩, g1, c1, u1⟩ := h1
  obtain ⟨⟨d2, e2, r2, n2, k2⟩, g2, c2, u2⟩ := h2
  refine ⟨⟨d2 ++ d1, by rw [e2, e1, List.append_assoc], ?_, ?_, ?_⟩, Nat.le_trans g1 g2, Nat.le_trans c1 c2, u2.trans u1⟩
  · rw [List.filterMap_append]; exact r2.append r1 g1 g2
  · rw [List.filterMap_append]; exact n2.append n1 c1 c2
  · intro r o h
    rcases List.mem_append.1 h with h | h
    · exact ⟨by rw [(k2 r o h).1, u1], (k2 r o h).2⟩
    · exact k1 r o h

/-- A step that adds no request and leaves both counters alone. -/
theorem dr_quiet {ok : Tag → Bool} {w w' : World} (h : AddsT ok w w') (hk : ∀ k, ok (.http k) = false)
    (hg : w'.nGuid = w.nGuid) (hn : w'.nNonce = w.nNonce) (hc : w'.cup = w.cup) : Dr w w' := by
  obtain ⟨d, e, p⟩ := h
  have hr : d.filterMap ridOf = [] := by
    rw [List.filterMap_eq_nil_iff]
    intro a ha
    have := p a ha
    cases a with
    | http r o => simp [Action.tag, hk] at this
    | _ => rfl
  have hnn : d.filterMap nonceOf = [] := by
    rw [List.filterMap_eq_nil_iff]
    intro a ha
    have := p a ha
    cases a with
    | http r o => simp [Action.tag, hk] at this
    | _ => rfl
  refine ⟨⟨d, e, by rw [hr]; exact Dec.nil _ _, by rw [hnn]; exact Dec.nil _ _, ?_⟩, by omega, by omega, hc⟩
  intro r o ha
  have := p _ ha
  simp [Action.tag, hk] at this

/-- Invisible steps (storage, metrics): from the tag bound and the simulation lemma. -/
theorem dr_inv {ok : Tag → Bool} {w w' : World} (h : AddsT ok w w') (hk : ∀ k, ok (.http k) = false) (s : Sim w w') :
    Dr w w' := dr_quiet h hk s.nGuid.symm s.nNonce.symm s.cup.symm

theorem dr_emit (a : Action) (w : World) (h : ∀ r o, a ≠ .http r o) : Dr w (emit a w) := by
  refine ⟨⟨[a], rfl, ?_, ?_, ?_⟩, Nat.le_refl _, Nat.le_refl _, rfl⟩
  rotate_left 2
  · intro r o ha
    simp only [List.mem_singleton] at ha
    exact absurd ha.symm (h r o)
  · cases a with
    | http r o => exact absurd rfl (h r o)
    | _ => exact Dec.nil _ _
  · cases a with
    | http r o => exact absurd rfl (h r o)
    | _ => exact Dec.nil _ _

theorem dr_yield (e : Event) (w : World) : Dr w (yieldEv e w) := dr_emit _ _ (fun _ _ h => by cases h)
theorem dr_metric (m : Metric) (w : World) : Dr w (metric m w) := dr_emit _ _ (fun _ _ h => by cases h)

theorem dr_same {w w' : World} (ht : w'.trace = w.trace) (hg : w'.nGuid = w.nGuid) (hn : w'.nNonce = w.nNonce)
    (hc : w'.cup = w.cup) : Dr w w' :=
  ⟨⟨[], by simp [ht], Dec.nil _ _, Dec.nil _ _, fun _ _ h => by cases h⟩, by omega, by omega, hc⟩

theorem dr_tick (dt : Clock) (w : World) : Dr w (tick dt w) := dr_same rfl rfl rfl rfl

/-! ### One request: the next GUID draw is its id, the next nonce draw (with CUP) its nonce -/

theorem guidOf_guidBytes (g : Nat) : guidOf (guidBytes g) = g := by simp [guidOf, guidBytes]

theorem dr_storeOp_ (op : StoreOp) (w : World) : Dr w (storeOp_ op w) :=
  dr_inv (addsT_storeOp_ tNoHttp rfl op w) (fun _ => rfl) (inv_storeOp_ op w)

theorem dr_persistCtx (w : World) : Dr w (persistCtx w) :=
  dr_inv (addsT_persistCtx tNoHttp rfl w) (fun _ => rfl) (inv_persistCtx w)

theorem dr_persistData (w : World) : Dr w (persistData w) :=
  dr_inv (addsT_persistData tNoHttp rfl w) (fun _ => rfl) (inv_persistData w)

theorem dr_applyPoll (poll : Option Nat) (w : World) : Dr w (applyPoll poll w) := by
  unfold applyPoll
  split
  · have h0 : Dr w ({ w with ctx := { w.ctx with st := { w.ctx.st with poll := poll } } } : World) := dr_same rfl rfl rfl rfl
    exact ((h0.trans (dr_yield _ _)).trans (dr_persistCtx _)).trans (dr_storeOp_ _ _)
  · exact Dr.refl _

theorem dr_handleOutcome (o : HttpOutcome) (w : World) : Dr w (handleOutcome o w).2 := by
  unfold handleOutcome
  cases o with
  | fail k dt => exact dr_tick _ _
  | response status ra body auth dt =>
    simp only
    split
    · exact dr_tick _ _
    · split
      · exact (dr_tick dt w).trans (dr_applyPoll _ _)
      · exact (dr_tick dt w).trans (dr_applyPoll _ _)

theorem popHttp_counters (k : ReqKind) (w : World) :
    (popHttp k w).2.nGuid = w.nGuid ∧ (popHttp k w).2.nNonce = w.nNonce ∧ (popHttp k w).2.cup = w.cup := by
  unfold popHttp
  cases k <;> simp only <;> split <;> exact ⟨rfl, rfl, rfl⟩

theorem sendRequest_facts (k : ReqKind) (b : Request.Builder) (w : World) :
    ∃ req, (sendRequest k b w).2.trace = .http req (sendRequest k b w).1 :: w.trace ∧
      req.requestDraw = b.requestId.map guidOf ∧
      req.nonceDraw = (if w.cup.isSome then some w.nNonce else none) ∧
      (sendRequest k b w).2.nGuid = w.nGuid ∧
      (sendRequest k b w).2.nNonce = (if w.cup.isSome then w.nNonce + 1 else w.nNonce) ∧
      (sendRequest k b w).2.cup = w.cup := by
  refine ⟨{ kind := k, source := b.params.source, sessionDraw := b.sessionId.map guidOf,
            requestDraw := b.requestId.map guidOf,
            nonceDraw := if w.cup.isSome then some w.nNonce else none, apps := wireApps b }, ?_, rfl, rfl, ?_, ?_, ?_⟩
  · unfold sendRequest
    simp only [emit, popHttp_trace]
    split <;> rfl
  · unfold sendRequest
    simp only [emit]
    split
    · exact (popHttp_counters k _).1
    · exact (popHttp_counters k _).1
  · unfold sendRequest
    simp only [emit]
    split
    · exact (popHttp_counters k _).2.1
    · exact (popHttp_counters k _).2.1
  · unfold sendRequest
    simp only [emit]
    split
    · exact (popHttp_counters k _).2.2
    · exact (popHttp_counters k _).2.2

/-- `withRequestId` then the exchange: the request id is the GUID drawn here, the nonce (with CUP)
the nonce drawn here. -/
theorem dr_request (k : ReqKind) (b : Request.Builder) (w : World) :
    Dr w (omahaRequest k (withRequestId b w).1 (withRequestId b w).2).2 := by
  unfold omahaRequest
  have hw : (withRequestId b w).2.trace = w.trace ∧ (withRequestId b w).2.nGuid = w.nGuid + 1 ∧
      (withRequestId b w).2.nNonce = w.nNonce ∧ (withRequestId b w).1.requestId = some (guidBytes w.nGuid) ∧
      (withRequestId b w).2.cup = w.cup := ⟨rfl, rfl, rfl, rfl, rfl⟩
  generalize withRequestId b w = bw at hw
  obtain ⟨b1, w1⟩ := bw
  simp only at hw ⊢
  obtain ⟨ht, hg, hn, hr, hcup⟩ := hw
  have h0 : Dr w w1 := ⟨⟨[], by simp [ht], Dec.nil _ _, Dec.nil _ _, fun _ _ h => by cases h⟩, by omega, by omega, hcup⟩
  split
  · exact h0.trans (dr_emit _ _ (fun _ _ h => by cases h))
  · refine Dr.trans ?_ (dr_handleOutcome _ _)
    obtain ⟨req, htr, hrid, hnon, hcg, hcn, hsc⟩ := sendRequest_facts k b1 w1
    rw [hr] at hrid
    simp only [Option.map_some, guidOf_guidBytes] at hrid
    refine ⟨⟨[.http req (sendRequest k b1 w1).1], by rw [htr, ht]; rfl, ?_, ?_, ?_⟩, by rw [hcg]; omega, by rw [hcn]; split <;> omega, hsc.trans hcup⟩
    rotate_left 2
    · intro r o ha
      simp only [List.mem_singleton] at ha
      cases ha
      refine ⟨?_, by rw [hrid]; rfl⟩
      rw [hnon, ← hcup]
      split <;> simp_all
    · simp only [List.filterMap_cons, List.filterMap_nil, ridOf, hrid]
      refine ⟨List.pairwise_singleton _ _, ?_⟩
      intro x hx
      simp only [List.mem_singleton] at hx
      subst hx
      rw [hcg]; omega
    · simp only [List.filterMap_cons, List.filterMap_nil, nonceOf, hnon]
      by_cases hc : w1.cup.isSome = true
      · simp only [hc, if_true]
        refine ⟨List.pairwise_singleton _ _, ?_⟩
        intro x hx
        simp only [List.mem_singleton] at hx
        subst hx
        rw [hcn]; simp only [hc, if_true]; omega
      · simp only [hc, if_false]
        exact Dec.nil _ _

/-! ### The chain -/

theorem dr_backoff (attempt : Nat) (w : World) : Dr w (backoff attempt w) := by
  unfold backoff
  simp only
  have h1 : Dr w (popJitter w).2.2 := by
    rw [popJitter_eq]; exact dr_same rfl rfl rfl rfl
  exact (h1.trans (dr_emit _ _ (fun _ _ h => by cases h))).trans (dr_same rfl rfl rfl rfl)

theorem dr_attemptLoop (fuel attempt : Nat) (b : Request.Builder) (w : World) : Dr w (attemptLoop fuel attempt b w).2.2 := by
  induction fuel generalizing attempt b w with
  | zero => unfold attemptLoop; exact Dr.refl _
  | succ fuel ih =>
    unfold attemptLoop
    simp only
    have h1 := dr_request .updateCheck b w
    generalize omahaRequest .updateCheck (withRequestId b w).1 (withRequestId b w).2 = r at h1
    have h2 : Dr w (if w.clock.mono ≤ r.2.clock.mono then metric (.responseTime (r.2.clock.mono - w.clock.mono).toNat (isOk r.1)) r.2 else r.2) := by
      split
      · exact h1.trans (dr_metric _ _)
      · exact h1
    generalize (if w.clock.mono ≤ r.2.clock.mono then metric (.responseTime (r.2.clock.mono - w.clock.mono).toNat (isOk r.1)) r.2 else r.2) = wm at h2
    cases r.1 with
    | ok body => exact h2
    | error f =>
      simp only
      split
      · exact h2.trans (dr_yield _ _)
      · exact (h2.trans (dr_backoff attempt wm)).trans (ih _ _ _)

theorem dr_reportEvent (params : RequestParams) (ev : Omaha.Event) (apps : List App) (session : Nat)
    (nv : List (Bytes × Option Bytes)) (ns : Option Nat) (w : World) :
    Dr w (reportEvent params ev apps session nv ns w) := by
  unfold reportEvent
  simp only
  generalize ({ (List.foldl _ _ apps : Request.Builder) with sessionId := some (guidBytes session) } : Request.Builder) = b1
  have h1 := dr_request .eventReport b1 w
  split
  · exact h1
  · exact h1.trans (dr_metric _ _)

theorem dr_lostFold (evs : List (App × Omaha.Event)) (w : World) :
    Dr w (evs.foldl (fun w (x : App × Omaha.Event) => metric (.eventLost x.2) w) w) := by
  induction evs generalizing w with
  | nil => exact Dr.refl _
  | cons e rest ih => exact (dr_metric _ w).trans (ih _)

theorem dr_reportResults (params : RequestParams) (evs : List (App × Omaha.Event)) (session : Nat) (w : World) :
    Dr w (reportResults params evs session w) := by
  unfold reportResults
  simp only
  generalize ({ (List.foldl _ _ evs : Request.Builder) with sessionId := some (guidBytes session) } : Request.Builder) = b1
  have h1 := dr_request .eventReport b1 w
  split
  · exact h1
  · exact h1.trans (dr_lostFold _ _)

theorem dr_reportCheckInterval (src : InstallSource) (w : World) : Dr w (reportCheckInterval src w) := by
  unfold reportCheckInterval
  simp only
  have fr : ∀ w1 : World, Dr w w1 → Dr w { w1 with ctx := { w1.ctx with sched := { w1.ctx.sched with lastCheck := some (.complex ⟨w.clock.wall, w.clock.mono⟩) } } } :=
    fun w1 h => h.trans (dr_same rfl rfl rfl rfl)
  apply fr
  split
  · split
    · exact dr_metric _ _
    · exact Dr.refl _
  · split
    · exact dr_metric _ _
    · exact Dr.refl _
  · exact Dr.refl _

theorem dr_progressFold (ps : List Nat) (w : World) : Dr w (ps.foldl (fun w k => yieldEv (.progress k) w) w) := by
  induction ps generalizing w with
  | nil => exact Dr.refl _
  | cons p rest ih => exact (dr_yield _ w).trans (ih _)

theorem dr_insterrFold (ms : List Nat) (w : World) : Dr w (ms.foldl (fun w m => yieldEv (.installerError m) w) w) := by
  induction ms generalizing w with
  | nil => exact Dr.refl _
  | cons p rest ih => exact (dr_yield _ w).trans (ih _)

theorem dr_runInstall (planId : Nat) (w : World) : Dr w (runInstall planId w) := by
  unfold runInstall
  exact ((dr_emit (.install planId w.env.progress w.env.results) w (fun _ _ h => by cases h)).trans (dr_progressFold _ _)).trans
    (dr_tick _ _)

theorem dr_recordFirstSeen (planId : Bytes) (now : Int) (w : World) : Dr w (recordFirstSeen planId now w).2 :=
  dr_inv (addsT_recordFirstSeen tNoHttp rfl planId now w) (fun _ => rfl) (inv_recordFirstSeen planId now w)

theorem dr_durationMetric (startWall : Int) (results : List AppResult) (w : World) : Dr w (durationMetric startWall results w).2 :=
  dr_inv (addsG_durationMetric tNoHttp rfl startWall results w) (fun _ => rfl) (inv_durationMetric startWall results w)

theorem dr_recordFinish (planId : Nat) (firstSeen finish : Int) (nv : List (Bytes × Option Bytes)) (w : World) :
    Dr w (recordFinish planId firstSeen finish nv w).2 := by
  unfold recordFinish
  simp only
  have i1 : Sim w (storeOp_ .commit (setTargetVersion nv (setTime kFinishTime finish (firstSeenMetric firstSeen finish w)).2)) :=
    (((inv_firstSeenMetric firstSeen finish w).trans (inv_setTime _ _ _)).trans (inv_setTargetVersion _ _)).trans (inv_storeOp_ _ _)
  have a1 : AddsT tNoHttp w (storeOp_ .commit (setTargetVersion nv (setTime kFinishTime finish (firstSeenMetric firstSeen finish w)).2)) := by
    have h1 : AddsT tNoHttp w (firstSeenMetric firstSeen finish w) := by
      unfold firstSeenMetric
      split
      · exact addsT_metric _ _ _ rfl
      · exact AddsT.refl _ _
    have h2 := h1.trans (addsT_setTime tNoHttp rfl kFinishTime finish _)
    generalize (setTime kFinishTime finish (firstSeenMetric firstSeen finish w)).2 = w2 at h2
    have h3 : AddsT tNoHttp w (setTargetVersion nv w2) := by
      unfold setTargetVersion
      split
      · exact h2.trans (addsT_storeOp_ _ rfl _ _)
      · exact h2
    exact h3.trans (addsT_storeOp_ tNoHttp rfl .commit _)
  exact (dr_inv a1 (fun _ => rfl) i1).trans (dr_emit _ _ (fun _ _ h => by cases h))

theorem dr_reportInstall (params : RequestParams) (apps : List App) (session : Nat) (nv : List (Bytes × Option Bytes))
    (response : Resp.Response) (results : List AppResult) (ns : Option Nat) (w : World) :
    Dr w (reportInstall params apps session nv response results ns w) := by
  unfold reportInstall
  simp only
  have h := dr_reportResults params (resultEvents (knownResults apps response results) ns) session w
  split
  · exact h
  · exact h.trans (dr_reportEvent _ _ _ _ _ _ _)

theorem dr_finishInstall (planId : Nat) (firstSeen finish : Int) (nv : List (Bytes × Option Bytes))
    (response : Resp.Response) (results : List AppResult) (w : World) :
    Dr w (finishInstall planId firstSeen finish nv response results w).2 := by
  unfold finishInstall
  split
  · exact (dr_insterrFold _ _).trans (dr_yield _ _)
  · exact dr_recordFinish _ _ _ _ _

theorem dr_installPhase (params : RequestParams) (apps : List App) (session : Nat)
    (nv : List (Bytes × Option Bytes)) (response : Resp.Response) (planId : Nat) (w : World) :
    Dr w (installPhase params apps session nv response planId w).2 := by
  unfold installPhase
  simp only
  have h1 := (dr_yield (.state .installing) w).trans (dr_reportEvent params (eventSuccess 13) apps session nv none _)
  generalize reportEvent params (eventSuccess 13) apps session nv none (yieldEv (.state .installing) w) = w1 at h1
  have h2 := h1.trans (dr_recordFirstSeen (planIdText planId) w1.clock.wall w1)
  generalize recordFirstSeen (planIdText planId) w1.clock.wall w1 = r2 at h2
  have h3 := h2.trans (dr_runInstall planId r2.2)
  generalize runInstall planId r2.2 = w3 at h3
  have h4 := h3.trans (dr_durationMetric w1.clock.wall r2.2.env.results w3)
  generalize durationMetric w1.clock.wall r2.2.env.results w3 = r4 at h4
  have h5 := h4.trans (dr_reportInstall params apps session nv response r2.2.env.results r4.1 r4.2)
  exact h5.trans (dr_finishInstall _ _ _ _ _ _ _)

theorem dr_updatePhase (params : RequestParams) (apps : List App) (session : Nat) (response : Resp.Response)
    (w : World) : Dr w (updatePhase params apps session response w).2 := by
  unfold updatePhase
  simp only
  have h0 := dr_emit (.plan params.source w.cup.isSome w.env.plan) w (fun _ _ h => by cases h)
  split
  · unfold planFailedPhase
    exact ((h0.trans (dr_yield _ _)).trans (dr_yield _ _)).trans (dr_reportEvent _ _ _ _ _ _ _)
  · rename_i planId _
    have h1 := h0.trans (dr_emit (.policyCanStart planId (emit (.plan params.source w.cup.isSome w.env.plan) w).env.canStart) _ (fun _ _ h => by cases h))
    split
    · unfold deferredPhase
      exact (h1.trans (dr_reportEvent _ _ _ _ _ _ _)).trans (dr_yield _ _)
    · unfold deniedPhase
      exact h1.trans (dr_reportEvent _ _ _ _ _ _ _)
    · exact h1.trans (dr_installPhase _ _ _ _ _ _ _)

theorem dr_responsePhase (params : RequestParams) (apps : List App) (session : Nat) (body : Bytes) (w : World) :
    Dr w (responsePhase params apps session body w).2 := by
  unfold responsePhase
  split
  · exact Dr.refl _
  · unfold parseFailedPhase
    exact (dr_yield _ w).trans (dr_reportEvent _ _ _ _ _ _ _)
  · rename_i response _
    simp only
    have h0 := dr_yield (.serverResponse response) w
    split
    · unfold noUpdatePhase
      exact h0.trans (dr_yield _ _)
    · exact h0.trans (dr_updatePhase _ _ _ _ _)

theorem reportCheckInterval_counters (src : InstallSource) (w : World) :
    (reportCheckInterval src w).nGuid = w.nGuid ∧ (reportCheckInterval src w).nNonce = w.nNonce := by
  unfold reportCheckInterval
  simp only
  split
  · split <;> exact ⟨rfl, rfl⟩
  · split <;> exact ⟨rfl, rfl⟩
  · exact ⟨rfl, rfl⟩

theorem dr_requestPhase (params : RequestParams) (apps : List App) (w : World) :
    Dr w (requestPhase params apps w).2.2 ∧
    (∃ d, (requestPhase params apps w).2.2.trace = d ++ w.trace ∧ ∀ g ∈ d.filterMap ridOf, w.nGuid < g) ∧
    w.nGuid < (requestPhase params apps w).2.2.nGuid := by
  unfold requestPhase
  simp only
  have h0 := (dr_yield (.state (.checking params.source)) w).trans (dr_reportCheckInterval params.source _)
  have hc : (reportCheckInterval params.source (yieldEv (.state (.checking params.source)) w)).nGuid = w.nGuid :=
    (reportCheckInterval_counters _ _).1
  generalize reportCheckInterval params.source (yieldEv (.state (.checking params.source)) w) = w1 at h0 hc
  have hs : Dr w1 (nextGuid w1).2 := ⟨⟨[], by simp [nextGuid], Dec.nil _ _, Dec.nil _ _, fun _ _ h => by cases h⟩, by simp [nextGuid], by simp [nextGuid], rfl⟩
  have hg2 : (nextGuid w1).2.nGuid = w1.nGuid + 1 := rfl
  have rest := dr_attemptLoop 3 1 (checkBuilder params apps (nextGuid w1).1) (nextGuid w1).2
  refine ⟨(h0.trans hs).trans rest, ?_, by have := rest.guid; omega⟩
  obtain ⟨⟨d0, e0, r0, _, _⟩, _, _, _⟩ := h0
  obtain ⟨⟨d2, e2, r2, _, _⟩, _, _, _⟩ := rest
  refine ⟨d2 ++ d0, ?_, ?_⟩
  · rw [e2]; show d2 ++ w1.trace = _; rw [e0, List.append_assoc]
  · intro g hg
    rw [List.filterMap_append] at hg
    rcases List.mem_append.1 hg with h | h
    · have := (r2.2 g h).1
      rw [hg2] at this
      omega
    · have := r0.2 g h
      omega

/-- **Draw discipline of a check.** The request ids of a check are strictly increasing draws, all
taken after the check's session-id draw (hence pairwise distinct and distinct from the session id);
its nonces are strictly increasing draws. -/
theorem dr_performUpdateCheck (params : RequestParams) (apps : List App) (w : World) :
    Dr w (performUpdateCheck params apps w).2 := by
  rw [performUpdateCheck_eq]
  have h := (dr_requestPhase params apps w).1
  generalize requestPhase params apps w = r at h
  obtain ⟨res, attempts, w2⟩ := r
  cases res with
  | error f => exact h.trans (dr_metric _ _)
  | ok body => exact (h.trans (dr_metric _ _)).trans (dr_responsePhase _ _ _ _ _)

theorem sessionOf_eq (params : RequestParams) (w : World) : sessionOf params w = w.nGuid := by
  unfold sessionOf nextGuid
  exact (reportCheckInterval_counters _ _).1

/-- **same_session_fresh_request / fresh nonce (whole check).** Chronologically, the request ids of
all requests of a check — attempts, retries and event reports — are strictly increasing draws
greater than the session draw; the nonces are strictly increasing draws. -/
theorem check_draws_fresh (params : RequestParams) (apps : List App) (w : World) :
    ∃ d, (performUpdateCheck params apps w).2.trace = d ++ w.trace ∧
      (d.filterMap ridOf).Pairwise (· > ·) ∧ (d.filterMap nonceOf).Pairwise (· > ·) ∧
      (∀ g ∈ d.filterMap ridOf, sessionOf params w ≤ g) ∧ (d.filterMap ridOf).Nodup ∧ (d.filterMap nonceOf).Nodup := by
  obtain ⟨⟨d, e, r, n, _⟩, _, _, _⟩ := dr_performUpdateCheck params apps w
  refine ⟨d, e, r.1, n.1, ?_, r.nodup, n.nodup⟩
  intro g hg
  rw [sessionOf_eq]
  exact (r.2 g hg).1

/-- Every request id of a check is a later draw than the check's session id. -/
theorem check_rids_after_session (params : RequestParams) (apps : List App) (w : World) :
    ∃ d, (performUpdateCheck params apps w).2.trace = d ++ w.trace ∧
      ∀ g ∈ d.filterMap ridOf, sessionOf params w < g := by
  rw [performUpdateCheck_eq, sessionOf_eq]
  obtain ⟨_, ⟨d1, e1, p1⟩, hlt⟩ := dr_requestPhase params apps w
  generalize requestPhase params apps w = r at e1 hlt
  obtain ⟨res, attempts, w2⟩ := r
  simp only at e1 hlt
  have tail : ∀ w3, Dr w2 w3 → ∃ d, w3.trace = d ++ w.trace ∧ ∀ g ∈ d.filterMap ridOf, w.nGuid < g := by
    intro w3 h
    obtain ⟨⟨d3, e3, r3, _, _⟩, _, _, _⟩ := h
    refine ⟨d3 ++ d1, by rw [e3, e1, List.append_assoc], ?_⟩
    intro g hg
    rw [List.filterMap_append] at hg
    rcases List.mem_append.1 hg with h | h
    · have := (r3.2 g h).1; omega
    · exact p1 g h
  cases res with
  | error f => exact tail _ (dr_metric _ _)
  | ok body => exact tail _ ((dr_metric _ _).trans (dr_responsePhase _ _ _ _ _))

/-! ### Beyond one check: pings, the reboot wait, iterations of `run`, histories -/

/-- A step that changes neither the trace nor a counter. -/
theorem dr_upd (w w' : World) (ht : w'.trace = w.trace) (hg : w'.nGuid = w.nGuid) (hn : w'.nNonce = w.nNonce)
    (hc : w'.cup = w.cup) : Dr w w' :=
  dr_same ht hg hn hc

/-- Prefix a step that changes neither the trace nor a counter. -/
theorem dr_pre {w w' w'' : World} (h : Dr w' w'') (ht : w'.trace = w.trace) (hg : w'.nGuid = w.nGuid)
    (hn : w'.nNonce = w.nNonce) (hc : w'.cup = w.cup) : Dr w w'' := (dr_same ht hg hn hc).trans h

theorem dr_reportAttemptsCheck (success : Bool) (w : World) : Dr w (reportAttemptsCheck success w) := by
  unfold reportAttemptsCheck
  simp only
  split
  · refine Dr.trans ?_ (dr_metric _ _)
    exact dr_upd _ _ rfl rfl rfl rfl
  · exact dr_upd _ _ rfl rfl rfl rfl

theorem dr_reportAttemptsInstall (s : Bool) (w : World) : Dr w (reportAttemptsInstall s w) := by
  unfold reportAttemptsInstall
  simp only
  split
  · exact (dr_metric _ w).trans (dr_storeOp_ _ _)
  · exact (dr_metric _ w).trans (dr_storeOp_ _ _)

theorem dr_setLastUpdate (w : World) : Dr w (setLastUpdate w) := dr_upd _ _ rfl rfl rfl rfl

theorem dr_prepareOk (ok : CheckOk) (w : World) : Dr w (prepareOk ok w) := by
  unfold prepareOk
  simp only
  have h1 : Dr w (reportAttemptsCheck true (setLastUpdate w)) :=
    (dr_setLastUpdate w).trans (dr_reportAttemptsCheck _ _)
  generalize reportAttemptsCheck true (setLastUpdate w) = x at h1
  have h2 : Dr w ({ x with apps := updateFromOmaha x.apps ok.responses } : World) :=
    h1.trans (dr_upd _ _ rfl rfl rfl rfl)
  split
  · exact h2.trans (dr_reportAttemptsInstall _ _)
  · exact h2

theorem dr_prepareErr (e : CheckErr) (w : World) : Dr w (prepareErr e w) := by
  unfold prepareErr
  simp only
  have h1 : Dr w (if talkedToOmaha e = true then setLastUpdate w else w) := by
    split
    · exact dr_setLastUpdate w
    · exact Dr.refl _
  exact (h1.trans (dr_metric _ _)).trans (dr_reportAttemptsCheck _ _)

theorem dr_closeCheck (r : Except CheckErr (List AppResp)) (w : World) : Dr w (closeCheck r w) := by
  unfold closeCheck
  simp only
  exact (((dr_yield _ w).trans (dr_yield _ _)).trans (dr_yield _ _)).trans (dr_persistData _)

theorem dr_startUpdateCheck (params : RequestParams) (w : World) : Dr w (startUpdateCheck params w).2 := by
  unfold startUpdateCheck
  have h1 := dr_performUpdateCheck params w.apps w
  generalize performUpdateCheck params w.apps w = pr at h1
  obtain ⟨res, w1⟩ := pr
  cases res with
  | none => exact h1
  | some cr =>
    cases cr with
    | ok ok => exact (h1.trans (dr_prepareOk ok w1)).trans (dr_closeCheck _ _)
    | error e => exact (h1.trans (dr_prepareErr e w1)).trans (dr_closeCheck _ _)

theorem dr_pingOmaha (w : World) : Dr w (pingOmaha w).2 := by
  unfold pingOmaha
  simp only
  generalize (List.foldl (fun b app => b.apply (.ping app)) ({ params := { source := .scheduledTask, useConfiguredProxies := true } } : Request.Builder) w.apps) = b0
  have h0 : Dr w (nextGuid w).2 := ⟨⟨[], by simp [nextGuid], Dec.nil _ _, Dec.nil _ _, fun _ _ h => by cases h⟩, by simp [nextGuid], by simp [nextGuid], rfl⟩
  generalize ({ b0 with sessionId := some (guidBytes (nextGuid w).1) } : Request.Builder) = b1
  have h1 := h0.trans (dr_request .ping b1 (nextGuid w).2)
  generalize omahaRequest .ping (withRequestId b1 (nextGuid w).2).1 (withRequestId b1 (nextGuid w).2).2 = r at h1
  obtain ⟨res, w1⟩ := r
  have hfail : ∀ x : World, Dr x (pingFailed x) := by
    intro x; unfold pingFailed
    exact dr_pre (dr_persistData _) rfl rfl rfl rfl
  cases res with
  | error f => exact h1.trans (hfail _)
  | ok body =>
    simp only
    split
    · exact h1
    · exact h1.trans (hfail _)
    · rename_i response _
      refine h1.trans ?_
      unfold pingSucceeded
      simp only
      have t1 : Dr w1 (setLastUpdate { w1 with ctx := { w1.ctx with st := { w1.ctx.st with failures := 0 } } }) := dr_same rfl rfl rfl rfl
      generalize setLastUpdate { w1 with ctx := { w1.ctx with st := { w1.ctx.st with failures := 0 } } } = x at t1
      have t2 := t1.trans (dr_yield (.schedule x.ctx.sched) x)
      refine t2.trans ?_
      exact dr_pre (dr_persistData _) rfl rfl rfl rfl

theorem dr_updateNext (t : Timing) (w : World) : Dr w (updateNext t w) := by
  unfold updateNext
  simp only
  refine (dr_emit (.policyNext w.apps w.ctx.sched w.ctx.st t) w (fun _ _ h => by cases h)).trans ?_
  exact dr_pre (dr_yield _ _) rfl rfl rfl rfl

theorem dr_armWait (t : Timing) (w : World) : Dr w (armWait t w).2 := by
  unfold armWait
  split
  · simp only
    exact ((dr_emit _ w (fun _ _ h => by cases h)).trans (dr_emit _ _ (fun _ _ h => by cases h))).trans (dr_same rfl rfl rfl rfl)
  · simp only
    exact (dr_emit _ w (fun _ _ h => by cases h)).trans (dr_same rfl rfl rfl rfl)

theorem dr_rebootLoop (opts : InstallSource) (t30 : Nat) (pingNeed : List Nat) (steps : List (WaitStep × Clock))
    (answers : List Bool) (nexts : List Timing) (w : World) :
    Dr w (rebootLoop opts t30 pingNeed steps answers nexts w).2 := by
  induction steps generalizing opts t30 pingNeed answers nexts w with
  | nil => unfold rebootLoop; exact Dr.refl _
  | cons sd rest ih =>
    obtain ⟨step, dt⟩ := sd
    unfold rebootLoop
    simp only
    have h0 : Dr w (tick dt w) := dr_tick _ _
    cases step with
    | fire i =>
      simp only
      have h1 := h0.trans (dr_emit (.timerFire i) (tick dt w) (fun _ _ h => by cases h))
      split
      · have h2 := h1.trans (dr_emit (.policyRebootAllowed opts (popBool answers).1) _ (fun _ _ h => by cases h))
        split
        · exact h2
        · refine (h2.trans (dr_emit (.timerArm (.for_ (1800 * 1000000000))) _ (fun _ _ h => by cases h))).trans ?_
          exact dr_pre (ih _ _ _ _ _ _) rfl rfl rfl rfl
      · split
        · have h2 := h1.trans (dr_pingOmaha _)
          generalize pingOmaha (emit (.timerFire i) (tick dt w)) = pr at h2
          obtain ⟨r, w1⟩ := pr
          cases r with
          | none => exact h2
          | some u =>
            simp only
            exact ((h2.trans (dr_updateNext (popTiming nexts).1 w1)).trans (dr_armWait (popTiming nexts).1 _)).trans (ih _ _ _ _ _ _)
        · exact h1.trans (ih _ _ _ _ _ _)
    | ctl id src =>
      simp only
      have h1 := h0.trans (dr_emit (.reply id .alreadyRunning) (tick dt w) (fun _ _ h => by cases h))
      split
      · have h2 := h1.trans (dr_emit (.policyRebootAllowed .onDemand (popBool answers).1) _ (fun _ _ h => by cases h))
        split
        · exact h2
        · exact h2.trans (ih _ _ _ _ _ _)
      · exact h1.trans (ih _ _ _ _ _ _)

theorem dr_waitForReboot (opts : InstallSource) (u : UnitEnv) (w : World) : Dr w (waitForReboot opts u w).2 := by
  unfold waitForReboot doReboot
  have hw : Dr w (rebootWait opts u w).2 := by
    unfold rebootWait
    simp only
    have h0 := dr_emit (.policyRebootAllowed opts (popBool u.rebootAllowed).1) w (fun _ _ h => by cases h)
    generalize emit (.policyRebootAllowed opts (popBool u.rebootAllowed).1) w = w0 at h0
    split
    · exact h0
    · have h1 := h0.trans (dr_emit (.timerArm (.for_ (1800 * 1000000000))) w0 (fun _ _ h => by cases h))
      generalize emit (.timerArm (.for_ (1800 * 1000000000))) w0 = w1 at h1
      have h2 : Dr w ({ w1 with nTimer := w1.nTimer + 1 }) := h1.trans (dr_same rfl rfl rfl rfl)
      exact ((h2.trans (dr_updateNext (popTiming u.rebootNext).1 _)).trans (dr_armWait (popTiming u.rebootNext).1 _)).trans
        (dr_rebootLoop opts w1.nTimer _ u.rebootSteps (popBool u.rebootAllowed).2 (popTiming u.rebootNext).2 _)
  generalize rebootWait opts u w = p at hw
  obtain ⟨d, w1⟩ := p
  cases d with
  | none => exact hw
  | some b =>
    cases b
    · exact hw
    · exact hw.trans (dr_emit (.reboot u.rebootOk) w1 (fun _ _ h => by cases h))

theorem dr_afterCheck (u : UnitEnv) (opts : InstallSource) (reboot : Option Bool) (w : World) :
    Dr w (afterCheck u opts reboot w).2 := by
  unfold afterCheck
  cases reboot with
  | none => exact Dr.refl _
  | some b =>
    cases b with
    | false => exact dr_yield _ _
    | true =>
      simp only
      have h := (dr_yield (.state .waitingForReboot) w).trans (dr_waitForReboot opts u _)
      generalize waitForReboot opts u (yieldEv (.state .waitingForReboot) w) = p at h
      obtain ⟨r, w1⟩ := p
      cases r with
      | none => exact h
      | some b =>
        cases b
        · exact h
        · exact h.trans (dr_yield _ _)

theorem dr_replyCtl (ctl : Option Nat) (r : Reply) (w : World) : Dr w (replyCtl ctl r w) := by
  unfold replyCtl
  split
  · exact dr_emit _ _ (fun _ _ h => by cases h)
  · exact Dr.refl _

theorem dr_replyDuring (during : List (Nat × InstallSource)) (w : World) : Dr w (replyDuring during w) := by
  unfold replyDuring
  induction during generalizing w with
  | nil => exact Dr.refl _
  | cons d rest ih => exact (dr_emit _ w (fun _ _ h => by cases h)).trans (ih _)

theorem dr_decideAndCheck (u : UnitEnv) (opts : InstallSource) (ctl : Option Nat) (w : World) :
    Dr w (decideAndCheck u opts ctl w).2 := by
  unfold decideAndCheck
  simp only
  have h0 := dr_emit (.policyAllowed w.apps w.ctx.sched w.ctx.st opts u.allow) w (fun _ _ h => by cases h)
  generalize emit (.policyAllowed w.apps w.ctx.sched w.ctx.st opts u.allow) w = w0 at h0
  have pos : ∀ params, Dr w (afterCheck u (upgradeOpts u.during opts)
      (startUpdateCheck params (replyDuring u.during (replyCtl ctl .started w0))).1
      (startUpdateCheck params (replyDuring u.during (replyCtl ctl .started w0))).2).2 := by
    intro params
    exact (((h0.trans (dr_replyCtl _ _ _)).trans (dr_replyDuring _ _)).trans (dr_startUpdateCheck params _)).trans (dr_afterCheck _ _ _ _)
  cases u.allow with
  | tooSoon => exact h0.trans (dr_replyCtl _ _ _)
  | throttled => exact h0.trans (dr_replyCtl _ _ _)
  | denied => exact h0.trans (dr_replyCtl _ _ _)
  | ok params => exact pos params
  | okUpdateDeferred params => exact pos params

theorem dr_outerWait (need : List Nat) (steps : List WaitStep) (w : World) : Dr w (outerWait need steps w).2 := by
  induction steps generalizing need w with
  | nil => unfold outerWait; exact Dr.refl _
  | cons st rest ih =>
    cases st with
    | fire i =>
      unfold outerWait
      simp only
      split
      · exact dr_emit _ _ (fun _ _ h => by cases h)
      · exact (dr_emit (.timerFire i) w (fun _ _ h => by cases h)).trans (ih _ _)
    | ctl id src => unfold outerWait; exact Dr.refl _

theorem dr_waitedStep (rs : RunState) (w : World) : Dr w (waitedStep rs w).2 := by
  unfold waitedStep
  split
  · split
    · rename_i fin _
      have hx : ∀ x, reportWaited fin rs.startMono w = some x → Dr w x := by
        intro x h1
        unfold reportWaited at h1
        simp only at h1
        split at h1
        · cases h1
        · split at h1
          · cases h1
          · split at h1
            · cases h1
            · cases h1; exact dr_metric _ _
      cases h1 : reportWaited fin rs.startMono w with
      | none => exact Dr.refl _
      | some x =>
        exact (((hx x h1).trans (dr_storeOp_ _ _)).trans (dr_storeOp_ _ _)).trans (dr_storeOp_ _ _)
    · exact Dr.refl _
  · exact Dr.refl _

theorem dr_runUnit (u : UnitEnv) (rs : RunState) (w : World) : Dr w (runUnit u rs w).2.2 := by
  unfold runUnit
  simp only
  have h0 : Dr w ({ w with env := u.env, nTimer := 0 } : World) := dr_same rfl rfl rfl rfl
  generalize ({ w with env := u.env, nTimer := 0 } : World) = x at h0
  have h4 := ((((h0.trans (dr_waitedStep rs x)).trans (dr_updateNext u.next _)).trans (dr_armWait u.next _)).trans
    (dr_outerWait (armWait u.next (updateNext u.next (waitedStep rs x).2)).1 u.wake _)).trans (dr_tick u.wakeDt _)
  generalize tick u.wakeDt (outerWait (armWait u.next (updateNext u.next (waitedStep rs x).2)).1 u.wake (armWait u.next (updateNext u.next (waitedStep rs x).2)).2).2 = y at h4
  split
  · exact h4
  · exact h4.trans (dr_decideAndCheck _ _ _ _)
  · exact h4.trans (dr_decideAndCheck _ _ _ _)

/-- **one_draw_per_request (histories).** Over any number of iterations of `run` — checks with their
retries and event reports, pings while waiting to reboot, throttled iterations — the request ids of
all requests are pairwise distinct draws and (with CUP) so are the nonces: the k-th request uses a
draw no earlier request used. -/
theorem history_draws_fresh (us : List UnitEnv) (rs : RunState) (w : World) :
    ∃ d, (runUnits us rs w).2.2.trace = d ++ w.trace ∧ (d.filterMap ridOf).Nodup ∧ (d.filterMap nonceOf).Nodup ∧
      ∀ r o, Action.http r o ∈ d → r.nonceDraw.isSome = w.cup.isSome ∧ r.requestDraw.isSome = true := by
  have key : Dr w (runUnits us rs w).2.2 := by
    induction us generalizing rs w with
    | nil => exact Dr.refl _
    | cons u rest ih =>
      simp only [runUnits]
      have h1 := dr_runUnit u rs w
      generalize runUnit u rs w = r at h1
      obtain ⟨a, b, x⟩ := r
      cases a with
      | completed => exact h1.trans (ih b x)
      | stalled => exact h1
      | outside => exact h1
  obtain ⟨⟨d, e, r, n, k⟩, _, _, _⟩ := key
  exact ⟨d, e, r.nodup, n.nodup, k⟩

end Omaha.SM
