/-
Text-level round trip of the JSON writer through the JSON reader:
`parseDoc strictMode (Json.render j) = some (toVal j)` for every document whose strings are valid
UTF-8, whose integers are u64 and whose nesting is below the reader's limit.
-/
import Omaha.Basic.JsonParse
import Omaha.Lemmas.Dec

namespace Omaha.JsonP

open Omaha

/-! ### Strings -/

theorem nibble_rt (d : Nat) (h : d < 16) : Hex.nibbleVal (Hex.nibbleByte d) = some d := by
  have : ∀ d : Fin 16, Hex.nibbleVal (Hex.nibbleByte d.val) = some d.val := by decide
  exact this ⟨d, h⟩

theorem hex4_ctl (b : UInt8) (h : b.toNat < 32) (rest : Bytes) :
    hex4 (48 :: 48 :: Hex.nibbleByte (b.toNat / 16) :: Hex.nibbleByte (b.toNat % 16) :: rest) = some (b.toNat, rest) := by
  have h0 : Hex.nibbleVal 48 = some 0 := by decide
  simp only [hex4, h0, nibble_rt _ (show b.toNat / 16 < 16 by omega), nibble_rt _ (Nat.mod_lt _ (by omega))]
  congr 2
  omega

theorem encodeUtf8_small (b : UInt8) (h : b.toNat < 128) : encodeUtf8 b.toNat = [b] := by
  unfold encodeUtf8
  simp only [h, if_true]
  congr 1
  exact UInt8.ofNat_toNat

/-- The reader undoes the writer's escaping, whatever follows the closing quote. -/
theorem parseStrBody_escape (strict : Bool) (s : Bytes) : ∀ (fuel : Nat) (acc rest : Bytes), s.length < fuel →
    parseStrBody strict fuel acc (s.flatMap Json.escapeByte ++ 34 :: rest) = some (acc.reverse ++ s, rest) := by
  induction s with
  | nil =>
    intro fuel acc rest hf
    cases fuel with
    | zero => omega
    | succ f => simp [parseStrBody]
  | cons b s ih =>
    intro fuel acc rest hf
    cases fuel with
    | zero => omega
    | succ f =>
      have hf' : s.length < f := by simp at hf; omega
      simp only [List.flatMap_cons, List.append_assoc]
      have step : ∀ c : UInt8, parseStrBody strict f (c :: acc) (s.flatMap Json.escapeByte ++ 34 :: rest) =
          some (acc.reverse ++ c :: s, rest) := by
        intro c
        rw [ih f (c :: acc) rest hf']
        simp
      generalize s.flatMap Json.escapeByte ++ 34 :: rest = tail at step ⊢
      unfold Json.escapeByte
      split
      · rename_i h; subst h; simp [parseStrBody, step]
      split
      · rename_i h; subst h; simp [parseStrBody, step]
      split
      · rename_i h; subst h; simp [parseStrBody, step]
      split
      · rename_i h; subst h; simp [parseStrBody, step]
      split
      · rename_i h; subst h; simp [parseStrBody, step]
      split
      · rename_i h; subst h; simp [parseStrBody, step]
      split
      · rename_i h; subst h; simp [parseStrBody, step]
      split
      · rename_i h
        have hu : ¬ (0xD800 ≤ b.toNat) := by omega
        have hu2 : ¬ (0xDC00 ≤ b.toNat) := by omega
        simp [parseStrBody, hex4_ctl b h, hu, hu2, encodeUtf8_small b (by omega), step]
      · rename_i h34 h92 _ _ _ _ _ h32
        rw [parseStrBody.eq_def]
        simp only
        split
        · rename_i heq; cases heq
        · rename_i heq; cases heq; exact absurd rfl h34
        · rename_i heq; cases heq; exact absurd rfl h92
        · rename_i heq; cases heq; exact absurd rfl h92
        · rename_i heq
          cases heq
          simp only [h32, if_false]
          exact step _

theorem length_le_flatMap_escape (s : Bytes) : s.length ≤ (s.flatMap Json.escapeByte).length := by
  induction s with
  | nil => simp
  | cons b s ih =>
    have : 1 ≤ (Json.escapeByte b).length := by
      unfold Json.escapeByte
      repeat' split
      all_goals simp
    simp only [List.flatMap_cons, List.length_append, List.length_cons]
    omega

/-- **string round trip.** The reader's string function on the writer's string: the bytes come
back, the input after the closing quote is untouched.  Strict mode needs the bytes to be UTF-8. -/
theorem parseStr_renderStr (strict : Bool) (s rest : Bytes) (hv : strict = true → validUtf8 s = true) :
    parseStr strict (s.flatMap Json.escapeByte ++ 34 :: rest) = some (s, rest) := by
  unfold parseStr
  rw [parseStrBody_escape strict s _ [] rest (by
    have := length_le_flatMap_escape s
    simp only [List.length_append, List.length_cons]; omega)]
  simp only [List.reverse_nil, List.nil_append]
  cases strict with
  | false => simp
  | true => simp [hv rfl]

/-! ### Numbers -/

/-- What may follow a number without being read as part of it. -/
def NumEnd (rest : Bytes) : Prop :=
  ∀ b r, rest = b :: r → ¬ Dec.isDigit b ∧ b ≠ 46 ∧ b ≠ 101 ∧ b ≠ 69

theorem takeDigits_append (ds rest : Bytes) (hd : ∀ b ∈ ds, Dec.isDigit b) (hr : ∀ b r, rest = b :: r → ¬ Dec.isDigit b) :
    takeDigits (ds ++ rest) = (ds, rest) := by
  induction ds with
  | nil =>
    cases rest with
    | nil => rfl
    | cons b r =>
      have := hr b r rfl
      unfold Dec.isDigit at this
      simp only [List.nil_append, takeDigits, this, if_false]
  | cons d ds ih =>
    have hd0 := hd d (by simp)
    unfold Dec.isDigit at hd0
    simp only [List.cons_append, takeDigits, hd0, and_self, if_true]
    rw [ih (fun b hb => hd b (by simp [hb]))]

theorem revDigitsAux_length (fuel n k : Nat) (h : n < 10 ^ k) : (Dec.revDigitsAux fuel n).length ≤ k := by
  induction fuel generalizing n k with
  | zero => simp [Dec.revDigitsAux]
  | succ fuel ih =>
    simp only [Dec.revDigitsAux]
    split
    · simp
    · rename_i hn
      cases k with
      | zero => simp at h; omega
      | succ k =>
        simp only [List.length_cons]
        have : n / 10 < 10 ^ k := by
          rw [Nat.pow_succ] at h
          exact Nat.div_lt_of_lt_mul (by rw [Nat.mul_comm]; exact h)
        have := ih (n / 10) k this
        omega

theorem render_length_le (n k : Nat) (hk : 1 ≤ k) (h : n < 10 ^ k) : (Dec.render n).length ≤ k := by
  unfold Dec.render
  split
  · simpa using hk
  · simp only [List.length_map, List.length_reverse]
    exact revDigitsAux_length n n k h

theorem revDigitsAux_getLast (fuel n : Nat) (h : n ≤ fuel) (hn : n ≠ 0) :
    ∀ d, (Dec.revDigitsAux fuel n).getLast? = some d → d ≠ 0 := by
  induction fuel generalizing n with
  | zero => omega
  | succ fuel ih =>
    intro d hd
    simp only [Dec.revDigitsAux, hn, if_false] at hd
    by_cases h10 : n / 10 = 0
    · have : Dec.revDigitsAux fuel (n / 10) = [] := by
        rw [h10]; cases fuel <;> simp [Dec.revDigitsAux]
      rw [this] at hd
      simp at hd
      omega
    · have hne : Dec.revDigitsAux fuel (n / 10) ≠ [] := by
        cases fuel with
        | zero => omega
        | succ f => simp [Dec.revDigitsAux, h10]
      rw [List.getLast?_cons_of_ne_nil hne] at hd
      exact ih (n / 10) (by omega) h10 d hd

theorem digitByte_eq_48 (d : Nat) (hd : d < 10) (h : Dec.digitByte d = 48) : d = 0 := by
  have := Dec.toNat_digitByte d
  rw [h] at this
  have h48 : (48 : UInt8).toNat = 48 := rfl
  omega

/-- No leading zero unless the number is zero. -/
theorem render_head (n : Nat) (hn : n ≠ 0) : (Dec.render n).head? ≠ some 48 := by
  unfold Dec.render
  simp only [hn, if_false]
  intro h
  rw [List.head?_map, List.head?_reverse] at h
  cases hl : (Dec.revDigits n).getLast? with
  | none => rw [hl] at h; simp at h
  | some d =>
    rw [hl] at h
    simp only [Option.map_some, Option.some.injEq] at h
    have hd : d < 10 := Dec.revDigits_lt n d (List.mem_of_getLast? hl)
    have := digitByte_eq_48 d hd h
    exact revDigitsAux_getLast n n (Nat.le_refl _) hn d hl this

/-- **number round trip (token).** -/
theorem numberToken_render (n : Nat) (rest : Bytes) (hr : NumEnd rest) :
    numberToken (Dec.render n ++ rest) = some (Dec.render n, rest) := by
  have hdig := Dec.render_all_digits n
  have hne := Dec.render_ne_nil n
  have hnd : ∀ b r, rest = b :: r → ¬ Dec.isDigit b := fun b r h => (hr b r h).1
  have h1 : takeSign (Dec.render n ++ rest) = (([] : Bytes), Dec.render n ++ rest) := by
    unfold takeSign
    cases hrn : Dec.render n with
    | nil => exact absurd hrn hne
    | cons b t =>
      have hb := hdig b (by rw [hrn]; simp)
      simp only [List.cons_append]
      split
      · rename_i heq
        cases heq
        exact absurd hb (by unfold Dec.isDigit; decide)
      · rfl
  have h2 : ¬ ((Dec.render n).length > 1 ∧ (Dec.render n).head? = some 48) := by
    intro ⟨hl, hh⟩
    by_cases hn : n = 0
    · subst hn; simp [Dec.render] at hl
    · exact render_head n hn hh
  have h3 : takeFrac rest = (([] : Bytes), rest) := by
    unfold takeFrac
    split
    · rename_i r; exact absurd rfl (hr 46 r rfl).2.1
    · rfl
  have h4 : takeExp rest = (([] : Bytes), rest) := by
    unfold takeExp
    split
    · rename_i e r
      obtain ⟨_, _, h101, h69⟩ := hr e r rfl
      simp [h101, h69]
    · rfl
  unfold numberToken
  simp [h1, takeDigits_append _ _ hdig hnd, hne, h2, h3, h4]

theorem classify_render (n : Nat) (h : n ≤ Dec.u64Max) : classify (Dec.render n) = .uint n := by
  unfold classify
  have hall : (Dec.render n).all (fun b => 48 ≤ b.toNat && b.toNat ≤ 57) = true := by
    rw [List.all_eq_true]
    intro b hb
    have := Dec.render_all_digits n b hb
    unfold Dec.isDigit at this
    simp [this.1, this.2]
  simp [hall, Dec.foldDigits_render, h]

theorem wildNumber_render (n : Nat) (h : n ≤ Dec.u64Max) : wildNumber (Dec.render n) = false := by
  unfold wildNumber
  have hall : (Dec.render n).all (fun b => 48 ≤ b.toNat && b.toNat ≤ 57) = true := by
    rw [List.all_eq_true]
    intro b hb
    have := Dec.render_all_digits n b hb
    unfold Dec.isDigit at this
    simp [this.1, this.2]
  have hl : (Dec.render n).length ≤ 20 := render_length_le n 20 (by omega) (by unfold Dec.u64Max at h; omega)
  simp [hall, hl]

/-! ### Values -/

mutual
  /-- The value the reader produces for a document of the writer (integers are u64). -/
  def toVal : Json → Val
    | .null => .null
    | .bool b => .bool b
    | .int i => .num (.uint i.toNat)
    | .str s => .str s
    | .arr xs => .arr (toVals xs)
    | .obj kvs => .obj (toMembers kvs)
  def toVals : List Json → List Val
    | [] => []
    | x :: xs => toVal x :: toVals xs
  def toMembers : List (Bytes × Json) → List (Bytes × Val)
    | [] => []
    | (k, v) :: rest => (k, toVal v) :: toMembers rest
end

mutual
  /-- Strings are UTF-8, integers are u64. -/
  def Good : Json → Prop
    | .null => True
    | .bool _ => True
    | .int i => 0 ≤ i ∧ i.toNat ≤ Dec.u64Max
    | .str s => validUtf8 s = true
    | .arr xs => GoodL xs
    | .obj kvs => GoodM kvs
  def GoodL : List Json → Prop
    | [] => True
    | x :: xs => Good x ∧ GoodL xs
  def GoodM : List (Bytes × Json) → Prop
    | [] => True
    | (k, v) :: rest => validUtf8 k = true ∧ Good v ∧ GoodM rest
end

mutual
  /-- Nesting depth (scalars 0). -/
  def depthOf : Json → Nat
    | .arr xs => 1 + depthL xs
    | .obj kvs => 1 + depthM kvs
    | _ => 0
  def depthL : List Json → Nat
    | [] => 0
    | x :: xs => max (depthOf x) (depthL xs)
  def depthM : List (Bytes × Json) → Nat
    | [] => 0
    | (_, v) :: rest => max (depthOf v) (depthM rest)
end

mutual
  /-- Fuel that suffices for the reader. -/
  def cost : Json → Nat
    | .arr xs => 1 + costL xs
    | .obj kvs => 1 + costM kvs
    | _ => 1
  def costL : List Json → Nat
    | [] => 0
    | x :: xs => 1 + cost x + costL xs
  def costM : List (Bytes × Json) → Nat
    | [] => 0
    | (_, v) :: rest => 1 + cost v + costM rest
end

/-- First byte of a rendering: never whitespace, never a closing bracket or a comma. -/
def StartOk (s : Bytes) : Prop :=
  ∃ b t, s = b :: t ∧ b ≠ 32 ∧ b ≠ 9 ∧ b ≠ 10 ∧ b ≠ 13 ∧ b ≠ 93 ∧ b ≠ 125 ∧ b ≠ 44

theorem skipWs_startOk {s : Bytes} (h : StartOk s) : skipWs s = s := by
  obtain ⟨b, t, rfl, h1, h2, h3, h4, _⟩ := h
  simp [skipWs, h1, h2, h3, h4]

theorem startOk_append {s : Bytes} (h : StartOk s) (r : Bytes) : StartOk (s ++ r) := by
  obtain ⟨b, t, rfl, h⟩ := h
  exact ⟨b, t ++ r, rfl, h⟩

theorem render_digit_head (n : Nat) : ∃ b t, Dec.render n = b :: t ∧ Dec.isDigit b := by
  cases h : Dec.render n with
  | nil => exact absurd h (Dec.render_ne_nil n)
  | cons b t => exact ⟨b, t, rfl, Dec.render_all_digits n b (by rw [h]; simp)⟩

theorem startOk_render (j : Json) (hg : Good j) : StartOk (Json.render j) := by
  cases j with
  | null => exact ⟨110, _, rfl, by decide⟩
  | bool b => cases b <;> exact ⟨_, _, rfl, by decide⟩
  | int i =>
    obtain ⟨h0, _⟩ := hg
    obtain ⟨b, t, e, hb⟩ := render_digit_head i.toNat
    refine ⟨b, t, ?_, ?_⟩
    · simp only [Json.render, Dec.renderInt, show ¬ i < 0 by omega, if_false, e]
    · unfold Dec.isDigit at hb
      have : ∀ c : UInt8, c.toNat < 48 → b ≠ c := fun c hc h => by subst h; omega
      have h2 : ∀ c : UInt8, 57 < c.toNat → b ≠ c := fun c hc h => by subst h; omega
      exact ⟨this 32 (by decide), this 9 (by decide), this 10 (by decide), this 13 (by decide), h2 93 (by decide),
        h2 125 (by decide), this 44 (by decide)⟩
  | str s => exact ⟨34, _, rfl, by decide⟩
  | arr xs => exact ⟨91, _, rfl, by decide⟩
  | obj kvs => exact ⟨123, _, rfl, by decide⟩

theorem numEnd_cons (b : UInt8) (r : Bytes) (h : b = 44 ∨ b = 93 ∨ b = 125) : NumEnd (b :: r) := by
  intro b' r' he
  cases he
  rcases h with h | h | h <;> subst h <;> exact ⟨by unfold Dec.isDigit; decide, by decide, by decide, by decide⟩

theorem skipWs_cons (b : UInt8) (r : Bytes) (h : b ≠ 32 ∧ b ≠ 9 ∧ b ≠ 10 ∧ b ≠ 13) : skipWs (b :: r) = b :: r := by
  simp [skipWs, h.1, h.2.1, h.2.2.1, h.2.2.2]

theorem parseValue_int (m : Mode) (n : Nat) (hn : n ≤ Dec.u64Max) (f depth : Nat) (rest : Bytes) (hr : NumEnd rest) :
    parseValue m (f + 1) depth (Dec.render n ++ rest) = some (.num (.uint n), rest) := by
  obtain ⟨b, t, e, hb⟩ := render_digit_head n
  have hnum := numberToken_render n rest hr
  rw [e] at hnum ⊢
  unfold Dec.isDigit at hb
  have lo : ∀ c : UInt8, c.toNat < 48 → b ≠ c := fun c hc h => by subst h; omega
  have hi : ∀ c : UInt8, 57 < c.toNat → b ≠ c := fun c hc h => by subst h; omega
  simp only [List.cons_append] at hnum ⊢
  unfold parseValue
  rw [skipWs_cons b _ ⟨lo 32 (by decide), lo 9 (by decide), lo 10 (by decide), lo 13 (by decide)⟩]
  split
  · rename_i heq; cases heq
  · rename_i heq; cases heq; exact absurd rfl (hi 110 (by decide))
  · rename_i heq; cases heq; exact absurd rfl (hi 116 (by decide))
  · rename_i heq; cases heq; exact absurd rfl (hi 102 (by decide))
  · rename_i heq; cases heq; exact absurd rfl (lo 34 (by decide))
  · rename_i heq; cases heq; exact absurd rfl (hi 91 (by decide))
  · rename_i heq; cases heq; exact absurd rfl (hi 123 (by decide))
  · rename_i b' r' _ _ _ _ _ _ heq
    cases heq
    simp only [hb, and_self, or_true, if_true, hnum, ← e, wildNumber_render n hn, Bool.and_false, classify_render n hn]
    rfl

mutual
  /-- **value round trip.** -/
  theorem parseValue_render (m : Mode) : (j : Json) → (fuel depth : Nat) → (rest : Bytes) → Good j → cost j ≤ fuel →
      depthOf j < depth → NumEnd rest → parseValue m fuel depth (Json.render j ++ rest) = some (toVal j, rest)
    | .null, fuel, depth, rest, _, hf, _, _ => by
      cases fuel with
      | zero => simp [cost] at hf
      | succ f => simp [Json.render, parseValue, skipWs, lit, toVal]
    | .bool true, fuel, depth, rest, _, hf, _, _ => by
      cases fuel with
      | zero => simp [cost] at hf
      | succ f => simp [Json.render, parseValue, skipWs, lit, toVal]
    | .bool false, fuel, depth, rest, _, hf, _, _ => by
      cases fuel with
      | zero => simp [cost] at hf
      | succ f => simp [Json.render, parseValue, skipWs, lit, toVal]
    | .int i, fuel, depth, rest, hg, hf, _, hr => by
      cases fuel with
      | zero => simp [cost] at hf
      | succ f =>
        obtain ⟨h0, h1⟩ := hg
        simp only [Json.render, Dec.renderInt, show ¬ i < 0 by omega, if_false, toVal]
        exact parseValue_int m i.toNat h1 f depth rest hr
    | .str s, fuel, depth, rest, hg, hf, _, _ => by
      cases fuel with
      | zero => simp [cost] at hf
      | succ f =>
        simp only [Json.render, Json.renderStr, List.cons_append, List.append_assoc, List.singleton_append, List.nil_append, toVal]
        unfold parseValue
        rw [skipWs_cons 34 _ (by decide)]
        simp only [parseStr_renderStr m.strict s rest (fun _ => hg)]
    | .arr xs, fuel, depth, rest, hg, hf, hd, _ => by
      cases fuel with
      | zero => simp [cost] at hf
      | succ f =>
        simp only [Json.render, List.cons_append, List.append_assoc, List.singleton_append, List.nil_append, toVal]
        unfold parseValue
        rw [skipWs_cons 91 _ (by decide)]
        have hd1 : ¬ depth ≤ 1 := by simp only [depthOf] at hd; omega
        simp only [hd1, if_false]
        cases xs with
        | nil => simp [Json.renderList, skipWs, toVals]
        | cons x xs' =>
          have hx : Good x := hg.1
          have hs : StartOk (Json.renderList (x :: xs') ++ 93 :: rest) := by
            cases xs' with
            | nil => exact startOk_append (startOk_render x hx) _
            | cons y r => simp only [Json.renderList, List.append_assoc]; exact startOk_append (startOk_render x hx) _
          have h93 : ∀ r', skipWs (Json.renderList (x :: xs') ++ 93 :: rest) ≠ 93 :: r' := by
            intro r' h
            rw [skipWs_startOk hs] at h
            obtain ⟨b, t, e, _, _, _, _, hb, _⟩ := hs
            rw [e] at h
            cases h
            exact hb rfl
          have ih := parseElems_render m (x :: xs') (by simp) f (depth - 1) rest [] hg (by simp only [cost] at hf; omega)
            (by simp only [depthOf] at hd; omega)
          split
          · rename_i r' heq; exact absurd heq (h93 r')
          · rw [ih]; simp
    | .obj kvs, fuel, depth, rest, hg, hf, hd, _ => by
      cases fuel with
      | zero => simp [cost] at hf
      | succ f =>
        simp only [Json.render, List.cons_append, List.append_assoc, List.singleton_append, List.nil_append, toVal]
        unfold parseValue
        rw [skipWs_cons 123 _ (by decide)]
        have hd1 : ¬ depth ≤ 1 := by simp only [depthOf] at hd; omega
        simp only [hd1, if_false]
        cases kvs with
        | nil => simp [Json.renderMembers, skipWs, toMembers]
        | cons kv kvs' =>
          have h125 : ∀ r', skipWs (Json.renderMembers (kv :: kvs') ++ 125 :: rest) ≠ 125 :: r' := by
            intro r' h
            obtain ⟨k, v⟩ := kv
            cases kvs' with
            | nil => simp [Json.renderMembers, Json.renderStr, skipWs] at h
            | cons y r => simp [Json.renderMembers, Json.renderStr, skipWs] at h
          have ih := parseMembers_render m (kv :: kvs') (by simp) f (depth - 1) rest [] hg (by simp only [cost] at hf; omega)
            (by simp only [depthOf] at hd; omega)
          split
          · rename_i r' heq; exact absurd heq (h125 r')
          · rw [ih]; simp
  theorem parseElems_render (m : Mode) : (xs : List Json) → xs ≠ [] → (fuel depth : Nat) → (rest : Bytes) → (acc : List Val) →
      GoodL xs → costL xs ≤ fuel → depthL xs < depth →
      parseElems m fuel depth (Json.renderList xs ++ 93 :: rest) acc = some (.arr (acc.reverse ++ toVals xs), rest)
    | [], hne, _, _, _, _, _, _, _ => absurd rfl hne
    | [x], _, fuel, depth, rest, acc, hg, hf, hd => by
      cases fuel with
      | zero => simp [costL] at hf
      | succ f =>
        simp only [Json.renderList]
        unfold parseElems
        rw [parseValue_render m x f depth (93 :: rest) hg.1 (by simp only [costL] at hf; omega)
          (by simp only [depthL] at hd; omega) (numEnd_cons 93 rest (by simp))]
        simp [skipWs, toVals]
    | x :: y :: r, _, fuel, depth, rest, acc, hg, hf, hd => by
      cases fuel with
      | zero => simp [costL] at hf
      | succ f =>
        simp only [Json.renderList, List.append_assoc, List.cons_append]
        unfold parseElems
        rw [parseValue_render m x f depth _ hg.1 (by simp only [costL] at hf; omega)
          (by simp only [depthL] at hd; omega) (numEnd_cons 44 _ (by simp))]
        simp only [skipWs_cons 44 _ (by decide)]
        rw [parseElems_render m (y :: r) (by simp) f depth rest (toVal x :: acc) hg.2 (by simp only [costL] at hf ⊢; omega)
          (by simp only [depthL] at hd ⊢; omega)]
        simp [toVals]
  theorem parseMembers_render (m : Mode) : (kvs : List (Bytes × Json)) → kvs ≠ [] → (fuel depth : Nat) → (rest : Bytes) →
      (acc : List (Bytes × Val)) → GoodM kvs → costM kvs ≤ fuel → depthM kvs < depth →
      parseMembers m fuel depth (Json.renderMembers kvs ++ 125 :: rest) acc = some (.obj (acc.reverse ++ toMembers kvs), rest)
    | [], hne, _, _, _, _, _, _, _ => absurd rfl hne
    | [(k, v)], _, fuel, depth, rest, acc, hg, hf, hd => by
      cases fuel with
      | zero => simp [costM] at hf
      | succ f =>
        simp only [Json.renderMembers, Json.renderStr, List.cons_append, List.append_assoc, List.singleton_append, List.nil_append]
        unfold parseMembers
        rw [skipWs_cons 34 _ (by decide)]
        simp only [parseStr_renderStr m.strict k _ (fun _ => hg.1), skipWs_cons 58 _ (by decide)]
        rw [parseValue_render m v f depth (125 :: rest) hg.2.1 (by simp only [costM] at hf; omega)
          (by simp only [depthM] at hd; omega) (numEnd_cons 125 rest (by simp))]
        simp [skipWs, toMembers]
    | (k, v) :: kv :: r, _, fuel, depth, rest, acc, hg, hf, hd => by
      cases fuel with
      | zero => simp [costM] at hf
      | succ f =>
        simp only [Json.renderMembers, Json.renderStr, List.cons_append, List.append_assoc, List.singleton_append, List.nil_append]
        unfold parseMembers
        rw [skipWs_cons 34 _ (by decide)]
        simp only [parseStr_renderStr m.strict k _ (fun _ => hg.1), skipWs_cons 58 _ (by decide)]
        rw [parseValue_render m v f depth _ hg.2.1 (by simp only [costM] at hf; omega)
          (by simp only [depthM] at hd; omega) (numEnd_cons 44 _ (by simp))]
        simp only [skipWs_cons 44 _ (by decide)]
        rw [parseMembers_render m (kv :: r) (by simp) f depth rest ((k, toVal v) :: acc) hg.2.2 (by simp only [costM] at hf ⊢; omega)
          (by simp only [depthM] at hd ⊢; omega)]
        simp [toMembers]
end

/-! ### Whole documents -/

theorem renderInt_ne_nil (i : Int) : Dec.renderInt i ≠ [] := by
  unfold Dec.renderInt
  split
  · simp
  · exact Dec.render_ne_nil _

mutual
  theorem cost_le : (j : Json) → cost j ≤ 2 * (Json.render j).length
    | .null => by simp [cost, Json.render]
    | .bool true => by simp [cost, Json.render]
    | .bool false => by simp [cost, Json.render]
    | .int i => by
      have : 0 < (Dec.renderInt i).length := List.length_pos_iff.2 (renderInt_ne_nil i)
      simp only [cost, Json.render]; omega
    | .str s => by simp [cost, Json.render, Json.renderStr]; omega
    | .arr xs => by
      have := costL_le xs
      simp only [cost, Json.render, List.length_cons, List.length_append, List.length_nil]; omega
    | .obj kvs => by
      have := costM_le kvs
      simp only [cost, Json.render, List.length_cons, List.length_append, List.length_nil]; omega
  theorem costL_le : (xs : List Json) → costL xs ≤ 2 * (Json.renderList xs).length + 1
    | [] => by simp [costL]
    | [x] => by
      have := cost_le x
      simp only [costL, Json.renderList]; omega
    | x :: y :: r => by
      have := cost_le x
      have := costL_le (y :: r)
      simp only [costL, Json.renderList, List.length_cons, List.length_append] at *; omega
  theorem costM_le : (kvs : List (Bytes × Json)) → costM kvs ≤ 2 * (Json.renderMembers kvs).length + 1
    | [] => by simp [costM]
    | [(k, v)] => by
      have := cost_le v
      simp only [costM, Json.renderMembers, List.length_cons, List.length_append]; omega
    | (k, v) :: kv :: r => by
      have := cost_le v
      have := costM_le (kv :: r)
      simp only [costM, Json.renderMembers, List.length_cons, List.length_append] at *; omega
end

theorem numEnd_nil : NumEnd [] := fun _ _ h => by cases h

/-- **parse_render (text level).** The reader, in the mode every materialising position of
serde_json accepts, reads the writer's text of a document back as exactly that document — for every
document whose strings are UTF-8, whose integers are u64 and whose nesting stays below the limit. -/
theorem parseDoc_render (j : Json) (hg : Good j) (hd : depthOf j < 100) :
    parseDoc strictMode (Json.render j) = some (toVal j) := by
  unfold parseDoc
  have h := parseValue_render strictMode j (2 * (Json.render j).length + 2) 100 [] hg
    (by have := cost_le j; omega) hd numEnd_nil
  rw [List.append_nil] at h
  show (match parseValue strictMode (2 * (Json.render j).length + 2) 100 (Json.render j) with
    | some (v, rest) => if skipWs rest = [] then some v else none
    | none => none) = some (toVal j)
  rw [h]
  simp [skipWs]

theorem parse_render (j : Json) (hg : Good j) (hd : depthOf j < 100) : parse (Json.render j) = .ok (toVal j) := by
  unfold parse
  rw [parseDoc_render j hg hd]

/-! ### Composition lemmas for `Good` / `depthOf` -/

theorem goodM_append (a b : List (Bytes × Json)) : GoodM (a ++ b) ↔ GoodM a ∧ GoodM b := by
  induction a with
  | nil => simp [GoodM]
  | cons kv a ih =>
    obtain ⟨k, v⟩ := kv
    simp only [List.cons_append, GoodM, ih]
    constructor
    · rintro ⟨h1, h2, h3, h4⟩; exact ⟨⟨h1, h2, h3⟩, h4⟩
    · rintro ⟨⟨h1, h2, h3⟩, h4⟩; exact ⟨h1, h2, h3, h4⟩

theorem goodL_map {α} (f : α → Json) (l : List α) : GoodL (l.map f) ↔ ∀ x ∈ l, Good (f x) := by
  induction l with
  | nil => simp [GoodL]
  | cons x l ih => simp [GoodL, ih]

theorem depthM_append (a b : List (Bytes × Json)) : depthM (a ++ b) = max (depthM a) (depthM b) := by
  induction a with
  | nil => simp [depthM]
  | cons kv a ih =>
    obtain ⟨k, v⟩ := kv
    simp only [List.cons_append, depthM, ih]
    omega

theorem depthL_map_le {α} (f : α → Json) (l : List α) (n : Nat) (h : ∀ x ∈ l, depthOf (f x) ≤ n) : depthL (l.map f) ≤ n := by
  induction l with
  | nil => simp [depthL]
  | cons x l ih =>
    simp only [List.map_cons, depthL]
    have := h x (by simp)
    have := ih (fun y hy => h y (by simp [hy]))
    omega

/-- ASCII bytes are valid UTF-8. -/
theorem validUtf8_ascii (s : Bytes) (h : ∀ b ∈ s, b.toNat < 128) : validUtf8 s = true := by
  induction s with
  | nil => rfl
  | cons b s ih =>
    have hb := h b (by simp)
    unfold validUtf8
    simp only [hb, if_true]
    exact ih (fun c hc => h c (by simp [hc]))

/-- A string literal all of whose characters are ASCII is valid UTF-8 (the hypothesis is closed by
`decide`; deciding `validUtf8` itself on a literal is exponential for the kernel). -/
theorem lit_ascii (s : String) (h : s.toList.all (fun c => c.toNat < 128) = true) : validUtf8 (Bytes.ofString s) = true := by
  apply validUtf8_ascii
  intro b hb
  simp only [Bytes.ofString, List.mem_map] at hb
  obtain ⟨c, hc, rfl⟩ := hb
  have := List.all_eq_true.1 h c hc
  simp only [decide_eq_true_eq] at this
  show (UInt8.ofNat c.toNat).toNat < 128
  rw [UInt8.toNat_ofNat']
  omega

end Omaha.JsonP
