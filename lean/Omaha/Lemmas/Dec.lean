/-
Lemmas about decimal rendering / parsing and splitting, used by C20, C07, C01, C03.
-/
import Omaha.Basic.Bytes

namespace Omaha

namespace Dec

theorem toNat_digitByte (d : Nat) : (digitByte d).toNat = 48 + d % 10 := by
  unfold digitByte
  simp [UInt8.toNat_ofNat']; omega

@[simp] theorem digitVal_digitByte (d : Nat) (h : d < 10) : digitVal (digitByte d) = some d := by
  unfold digitVal
  rw [toNat_digitByte]
  have h2 : d % 10 = d := Nat.mod_eq_of_lt h
  simp [h2]; omega

/-- A byte is an ASCII decimal digit. -/
def isDigit (b : UInt8) : Prop := 48 ≤ b.toNat ∧ b.toNat ≤ 57

instance (b : UInt8) : Decidable (isDigit b) := by unfold isDigit; infer_instance

theorem digitVal_isSome_iff (b : UInt8) : (digitVal b).isSome ↔ isDigit b := by
  unfold digitVal isDigit; split <;> simp_all

theorem digitVal_eq_some (b : UInt8) (d : Nat) :
    digitVal b = some d ↔ isDigit b ∧ d = b.toNat - 48 := by
  unfold digitVal isDigit
  split
  · rename_i h; simp [h, eq_comm]
  · rename_i h; simp [h]

theorem isDigit_digitByte (d : Nat) : isDigit (digitByte d) := by
  unfold isDigit; rw [toNat_digitByte]; omega

/-- Numeric value of a digit list (most significant first) on top of an accumulator. -/
def valueFrom : Nat → List Nat → Nat
  | acc, [] => acc
  | acc, d :: ds => valueFrom (acc * 10 + d) ds

theorem foldDigits_map_digitByte (acc : Nat) (ds : List Nat) (h : ∀ d ∈ ds, d < 10) :
    foldDigits acc (ds.map digitByte) = some (valueFrom acc ds) := by
  induction ds generalizing acc with
  | nil => rfl
  | cons d ds ih =>
    simp only [List.map_cons, foldDigits]
    rw [digitVal_digitByte d (h d (by simp))]
    exact ih _ (fun x hx => h x (by simp [hx]))

theorem valueFrom_append (acc : Nat) (xs ys : List Nat) :
    valueFrom acc (xs ++ ys) = valueFrom (valueFrom acc xs) ys := by
  induction xs generalizing acc with
  | nil => rfl
  | cons x xs ih => simp [valueFrom, ih]

theorem revDigitsAux_lt (fuel n : Nat) : ∀ d ∈ revDigitsAux fuel n, d < 10 := by
  induction fuel generalizing n with
  | zero => simp [revDigitsAux]
  | succ fuel ih =>
    intro d hd
    simp only [revDigitsAux] at hd
    split at hd
    · simp at hd
    · simp only [List.mem_cons] at hd
      rcases hd with h | h
      · omega
      · exact ih _ d h

theorem revDigits_lt (n : Nat) : ∀ d ∈ revDigits n, d < 10 := revDigitsAux_lt n n

theorem valueFrom_reverse_revDigitsAux (fuel n : Nat) (h : n ≤ fuel) :
    valueFrom 0 (revDigitsAux fuel n).reverse = n := by
  induction fuel generalizing n with
  | zero =>
    have : n = 0 := by omega
    subst this; simp [revDigitsAux, valueFrom]
  | succ fuel ih =>
    simp only [revDigitsAux]
    split
    · simp_all [valueFrom]
    · rename_i hn
      simp only [List.reverse_cons, valueFrom_append, valueFrom]
      rw [ih (n / 10) (by omega)]
      omega

theorem valueFrom_reverse_revDigits (n : Nat) : valueFrom 0 (revDigits n).reverse = n :=
  valueFrom_reverse_revDigitsAux n n (Nat.le_refl n)

theorem revDigits_ne_nil {n : Nat} (h : n ≠ 0) : revDigits n ≠ [] := by
  unfold revDigits
  cases n with
  | zero => exact absurd rfl h
  | succ m => simp [revDigitsAux]

/-- The rendering is non-empty and all digits. -/
theorem render_ne_nil (n : Nat) : render n ≠ [] := by
  unfold render
  split
  · simp
  · rename_i h
    simp [revDigits_ne_nil h]

theorem render_all_digits (n : Nat) : ∀ b ∈ render n, isDigit b := by
  unfold render
  split
  · intro b hb; simp at hb; subst hb; decide
  · intro b hb
    simp only [List.mem_map] at hb
    obtain ⟨d, _, rfl⟩ := hb
    exact isDigit_digitByte d

theorem foldDigits_render (n : Nat) : foldDigits 0 (render n) = some n := by
  unfold render
  split
  · rename_i h; subst h; rfl
  · rw [foldDigits_map_digitByte 0 _ (by
      intro d hd; exact revDigits_lt n d (by simpa using hd))]
    rw [valueFrom_reverse_revDigits]

theorem stripPlus_of_digit_head (b : UInt8) (bs : Bytes) (hb : isDigit b) :
    stripPlus (b :: bs) = b :: bs := by
  unfold stripPlus
  split
  · rename_i heq
    simp only [List.cons.injEq] at heq
    have h43 : ¬ isDigit (43 : UInt8) := by decide
    exact absurd (heq.1 ▸ hb) h43
  · rfl

theorem stripPlus_cases (s : Bytes) : s = stripPlus s ∨ s = 43 :: stripPlus s := by
  unfold stripPlus
  split
  · right; rfl
  · left; rfl

/-- Printing then parsing a number that fits returns it. -/
theorem parseUnsigned_render (max n : Nat) (h : n ≤ max) : parseUnsigned max (render n) = some n := by
  unfold parseUnsigned
  have hne := render_ne_nil n
  have hd := render_all_digits n
  have hf := foldDigits_render n
  cases hr : render n with
  | nil => exact absurd hr hne
  | cons b bs =>
    have hb : isDigit b := hd b (by simp [hr])
    rw [stripPlus_of_digit_head b bs hb]
    rw [hr] at hf
    unfold parseBody
    simp [hf, h]

/-- `foldDigits` succeeds exactly on all-digit input. -/
theorem foldDigits_isSome_iff (acc : Nat) (s : Bytes) :
    (foldDigits acc s).isSome ↔ ∀ b ∈ s, isDigit b := by
  induction s generalizing acc with
  | nil => simp [foldDigits]
  | cons b bs ih =>
    simp only [foldDigits, List.mem_cons, forall_eq_or_imp]
    cases hv : digitVal b with
    | none =>
      have : ¬ isDigit b := by
        rw [← digitVal_isSome_iff, hv]; simp
      simp [this]
    | some d =>
      have : isDigit b := by rw [← digitVal_isSome_iff, hv]; simp
      simp [this, ih]

/-- Numeric value of an all-digit byte string. -/
def valueOf (s : Bytes) : Nat := valueFrom 0 (s.map fun b => b.toNat - 48)

theorem foldDigits_eq_value (acc : Nat) (s : Bytes) (h : ∀ b ∈ s, isDigit b) :
    foldDigits acc s = some (valueFrom acc (s.map fun b => b.toNat - 48)) := by
  induction s generalizing acc with
  | nil => rfl
  | cons b bs ih =>
    have hb : isDigit b := h b (by simp)
    have : digitVal b = some (b.toNat - 48) := (digitVal_eq_some b _).2 ⟨hb, rfl⟩
    simp only [foldDigits, this, List.map_cons, valueFrom]
    exact ih _ (fun x hx => h x (by simp [hx]))

theorem parseBody_eq_some_iff (max : Nat) (body : Bytes) (n : Nat) :
    parseBody max body = some n ↔
      body ≠ [] ∧ (∀ b ∈ body, isDigit b) ∧ valueOf body = n ∧ n ≤ max := by
  unfold parseBody
  by_cases hnil : body = []
  · simp [hnil]
  · simp only [hnil, if_false, ne_eq, not_false_eq_true, true_and]
    by_cases hall : ∀ b ∈ body, isDigit b
    · rw [foldDigits_eq_value 0 body hall]
      unfold valueOf
      constructor
      · intro h
        by_cases hle : valueFrom 0 (body.map fun b => b.toNat - 48) ≤ max
        · simp only [hle, if_true] at h
          have := Option.some.inj h
          exact ⟨hall, this, this ▸ hle⟩
        · simp [hle] at h
      · rintro ⟨_, rfl, hle⟩
        simp [hle]
    · have : foldDigits 0 body = none := by
        cases hf : foldDigits 0 body with
        | none => rfl
        | some m =>
          exfalso; apply hall
          rw [← foldDigits_isSome_iff 0, hf]; simp
      simp [this, hall]

/-- Characterisation of Rust's unsigned grammar: an optional `+`, then one or more digits whose
value is at most `max`. -/
theorem parseUnsigned_eq_some_iff (max : Nat) (s : Bytes) (n : Nat) :
    parseUnsigned max s = some n ↔
      ∃ body, (s = body ∨ s = 43 :: body) ∧ body ≠ [] ∧ (∀ b ∈ body, isDigit b) ∧
        valueOf body = n ∧ n ≤ max := by
  unfold parseUnsigned
  rw [parseBody_eq_some_iff]
  constructor
  · rintro ⟨h1, h2, h3, h4⟩
    exact ⟨stripPlus s, stripPlus_cases s, h1, h2, h3, h4⟩
  · rintro ⟨body, hs, hne, hall, hval, hle⟩
    have : stripPlus s = body := by
      rcases hs with rfl | rfl
      · cases s with
        | nil => exact absurd rfl hne
        | cons b bs => exact stripPlus_of_digit_head b bs (hall b (by simp))
      · rfl
    rw [this]
    exact ⟨hne, hall, hval, hle⟩

theorem parseUnsigned_isSome_iff (max : Nat) (s : Bytes) :
    (parseUnsigned max s).isSome ↔
      ∃ body, (s = body ∨ s = 43 :: body) ∧ body ≠ [] ∧ (∀ b ∈ body, isDigit b) ∧
        valueOf body ≤ max := by
  rw [Option.isSome_iff_exists]
  constructor
  · rintro ⟨n, hn⟩
    obtain ⟨body, h1, h2, h3, h4, h5⟩ := (parseUnsigned_eq_some_iff max s n).1 hn
    exact ⟨body, h1, h2, h3, h4 ▸ h5⟩
  · rintro ⟨body, h1, h2, h3, h4⟩
    exact ⟨valueOf body, (parseUnsigned_eq_some_iff max s _).2 ⟨body, h1, h2, h3, rfl, h4⟩⟩

end Dec

namespace Bytes

theorem splitOn_ne_nil (d : UInt8) (s : Bytes) : splitOn d s ≠ [] := by
  induction s with
  | nil => simp [splitOn]
  | cons x xs ih =>
    unfold splitOn
    split
    · simp
    · split
      · rename_i h; exact absurd h ih
      · simp

/-- Splitting a part that does not contain the delimiter gives that part. -/
theorem splitOn_of_not_mem (d : UInt8) (p : Bytes) (h : d ∉ p) : splitOn d p = [p] := by
  induction p with
  | nil => rfl
  | cons x xs ih =>
    have hx : x ≠ d := by intro e; apply h; simp [e]
    have hxs : d ∉ xs := by intro e; apply h; simp [e]
    unfold splitOn
    simp [hx, ih hxs]

theorem splitOn_append_delim (d : UInt8) (p rest : Bytes) (h : d ∉ p) :
    splitOn d (p ++ d :: rest) = p :: splitOn d rest := by
  induction p with
  | nil => simp [splitOn]
  | cons x xs ih =>
    have hx : x ≠ d := by intro e; apply h; simp [e]
    have hxs : d ∉ xs := by intro e; apply h; simp [e]
    simp only [List.cons_append]
    rw [splitOn]
    simp [hx, ih hxs]

/-- `splitOn` inverts `joinWith` on non-empty lists of delimiter-free parts. -/
theorem splitOn_joinWith (d : UInt8) (ps : List Bytes) (hne : ps ≠ []) (h : ∀ p ∈ ps, d ∉ p) :
    splitOn d (joinWith d ps) = ps := by
  induction ps with
  | nil => exact absurd rfl hne
  | cons p ps ih =>
    cases ps with
    | nil => simp [joinWith, splitOn_of_not_mem d p (h p (by simp))]
    | cons q qs =>
      simp only [joinWith]
      rw [splitOn_append_delim d p _ (h p (by simp))]
      rw [ih (by simp) (fun x hx => h x (by simp [hx]))]

/-- Joining the parts of a split gives the original back. -/
theorem joinWith_splitOn (d : UInt8) (s : Bytes) : joinWith d (splitOn d s) = s := by
  induction s with
  | nil => rfl
  | cons x xs ih =>
    unfold splitOn
    split
    · rename_i hx
      have hne := splitOn_ne_nil d xs
      cases hsp : splitOn d xs with
      | nil => exact absurd hsp hne
      | cons q qs =>
        rw [hsp] at ih
        simp only [joinWith, List.nil_append]
        rw [ih, hx]
    · split
      · rename_i h; exact absurd h (splitOn_ne_nil d xs)
      · rename_i p ps hsp
        rw [hsp] at ih
        cases ps with
        | nil => simp [joinWith] at ih ⊢; exact ih
        | cons q qs => simp [joinWith] at ih ⊢; exact ih

theorem splitOn_parts_no_delim (d : UInt8) (s : Bytes) : ∀ p ∈ splitOn d s, d ∉ p := by
  induction s with
  | nil => simp [splitOn]
  | cons x xs ih =>
    unfold splitOn
    split
    · intro p hp
      simp only [List.mem_cons] at hp
      rcases hp with rfl | hp
      · simp
      · exact ih p hp
    · rename_i hx
      split
      · rename_i h; exact absurd h (splitOn_ne_nil d xs)
      · rename_i q qs hsp
        rw [hsp] at ih
        intro p hp
        simp only [List.mem_cons] at hp
        rcases hp with rfl | hp
        · intro hmem
          simp only [List.mem_cons] at hmem
          rcases hmem with h | h
          · exact hx h.symm
          · exact ih q (by simp) h
        · exact ih p (by simp [hp])

end Bytes
end Omaha
