/-
Non-interference of storage: two worlds that differ only in what storage holds, which storage
operations are scripted to fail, and the storage / metric actions logged so far, are indistinguishable
to everything else the state machine does.  `Sim` is that relation; every model function preserves
it and returns the same results (except values that flow only into metrics).
-/
import Omaha.Lemmas.SMRequests
import Omaha.Props.C18

namespace Omaha.SM

open Omaha

/-- What an embedder can see besides storage traffic and metrics. -/
def visible : Action → Bool
  | .storage _ _ => false
  | .metric _ => false
  | _ => true

structure EnvSim (e e' : Env) : Prop where
  httpUC : e.httpUC = e'.httpUC
  httpEV : e.httpEV = e'.httpEV
  httpPing : e.httpPing = e'.httpPing
  plan : e.plan = e'.plan
  canStart : e.canStart = e'.canStart
  progress : e.progress = e'.progress
  results : e.results = e'.results
  installDt : e.installDt = e'.installDt
  rebootNeeded : e.rebootNeeded = e'.rebootNeeded
  jitter : e.jitter = e'.jitter
  backoffDt : e.backoffDt = e'.backoffDt

structure Sim (w w' : World) : Prop where
  cfg : w.cfg = w'.cfg
  cup : w.cup = w'.cup
  ctx : w.ctx = w'.ctx
  apps : w.apps = w'.apps
  sysApp : w.sysApp = w'.sysApp
  clock : w.clock = w'.clock
  nGuid : w.nGuid = w'.nGuid
  nNonce : w.nNonce = w'.nNonce
  nTimer : w.nTimer = w'.nTimer
  env : EnvSim w.env w'.env
  trace : w.trace.filter visible = w'.trace.filter visible

theorem EnvSim.refl (e : Env) : EnvSim e e := ⟨rfl, rfl, rfl, rfl, rfl, rfl, rfl, rfl, rfl, rfl, rfl⟩
theorem EnvSim.symm {e e' : Env} (h : EnvSim e e') : EnvSim e' e :=
  ⟨h.1.symm, h.2.symm, h.3.symm, h.4.symm, h.5.symm, h.6.symm, h.7.symm, h.8.symm, h.9.symm, h.10.symm, h.11.symm⟩
theorem EnvSim.trans {a b c : Env} (h : EnvSim a b) (g : EnvSim b c) : EnvSim a c :=
  ⟨h.1.trans g.1, h.2.trans g.2, h.3.trans g.3, h.4.trans g.4, h.5.trans g.5, h.6.trans g.6, h.7.trans g.7,
   h.8.trans g.8, h.9.trans g.9, h.10.trans g.10, h.11.trans g.11⟩

theorem Sim.refl (w : World) : Sim w w := ⟨rfl, rfl, rfl, rfl, rfl, rfl, rfl, rfl, rfl, EnvSim.refl _, rfl⟩
theorem Sim.symm {w w' : World} (h : Sim w w') : Sim w' w :=
  ⟨h.cfg.symm, h.cup.symm, h.ctx.symm, h.apps.symm, h.sysApp.symm, h.clock.symm, h.nGuid.symm, h.nNonce.symm,
   h.nTimer.symm, h.env.symm, h.trace.symm⟩
theorem Sim.trans {a b c : World} (h : Sim a b) (g : Sim b c) : Sim a c :=
  ⟨h.cfg.trans g.cfg, h.cup.trans g.cup, h.ctx.trans g.ctx, h.apps.trans g.apps, h.sysApp.trans g.sysApp,
   h.clock.trans g.clock, h.nGuid.trans g.nGuid, h.nNonce.trans g.nNonce, h.nTimer.trans g.nTimer,
   h.env.trans g.env, h.trace.trans g.trace⟩

/-- A step that only touches storage / metrics is invisible on both sides. -/
theorem Sim.inv {w w' w1 w1' : World} (s : Sim w w') (h : Sim w w1) (h' : Sim w' w1') : Sim w1 w1' :=
  h.symm.trans (s.trans h')

/-! ### Invisible steps -/

theorem inv_popFail (w : World) : Sim w (popFail w).2 := by
  unfold popFail
  split
  · exact Sim.refl _
  · exact ⟨rfl, rfl, rfl, rfl, rfl, rfl, rfl, rfl, rfl, ⟨rfl, rfl, rfl, rfl, rfl, rfl, rfl, rfl, rfl, rfl, rfl⟩, rfl⟩

theorem inv_storeOp (op : StoreOp) (w : World) : Sim w (storeOp op w).2 := by
  refine (inv_popFail w).trans ?_
  unfold storeOp
  simp only
  split
  · exact ⟨rfl, rfl, rfl, rfl, rfl, rfl, rfl, rfl, rfl, EnvSim.refl _, by simp [emit, visible]⟩
  · exact ⟨rfl, rfl, rfl, rfl, rfl, rfl, rfl, rfl, rfl, EnvSim.refl _, by simp [emit, visible]⟩

theorem inv_storeOp_ (op : StoreOp) (w : World) : Sim w (storeOp_ op w) := inv_storeOp op w

theorem inv_metric (m : Metric) (w : World) : Sim w (metric m w) :=
  ⟨rfl, rfl, rfl, rfl, rfl, rfl, rfl, rfl, rfl, EnvSim.refl _, by simp [metric, emit, visible]⟩

theorem inv_setOptionInt (k : Bytes) (v : Option Int) (w : World) : Sim w (setOptionInt k v w).2 := by
  unfold setOptionInt; split <;> exact inv_storeOp _ _

theorem inv_setTime (k : Bytes) (t : Int) (w : World) : Sim w (setTime k t w).2 := inv_setOptionInt _ _ _

theorem inv_persistCtx (w : World) : Sim w (persistCtx w) := by
  unfold persistCtx
  exact ((inv_setOptionInt _ _ _).trans (inv_setOptionInt _ _ _)).trans (inv_setOptionInt _ _ _)

theorem inv_persistApps (apps : List App) (w : World) : Sim w (persistApps apps w) := by
  induction apps generalizing w with
  | nil => exact Sim.refl _
  | cons a rest ih => exact (inv_storeOp_ _ _).trans (ih _)

/-- `persist_data` writes the *in-memory* context and apps: which writes are attempted depends on
`ctx` and `apps` only, so the step is invisible. -/
theorem inv_persistData (w : World) : Sim w (persistData w) := by
  unfold persistData
  have h1 := inv_persistCtx w
  have h2 := h1.trans (inv_persistApps w.apps (persistCtx w))
  exact h2.trans (inv_storeOp_ _ _)

theorem inv_recordNewPlan (planId : Bytes) (now : Int) (w : World) : Sim w (recordNewPlan planId now w).2 := by
  unfold recordNewPlan
  have h1 := inv_storeOp (.set kInstallPlanId (.str planId)) w
  have h2 := h1.trans (inv_setTime kFirstSeen now _)
  split
  · exact h1
  · split
    · exact h2.trans (inv_storeOp_ _ _)
    · exact h2.trans (inv_storeOp_ _ _)

theorem inv_recordFirstSeen (planId : Bytes) (now : Int) (w : World) : Sim w (recordFirstSeen planId now w).2 := by
  unfold recordFirstSeen
  split
  · exact Sim.refl _
  · exact inv_recordNewPlan planId now w

theorem inv_reportAttemptsInstall (s : Bool) (w : World) : Sim w (reportAttemptsInstall s w) := by
  unfold reportAttemptsInstall
  simp only
  split
  · exact (inv_metric _ w).trans (inv_storeOp_ _ _)
  · exact (inv_metric _ w).trans (inv_storeOp_ _ _)

theorem inv_firstSeenMetric (firstSeen finish : Int) (w : World) : Sim w (firstSeenMetric firstSeen finish w) := by
  unfold firstSeenMetric
  split
  · exact inv_metric _ _
  · exact Sim.refl _

theorem inv_durationMetric (startWall : Int) (results : List AppResult) (w : World) :
    Sim w (durationMetric startWall results w).2 := by
  unfold durationMetric
  split
  · exact inv_metric _ _
  · exact Sim.refl _

theorem inv_setTargetVersion (nv : List (Bytes × Option Bytes)) (w : World) : Sim w (setTargetVersion nv w) := by
  unfold setTargetVersion
  split
  · exact inv_storeOp_ _ _
  · exact Sim.refl _

theorem inv_lostFold (evs : List (App × Omaha.Event)) (w : World) :
    Sim w (evs.foldl (fun w (x : App × Omaha.Event) => metric (.eventLost x.2) w) w) := by
  induction evs generalizing w with
  | nil => exact Sim.refl _
  | cons e rest ih => exact (inv_metric _ w).trans (ih _)

/-! ### Visible steps: same on both sides -/

theorem sim_emit (a : Action) {w w' : World} (s : Sim w w') : Sim (emit a w) (emit a w') := by
  refine ⟨s.cfg, s.cup, s.ctx, s.apps, s.sysApp, s.clock, s.nGuid, s.nNonce, s.nTimer, s.env, ?_⟩
  simp only [emit, List.filter_cons]
  rw [s.trace]

theorem sim_emit_eq (a a' : Action) (h : a = a') {w w' : World} (s : Sim w w') : Sim (emit a w) (emit a' w') :=
  h ▸ sim_emit a s

theorem sim_yield_eq (e e' : Event) (h : e = e') {w w' : World} (s : Sim w w') : Sim (yieldEv e w) (yieldEv e' w') :=
  h ▸ sim_emit _ s

theorem sim_yield (e : Event) {w w' : World} (s : Sim w w') : Sim (yieldEv e w) (yieldEv e w') := sim_emit _ s

theorem sim_tick (dt : Clock) {w w' : World} (s : Sim w w') : Sim (tick dt w) (tick dt w') := by
  refine ⟨s.cfg, s.cup, s.ctx, s.apps, s.sysApp, ?_, s.nGuid, s.nNonce, s.nTimer, s.env, s.trace⟩
  simp only [tick]; rw [s.clock]

theorem sim_popHttp (k : ReqKind) {w w' : World} (s : Sim w w') :
    (popHttp k w).1 = (popHttp k w').1 ∧ Sim (popHttp k w).2 (popHttp k w').2 := by
  unfold popHttp
  have e1 := s.env.httpUC
  have e2 := s.env.httpEV
  have e3 := s.env.httpPing
  cases k with
  | updateCheck =>
    simp only
    rw [← e1]
    cases h : w.env.httpUC with
    | nil => exact ⟨rfl, s⟩
    | cons o rest =>
      refine ⟨rfl, s.cfg, s.cup, s.ctx, s.apps, s.sysApp, s.clock, s.nGuid, s.nNonce, s.nTimer, ?_, s.trace⟩
      exact ⟨rfl, s.env.httpEV, s.env.httpPing, s.env.plan, s.env.canStart, s.env.progress, s.env.results,
        s.env.installDt, s.env.rebootNeeded, s.env.jitter, s.env.backoffDt⟩
  | eventReport =>
    simp only
    rw [← e2]
    cases h : w.env.httpEV with
    | nil => exact ⟨rfl, s⟩
    | cons o rest =>
      refine ⟨rfl, s.cfg, s.cup, s.ctx, s.apps, s.sysApp, s.clock, s.nGuid, s.nNonce, s.nTimer, ?_, s.trace⟩
      exact ⟨s.env.httpUC, rfl, s.env.httpPing, s.env.plan, s.env.canStart, s.env.progress, s.env.results,
        s.env.installDt, s.env.rebootNeeded, s.env.jitter, s.env.backoffDt⟩
  | ping =>
    simp only
    rw [← e3]
    cases h : w.env.httpPing with
    | nil => exact ⟨rfl, s⟩
    | cons o rest =>
      refine ⟨rfl, s.cfg, s.cup, s.ctx, s.apps, s.sysApp, s.clock, s.nGuid, s.nNonce, s.nTimer, ?_, s.trace⟩
      exact ⟨s.env.httpUC, s.env.httpEV, rfl, s.env.plan, s.env.canStart, s.env.progress, s.env.results,
        s.env.installDt, s.env.rebootNeeded, s.env.jitter, s.env.backoffDt⟩


theorem sim_withRequestId (b : Request.Builder) {w w' : World} (s : Sim w w') :
    (withRequestId b w).1 = (withRequestId b w').1 ∧ Sim (withRequestId b w).2 (withRequestId b w').2 := by
  unfold withRequestId nextGuid
  simp only
  rw [s.nGuid]
  exact ⟨rfl, s.cfg, s.cup, s.ctx, s.apps, s.sysApp, s.clock, rfl, s.nNonce, s.nTimer, s.env, s.trace⟩

theorem sim_nextGuid {w w' : World} (s : Sim w w') :
    (nextGuid w).1 = (nextGuid w').1 ∧ Sim (nextGuid w).2 (nextGuid w').2 := by
  unfold nextGuid
  simp only
  rw [s.nGuid]
  exact ⟨rfl, s.cfg, s.cup, s.ctx, s.apps, s.sysApp, s.clock, rfl, s.nNonce, s.nTimer, s.env, s.trace⟩

theorem popJitter_eq (w : World) :
    popJitter w = (w.env.jitter.headD 0, w.env.backoffDt.headD ⟨0, 0⟩,
      { w with env := { w.env with jitter := w.env.jitter.tail, backoffDt := w.env.backoffDt.tail } }) := by
  unfold popJitter
  rcases hj : w.env.jitter with _ | ⟨j, js⟩ <;> rcases hb : w.env.backoffDt with _ | ⟨d, ds⟩ <;> simp [hb, hj]
  · cases w with
    | mk cfg cup ctx apps sys store clock env ng nn nt tr =>
      cases env; simp_all

theorem sim_popJitter {w w' : World} (s : Sim w w') :
    (popJitter w).1 = (popJitter w').1 ∧ (popJitter w).2.1 = (popJitter w').2.1 ∧ Sim (popJitter w).2.2 (popJitter w').2.2 := by
  rw [popJitter_eq, popJitter_eq]
  simp only
  rw [s.env.jitter, s.env.backoffDt]
  refine ⟨rfl, rfl, s.cfg, s.cup, s.ctx, s.apps, s.sysApp, s.clock, s.nGuid, s.nNonce, s.nTimer, ?_, s.trace⟩
  exact ⟨s.env.httpUC, s.env.httpEV, s.env.httpPing, s.env.plan, s.env.canStart, s.env.progress, s.env.results,
    s.env.installDt, s.env.rebootNeeded, rfl, rfl⟩

theorem sim_sendRequest (k : ReqKind) (b : Request.Builder) {w w' : World} (s : Sim w w') :
    (sendRequest k b w).1 = (sendRequest k b w').1 ∧ Sim (sendRequest k b w).2 (sendRequest k b w').2 := by
  unfold sendRequest
  simp only
  have hc : w.cup.isSome = w'.cup.isSome := by rw [s.cup]
  have hn : some w.nNonce = some w'.nNonce := by rw [s.nNonce]
  rw [hc, hn]
  have s0 : Sim (if w'.cup.isSome = true then { w with nNonce := w.nNonce + 1 } else w)
      (if w'.cup.isSome = true then { w' with nNonce := w'.nNonce + 1 } else w') := by
    split
    · exact ⟨s.cfg, s.cup, s.ctx, s.apps, s.sysApp, s.clock, s.nGuid, by show _ + 1 = _ + 1; rw [s.nNonce], s.nTimer, s.env, s.trace⟩
    · exact s
  obtain ⟨e1, s1⟩ := sim_popHttp k s0
  rw [e1]
  exact ⟨rfl, sim_emit _ s1⟩

theorem sim_applyPoll (poll : Option Nat) {w w' : World} (s : Sim w w') : Sim (applyPoll poll w) (applyPoll poll w') := by
  unfold applyPoll
  rw [s.ctx]
  split
  · have s1 : Sim ({ w with ctx := { w'.ctx with st := { w'.ctx.st with poll := poll } } } : World)
        ({ w' with ctx := { w'.ctx with st := { w'.ctx.st with poll := poll } } } : World) :=
      ⟨s.cfg, s.cup, rfl, s.apps, s.sysApp, s.clock, s.nGuid, s.nNonce, s.nTimer, s.env, s.trace⟩
    have s2 := sim_yield (.protocol ({ w'.ctx.st with poll := poll } : Proto)) s1
    exact s2.inv ((inv_persistCtx _).trans (inv_storeOp_ _ _)) ((inv_persistCtx _).trans (inv_storeOp_ _ _))
  · exact s

theorem sim_handleOutcome (o : HttpOutcome) {w w' : World} (s : Sim w w') :
    (handleOutcome o w).1 = (handleOutcome o w').1 ∧ Sim (handleOutcome o w).2 (handleOutcome o w').2 := by
  unfold handleOutcome
  cases o with
  | fail k dt => exact ⟨rfl, sim_tick dt s⟩
  | response status ra body auth dt =>
    simp only
    have hc : (tick dt w).cup = (tick dt w').cup := s.cup
    rw [hc]
    split
    · exact ⟨rfl, sim_tick dt s⟩
    · split
      · exact ⟨rfl, sim_applyPoll _ (sim_tick dt s)⟩
      · exact ⟨rfl, sim_applyPoll _ (sim_tick dt s)⟩

theorem sim_omahaRequest (k : ReqKind) (b : Request.Builder) {w w' : World} (s : Sim w w') :
    (omahaRequest k b w).1 = (omahaRequest k b w').1 ∧ Sim (omahaRequest k b w).2 (omahaRequest k b w').2 := by
  unfold omahaRequest
  have hb : buildError w b = buildError w' b := by unfold buildError; rw [s.cfg, s.cup]
  rw [hb]
  split
  · exact ⟨rfl, sim_emit _ s⟩
  · obtain ⟨e1, s1⟩ := sim_sendRequest k b s
    simp only
    rw [e1]
    exact sim_handleOutcome _ s1

theorem sim_backoff (attempt : Nat) {w w' : World} (s : Sim w w') : Sim (backoff attempt w) (backoff attempt w') := by
  unfold backoff
  simp only
  obtain ⟨e1, e2, s1⟩ := sim_popJitter s
  rw [e1, e2]
  have s2 := sim_emit (.timerArm (.for_ (backoffMs attempt (popJitter w').1 * 1000000))) s1
  have s3 : Sim ({ emit (.timerArm (.for_ (backoffMs attempt (popJitter w').1 * 1000000))) (popJitter w).2.2 with
        nTimer := (emit (.timerArm (.for_ (backoffMs attempt (popJitter w').1 * 1000000))) (popJitter w).2.2).nTimer + 1 } : World)
      ({ emit (.timerArm (.for_ (backoffMs attempt (popJitter w').1 * 1000000))) (popJitter w').2.2 with
        nTimer := (emit (.timerArm (.for_ (backoffMs attempt (popJitter w').1 * 1000000))) (popJitter w').2.2).nTimer + 1 } : World) := by
    refine ⟨s2.cfg, s2.cup, s2.ctx, s2.apps, s2.sysApp, s2.clock, s2.nGuid, s2.nNonce, ?_, s2.env, s2.trace⟩
    show _ + 1 = _ + 1
    rw [s2.nTimer]
  exact sim_tick _ s3

theorem sim_attemptLoop (fuel attempt : Nat) (b : Request.Builder) {w w' : World} (s : Sim w w') :
    (attemptLoop fuel attempt b w).1 = (attemptLoop fuel attempt b w').1 ∧
    (attemptLoop fuel attempt b w).2.1 = (attemptLoop fuel attempt b w').2.1 ∧
    Sim (attemptLoop fuel attempt b w).2.2 (attemptLoop fuel attempt b w').2.2 := by
  induction fuel generalizing attempt b w w' with
  | zero => unfold attemptLoop; exact ⟨rfl, rfl, s⟩
  | succ fuel ih =>
    unfold attemptLoop
    simp only
    obtain ⟨e0, s0⟩ := sim_withRequestId b s
    rw [e0, s.clock]
    obtain ⟨e1, s1⟩ := sim_omahaRequest .updateCheck (withRequestId b w').1 s0
    generalize omahaRequest .updateCheck (withRequestId b w').1 (withRequestId b w).2 = r at e1 s1
    generalize omahaRequest .updateCheck (withRequestId b w').1 (withRequestId b w').2 = r' at e1 s1
    obtain ⟨res, w1⟩ := r
    obtain ⟨res', w1'⟩ := r'
    simp only at e1 s1
    subst e1
    simp only
    rw [s1.clock]
    have s2 : Sim (if w'.clock.mono ≤ w1'.clock.mono then metric (.responseTime (w1'.clock.mono - w'.clock.mono).toNat (isOk res)) w1 else w1)
        (if w'.clock.mono ≤ w1'.clock.mono then metric (.responseTime (w1'.clock.mono - w'.clock.mono).toNat (isOk res)) w1' else w1') := by
      split
      · exact s1.inv (inv_metric _ _) (inv_metric _ _)
      · exact s1
    generalize (if w'.clock.mono ≤ w1'.clock.mono then metric (.responseTime (w1'.clock.mono - w'.clock.mono).toNat (isOk res)) w1 else w1) = wm at s2
    generalize (if w'.clock.mono ≤ w1'.clock.mono then metric (.responseTime (w1'.clock.mono - w'.clock.mono).toNat (isOk res)) w1' else w1') = wm' at s2
    cases res with
    | ok body => exact ⟨rfl, rfl, s2⟩
    | error f =>
      simp only
      rw [s2.ctx]
      split
      · exact ⟨rfl, rfl, sim_yield _ s2⟩
      · exact ih _ _ (sim_backoff attempt s2)


theorem sim_reportEvent (params : RequestParams) (ev : Omaha.Event) (apps : List App) (session : Nat)
    (nv : List (Bytes × Option Bytes)) (ns : Option Nat) {w w' : World} (s : Sim w w') :
    Sim (reportEvent params ev apps session nv ns w) (reportEvent params ev apps session nv ns w') := by
  unfold reportEvent
  simp only
  generalize ({ (List.foldl _ _ apps : Request.Builder) with sessionId := some (guidBytes session) } : Request.Builder) = b1
  obtain ⟨e0, s0⟩ := sim_withRequestId b1 s
  rw [e0]
  obtain ⟨e1, s1⟩ := sim_omahaRequest .eventReport (withRequestId b1 w').1 s0
  rw [e1]
  split
  · exact s1
  · exact s1.inv (inv_metric _ _) (inv_metric _ _)

theorem sim_reportResults (params : RequestParams) (evs : List (App × Omaha.Event)) (session : Nat) {w w' : World}
    (s : Sim w w') : Sim (reportResults params evs session w) (reportResults params evs session w') := by
  unfold reportResults
  simp only
  generalize ({ (List.foldl _ _ evs : Request.Builder) with sessionId := some (guidBytes session) } : Request.Builder) = b1
  obtain ⟨e0, s0⟩ := sim_withRequestId b1 s
  rw [e0]
  obtain ⟨e1, s1⟩ := sim_omahaRequest .eventReport (withRequestId b1 w').1 s0
  rw [e1]
  split
  · exact s1
  · exact s1.inv (inv_lostFold _ _) (inv_lostFold _ _)

theorem sim_reportCheckInterval (src : InstallSource) {w w' : World} (s : Sim w w') :
    Sim (reportCheckInterval src w) (reportCheckInterval src w') := by
  unfold reportCheckInterval
  simp only
  rw [s.ctx, s.clock]
  have step : ∀ w1 w1' : World, Sim w1 w1' →
      Sim ({ w1 with ctx := { w1.ctx with sched := { w1.ctx.sched with lastCheck := some (.complex ⟨w'.clock.wall, w'.clock.mono⟩) } } } : World)
        ({ w1' with ctx := { w1'.ctx with sched := { w1'.ctx.sched with lastCheck := some (.complex ⟨w'.clock.wall, w'.clock.mono⟩) } } } : World) := by
    intro w1 w1' s1
    refine ⟨s1.cfg, s1.cup, ?_, s1.apps, s1.sysApp, s1.clock, s1.nGuid, s1.nNonce, s1.nTimer, s1.env, s1.trace⟩
    dsimp only
    rw [s1.ctx]
  apply step
  split
  · split
    · exact s.inv (inv_metric _ _) (inv_metric _ _)
    · exact s
  · split
    · exact s.inv (inv_metric _ _) (inv_metric _ _)
    · exact s
  · exact s

theorem sim_progressFold (ps : List Nat) {w w' : World} (s : Sim w w') :
    Sim (ps.foldl (fun w k => yieldEv (.progress k) w) w) (ps.foldl (fun w k => yieldEv (.progress k) w) w') := by
  induction ps generalizing w w' with
  | nil => exact s
  | cons p rest ih => exact ih (sim_yield _ s)

theorem sim_insterrFold (ms : List Nat) {w w' : World} (s : Sim w w') :
    Sim (ms.foldl (fun w m => yieldEv (.installerError m) w) w) (ms.foldl (fun w m => yieldEv (.installerError m) w) w') := by
  induction ms generalizing w w' with
  | nil => exact s
  | cons p rest ih => exact ih (sim_yield _ s)

theorem sim_runInstall (planId : Nat) {w w' : World} (s : Sim w w') : Sim (runInstall planId w) (runInstall planId w') := by
  unfold runInstall
  rw [s.env.installDt, s.env.progress, s.env.results]
  exact sim_tick _ (sim_progressFold _ (sim_emit _ s))

/-- The finish record: the first-seen time (which comes from storage) may differ between the two
runs — it only feeds a metric. -/
theorem sim_recordFinish (planId : Nat) (fs fs' finish : Int) (nv : List (Bytes × Option Bytes)) {w w' : World}
    (s : Sim w w') :
    (recordFinish planId fs finish nv w).1 = (recordFinish planId fs' finish nv w').1 ∧
    Sim (recordFinish planId fs finish nv w).2 (recordFinish planId fs' finish nv w').2 := by
  unfold recordFinish
  simp only
  have i1 : ∀ (f : Int) (x : World), Sim x (storeOp_ .commit (setTargetVersion nv (setTime kFinishTime finish (firstSeenMetric f finish x)).2)) :=
    fun f x => (((inv_firstSeenMetric f finish x).trans (inv_setTime _ _ _)).trans (inv_setTargetVersion _ _)).trans (inv_storeOp_ _ _)
  have s4 := s.inv (i1 fs w) (i1 fs' w')
  refine ⟨s4.env.rebootNeeded, ?_⟩
  rw [s4.env.rebootNeeded]
  exact sim_emit _ s4

theorem sim_finishInstall (planId : Nat) (fs fs' finish : Int) (nv : List (Bytes × Option Bytes))
    (response : Resp.Response) (results : List AppResult) {w w' : World} (s : Sim w w') :
    (finishInstall planId fs finish nv response results w).1 = (finishInstall planId fs' finish nv response results w').1 ∧
    Sim (finishInstall planId fs finish nv response results w).2 (finishInstall planId fs' finish nv response results w').2 := by
  unfold finishInstall
  split
  · exact ⟨rfl, sim_yield _ (sim_insterrFold _ s)⟩
  · obtain ⟨e, s1⟩ := sim_recordFinish planId fs fs' finish nv s
    rw [e]
    exact ⟨rfl, s1⟩

theorem sim_reportInstall (params : RequestParams) (apps : List App) (session : Nat) (nv : List (Bytes × Option Bytes))
    (response : Resp.Response) (results : List AppResult) (ns : Option Nat) {w w' : World} (s : Sim w w') :
    Sim (reportInstall params apps session nv response results ns w) (reportInstall params apps session nv response results ns w') := by
  unfold reportInstall
  simp only
  have h := sim_reportResults params (resultEvents (knownResults apps response results) ns) session s
  split
  · exact h
  · exact sim_reportEvent _ _ _ _ _ _ h

theorem sim_installPhase (params : RequestParams) (apps : List App) (session : Nat)
    (nv : List (Bytes × Option Bytes)) (response : Resp.Response) (planId : Nat) {w w' : World} (s : Sim w w') :
    (installPhase params apps session nv response planId w).1 = (installPhase params apps session nv response planId w').1 ∧
    Sim (installPhase params apps session nv response planId w).2 (installPhase params apps session nv response planId w').2 := by
  unfold installPhase
  simp only
  have s1 := sim_reportEvent params (eventSuccess 13) apps session nv none (sim_yield (.state .installing) s)
  generalize reportEvent params (eventSuccess 13) apps session nv none (yieldEv (.state .installing) w) = w1 at s1
  generalize reportEvent params (eventSuccess 13) apps session nv none (yieldEv (.state .installing) w') = w1' at s1
  rw [s1.clock]
  have s2 := s1.inv (inv_recordFirstSeen (planIdText planId) w1'.clock.wall w1) (inv_recordFirstSeen (planIdText planId) w1'.clock.wall w1')
  generalize recordFirstSeen (planIdText planId) w1'.clock.wall w1 = r2 at s2
  generalize recordFirstSeen (planIdText planId) w1'.clock.wall w1' = r2' at s2
  rw [s2.env.results]
  have s3 := sim_runInstall planId s2
  generalize runInstall planId r2.2 = w3 at s3
  generalize runInstall planId r2'.2 = w3' at s3
  rw [s3.clock]
  have e4 : (durationMetric w1'.clock.wall r2'.2.env.results w3).1 = (durationMetric w1'.clock.wall r2'.2.env.results w3').1 := by
    unfold durationMetric; rw [s3.clock]; split <;> rfl
  have s4 := s3.inv (inv_durationMetric w1'.clock.wall r2'.2.env.results w3) (inv_durationMetric w1'.clock.wall r2'.2.env.results w3')
  rw [e4]
  generalize durationMetric w1'.clock.wall r2'.2.env.results w3 = r4 at s4
  generalize durationMetric w1'.clock.wall r2'.2.env.results w3' = r4' at s4
  have s5 := sim_reportInstall params apps session nv response r2'.2.env.results r4'.1 s4
  exact sim_finishInstall planId r2.1 r2'.1 w3'.clock.wall nv response r2'.2.env.results s5

theorem sim_updatePhase (params : RequestParams) (apps : List App) (session : Nat) (response : Resp.Response)
    {w w' : World} (s : Sim w w') :
    (updatePhase params apps session response w).1 = (updatePhase params apps session response w').1 ∧
    Sim (updatePhase params apps session response w).2 (updatePhase params apps session response w').2 := by
  unfold updatePhase
  simp only [emit_env]
  have hc : w.cup.isSome = w'.cup.isSome := by rw [s.cup]
  rw [hc, s.env.plan]
  have s0 := sim_emit (.plan params.source w'.cup.isSome w'.env.plan) s
  split
  · unfold planFailedPhase
    exact ⟨rfl, sim_reportEvent _ _ _ _ _ _ (sim_yield _ (sim_yield _ s0))⟩
  · rename_i planId _
    rw [s.env.canStart]
    have s1 := sim_emit (.policyCanStart planId w'.env.canStart) s0
    split
    · unfold deferredPhase
      exact ⟨rfl, sim_yield _ (sim_reportEvent _ _ _ _ _ _ s1)⟩
    · unfold deniedPhase
      exact ⟨rfl, sim_reportEvent _ _ _ _ _ _ s1⟩
    · exact sim_installPhase _ _ _ _ _ _ s1

theorem sim_responsePhase (params : RequestParams) (apps : List App) (session : Nat) (body : Bytes)
    {w w' : World} (s : Sim w w') :
    (responsePhase params apps session body w).1 = (responsePhase params apps session body w').1 ∧
    Sim (responsePhase params apps session body w).2 (responsePhase params apps session body w').2 := by
  unfold responsePhase
  split
  · exact ⟨rfl, s⟩
  · unfold parseFailedPhase
    exact ⟨rfl, sim_reportEvent _ _ _ _ _ _ (sim_yield _ s)⟩
  · rename_i response _
    simp only
    split
    · unfold noUpdatePhase
      exact ⟨rfl, sim_yield _ (sim_yield _ s)⟩
    · exact sim_updatePhase _ _ _ _ (sim_yield _ s)

theorem sim_performUpdateCheck (params : RequestParams) (apps : List App) {w w' : World} (s : Sim w w') :
    (performUpdateCheck params apps w).1 = (performUpdateCheck params apps w').1 ∧
    Sim (performUpdateCheck params apps w).2 (performUpdateCheck params apps w').2 := by
  unfold performUpdateCheck
  simp only
  have s1 := sim_reportCheckInterval params.source (sim_yield (.state (.checking params.source)) s)
  generalize reportCheckInterval params.source (yieldEv (.state (.checking params.source)) w) = w1 at s1
  generalize reportCheckInterval params.source (yieldEv (.state (.checking params.source)) w') = w1' at s1
  obtain ⟨e2, s2⟩ := sim_nextGuid s1
  rw [e2]
  obtain ⟨e3, e4, s3⟩ := sim_attemptLoop 3 1 (checkBuilder params apps (nextGuid w1').1) s2
  generalize attemptLoop 3 1 (checkBuilder params apps (nextGuid w1').1) (nextGuid w1).2 = r at e3 e4 s3
  generalize attemptLoop 3 1 (checkBuilder params apps (nextGuid w1').1) (nextGuid w1').2 = r' at e3 e4 s3
  obtain ⟨res, attempts, w2⟩ := r
  obtain ⟨res', attempts', w2'⟩ := r'
  simp only at e3 e4 s3
  subst e3 e4
  have s4 := s3.inv (inv_metric (.requestsPerCheck attempts (isOk res)) w2) (inv_metric (.requestsPerCheck attempts (isOk res)) w2')
  cases res with
  | error f => exact ⟨rfl, s4⟩
  | ok body => exact sim_responsePhase _ _ _ _ s4


theorem sim_withCtx {w w' : World} (s : Sim w w') (c c' : Ctx) (h : c = c') :
    Sim ({ w with ctx := c } : World) ({ w' with ctx := c' } : World) :=
  ⟨s.cfg, s.cup, h, s.apps, s.sysApp, s.clock, s.nGuid, s.nNonce, s.nTimer, s.env, s.trace⟩

theorem sim_withApps {w w' : World} (s : Sim w w') (a a' : List App) (h : a = a') :
    Sim ({ w with apps := a } : World) ({ w' with apps := a' } : World) :=
  ⟨s.cfg, s.cup, s.ctx, h, s.sysApp, s.clock, s.nGuid, s.nNonce, s.nTimer, s.env, s.trace⟩

theorem sim_withTimer {w w' : World} (s : Sim w w') (n n' : Nat) (h : n = n') :
    Sim ({ w with nTimer := n } : World) ({ w' with nTimer := n' } : World) :=
  ⟨s.cfg, s.cup, s.ctx, s.apps, s.sysApp, s.clock, s.nGuid, s.nNonce, h, s.env, s.trace⟩

theorem sim_setLastUpdate {w w' : World} (s : Sim w w') : Sim (setLastUpdate w) (setLastUpdate w') := by
  unfold setLastUpdate
  exact sim_withCtx s _ _ (by rw [s.ctx, s.clock])

theorem sim_reportAttemptsCheck (success : Bool) {w w' : World} (s : Sim w w') :
    Sim (reportAttemptsCheck success w) (reportAttemptsCheck success w') := by
  unfold reportAttemptsCheck
  simp only
  cases success
  · simp only [Bool.false_eq_true, if_false]
    exact sim_withCtx s _ _ (by rw [s.ctx])
  · simp only [if_true]
    exact (sim_withCtx s _ _ (by rw [s.ctx])).inv (inv_metric _ _) (inv_metric _ _)

theorem sim_prepareOk (ok : CheckOk) {w w' : World} (s : Sim w w') : Sim (prepareOk ok w) (prepareOk ok w') := by
  unfold prepareOk
  simp only
  have s1 := sim_reportAttemptsCheck true (sim_setLastUpdate s)
  generalize reportAttemptsCheck true (setLastUpdate w) = w1 at s1
  generalize reportAttemptsCheck true (setLastUpdate w') = w1' at s1
  have s2 : Sim ({ w1 with apps := updateFromOmaha w1.apps ok.responses } : World)
      ({ w1' with apps := updateFromOmaha w1'.apps ok.responses } : World) :=
    sim_withApps s1 _ _ (by rw [s1.apps])
  split
  · exact s2.inv (inv_reportAttemptsInstall _ _) (inv_reportAttemptsInstall _ _)
  · exact s2

theorem sim_prepareErr (e : CheckErr) {w w' : World} (s : Sim w w') : Sim (prepareErr e w) (prepareErr e w') := by
  unfold prepareErr
  simp only
  have s1 : Sim (if talkedToOmaha e = true then setLastUpdate w else w) (if talkedToOmaha e = true then setLastUpdate w' else w') := by
    split
    · exact sim_setLastUpdate s
    · exact s
  exact sim_reportAttemptsCheck false (s1.inv (inv_metric _ _) (inv_metric _ _))

theorem sim_closeCheck (r : Except CheckErr (List AppResp)) {w w' : World} (s : Sim w w') :
    Sim (closeCheck r w) (closeCheck r w') := by
  unfold closeCheck
  simp only
  have s1 := sim_yield_eq (.schedule w.ctx.sched) (.schedule w'.ctx.sched) (by rw [s.ctx]) s
  have s2 := sim_yield_eq (.protocol w.ctx.st) (.protocol w'.ctx.st) (by rw [s.ctx]) s1
  exact (sim_yield (.result r) s2).inv (inv_persistData _) (inv_persistData _)

theorem sim_startUpdateCheck (params : RequestParams) {w w' : World} (s : Sim w w') :
    (startUpdateCheck params w).1 = (startUpdateCheck params w').1 ∧
    Sim (startUpdateCheck params w).2 (startUpdateCheck params w').2 := by
  unfold startUpdateCheck
  rw [s.apps]
  obtain ⟨e1, s1⟩ := sim_performUpdateCheck params w'.apps s
  generalize performUpdateCheck params w'.apps w = r at e1 s1
  generalize performUpdateCheck params w'.apps w' = r' at e1 s1
  obtain ⟨res, w1⟩ := r
  obtain ⟨res', w1'⟩ := r'
  simp only at e1 s1
  subst e1
  cases res with
  | none => exact ⟨rfl, s1⟩
  | some cr =>
    cases cr with
    | ok ok => exact ⟨rfl, sim_closeCheck _ (sim_prepareOk ok s1)⟩
    | error e => exact ⟨rfl, sim_closeCheck _ (sim_prepareErr e s1)⟩

/-! ### Pings, the reboot wait, the loop around the check -/

theorem sim_pingOmaha {w w' : World} (s : Sim w w') :
    (pingOmaha w).1 = (pingOmaha w').1 ∧ Sim (pingOmaha w).2 (pingOmaha w').2 := by
  unfold pingOmaha
  simp only
  rw [s.apps]
  generalize (List.foldl (fun b app => b.apply (.ping app)) ({ params := { source := .scheduledTask, useConfiguredProxies := true } } : Request.Builder) w'.apps) = b0
  obtain ⟨e0, s0⟩ := sim_nextGuid s
  rw [e0]
  generalize ({ b0 with sessionId := some (guidBytes (nextGuid w').1) } : Request.Builder) = b1
  obtain ⟨e1, s1⟩ := sim_withRequestId b1 s0
  rw [e1]
  obtain ⟨e2, s2⟩ := sim_omahaRequest .ping (withRequestId b1 (nextGuid w').2).1 s1
  generalize omahaRequest .ping (withRequestId b1 (nextGuid w').2).1 (withRequestId b1 (nextGuid w).2).2 = r at e2 s2
  generalize omahaRequest .ping (withRequestId b1 (nextGuid w').2).1 (withRequestId b1 (nextGuid w').2).2 = r' at e2 s2
  obtain ⟨res, w1⟩ := r
  obtain ⟨res', w1'⟩ := r'
  simp only at e2 s2
  subst e2
  have hfail : ∀ {x x' : World}, Sim x x' → Sim (pingFailed x) (pingFailed x') := by
    intro x x' sx
    unfold pingFailed
    exact (sim_withCtx sx _ _ (by rw [sx.ctx])).inv (inv_persistData _) (inv_persistData _)
  cases res with
  | error f => exact ⟨rfl, hfail s2⟩
  | ok body =>
    simp only
    split
    · exact ⟨rfl, s2⟩
    · exact ⟨rfl, hfail s2⟩
    · rename_i response _
      refine ⟨rfl, ?_⟩
      unfold pingSucceeded
      simp only
      have t1 := sim_setLastUpdate (sim_withCtx s2 ({ w1.ctx with st := { w1.ctx.st with failures := 0 } }) ({ w1'.ctx with st := { w1'.ctx.st with failures := 0 } }) (by rw [s2.ctx]))
      generalize setLastUpdate ({ w1 with ctx := { w1.ctx with st := { w1.ctx.st with failures := 0 } } } : World) = x at t1
      generalize setLastUpdate ({ w1' with ctx := { w1'.ctx with st := { w1'.ctx.st with failures := 0 } } } : World) = x' at t1
      have hs : x.ctx.sched = x'.ctx.sched := by rw [t1.ctx]
      rw [hs]
      have t2 := sim_yield (.schedule x'.ctx.sched) t1
      exact (sim_withApps t2 _ _ (by rw [t2.apps])).inv (inv_persistData _) (inv_persistData _)

theorem sim_updateNext (t : Timing) {w w' : World} (s : Sim w w') : Sim (updateNext t w) (updateNext t w') := by
  unfold updateNext
  simp only
  have s1 := sim_emit_eq (.policyNext w.apps w.ctx.sched w.ctx.st t) (.policyNext w'.apps w'.ctx.sched w'.ctx.st t)
    (by rw [s.apps, s.ctx]) s
  generalize emit (.policyNext w.apps w.ctx.sched w.ctx.st t) w = x at s1
  generalize emit (.policyNext w'.apps w'.ctx.sched w'.ctx.st t) w' = x' at s1
  exact sim_yield_eq _ _ (by rw [s1.ctx]) (sim_withCtx s1 _ _ (by rw [s1.ctx]))

theorem sim_armWait (t : Timing) {w w' : World} (s : Sim w w') :
    (armWait t w).1 = (armWait t w').1 ∧ Sim (armWait t w).2 (armWait t w').2 := by
  unfold armWait
  split
  · rename_i d _
    simp only
    have hn : w.nTimer = w'.nTimer := s.nTimer
    have s1 := sim_emit (.timerArm (.until_ t.time)) (sim_emit (.timerArm (.for_ d)) s)
    refine ⟨?_, sim_withTimer s1 _ _ ?_⟩
    · show [w.nTimer, w.nTimer + 1] = [w'.nTimer, w'.nTimer + 1]
      rw [hn]
    · show w.nTimer + 2 = w'.nTimer + 2
      rw [hn]
  · simp only
    have hn : w.nTimer = w'.nTimer := s.nTimer
    have s1 := sim_emit (.timerArm (.until_ t.time)) s
    refine ⟨?_, sim_withTimer s1 _ _ ?_⟩
    · show [w.nTimer] = [w'.nTimer]
      rw [hn]
    · show w.nTimer + 1 = w'.nTimer + 1
      rw [hn]

theorem sim_rebootLoop (opts : InstallSource) (t30 : Nat) (pingNeed : List Nat) (steps : List (WaitStep × Clock))
    (answers : List Bool) (nexts : List Timing) {w w' : World} (s : Sim w w') :
    (rebootLoop opts t30 pingNeed steps answers nexts w).1 = (rebootLoop opts t30 pingNeed steps answers nexts w').1 ∧
    Sim (rebootLoop opts t30 pingNeed steps answers nexts w).2 (rebootLoop opts t30 pingNeed steps answers nexts w').2 := by
  induction steps generalizing opts t30 pingNeed answers nexts w w' with
  | nil => unfold rebootLoop; exact ⟨rfl, s⟩
  | cons sd rest ih =>
    obtain ⟨step, dt⟩ := sd
    unfold rebootLoop
    simp only
    have s0 := sim_tick dt s
    cases step with
    | fire i =>
      simp only
      have s1 := sim_emit (.timerFire i) s0
      split
      · have s2 := sim_emit (.policyRebootAllowed opts (popBool answers).1) s1
        split
        · exact ⟨rfl, s2⟩
        · have s3 := sim_emit (.timerArm (.for_ (1800 * 1000000000))) s2
          generalize emit (.timerArm (.for_ (1800 * 1000000000))) (emit (.policyRebootAllowed opts (popBool answers).1) (emit (.timerFire i) (tick dt w))) = x at s3
          generalize emit (.timerArm (.for_ (1800 * 1000000000))) (emit (.policyRebootAllowed opts (popBool answers).1) (emit (.timerFire i) (tick dt w'))) = x' at s3
          have hn : x.nTimer = x'.nTimer := s3.nTimer
          rw [hn]
          exact ih _ _ _ _ _ (sim_withTimer s3 _ _ rfl)
      · split
        · obtain ⟨e2, s2⟩ := sim_pingOmaha s1
          generalize pingOmaha (emit (.timerFire i) (tick dt w)) = pr at e2 s2
          generalize pingOmaha (emit (.timerFire i) (tick dt w')) = pr' at e2 s2
          obtain ⟨r, w1⟩ := pr
          obtain ⟨r', w1'⟩ := pr'
          simp only at e2 s2
          subst e2
          cases r with
          | none => exact ⟨rfl, s2⟩
          | some u =>
            simp only
            obtain ⟨e4, s4⟩ := sim_armWait (popTiming nexts).1 (sim_updateNext (popTiming nexts).1 s2)
            rw [e4]
            exact ih _ _ _ _ _ s4
        · exact ih _ _ _ _ _ s1
    | ctl id src =>
      simp only
      have s1 := sim_emit (.reply id .alreadyRunning) s0
      split
      · have s2 := sim_emit (.policyRebootAllowed .onDemand (popBool answers).1) s1
        split
        · exact ⟨rfl, s2⟩
        · exact ih _ _ _ _ _ s2
      · exact ih _ _ _ _ _ s1

theorem sim_rebootWait (opts : InstallSource) (u : UnitEnv) {w w' : World} (s : Sim w w') :
    (rebootWait opts u w).1 = (rebootWait opts u w').1 ∧ Sim (rebootWait opts u w).2 (rebootWait opts u w').2 := by
  unfold rebootWait
  simp only
  have s0 := sim_emit (.policyRebootAllowed opts (popBool u.rebootAllowed).1) s
  split
  · exact ⟨rfl, s0⟩
  · have s1 := sim_emit (.timerArm (.for_ (1800 * 1000000000))) s0
    generalize emit (.timerArm (.for_ (1800 * 1000000000))) (emit (.policyRebootAllowed opts (popBool u.rebootAllowed).1) w) = x at s1
    generalize emit (.timerArm (.for_ (1800 * 1000000000))) (emit (.policyRebootAllowed opts (popBool u.rebootAllowed).1) w') = x' at s1
    have hn : x.nTimer = x'.nTimer := s1.nTimer
    rw [hn]
    have s2 : Sim ({ x with nTimer := x'.nTimer + 1 } : World) ({ x' with nTimer := x'.nTimer + 1 } : World) :=
      sim_withTimer s1 _ _ rfl
    obtain ⟨e4, s4⟩ := sim_armWait (popTiming u.rebootNext).1 (sim_updateNext (popTiming u.rebootNext).1 s2)
    rw [e4]
    exact sim_rebootLoop _ _ _ _ _ _ s4

theorem sim_waitForReboot (opts : InstallSource) (u : UnitEnv) {w w' : World} (s : Sim w w') :
    (waitForReboot opts u w).1 = (waitForReboot opts u w').1 ∧ Sim (waitForReboot opts u w).2 (waitForReboot opts u w').2 := by
  unfold waitForReboot doReboot
  obtain ⟨e, s1⟩ := sim_rebootWait opts u s
  generalize rebootWait opts u w = p at e s1
  generalize rebootWait opts u w' = p' at e s1
  obtain ⟨d, w1⟩ := p
  obtain ⟨d', w1'⟩ := p'
  simp only at e s1
  subst e
  cases d with
  | none => exact ⟨rfl, s1⟩
  | some b =>
    cases b
    · exact ⟨rfl, s1⟩
    · exact ⟨rfl, sim_emit _ s1⟩

theorem sim_afterCheck (u : UnitEnv) (opts : InstallSource) (reboot : Option Bool) {w w' : World} (s : Sim w w') :
    (afterCheck u opts reboot w).1 = (afterCheck u opts reboot w').1 ∧
    Sim (afterCheck u opts reboot w).2 (afterCheck u opts reboot w').2 := by
  unfold afterCheck
  cases reboot with
  | none => exact ⟨rfl, s⟩
  | some b =>
    cases b with
    | false => exact ⟨rfl, sim_yield _ s⟩
    | true =>
      simp only
      obtain ⟨e, s1⟩ := sim_waitForReboot opts u (sim_yield (.state .waitingForReboot) s)
      generalize waitForReboot opts u (yieldEv (.state .waitingForReboot) w) = p at e s1
      generalize waitForReboot opts u (yieldEv (.state .waitingForReboot) w') = p' at e s1
      obtain ⟨r, w1⟩ := p
      obtain ⟨r', w1'⟩ := p'
      simp only at e s1
      subst e
      cases r with
      | none => exact ⟨rfl, s1⟩
      | some b =>
        cases b
        · exact ⟨rfl, s1⟩
        · exact ⟨rfl, sim_yield _ s1⟩

theorem sim_replyCtl (ctl : Option Nat) (r : Reply) {w w' : World} (s : Sim w w') : Sim (replyCtl ctl r w) (replyCtl ctl r w') := by
  unfold replyCtl
  split
  · exact sim_emit _ s
  · exact s

theorem sim_replyDuring (during : List (Nat × InstallSource)) {w w' : World} (s : Sim w w') :
    Sim (replyDuring during w) (replyDuring during w') := by
  unfold replyDuring
  induction during generalizing w w' with
  | nil => exact s
  | cons d rest ih => exact ih (sim_emit _ s)

theorem sim_decideAndCheck (u : UnitEnv) (opts : InstallSource) (ctl : Option Nat) {w w' : World} (s : Sim w w') :
    (decideAndCheck u opts ctl w).1 = (decideAndCheck u opts ctl w').1 ∧
    Sim (decideAndCheck u opts ctl w).2 (decideAndCheck u opts ctl w').2 := by
  unfold decideAndCheck
  simp only
  generalize u.allow = dec
  have h0 : Action.policyAllowed w.apps w.ctx.sched w.ctx.st opts dec =
      Action.policyAllowed w'.apps w'.ctx.sched w'.ctx.st opts dec := by rw [s.apps, s.ctx]
  rw [h0]
  have s0 := sim_emit (.policyAllowed w'.apps w'.ctx.sched w'.ctx.st opts dec) s
  have pos : ∀ params,
      (afterCheck u (upgradeOpts u.during opts)
        (startUpdateCheck params (replyDuring u.during (replyCtl ctl .started (emit (.policyAllowed w'.apps w'.ctx.sched w'.ctx.st opts dec) w)))).1
        (startUpdateCheck params (replyDuring u.during (replyCtl ctl .started (emit (.policyAllowed w'.apps w'.ctx.sched w'.ctx.st opts dec) w)))).2).1 =
      (afterCheck u (upgradeOpts u.during opts)
        (startUpdateCheck params (replyDuring u.during (replyCtl ctl .started (emit (.policyAllowed w'.apps w'.ctx.sched w'.ctx.st opts dec) w')))).1
        (startUpdateCheck params (replyDuring u.during (replyCtl ctl .started (emit (.policyAllowed w'.apps w'.ctx.sched w'.ctx.st opts dec) w')))).2).1 ∧
      Sim (afterCheck u (upgradeOpts u.during opts)
        (startUpdateCheck params (replyDuring u.during (replyCtl ctl .started (emit (.policyAllowed w'.apps w'.ctx.sched w'.ctx.st opts dec) w)))).1
        (startUpdateCheck params (replyDuring u.during (replyCtl ctl .started (emit (.policyAllowed w'.apps w'.ctx.sched w'.ctx.st opts dec) w)))).2).2
        (afterCheck u (upgradeOpts u.during opts)
        (startUpdateCheck params (replyDuring u.during (replyCtl ctl .started (emit (.policyAllowed w'.apps w'.ctx.sched w'.ctx.st opts dec) w')))).1
        (startUpdateCheck params (replyDuring u.during (replyCtl ctl .started (emit (.policyAllowed w'.apps w'.ctx.sched w'.ctx.st opts dec) w')))).2).2 := by
    intro params
    obtain ⟨e1, s1⟩ := sim_startUpdateCheck params (sim_replyDuring u.during (sim_replyCtl ctl .started s0))
    rw [e1]
    exact sim_afterCheck _ _ _ s1
  cases dec with
  | tooSoon => exact ⟨rfl, sim_replyCtl _ _ s0⟩
  | throttled => exact ⟨rfl, sim_replyCtl _ _ s0⟩
  | denied => exact ⟨rfl, sim_replyCtl _ _ s0⟩
  | ok params => exact pos params
  | okUpdateDeferred params => exact pos params

theorem sim_outerWait (need : List Nat) (steps : List WaitStep) {w w' : World} (s : Sim w w') :
    (outerWait need steps w).1 = (outerWait need steps w').1 ∧
    Sim (outerWait need steps w).2 (outerWait need steps w').2 := by
  induction steps generalizing need w w' with
  | nil => unfold outerWait; exact ⟨rfl, s⟩
  | cons st rest ih =>
    cases st with
    | fire i =>
      unfold outerWait
      simp only
      split
      · exact ⟨rfl, sim_emit _ s⟩
      · exact ih _ (sim_emit _ s)
    | ctl id src =>
      unfold outerWait
      exact ⟨rfl, s⟩

/-- The pending reboot-duration report reads the clock only; its storage removals and metric are
invisible, and whether it succeeded (the flag) does not depend on storage. -/
theorem sim_waitedStep (rs : RunState) {w w' : World} (s : Sim w w') :
    (waitedStep rs w).1 = (waitedStep rs w').1 ∧ Sim (waitedStep rs w).2 (waitedStep rs w').2 := by
  unfold waitedStep
  split
  · split
    · rename_i fin _
      have hr : (reportWaited fin rs.startMono w).isSome = (reportWaited fin rs.startMono w').isSome ∧
          ∀ x x', reportWaited fin rs.startMono w = some x → reportWaited fin rs.startMono w' = some x' → Sim x x' := by
        rw [reportWaited_spec, reportWaited_spec, s.clock]
        split
        · refine ⟨rfl, ?_⟩
          intro x x' hx hx'
          cases hx; cases hx'
          exact s.inv (inv_metric _ _) (inv_metric _ _)
        · exact ⟨rfl, fun x x' hx => by cases hx⟩
      cases h1 : reportWaited fin rs.startMono w with
      | none =>
        cases h2 : reportWaited fin rs.startMono w' with
        | none => exact ⟨rfl, s⟩
        | some x' => rw [h1, h2] at hr; simp at hr
      | some x =>
        cases h2 : reportWaited fin rs.startMono w' with
        | none => rw [h1, h2] at hr; simp at hr
        | some x' =>
          simp only
          have sx := hr.2 x x' h1 h2
          refine ⟨trivial, ?_⟩
          exact sx.inv (((inv_storeOp_ _ _).trans (inv_storeOp_ _ _)).trans (inv_storeOp_ _ _))
            (((inv_storeOp_ _ _).trans (inv_storeOp_ _ _)).trans (inv_storeOp_ _ _))
    · exact ⟨rfl, s⟩
  · exact ⟨rfl, s⟩

end Omaha.SM
