/-
Lemmas about the storage model: association lists, commit, and storage operations when the
environment injects no storage failure.
-/
import Omaha.Lemmas.SMTrace

namespace Omaha.SM

open Omaha

theorem lookup_eraseAssoc {β} (k k' : Bytes) (l : List (Bytes × β)) :
    lookup k' (eraseAssoc k l) = if k = k' then none else lookup k' l := by
  unfold eraseAssoc
  induction l with
  | nil => simp [lookup]
  | cons kv rest ih =>
    obtain ⟨k0, v0⟩ := kv
    simp only [List.filter_cons]
    by_cases h0 : k0 = k
    · subst h0
      simp only [ne_eq, not_true_eq_false, decide_false, Bool.false_eq_true, if_false, ih]
      by_cases hk : k0 = k' <;> simp [lookup, hk]
    · simp only [ne_eq, h0, not_false_eq_true, decide_true, if_true, lookup, ih]
      by_cases hk : k = k'
      · subst hk; simp [h0]
      · simp [hk]

theorem lookup_setAssoc {β} (k k' : Bytes) (v : β) (l : List (Bytes × β)) :
    lookup k' (setAssoc k v l) = if k = k' then some v else lookup k' l := by
  unfold setAssoc
  simp only [lookup, lookup_eraseAssoc]
  by_cases hk : k = k' <;> simp [hk]

/-- What `commit` makes durable for a key is what a reader saw before the commit. -/
theorem lookup_applyPending (k : Bytes) (c : List (Bytes × SVal)) (p : List (Bytes × Option SVal)) :
    lookup k (applyPending c p) = (match lookup k p with
      | some v => v
      | none => lookup k c) := by
  induction p with
  | nil => rfl
  | cons kv older ih =>
    obtain ⟨k0, v0⟩ := kv
    unfold applyPending
    cases v0 with
    | some x =>
      simp only [lookup_setAssoc, lookup]
      by_cases h : k0 = k <;> simp [h, ih]
    | none =>
      simp only [lookup_eraseAssoc, lookup]
      by_cases h : k0 = k <;> simp [h, ih]

/-- **commit is transparent to readers.** -/
theorem commit_get (s : Store) (k : Bytes) : (s.commit).get k = s.get k := by
  unfold Store.commit Store.get
  simp only [lookup]
  rw [lookup_applyPending]
  cases lookup k s.pending <;> rfl

/-- A crash keeps exactly the committed map. -/
theorem crash_get (s : Store) (k : Bytes) : (s.crash).get k = lookup k s.committed := by
  simp [Store.crash, Store.get, lookup]

/-- After a commit, a crash loses nothing. -/
theorem crash_commit_get (s : Store) (k : Bytes) : (s.commit.crash).get k = s.get k := by
  rw [crash_get]
  have := commit_get s k
  unfold Store.get at this
  simp only [Store.commit, lookup] at this
  exact this

/-- No storage failure is scripted: every operation succeeds. -/
def NoStoreFail (w : World) : Prop := w.env.storeFail = []

theorem storeOp_ok (op : StoreOp) (w : World) (h : NoStoreFail w) :
    (storeOp op w).1 = true ∧ NoStoreFail (storeOp op w).2 ∧
    (storeOp op w).2.store = applyOp op w.store := by
  unfold NoStoreFail at h
  unfold storeOp popFail
  rw [h]
  simp [emit, NoStoreFail, h]

theorem applyOp_get (op : StoreOp) (s : Store) (k' : Bytes) :
    (applyOp op s).get k' = (match op with
      | .set k v => if k = k' then some v else s.get k'
      | .remove k => if k = k' then none else s.get k'
      | .commit => s.get k') := by
  cases op with
  | set k v =>
    simp only [applyOp, Store.get, lookup]
    by_cases h : k = k' <;> simp [h]
  | remove k =>
    simp only [applyOp, Store.get, lookup]
    by_cases h : k = k' <;> simp [h]
  | commit => exact commit_get s k'

theorem get_after_set (s : Store) (k k' : Bytes) (v : SVal) :
    ({ s with pending := (k, some v) :: s.pending } : Store).get k' = if k = k' then some v else s.get k' := by
  unfold Store.get
  simp only [lookup]
  by_cases h : k = k' <;> simp [h]

theorem get_after_remove (s : Store) (k k' : Bytes) :
    ({ s with pending := (k, none) :: s.pending } : Store).get k' = if k = k' then none else s.get k' := by
  unfold Store.get
  simp only [lookup]
  by_cases h : k = k' <;> simp [h]

end Omaha.SM
