/-
Tag bounds of the install-path helpers, for an arbitrary permitted tag set (the lemmas of
SMPhases are the instances at `tCheckBody`), and the smallest tag sets of the pieces.
-/
import Omaha.Lemmas.SMFrame

namespace Omaha.SM

open Omaha

theorem addsG_progressFold (ok : Tag → Bool) (hp : ok .progressEv = true) (ps : List Nat) (w : World) :
    AddsT ok w (ps.foldl (fun w k => yieldEv (.progress k) w) w) := by
  induction ps generalizing w with
  | nil => exact AddsT.refl _ _
  | cons p rest ih => exact (addsT_yield _ (.progress p) w (by simpa [Action.tag] using hp)).trans (ih _)

theorem addsG_insterrFold (ok : Tag → Bool) (hp : ok .insterrEv = true) (ms : List Nat) (w : World) :
    AddsT ok w (ms.foldl (fun w m => yieldEv (.installerError m) w) w) := by
  induction ms generalizing w with
  | nil => exact AddsT.refl _ _
  | cons p rest ih => exact (addsT_yield _ (.installerError p) w (by simpa [Action.tag] using hp)).trans (ih _)

theorem addsG_runInstall (ok : Tag → Bool) (hi : ok .install = true) (hp : ok .progressEv = true)
    (planId : Nat) (w : World) : AddsT ok w (runInstall planId w) := by
  unfold runInstall
  exact ((addsT_emit ok (.install planId w.env.progress w.env.results) w (by simpa [Action.tag] using hi)).trans
    (addsG_progressFold ok hp w.env.progress _)).trans (addsT_tick _ _ _)

theorem addsG_durationMetric (ok : Tag → Bool) (hm : ok .metric = true) (startWall : Int) (results : List AppResult)
    (w : World) : AddsT ok w (durationMetric startWall results w).2 := by
  unfold durationMetric
  split
  · exact addsT_metric _ _ _ hm
  · exact AddsT.refl _ _

theorem addsG_reportInstall (ok : Tag → Bool) (hk : ok (.http .eventReport) = true) (hs : ok .storage = true)
    (hp : ok .protoEv = true) (hb : ok .buildErr = true) (hm : ok .metric = true)
    (params : RequestParams) (apps : List App) (session : Nat) (nv : List (Bytes × Option Bytes))
    (response : Resp.Response) (results : List AppResult) (ns : Option Nat) (w : World) :
    AddsT ok w (reportInstall params apps session nv response results ns w) := by
  unfold reportInstall
  simp only
  have h := addsT_reportResults ok hk hs hp hb hm params
    (resultEvents (knownResults apps response results) ns) session w
  split
  · exact h
  · exact h.trans (addsT_reportEvent ok hk hs hp hb hm _ _ _ _ _ _ _)

theorem addsG_recordFinish (ok : Tag → Bool) (hm : ok .metric = true) (hs : ok .storage = true)
    (hr : ok .pRebootNeeded = true) (planId : Nat) (firstSeen finish : Int) (nv : List (Bytes × Option Bytes))
    (w : World) : AddsT ok w (recordFinish planId firstSeen finish nv w).2 := by
  unfold recordFinish
  simp only
  have h1 : AddsT ok w (firstSeenMetric firstSeen finish w) := by
    unfold firstSeenMetric
    split
    · exact addsT_metric _ _ _ hm
    · exact AddsT.refl _ _
  have h2 := h1.trans (addsT_setTime ok hs kFinishTime finish _)
  generalize (setTime kFinishTime finish (firstSeenMetric firstSeen finish w)).2 = w2 at h2
  have h3 : AddsT ok w (setTargetVersion nv w2) := by
    unfold setTargetVersion
    split
    · exact h2.trans (addsT_storeOp_ _ hs _ _)
    · exact h2
  exact (h3.trans (addsT_storeOp_ _ hs .commit _)).trans (addsT_emit _ _ _ (by simpa [Action.tag] using hr))

/-- Everything that is neither a state announcement, a closing event, a policy question about the
check/install, a plan, an install, nor a reboot: requests, metrics, storage, timers, protocol
events, progress. -/
def tQuiet : Tag → Bool
  | .protoEv | .progressEv => true
  | .http k => k != .ping
  | .buildErr | .timerArm | .storage | .metric => true
  | _ => false

theorem addsQ_reportEvent (params : RequestParams) (ev : Omaha.Event) (apps : List App) (session : Nat)
    (nv : List (Bytes × Option Bytes)) (ns : Option Nat) (w : World) :
    AddsT tQuiet w (reportEvent params ev apps session nv ns w) :=
  addsT_reportEvent tQuiet rfl rfl rfl rfl rfl _ _ _ _ _ _ _

theorem addsQ_reportInstall (params : RequestParams) (apps : List App) (session : Nat) (nv : List (Bytes × Option Bytes))
    (response : Resp.Response) (results : List AppResult) (ns : Option Nat) (w : World) :
    AddsT tQuiet w (reportInstall params apps session nv response results ns w) :=
  addsG_reportInstall tQuiet rfl rfl rfl rfl rfl _ _ _ _ _ _ _ _

theorem addsQ_recordFirstSeen (planId : Bytes) (now : Int) (w : World) :
    AddsT tQuiet w (recordFirstSeen planId now w).2 := addsT_recordFirstSeen tQuiet rfl _ _ _

theorem addsQ_durationMetric (startWall : Int) (results : List AppResult) (w : World) :
    AddsT tQuiet w (durationMetric startWall results w).2 := addsG_durationMetric tQuiet rfl _ _ _

/-- `tQuiet` plus the install call itself. -/
def tQuietI : Tag → Bool
  | .install => true
  | t => tQuiet t

theorem tQuiet_le_tQuietI (t : Tag) (h : tQuiet t = true) : tQuietI t = true := by
  cases t <;> simp_all [tQuiet, tQuietI]

theorem addsQ_runInstall (planId : Nat) (w : World) : AddsT tQuietI w (runInstall planId w) :=
  addsG_runInstall tQuietI rfl rfl _ _

/-- `tQuiet` plus the reboot-needed question. -/
def tQuietR : Tag → Bool
  | .pRebootNeeded => true
  | t => tQuiet t

theorem addsQ_recordFinish (planId : Nat) (firstSeen finish : Int) (nv : List (Bytes × Option Bytes)) (w : World) :
    AddsT tQuietR w (recordFinish planId firstSeen finish nv w).2 :=
  addsG_recordFinish tQuietR rfl rfl rfl _ _ _ _ _

theorem addsQ_attemptLoop_noState (fuel attempt : Nat) (b : Request.Builder) (w : World) :
    AddsT tLoop w (attemptLoop fuel attempt b w).2.2 :=
  addsT_attemptLoop tLoop rfl rfl rfl rfl rfl rfl rfl _ _ _ _

end Omaha.SM
