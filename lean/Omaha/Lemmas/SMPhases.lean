/-
Tag bounds for the phases of an update check, and the projection principle: a projection that
ignores every tag a function may add is unchanged by that function.
-/
import Omaha.Lemmas.SMTags

namespace Omaha.SM

open Omaha

/-- Chronological projection of the actions added… the trace is newest-first, so is `proj`. -/
def proj {β} (π : Action → Option β) (w : World) : List β := w.trace.filterMap π

theorem proj_emit {β} (π : Action → Option β) (a : Action) (w : World) :
    proj π (emit a w) = (π a).toList ++ proj π w := by
  unfold proj emit
  simp only [List.filterMap_cons]
  cases π a <;> simp

theorem proj_of_addsT {β} (π : Action → Option β) {ok : Tag → Bool} {w w' : World} (h : AddsT ok w w')
    (hπ : ∀ a, ok a.tag = true → π a = none) : proj π w' = proj π w := by
  obtain ⟨d, e, p⟩ := h
  unfold proj
  rw [e, List.filterMap_append]
  have : d.filterMap π = [] := by
    rw [List.filterMap_eq_nil_iff]
    intro a ha; exact hπ a (p a ha)
  simp [this]

/-- Everything any function of the model does extends the trace. -/
def tAny : Tag → Bool := fun _ => true

theorem suffix_of_addsT {ok : Tag → Bool} {w w' : World} (h : AddsT ok w w') : ∃ d, w'.trace = d ++ w.trace := by
  obtain ⟨d, e, _⟩ := h; exact ⟨d, e⟩

/-! ### Phases -/

theorem addsT_reportCheckInterval (ok : Tag → Bool) (hm : ok .metric = true) (src : InstallSource) (w : World) :
    AddsT ok w (reportCheckInterval src w) := by
  unfold reportCheckInterval
  simp only
  have frame : ∀ w1 : World, AddsT ok w w1 → AddsT ok w { w1 with ctx := { w1.ctx with sched := { w1.ctx.sched with lastCheck := some (.complex ⟨w.clock.wall, w.clock.mono⟩) } } } :=
    fun w1 h => h.trans (AddsT.of_eq _ _ _ rfl)
  apply frame
  split
  · split
    · exact addsT_metric ok _ _ hm
    · exact AddsT.refl _ _
  · split
    · exact addsT_metric ok _ _ hm
    · exact AddsT.refl _ _
  · exact AddsT.refl _ _

theorem addsT_recordNewPlan (ok : Tag → Bool) (hs : ok .storage = true) (planId : Bytes) (now : Int) (w : World) :
    AddsT ok w (recordNewPlan planId now w).2 := by
  unfold recordNewPlan
  have h1 := addsT_storeOp ok hs (.set kInstallPlanId (.str planId)) w
  have h2 := h1.trans (addsT_setTime ok hs kFirstSeen now _)
  split
  · exact h1
  · split
    · exact h2.trans (addsT_storeOp_ ok hs _ _)
    · exact h2.trans (addsT_storeOp_ ok hs _ _)

theorem addsT_recordFirstSeen (ok : Tag → Bool) (hs : ok .storage = true) (planId : Bytes) (now : Int) (w : World) :
    AddsT ok w (recordFirstSeen planId now w).2 := by
  unfold recordFirstSeen
  split
  · exact AddsT.refl _ _
  · exact addsT_recordNewPlan ok hs planId now w

/-- Tags of everything that can happen between the check's first event and its closing events. -/
def tCheckBody : Tag → Bool
  | .stateEv s => s != .idle && s != .waitingForReboot
  | .protoEv | .progressEv | .responseEv | .insterrEv => true
  | .pCanStart | .pRebootNeeded => true
  | .http k => k != .ping
  | .buildErr | .timerArm | .plan | .install | .storage | .metric => true
  | _ => false

theorem addsT_recordFinish (planId : Nat) (firstSeen finish : Int) (nv : List (Bytes × Option Bytes)) (w : World) :
    AddsT tCheckBody w (recordFinish planId firstSeen finish nv w).2 := by
  unfold recordFinish
  simp only
  have h1 : AddsT tCheckBody w (firstSeenMetric firstSeen finish w) := by
    unfold firstSeenMetric
    split
    · exact addsT_metric _ _ _ rfl
    · exact AddsT.refl _ _
  have h2 := h1.trans (addsT_setTime tCheckBody rfl kFinishTime finish _)
  generalize (setTime kFinishTime finish (firstSeenMetric firstSeen finish w)).2 = w2 at h2
  have h3 : AddsT tCheckBody w (setTargetVersion nv w2) := by
    unfold setTargetVersion
    split
    · exact h2.trans (addsT_storeOp_ _ rfl _ _)
    · exact h2
  exact (h3.trans (addsT_storeOp_ _ rfl .commit _)).trans (addsT_emit _ _ _ rfl)

theorem addsT_progressFold (ps : List Nat) (w : World) :
    AddsT tCheckBody w (ps.foldl (fun w k => yieldEv (.progress k) w) w) := by
  induction ps generalizing w with
  | nil => exact AddsT.refl _ _
  | cons p rest ih => exact (addsT_yield _ (.progress p) w rfl).trans (ih _)

theorem addsT_insterrFold (ms : List Nat) (w : World) :
    AddsT tCheckBody w (ms.foldl (fun w m => yieldEv (.installerError m) w) w) := by
  induction ms generalizing w with
  | nil => exact AddsT.refl _ _
  | cons p rest ih => exact (addsT_yield _ (.installerError p) w rfl).trans (ih _)

theorem addsT_reportEvent_body (params : RequestParams) (ev : Omaha.Event) (apps : List App) (session : Nat)
    (nv : List (Bytes × Option Bytes)) (ns : Option Nat) (w : World) :
    AddsT tCheckBody w (reportEvent params ev apps session nv ns w) :=
  addsT_reportEvent tCheckBody rfl rfl rfl rfl rfl _ _ _ _ _ _ _

theorem addsT_runInstall (planId : Nat) (w : World) : AddsT tCheckBody w (runInstall planId w) := by
  unfold runInstall
  exact ((addsT_emit tCheckBody (.install planId w.env.progress w.env.results) w rfl).trans
    (addsT_progressFold w.env.progress _)).trans (addsT_tick _ _ _)

theorem addsT_durationMetric (startWall : Int) (results : List AppResult) (w : World) :
    AddsT tCheckBody w (durationMetric startWall results w).2 := by
  unfold durationMetric
  split
  · exact addsT_metric _ _ _ rfl
  · exact AddsT.refl _ _

theorem addsT_reportInstall (params : RequestParams) (apps : List App) (session : Nat) (nv : List (Bytes × Option Bytes))
    (response : Resp.Response) (results : List AppResult) (ns : Option Nat) (w : World) :
    AddsT tCheckBody w (reportInstall params apps session nv response results ns w) := by
  unfold reportInstall
  simp only
  have h := addsT_reportResults tCheckBody rfl rfl rfl rfl rfl params
    (resultEvents (knownResults apps response results) ns) session w
  split
  · exact h
  · exact h.trans (addsT_reportEvent_body _ _ _ _ _ _ _)

theorem addsT_finishInstall (planId : Nat) (firstSeen finish : Int) (nv : List (Bytes × Option Bytes))
    (response : Resp.Response) (results : List AppResult) (w : World) :
    AddsT tCheckBody w (finishInstall planId firstSeen finish nv response results w).2 := by
  unfold finishInstall
  split
  · exact (addsT_insterrFold _ _).trans (addsT_yield _ (.state .installationError) _ rfl)
  · exact addsT_recordFinish _ _ _ _ _

theorem addsT_installPhase (params : RequestParams) (apps : List App) (session : Nat)
    (nv : List (Bytes × Option Bytes)) (response : Resp.Response) (planId : Nat) (w : World) :
    AddsT tCheckBody w (installPhase params apps session nv response planId w).2 := by
  unfold installPhase
  simp only
  have h1 := (addsT_yield tCheckBody (.state .installing) w rfl).trans
    (addsT_reportEvent_body params (eventSuccess 13) apps session nv none _)
  generalize reportEvent params (eventSuccess 13) apps session nv none (yieldEv (.state .installing) w) = w1 at h1
  have h2 := h1.trans (addsT_recordFirstSeen tCheckBody rfl (planIdText planId) w1.clock.wall w1)
  generalize recordFirstSeen (planIdText planId) w1.clock.wall w1 = r2 at h2
  have h3 := h2.trans (addsT_runInstall planId r2.2)
  generalize runInstall planId r2.2 = w3 at h3
  have h4 := h3.trans (addsT_durationMetric w1.clock.wall r2.2.env.results w3)
  generalize durationMetric w1.clock.wall r2.2.env.results w3 = r4 at h4
  have h5 := h4.trans (addsT_reportInstall params apps session nv response r2.2.env.results r4.1 r4.2)
  exact h5.trans (addsT_finishInstall _ _ _ _ _ _ _)

theorem addsT_updatePhase (params : RequestParams) (apps : List App) (session : Nat) (response : Resp.Response)
    (w : World) : AddsT tCheckBody w (updatePhase params apps session response w).2 := by
  unfold updatePhase
  simp only
  have h0 := addsT_emit tCheckBody (.plan params.source w.cup.isSome w.env.plan) w rfl
  split
  · unfold planFailedPhase
    exact ((h0.trans (addsT_yield _ (.state .installing) _ rfl)).trans (addsT_yield _ (.state .installationError) _ rfl)).trans
      (addsT_reportEvent_body _ _ _ _ _ _ _)
  · rename_i planId _
    have h1 := h0.trans (addsT_emit tCheckBody (.policyCanStart planId (emit (.plan params.source w.cup.isSome w.env.plan) w).env.canStart) _ rfl)
    split
    · unfold deferredPhase
      exact (h1.trans (addsT_reportEvent_body _ _ _ _ _ _ _)).trans (addsT_yield _ (.state .deferred) _ rfl)
    · unfold deniedPhase
      exact h1.trans (addsT_reportEvent_body _ _ _ _ _ _ _)
    · exact h1.trans (addsT_installPhase _ _ _ _ _ _ _)

theorem addsT_responsePhase (params : RequestParams) (apps : List App) (session : Nat) (body : Bytes) (w : World) :
    AddsT tCheckBody w (responsePhase params apps session body w).2 := by
  unfold responsePhase
  split
  · exact AddsT.refl _ _
  · unfold parseFailedPhase
    exact (addsT_yield _ (.state .errorChecking) w rfl).trans (addsT_reportEvent_body _ _ _ _ _ _ _)
  · rename_i response _
    simp only
    have h0 := addsT_yield tCheckBody (.serverResponse response) w rfl
    split
    · unfold noUpdatePhase
      exact h0.trans (addsT_yield _ (.state .noUpdate) _ rfl)
    · exact h0.trans (addsT_updatePhase _ _ _ _ _)

/-- After its first event, an update check adds only check-body actions. -/
theorem performUpdateCheck_shape (params : RequestParams) (apps : List App) (w : World) :
    AddsT tCheckBody (yieldEv (.state (.checking params.source)) w) (performUpdateCheck params apps w).2 := by
  unfold performUpdateCheck
  simp only
  generalize yieldEv (.state (.checking params.source)) w = w0
  have h1 := addsT_reportCheckInterval tCheckBody rfl params.source w0
  generalize reportCheckInterval params.source w0 = w1 at h1
  have h2 : AddsT tCheckBody w0 (nextGuid w1).2 := h1.trans (AddsT.of_eq _ _ _ rfl)
  have h3 := h2.trans (addsT_attemptLoop tCheckBody rfl rfl rfl rfl rfl rfl rfl 3 1
    (checkBuilder params apps (nextGuid w1).1) (nextGuid w1).2)
  generalize attemptLoop 3 1 (checkBuilder params apps (nextGuid w1).1) (nextGuid w1).2 = r at h3
  obtain ⟨res, attempts, w2⟩ := r
  have h4 := h3.trans (addsT_metric tCheckBody (.requestsPerCheck attempts (isOk res)) w2 rfl)
  cases res with
  | error f => exact h4
  | ok body => exact h4.trans (addsT_responsePhase _ _ _ _ _)

end Omaha.SM
