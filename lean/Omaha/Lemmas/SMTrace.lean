/-
Trace-extension ("frame") lemmas for the state-machine model: every model function only ever
prepends actions to `World.trace` (the trace is newest-first), and for each function the kinds of
actions it can prepend are bounded.  `Adds P w w'` says: `w'.trace = d ++ w.trace` with every
action of `d` satisfying `P`.
-/
import Omaha.SM.Run

namespace Omaha.SM

open Omaha

def Adds (P : Action → Prop) (w w' : World) : Prop :=
  ∃ d : List Action, w'.trace = d ++ w.trace ∧ ∀ a ∈ d, P a

theorem Adds.refl (P) (w : World) : Adds P w w := ⟨[], rfl, by simp⟩

theorem Adds.of_eq_trace (P) (w w' : World) (h : w'.trace = w.trace) : Adds P w w' := ⟨[], by simp [h], by simp⟩

theorem Adds.trans {P} {w1 w2 w3 : World} (h1 : Adds P w1 w2) (h2 : Adds P w2 w3) : Adds P w1 w3 := by
  obtain ⟨d1, e1, p1⟩ := h1
  obtain ⟨d2, e2, p2⟩ := h2
  refine ⟨d2 ++ d1, by rw [e2, e1, List.append_assoc], ?_⟩
  intro a ha
  rcases List.mem_append.1 ha with h | h
  · exact p2 a h
  · exact p1 a h

theorem Adds.mono {P Q : Action → Prop} {w w' : World} (h : Adds P w w') (hpq : ∀ a, P a → Q a) : Adds Q w w' := by
  obtain ⟨d, e, p⟩ := h
  exact ⟨d, e, fun a ha => hpq a (p a ha)⟩

theorem adds_emit (P : Action → Prop) (a : Action) (w : World) (h : P a) : Adds P w (emit a w) :=
  ⟨[a], rfl, by simpa using h⟩

theorem adds_tick (P) (dt : Clock) (w : World) : Adds P w (tick dt w) := Adds.of_eq_trace P _ _ rfl

/-! ### Action classes -/

def isStorage : Action → Prop
  | .storage _ _ => True
  | _ => False

def isMetric : Action → Prop
  | .metric _ => True
  | _ => False

def isEvent : Action → Prop
  | .event _ => True
  | _ => False

def isHttp : Action → Prop
  | .http _ _ => True
  | _ => False

def isHttpKind (k : ReqKind) : Action → Prop
  | .http r _ => r.kind = k
  | _ => False

/-! ### Storage primitives add storage actions only -/

theorem popFail_trace (w : World) : (popFail w).2.trace = w.trace := by
  unfold popFail; split <;> rfl

theorem adds_storeOp (op : StoreOp) (w : World) : Adds isStorage w (storeOp op w).2 := by
  unfold storeOp
  simp only
  split
  · exact ⟨[.storage op false], by simp [emit, popFail_trace], by simp [isStorage]⟩
  · exact ⟨[.storage op true], by simp [emit, popFail_trace], by simp [isStorage]⟩

theorem adds_storeOp_ (op : StoreOp) (w : World) : Adds isStorage w (storeOp_ op w) := adds_storeOp op w

theorem adds_setOptionInt (k : Bytes) (v : Option Int) (w : World) : Adds isStorage w (setOptionInt k v w).2 := by
  unfold setOptionInt; split <;> exact adds_storeOp _ _

theorem adds_setTime (k : Bytes) (t : Int) (w : World) : Adds isStorage w (setTime k t w).2 :=
  adds_setOptionInt _ _ _

theorem adds_persistCtx (w : World) : Adds isStorage w (persistCtx w) := by
  unfold persistCtx
  exact ((adds_setOptionInt _ _ _).trans (adds_setOptionInt _ _ _)).trans (adds_setOptionInt _ _ _)

theorem adds_persistApps (apps : List App) (w : World) : Adds isStorage w (persistApps apps w) := by
  induction apps generalizing w with
  | nil => exact Adds.refl _ _
  | cons a rest ih => exact (adds_storeOp_ _ _).trans (ih _)

theorem adds_persistData (w : World) : Adds isStorage w (persistData w) := by
  unfold persistData
  exact ((adds_persistCtx w).trans (adds_persistApps _ _)).trans (adds_storeOp_ _ _)

/-! ### Exact effect of the storage primitives on everything but the store -/

theorem storeOp_frame (op : StoreOp) (w : World) :
    (storeOp op w).2.ctx = w.ctx ∧ (storeOp op w).2.apps = w.apps ∧ (storeOp op w).2.cup = w.cup ∧
    (storeOp op w).2.clock = w.clock ∧ (storeOp op w).2.cfg = w.cfg ∧ (storeOp op w).2.sysApp = w.sysApp ∧
    (storeOp op w).2.trace = .storage op (storeOp op w).1 :: w.trace := by
  unfold storeOp popFail
  cases w.env.storeFail with
  | nil => simp [emit]
  | cons f rest => cases f <;> simp [emit]

/-- The storage operation `set_option_int` performs. -/
def optOp (k : Bytes) : Option Int → StoreOp
  | some i => .set k (.int i)
  | none => .remove k

theorem setOptionInt_eq (k : Bytes) (v : Option Int) (w : World) :
    setOptionInt k v w = storeOp (optOp k v) w := by
  unfold setOptionInt optOp; cases v <;> rfl

theorem persistCtx_frame (w : World) :
    (persistCtx w).ctx = w.ctx ∧ (persistCtx w).apps = w.apps ∧ (persistCtx w).cup = w.cup ∧
    (persistCtx w).clock = w.clock ∧ (persistCtx w).cfg = w.cfg ∧ (persistCtx w).sysApp = w.sysApp := by
  unfold persistCtx
  simp only [setOptionInt_eq]
  refine ⟨?_, ?_, ?_, ?_, ?_, ?_⟩ <;> simp only [storeOp_frame]

/-- `persistCtx` emits exactly the three context writes, in this order. -/
theorem persistCtx_trace (w : World) :
    ∃ o1 o2 o3, (persistCtx w).trace =
      [.storage (optOp kFailedChecks (if w.ctx.st.failures = 0 then none else some (w.ctx.st.failures : Int))) o3,
       .storage (optOp kPoll (w.ctx.st.poll.map fun ns => ((ns / 1000 : Nat) : Int))) o2,
       .storage (optOp kLastUpdateTime ((w.ctx.sched.lastUpdate.bind pctWall).bind Time.toMicros)) o1] ++ w.trace := by
  unfold persistCtx
  simp only [setOptionInt_eq]
  generalize hw1 : storeOp (optOp kLastUpdateTime ((w.ctx.sched.lastUpdate.bind pctWall).bind Time.toMicros)) w = r1
  have f1 := storeOp_frame (optOp kLastUpdateTime ((w.ctx.sched.lastUpdate.bind pctWall).bind Time.toMicros)) w
  rw [hw1] at f1
  rw [f1.1]
  generalize hw2 : storeOp (optOp kPoll (w.ctx.st.poll.map fun ns => ((ns / 1000 : Nat) : Int))) r1.2 = r2
  have f2 := storeOp_frame (optOp kPoll (w.ctx.st.poll.map fun ns => ((ns / 1000 : Nat) : Int))) r1.2
  rw [hw2] at f2
  rw [f2.1, f1.1]
  have f3 := storeOp_frame (optOp kFailedChecks (if w.ctx.st.failures = 0 then none else some (w.ctx.st.failures : Int))) r2.2
  refine ⟨r1.1, r2.1, (storeOp (optOp kFailedChecks (if w.ctx.st.failures = 0 then none else some (w.ctx.st.failures : Int))) r2.2).1, ?_⟩
  rw [f3.2.2.2.2.2.2, f2.2.2.2.2.2.2, f1.2.2.2.2.2.2]
  rfl

theorem adds_metric (m : Metric) (w : World) : Adds isMetric w (metric m w) :=
  adds_emit _ _ _ (by simp [isMetric])

theorem adds_yieldEv (e : Event) (w : World) : Adds isEvent w (yieldEv e w) :=
  adds_emit _ _ _ (by simp [isEvent])

/-! ### The request function -/

/-- What one call of `omahaRequest kind` can add: at most request of that kind, protocol-state
events, storage operations. -/
def ReqAdds (k : ReqKind) (a : Action) : Prop :=
  isHttpKind k a ∨ isEvent a ∨ isStorage a ∨ (∃ kk e, a = .buildError kk e)

theorem popHttp_trace (k : ReqKind) (w : World) : (popHttp k w).2.trace = w.trace := by
  unfold popHttp
  cases k <;> simp only <;> split <;> rfl

theorem adds_applyPoll (poll : Option Nat) (w : World) :
    Adds (fun a => isEvent a ∨ isStorage a) w (applyPoll poll w) := by
  unfold applyPoll
  split
  · have e1 := (adds_yieldEv (.protocol { w.ctx.st with poll := poll })
        { w with ctx := { w.ctx with st := { w.ctx.st with poll := poll } } }).mono
        (Q := fun a => isEvent a ∨ isStorage a) (fun a h => Or.inl h)
    have e2 := (adds_persistCtx (yieldEv (.protocol { w.ctx.st with poll := poll })
        { w with ctx := { w.ctx with st := { w.ctx.st with poll := poll } } })).mono
        (Q := fun a => isEvent a ∨ isStorage a) (fun a h => Or.inr h)
    have e3 := (adds_storeOp_ .commit (persistCtx (yieldEv (.protocol { w.ctx.st with poll := poll })
        { w with ctx := { w.ctx with st := { w.ctx.st with poll := poll } } }))).mono
        (Q := fun a => isEvent a ∨ isStorage a) (fun a h => Or.inr h)
    exact Adds.trans (Adds.trans (Adds.trans (Adds.of_eq_trace _ _ _ rfl) e1) e2) e3
  · exact Adds.refl _ _

/-- `sendRequest` adds exactly one action: the exchange, of the requested kind. -/
theorem sendRequest_trace (k : ReqKind) (b : Request.Builder) (w : World) :
    ∃ req, req.kind = k ∧ (sendRequest k b w).2.trace = .http req (sendRequest k b w).1 :: w.trace := by
  refine ⟨{ kind := k, source := b.params.source, sessionDraw := b.sessionId.map guidOf,
             requestDraw := b.requestId.map guidOf,
             nonceDraw := if w.cup.isSome then some w.nNonce else none, apps := wireApps b }, rfl, ?_⟩
  unfold sendRequest
  simp only [emit, popHttp_trace]
  split <;> rfl

theorem adds_sendRequest (k : ReqKind) (b : Request.Builder) (w : World) :
    Adds (isHttpKind k) w (sendRequest k b w).2 := by
  obtain ⟨req, hk, ht⟩ := sendRequest_trace k b w
  exact ⟨[.http req (sendRequest k b w).1], by simp [ht], by simp [isHttpKind, hk]⟩

theorem adds_handleOutcome (o : HttpOutcome) (w : World) :
    Adds (fun a => isEvent a ∨ isStorage a) w (handleOutcome o w).2 := by
  unfold handleOutcome
  cases o with
  | fail k dt => exact adds_tick _ _ _
  | response status ra body auth dt =>
    simp only
    split
    · exact adds_tick _ _ _
    · split
      · exact Adds.trans (adds_tick _ _ _) (adds_applyPoll _ _)
      · exact Adds.trans (adds_tick _ _ _) (adds_applyPoll _ _)

theorem adds_omahaRequest (k : ReqKind) (b : Request.Builder) (w : World) :
    Adds (ReqAdds k) w (omahaRequest k b w).2 := by
  unfold omahaRequest
  split
  · exact adds_emit _ _ _ (Or.inr (Or.inr (Or.inr ⟨_, _, rfl⟩)))
  · simp only
    exact Adds.trans ((adds_sendRequest k b w).mono (fun a h => Or.inl h))
      ((adds_handleOutcome _ _).mono (fun a h => by
        rcases h with h | h
        · exact Or.inr (Or.inl h)
        · exact Or.inr (Or.inr (Or.inl h))))

end Omaha.SM
