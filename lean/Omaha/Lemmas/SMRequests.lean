/-
Every request of an update check is built from the check's parameters and session: the chain of
lemmas that carries a builder invariant (`Canon`) to every `http` action the check adds.
-/
import Omaha.Lemmas.SMReboot

namespace Omaha.SM

open Omaha

/-- The wire summary of a request built from `b`. -/
def mkReq (k : ReqKind) (b : Request.Builder) (n : Option Nat) : WireReq :=
  { kind := k, source := b.params.source, sessionDraw := b.sessionId.map guidOf,
    requestDraw := b.requestId.map guidOf, nonceDraw := n, apps := wireApps b }

/-- Every request among these actions was built from a builder satisfying `B`. -/
def HttpFrom (B : Request.Builder → Prop) : Action → Prop
  | .http r _ => ∃ b n, B b ∧ r = mkReq r.kind b n
  | _ => True

def tNoHttp : Tag → Bool
  | .http _ => false
  | _ => true

theorem adds_lift {B : Request.Builder → Prop} {ok : Tag → Bool} {w w' : World} (h : AddsT ok w w')
    (hk : ∀ k, ok (.http k) = false) : Adds (HttpFrom B) w w' := by
  obtain ⟨d, e, p⟩ := h
  refine ⟨d, e, ?_⟩
  intro a ha
  have := p a ha
  cases a with
  | http r o => simp [Action.tag, hk] at this
  | _ => trivial

theorem adds_lift' {B : Request.Builder → Prop} {w w' : World} (h : AddsT tNoHttp w w') : Adds (HttpFrom B) w w' :=
  adds_lift h (fun _ => rfl)

theorem addsR_emit (B : Request.Builder → Prop) (a : Action) (w : World) (h : ∀ r o, a ≠ .http r o) :
    Adds (HttpFrom B) w (emit a w) := by
  refine adds_emit _ _ _ ?_
  cases a with
  | http r o => exact absurd rfl (h r o)
  | _ => trivial

theorem addsR_yield (B : Request.Builder → Prop) (e : Event) (w : World) : Adds (HttpFrom B) w (yieldEv e w) :=
  addsR_emit B _ _ (fun _ _ h => by cases h)

theorem addsR_metric (B : Request.Builder → Prop) (m : Metric) (w : World) : Adds (HttpFrom B) w (metric m w) :=
  addsR_emit B _ _ (fun _ _ h => by cases h)

theorem addsR_sendRequest (B : Request.Builder → Prop) (k : ReqKind) (b : Request.Builder) (w : World) (hb : B b) :
    Adds (HttpFrom B) w (sendRequest k b w).2 := by
  refine ⟨[.http (mkReq k b (if w.cup.isSome then some w.nNonce else none)) (sendRequest k b w).1], ?_, ?_⟩
  · unfold sendRequest mkReq
    simp only [emit, popHttp_trace]
    split <;> rfl
  · intro a ha
    simp only [List.mem_singleton] at ha
    subst ha
    exact ⟨b, _, hb, rfl⟩

theorem addsR_omahaRequest (B : Request.Builder → Prop) (k : ReqKind) (b : Request.Builder) (w : World) (hb : B b) :
    Adds (HttpFrom B) w (omahaRequest k b w).2 := by
  unfold omahaRequest
  split
  · exact addsR_emit B _ _ (fun _ _ h => by cases h)
  · exact (addsR_sendRequest B k b w hb).trans (adds_lift' (addsT_handleOutcome tNoHttp rfl rfl _ _))

/-! ### The canonical builder invariant of a check -/

/-- An entry's update-check flags, when present, are the parameters' flags. -/
def GoodEntry (params : RequestParams) (e : Request.AppEntry) : Prop :=
  e.updateCheck = none ∨ e.updateCheck = some (params.disableUpdates, params.offerUpdateIfSameVersion)

/-- Built from `params`, within session `session`, flags as in `params`. -/
def Canon (params : RequestParams) (session : Nat) (b : Request.Builder) : Prop :=
  b.params = params ∧ b.sessionId = some (guidBytes session) ∧ ∀ e ∈ b.entries, GoodEntry params e

theorem insertAndModify_good (params : RequestParams) (entries : List Request.AppEntry) (app : App)
    (f : Request.AppEntry → Request.AppEntry) (he : ∀ e ∈ entries, GoodEntry params e)
    (hf : ∀ e, GoodEntry params e → GoodEntry params (f e)) :
    ∀ e ∈ Request.insertAndModify entries app f, GoodEntry params e := by
  induction entries with
  | nil =>
    intro e h
    simp only [Request.insertAndModify, List.mem_singleton] at h
    subst h
    exact hf _ (Or.inl rfl)
  | cons x xs ih =>
    intro e h
    unfold Request.insertAndModify at h
    split at h
    · simp only [List.mem_cons] at h
      rcases h with rfl | h
      · exact hf _ (he x (by simp))
      · exact he e (by simp [h])
    · simp only [List.mem_cons] at h
      rcases h with rfl | h
      · exact he e (by simp)
      · exact ih (fun e' h' => he e' (by simp [h'])) e h

theorem good_pushEvent (params : RequestParams) (ev : Omaha.Event) (e : Request.AppEntry) (h : GoodEntry params e) :
    GoodEntry params (Request.pushEvent ev e) := h

theorem good_setPing (params : RequestParams) (e : Request.AppEntry) (h : GoodEntry params e) :
    GoodEntry params (Request.setPing e) := h

theorem good_setUc (params : RequestParams) (e : Request.AppEntry) :
    GoodEntry params (Request.setUc (params.disableUpdates, params.offerUpdateIfSameVersion) e) := Or.inr rfl

/-- The entries-and-params part of `Canon` (the session id is set last). -/
def PreCanon (params : RequestParams) (b : Request.Builder) : Prop :=
  b.params = params ∧ ∀ e ∈ b.entries, GoodEntry params e

theorem preCanon_apply (params : RequestParams) (b : Request.Builder) (op : Request.Op) (h : PreCanon params b) :
    PreCanon params (b.apply op) := by
  obtain ⟨hp, he⟩ := h
  cases op with
  | updateCheck app =>
    refine ⟨hp, ?_⟩
    simp only [Request.Builder.apply]
    rw [hp]
    exact insertAndModify_good params _ _ _ he (fun e _ => good_setUc params e)
  | ping app => exact ⟨hp, insertAndModify_good params _ _ _ he (good_setPing params)⟩
  | event app ev => exact ⟨hp, insertAndModify_good params _ _ _ he (good_pushEvent params ev)⟩
  | requestId g => exact ⟨hp, he⟩
  | sessionId g => exact ⟨hp, he⟩

theorem preCanon_base (params : RequestParams) : PreCanon params { params := params } :=
  ⟨rfl, fun _ h => by simp at h⟩

theorem canon_of_pre (params : RequestParams) (session : Nat) (b : Request.Builder) (h : PreCanon params b) :
    Canon params session { b with sessionId := some (guidBytes session) } := ⟨h.1, rfl, h.2⟩

theorem canon_withRequestId (params : RequestParams) (session : Nat) (b : Request.Builder) (w : World)
    (h : Canon params session b) : Canon params session (withRequestId b w).1 := h

theorem preCanon_foldEvents (params : RequestParams) (ev : Omaha.Event) (nv : List (Bytes × Option Bytes))
    (ns : Option Nat) (apps : List App) (b : Request.Builder) (h : PreCanon params b) :
    PreCanon params (apps.foldl (fun b app =>
      match lookup app.id nv with
      | some next =>
        b.apply (.event app { ev with previousVersion := some (Version.print app.version), nextVersion := next,
                                      downloadTimeMs := ns.bind durationMs })
      | none => b) b) := by
  induction apps generalizing b with
  | nil => exact h
  | cons a rest ih =>
    simp only [List.foldl_cons]
    apply ih
    split
    · exact preCanon_apply _ _ _ h
    · exact h

theorem addsR_reportEvent (params : RequestParams) (ev : Omaha.Event) (apps : List App) (session : Nat)
    (nv : List (Bytes × Option Bytes)) (ns : Option Nat) (w : World) :
    Adds (HttpFrom (Canon params session)) w (reportEvent params ev apps session nv ns w) := by
  unfold reportEvent
  simp only
  have hc := canon_of_pre params session _ (preCanon_foldEvents params ev nv ns apps _ (preCanon_base params))
  generalize ({ (List.foldl _ _ apps : Request.Builder) with sessionId := some (guidBytes session) } : Request.Builder) = b1 at hc
  have h1 := addsR_omahaRequest (Canon params session) .eventReport (withRequestId b1 w).1 (withRequestId b1 w).2
    (canon_withRequestId params session b1 w hc)
  have h0 : Adds (HttpFrom (Canon params session)) w (withRequestId b1 w).2 := Adds.of_eq_trace _ _ _ rfl
  split
  · exact h0.trans h1
  · exact (h0.trans h1).trans (addsR_emit _ _ _ (fun _ _ h => by cases h))

theorem preCanon_foldResults (params : RequestParams) (evs : List (App × Omaha.Event)) (b : Request.Builder)
    (h : PreCanon params b) :
    PreCanon params (evs.foldl (fun b (x : App × Omaha.Event) => b.apply (.event x.1 x.2)) b) := by
  induction evs generalizing b with
  | nil => exact h
  | cons a rest ih =>
    simp only [List.foldl_cons]
    exact ih _ (preCanon_apply _ _ _ h)

theorem addsR_lostFold (B : Request.Builder → Prop) (evs : List (App × Omaha.Event)) (w : World) :
    Adds (HttpFrom B) w (evs.foldl (fun w (x : App × Omaha.Event) => metric (.eventLost x.2) w) w) :=
  adds_lift' (addsT_lostFold tNoHttp rfl evs w)

theorem addsR_reportResults (params : RequestParams) (evs : List (App × Omaha.Event)) (session : Nat) (w : World) :
    Adds (HttpFrom (Canon params session)) w (reportResults params evs session w) := by
  unfold reportResults
  simp only
  have hc := canon_of_pre params session _ (preCanon_foldResults params evs _ (preCanon_base params))
  generalize ({ (List.foldl _ _ evs : Request.Builder) with sessionId := some (guidBytes session) } : Request.Builder) = b1 at hc
  have h1 := addsR_omahaRequest (Canon params session) .eventReport (withRequestId b1 w).1 (withRequestId b1 w).2
    (canon_withRequestId params session b1 w hc)
  have h0 : Adds (HttpFrom (Canon params session)) w (withRequestId b1 w).2 := Adds.of_eq_trace _ _ _ rfl
  split
  · exact h0.trans h1
  · exact (h0.trans h1).trans (addsR_lostFold _ _ _)

theorem addsB_attemptLoop (B : Request.Builder → Prop) (hpres : ∀ b w, B b → B (withRequestId b w).1)
    (fuel attempt : Nat) (b : Request.Builder) (w : World) (hb : B b) :
    Adds (HttpFrom B) w (attemptLoop fuel attempt b w).2.2 := by
  induction fuel generalizing attempt b w with
  | zero => unfold attemptLoop; exact Adds.refl _ _
  | succ fuel ih =>
    unfold attemptLoop
    simp only
    have h0 : Adds (HttpFrom B) w (withRequestId b w).2 := Adds.of_eq_trace _ _ _ rfl
    have h1 := h0.trans (addsR_omahaRequest B .updateCheck (withRequestId b w).1 (withRequestId b w).2 (hpres b w hb))
    generalize omahaRequest .updateCheck (withRequestId b w).1 (withRequestId b w).2 = r at h1
    have h2 : Adds (HttpFrom B) w (if w.clock.mono ≤ r.2.clock.mono then metric (.responseTime (r.2.clock.mono - w.clock.mono).toNat (isOk r.1)) r.2 else r.2) := by
      split
      · exact h1.trans (addsR_metric _ _ _)
      · exact h1
    generalize (if w.clock.mono ≤ r.2.clock.mono then metric (.responseTime (r.2.clock.mono - w.clock.mono).toNat (isOk r.1)) r.2 else r.2) = wm at h2
    cases r.1 with
    | ok body => exact h2
    | error f =>
      simp only
      split
      · exact h2.trans (addsR_yield _ _ _)
      · exact (h2.trans (adds_lift' (addsT_backoff tNoHttp rfl attempt wm))).trans (ih _ _ _ (hpres b w hb))

theorem addsR_attemptLoop (params : RequestParams) (session : Nat) (fuel attempt : Nat) (b : Request.Builder) (w : World)
    (hb : Canon params session b) :
    Adds (HttpFrom (Canon params session)) w (attemptLoop fuel attempt b w).2.2 :=
  addsB_attemptLoop _ (fun b w h => canon_withRequestId params session b w h) fuel attempt b w hb

theorem preCanon_checkFold (params : RequestParams) (apps : List App) (b : Request.Builder) (h : PreCanon params b) :
    PreCanon params (apps.foldl (fun b app => (b.apply (.updateCheck app)).apply (.ping app)) b) := by
  induction apps generalizing b with
  | nil => exact h
  | cons a rest ih =>
    simp only [List.foldl_cons]
    exact ih _ (preCanon_apply _ _ _ (preCanon_apply _ _ _ h))

theorem canon_checkBuilder (params : RequestParams) (apps : List App) (session : Nat) :
    Canon params session (checkBuilder params apps session) := by
  unfold checkBuilder
  exact canon_of_pre params session _ (preCanon_checkFold params apps _ (preCanon_base params))

theorem addsR_reportInstall (params : RequestParams) (apps : List App) (session : Nat) (nv : List (Bytes × Option Bytes))
    (response : Resp.Response) (results : List AppResult) (ns : Option Nat) (w : World) :
    Adds (HttpFrom (Canon params session)) w (reportInstall params apps session nv response results ns w) := by
  unfold reportInstall
  simp only
  have h := addsR_reportResults params (resultEvents (knownResults apps response results) ns) session w
  split
  · exact h
  · exact h.trans (addsR_reportEvent _ _ _ _ _ _ _)

theorem addsR_installPhase (params : RequestParams) (apps : List App) (session : Nat)
    (nv : List (Bytes × Option Bytes)) (response : Resp.Response) (planId : Nat) (w : World) :
    Adds (HttpFrom (Canon params session)) w (installPhase params apps session nv response planId w).2 := by
  unfold installPhase
  simp only
  have h1 := (addsR_yield (Canon params session) (.state .installing) w).trans
    (addsR_reportEvent params (eventSuccess 13) apps session nv none _)
  generalize reportEvent params (eventSuccess 13) apps session nv none (yieldEv (.state .installing) w) = w1 at h1
  have h2 := h1.trans (adds_lift' (addsT_recordFirstSeen tNoHttp rfl (planIdText planId) w1.clock.wall w1))
  generalize recordFirstSeen (planIdText planId) w1.clock.wall w1 = r2 at h2
  have h3 := h2.trans (adds_lift' (addsG_runInstall tNoHttp rfl rfl planId r2.2))
  generalize runInstall planId r2.2 = w3 at h3
  have h4 := h3.trans (adds_lift' (addsG_durationMetric tNoHttp rfl w1.clock.wall r2.2.env.results w3))
  generalize durationMetric w1.clock.wall r2.2.env.results w3 = r4 at h4
  have h5 := h4.trans (addsR_reportInstall params apps session nv response r2.2.env.results r4.1 r4.2)
  refine h5.trans ?_
  unfold finishInstall
  split
  · exact (adds_lift' (addsG_insterrFold tNoHttp rfl _ _)).trans (addsR_emit _ _ _ (fun _ _ h => by cases h))
  · exact adds_lift' (addsG_recordFinish tNoHttp rfl rfl rfl _ _ _ _ _)

theorem addsR_updatePhase (params : RequestParams) (apps : List App) (session : Nat) (response : Resp.Response)
    (w : World) : Adds (HttpFrom (Canon params session)) w (updatePhase params apps session response w).2 := by
  unfold updatePhase
  simp only
  have h0 := addsR_emit (Canon params session) (.plan params.source w.cup.isSome w.env.plan) w (fun _ _ h => by cases h)
  split
  · unfold planFailedPhase
    exact ((h0.trans (addsR_emit _ _ _ (fun _ _ h => by cases h))).trans (addsR_emit _ _ _ (fun _ _ h => by cases h))).trans
      (addsR_reportEvent _ _ _ _ _ _ _)
  · rename_i planId _
    have h1 := h0.trans (addsR_emit (Canon params session)
      (.policyCanStart planId (emit (.plan params.source w.cup.isSome w.env.plan) w).env.canStart) _ (fun _ _ h => by cases h))
    split
    · unfold deferredPhase
      exact (h1.trans (addsR_reportEvent _ _ _ _ _ _ _)).trans (addsR_emit _ _ _ (fun _ _ h => by cases h))
    · unfold deniedPhase
      exact h1.trans (addsR_reportEvent _ _ _ _ _ _ _)
    · exact h1.trans (addsR_installPhase _ _ _ _ _ _ _)

theorem addsR_responsePhase (params : RequestParams) (apps : List App) (session : Nat) (body : Bytes) (w : World) :
    Adds (HttpFrom (Canon params session)) w (responsePhase params apps session body w).2 := by
  unfold responsePhase
  split
  · exact Adds.refl _ _
  · unfold parseFailedPhase
    exact (addsR_emit _ _ _ (fun _ _ h => by cases h)).trans (addsR_reportEvent _ _ _ _ _ _ _)
  · rename_i response _
    simp only
    have h0 := addsR_emit (Canon params session) (.event (.serverResponse response)) w (fun _ _ h => by cases h)
    split
    · unfold noUpdatePhase
      exact h0.trans (addsR_emit _ _ _ (fun _ _ h => by cases h))
    · exact h0.trans (addsR_updatePhase _ _ _ _ _)

/-- The session id the check draws. -/
def checkSession (params : RequestParams) (w : World) : Nat :=
  (nextGuid (reportCheckInterval params.source (yieldEv (.state (.checking params.source)) w))).1

/-- **Every request of a check** — each update-check attempt and each event report — is built
from the parameters the check was started with, within the check's one session, with update-check
flags equal to the parameters' flags wherever present. -/
theorem addsR_performUpdateCheck (params : RequestParams) (apps : List App) (w : World) :
    Adds (HttpFrom (Canon params (checkSession params w))) w (performUpdateCheck params apps w).2 := by
  unfold performUpdateCheck checkSession
  simp only
  have key : ∀ session, Adds (HttpFrom (Canon params session)) w
      (nextGuid (reportCheckInterval params.source (yieldEv (.state (.checking params.source)) w))).2 := by
    intro session
    exact ((addsR_yield _ _ w).trans (adds_lift' (addsT_reportCheckInterval tNoHttp rfl params.source _))).trans
      (Adds.of_eq_trace _ _ _ rfl)
  generalize nextGuid (reportCheckInterval params.source (yieldEv (.state (.checking params.source)) w)) = g at key
  have h3 := (key g.1).trans (addsR_attemptLoop params g.1 3 1 (checkBuilder params apps g.1) g.2
    (canon_checkBuilder params apps g.1))
  generalize attemptLoop 3 1 (checkBuilder params apps g.1) g.2 = r at h3
  obtain ⟨res, attempts, w2⟩ := r
  have h4 := h3.trans (addsR_metric (Canon params g.1) (.requestsPerCheck attempts (isOk res)) w2)
  cases res with
  | error f => exact h4
  | ok body => exact h4.trans (addsR_responsePhase _ _ _ _ _)

end Omaha.SM
