/-
The round trip seen from the reader's value type: a `Val` whose numbers are u64 and whose strings
are UTF-8 is written (`Mock.toJson`, `Json.render`) and read back as itself.
-/
import Omaha.Lemmas.JsonText
import Omaha.Mock

namespace Omaha.JsonP

open Omaha Omaha.Mock

mutual
  def GoodV : Val → Prop
    | .null => True
    | .bool _ => True
    | .num (.uint n) => n ≤ Dec.u64Max
    | .num (.other _) => False
    | .str s => validUtf8 s = true
    | .arr xs => GoodVL xs
    | .obj kvs => GoodVM kvs
  def GoodVL : List Val → Prop
    | [] => True
    | x :: xs => GoodV x ∧ GoodVL xs
  def GoodVM : List (Bytes × Val) → Prop
    | [] => True
    | (k, v) :: rest => validUtf8 k = true ∧ GoodV v ∧ GoodVM rest
end

mutual
  def depthV : Val → Nat
    | .arr xs => 1 + depthVL xs
    | .obj kvs => 1 + depthVM kvs
    | _ => 0
  def depthVL : List Val → Nat
    | [] => 0
    | x :: xs => max (depthV x) (depthVL xs)
  def depthVM : List (Bytes × Val) → Nat
    | [] => 0
    | (_, v) :: rest => max (depthV v) (depthVM rest)
end

mutual
  theorem toJson_spec : (v : Val) → GoodV v → Good (toJson v) ∧ toVal (toJson v) = v ∧ depthOf (toJson v) = depthV v
    | .null, _ => ⟨trivial, rfl, rfl⟩
    | .bool _, _ => ⟨trivial, rfl, rfl⟩
    | .num (.uint n), h => ⟨⟨Int.natCast_nonneg n, by simpa [GoodV] using h⟩, by simp [toJson, toVal], rfl⟩
    | .num (.other _), h => by simp [GoodV] at h
    | .str s, h => ⟨h, rfl, rfl⟩
    | .arr xs, h => by
      obtain ⟨h1, h2, h3⟩ := toJsons_spec xs h
      exact ⟨h1, by simp only [toJson, toVal, h2], by simp only [toJson, depthOf, depthV, h3]⟩
    | .obj kvs, h => by
      obtain ⟨h1, h2, h3⟩ := toJsonMembers_spec kvs h
      exact ⟨h1, by simp only [toJson, toVal, h2], by simp only [toJson, depthOf, depthV, h3]⟩
  theorem toJsons_spec : (xs : List Val) → GoodVL xs → GoodL (toJsons xs) ∧ toVals (toJsons xs) = xs ∧ depthL (toJsons xs) = depthVL xs
    | [], _ => ⟨trivial, rfl, rfl⟩
    | x :: xs, h => by
      obtain ⟨h1, h2, h3⟩ := toJson_spec x h.1
      obtain ⟨g1, g2, g3⟩ := toJsons_spec xs h.2
      exact ⟨⟨h1, g1⟩, by simp only [toJsons, toVals, h2, g2], by simp only [toJsons, depthL, depthVL, h3, g3]⟩
  theorem toJsonMembers_spec : (kvs : List (Bytes × Val)) → GoodVM kvs →
      GoodM (toJsonMembers kvs) ∧ toMembers (toJsonMembers kvs) = kvs ∧ depthM (toJsonMembers kvs) = depthVM kvs
    | [], _ => ⟨trivial, rfl, rfl⟩
    | (k, v) :: rest, h => by
      obtain ⟨h1, h2, h3⟩ := toJson_spec v h.2.1
      obtain ⟨g1, g2, g3⟩ := toJsonMembers_spec rest h.2.2
      exact ⟨⟨h.1, h1, g1⟩, by simp only [toJsonMembers, toMembers, h2, g2], by simp only [toJsonMembers, depthM, depthVM, h3, g3]⟩
end

/-- **parse_render for reader values.** -/
theorem parse_render_val (v : Val) (hg : GoodV v) (hd : depthV v < 100) : parse (Mock.render v) = .ok v := by
  obtain ⟨h1, h2, h3⟩ := toJson_spec v hg
  unfold Mock.render
  rw [parse_render (toJson v) h1 (by omega), h2]

theorem goodVM_append (a b : List (Bytes × Val)) : GoodVM (a ++ b) ↔ GoodVM a ∧ GoodVM b := by
  induction a with
  | nil => simp [GoodVM]
  | cons kv a ih =>
    obtain ⟨k, v⟩ := kv
    simp only [List.cons_append, GoodVM, ih]
    constructor
    · rintro ⟨h1, h2, h3, h4⟩; exact ⟨⟨h1, h2, h3⟩, h4⟩
    · rintro ⟨⟨h1, h2, h3⟩, h4⟩; exact ⟨h1, h2, h3, h4⟩

theorem depthVM_append (a b : List (Bytes × Val)) : depthVM (a ++ b) = max (depthVM a) (depthVM b) := by
  induction a with
  | nil => simp [depthVM]
  | cons kv a ih =>
    obtain ⟨k, v⟩ := kv
    simp only [List.cons_append, depthVM, ih]
    omega

theorem goodVL_iff (l : List Val) : GoodVL l ↔ ∀ x ∈ l, GoodV x := by
  induction l with
  | nil => simp [GoodVL]
  | cons x l ih => simp [GoodVL, ih]

theorem depthVL_le (l : List Val) (n : Nat) (h : ∀ x ∈ l, depthV x ≤ n) : depthVL l ≤ n := by
  induction l with
  | nil => simp [depthVL]
  | cons x l ih =>
    simp only [depthVL]
    have := h x (by simp)
    have := ih (fun y hy => h y (by simp [hy]))
    omega

end Omaha.JsonP
