/-
Tag-bounded trace extension: for every function of the state-machine model, the set of action
kinds ("tags") it can add to the trace.  Property theorems then read projections of the trace
through these bounds (`proj_of_addsT`) and through exact per-phase computations.
-/
import Omaha.Lemmas.SMTrace

namespace Omaha.SM

open Omaha

inductive Tag where
  | stateEv (s : State) | schedEv | protoEv | resultEv | progressEv | responseEv | insterrEv
  | pNext | pAllowed | pCanStart | pRebootAllowed | pRebootNeeded
  | http (k : ReqKind) | buildErr | timerArm | timerFire | plan | install | reboot | storage
  | metric | reply
  deriving DecidableEq, Repr

def Action.tag : Action → Tag
  | .event (.state s) => .stateEv s
  | .event (.schedule _) => .schedEv
  | .event (.protocol _) => .protoEv
  | .event (.result _) => .resultEv
  | .event (.progress _) => .progressEv
  | .event (.serverResponse _) => .responseEv
  | .event (.installerError _) => .insterrEv
  | .policyNext .. => .pNext
  | .policyAllowed .. => .pAllowed
  | .policyCanStart .. => .pCanStart
  | .policyRebootAllowed .. => .pRebootAllowed
  | .policyRebootNeeded .. => .pRebootNeeded
  | .http r _ => .http r.kind
  | .buildError .. => .buildErr
  | .timerArm _ => .timerArm
  | .timerFire _ => .timerFire
  | .plan .. => .plan
  | .install .. => .install
  | .reboot _ => .reboot
  | .storage .. => .storage
  | .metric _ => .metric
  | .reply .. => .reply

/-- `w'` extends `w`'s trace by actions whose tags all satisfy `ok`. -/
def AddsT (ok : Tag → Bool) (w w' : World) : Prop := Adds (fun a => ok a.tag = true) w w'

theorem AddsT.refl (ok) (w : World) : AddsT ok w w := Adds.refl _ _
theorem AddsT.of_eq (ok) (w w' : World) (h : w'.trace = w.trace) : AddsT ok w w' := Adds.of_eq_trace _ _ _ h
theorem AddsT.trans {ok} {w1 w2 w3 : World} (h1 : AddsT ok w1 w2) (h2 : AddsT ok w2 w3) : AddsT ok w1 w3 :=
  Adds.trans h1 h2
theorem AddsT.mono {ok ok' : Tag → Bool} {w w' : World} (h : AddsT ok w w') (hm : ∀ t, ok t = true → ok' t = true) :
    AddsT ok' w w' := Adds.mono h (fun a ha => hm _ ha)
theorem addsT_emit (ok : Tag → Bool) (a : Action) (w : World) (h : ok a.tag = true) : AddsT ok w (emit a w) :=
  adds_emit _ _ _ h
theorem addsT_yield (ok : Tag → Bool) (e : Event) (w : World) (h : ok (Action.event e).tag = true) :
    AddsT ok w (yieldEv e w) := addsT_emit ok _ _ h
theorem addsT_metric (ok : Tag → Bool) (m : Metric) (w : World) (h : ok .metric = true) : AddsT ok w (metric m w) :=
  addsT_emit ok _ _ h
theorem addsT_tick (ok) (dt : Clock) (w : World) : AddsT ok w (tick dt w) := AddsT.of_eq _ _ _ rfl

theorem addsT_of_storage {w w' : World} (ok : Tag → Bool) (h : Adds isStorage w w') (hs : ok .storage = true) :
    AddsT ok w w' :=
  Adds.mono h (fun a ha => by cases a <;> simp_all [isStorage, Action.tag])

/-! ### Tag sets -/

def tStorage : Tag → Bool
  | .storage => true
  | _ => false

/-- One request of kind `k`: the exchange, a poll-interval announcement, storage. -/
def tReq (k : ReqKind) : Tag → Bool
  | .http k' => k' == k
  | .protoEv | .storage | .buildErr => true
  | _ => false

/-- A report: a request of kind `eventReport` and lost-event metrics. -/
def tReport : Tag → Bool
  | .http k' => k' == .eventReport
  | .protoEv | .storage | .buildErr | .metric => true
  | _ => false

/-- The attempt loop: update-check requests, response-time metrics, back-off timers, the error
state. -/
def tLoop : Tag → Bool
  | .http k' => k' == .updateCheck
  | .protoEv | .storage | .buildErr | .metric | .timerArm => true
  | .stateEv s => s == .errorChecking
  | _ => false

theorem addsT_storeOp (ok : Tag → Bool) (hs : ok .storage = true) (op : StoreOp) (w : World) :
    AddsT ok w (storeOp op w).2 := addsT_of_storage ok (adds_storeOp op w) hs
theorem addsT_storeOp_ (ok : Tag → Bool) (hs : ok .storage = true) (op : StoreOp) (w : World) :
    AddsT ok w (storeOp_ op w) := addsT_storeOp ok hs op w
theorem addsT_setTime (ok : Tag → Bool) (hs : ok .storage = true) (k : Bytes) (t : Int) (w : World) :
    AddsT ok w (setTime k t w).2 := addsT_of_storage ok (adds_setTime k t w) hs
theorem addsT_persistCtx (ok : Tag → Bool) (hs : ok .storage = true) (w : World) : AddsT ok w (persistCtx w) :=
  addsT_of_storage ok (adds_persistCtx w) hs
theorem addsT_persistData (ok : Tag → Bool) (hs : ok .storage = true) (w : World) : AddsT ok w (persistData w) :=
  addsT_of_storage ok (adds_persistData w) hs

theorem addsT_applyPoll (ok : Tag → Bool) (hs : ok .storage = true) (hp : ok .protoEv = true)
    (poll : Option Nat) (w : World) : AddsT ok w (applyPoll poll w) := by
  unfold applyPoll
  split
  · let w1 : World := { w with ctx := { w.ctx with st := { w.ctx.st with poll := poll } } }
    let w2 : World := yieldEv (.protocol w1.ctx.st) w1
    have e0 : AddsT ok w w1 := AddsT.of_eq _ _ _ rfl
    have e1 : AddsT ok w1 w2 := addsT_emit ok _ _ (by simpa [Action.tag] using hp)
    have e2 : AddsT ok w2 (persistCtx w2) := addsT_persistCtx ok hs w2
    have e3 : AddsT ok (persistCtx w2) (storeOp_ .commit (persistCtx w2)) := addsT_storeOp_ ok hs _ _
    exact ((e0.trans e1).trans e2).trans e3
  · exact AddsT.refl _ _

theorem addsT_handleOutcome (ok : Tag → Bool) (hs : ok .storage = true) (hp : ok .protoEv = true)
    (o : HttpOutcome) (w : World) : AddsT ok w (handleOutcome o w).2 := by
  unfold handleOutcome
  cases o with
  | fail k dt => exact addsT_tick _ _ _
  | response status ra body auth dt =>
    simp only
    split
    · exact addsT_tick _ _ _
    · split
      · exact (addsT_tick ok dt w).trans (addsT_applyPoll ok hs hp _ _)
      · exact (addsT_tick ok dt w).trans (addsT_applyPoll ok hs hp _ _)

theorem addsT_sendRequest (ok : Tag → Bool) (k : ReqKind) (hk : ok (.http k) = true) (b : Request.Builder) (w : World) :
    AddsT ok w (sendRequest k b w).2 := by
  obtain ⟨req, hrk, ht⟩ := sendRequest_trace k b w
  exact ⟨[.http req (sendRequest k b w).1], by simp [ht], by simp [Action.tag, hrk, hk]⟩

theorem addsT_omahaRequest (ok : Tag → Bool) (k : ReqKind) (hk : ok (.http k) = true) (hs : ok .storage = true)
    (hp : ok .protoEv = true) (hb : ok .buildErr = true) (b : Request.Builder) (w : World) :
    AddsT ok w (omahaRequest k b w).2 := by
  unfold omahaRequest
  split
  · exact addsT_emit ok _ _ (by simpa [Action.tag] using hb)
  · exact (addsT_sendRequest ok k hk b w).trans (addsT_handleOutcome ok hs hp _ _)

theorem addsT_withRequestId (ok) (b : Request.Builder) (w : World) : AddsT ok w (withRequestId b w).2 :=
  AddsT.of_eq _ _ _ rfl

theorem addsT_reportEvent (ok : Tag → Bool) (hk : ok (.http .eventReport) = true) (hs : ok .storage = true)
    (hp : ok .protoEv = true) (hb : ok .buildErr = true) (hm : ok .metric = true)
    (params : RequestParams) (ev : Omaha.Event) (apps : List App) (session : Nat)
    (nv : List (Bytes × Option Bytes)) (ns : Option Nat) (w : World) :
    AddsT ok w (reportEvent params ev apps session nv ns w) := by
  unfold reportEvent
  simp only
  split
  · exact (addsT_withRequestId ok _ w).trans (addsT_omahaRequest ok _ hk hs hp hb _ _)
  · exact ((addsT_withRequestId ok _ w).trans (addsT_omahaRequest ok _ hk hs hp hb _ _)).trans (addsT_metric ok _ _ hm)

theorem addsT_lostFold (ok : Tag → Bool) (hm : ok .metric = true) (evs : List (App × Omaha.Event)) (w : World) :
    AddsT ok w (evs.foldl (fun w (x : App × Omaha.Event) => metric (.eventLost x.2) w) w) := by
  induction evs generalizing w with
  | nil => exact AddsT.refl _ _
  | cons e rest ih => exact (addsT_metric ok _ w hm).trans (ih _)

theorem addsT_reportResults (ok : Tag → Bool) (hk : ok (.http .eventReport) = true) (hs : ok .storage = true)
    (hp : ok .protoEv = true) (hb : ok .buildErr = true) (hm : ok .metric = true)
    (params : RequestParams) (evs : List (App × Omaha.Event)) (session : Nat) (w : World) :
    AddsT ok w (reportResults params evs session w) := by
  unfold reportResults
  simp only
  split
  · exact (addsT_withRequestId ok _ w).trans (addsT_omahaRequest ok _ hk hs hp hb _ _)
  · exact ((addsT_withRequestId ok _ w).trans (addsT_omahaRequest ok _ hk hs hp hb _ _)).trans (addsT_lostFold ok hm _ _)

theorem addsT_backoff (ok : Tag → Bool) (ht : ok .timerArm = true) (attempt : Nat) (w : World) :
    AddsT ok w (backoff attempt w) := by
  unfold backoff
  simp only
  have h1 : AddsT ok w (popJitter w).2.2 := AddsT.of_eq _ _ _ (by unfold popJitter; cases w.env.jitter <;> cases w.env.backoffDt <;> rfl)
  exact h1.trans ((addsT_emit ok _ _ (by simpa [Action.tag] using ht)).trans (AddsT.of_eq _ _ _ rfl))

theorem addsT_attemptLoop (ok : Tag → Bool) (hk : ok (.http .updateCheck) = true) (hs : ok .storage = true)
    (hp : ok .protoEv = true) (hb : ok .buildErr = true) (hm : ok .metric = true) (ht : ok .timerArm = true)
    (he : ok (.stateEv .errorChecking) = true) (fuel attempt : Nat) (b : Request.Builder) (w : World) :
    AddsT ok w (attemptLoop fuel attempt b w).2.2 := by
  induction fuel generalizing attempt b w with
  | zero => unfold attemptLoop; exact AddsT.refl _ _
  | succ fuel ih =>
    unfold attemptLoop
    simp only
    have h1 := (addsT_withRequestId ok b w).trans (addsT_omahaRequest ok .updateCheck hk hs hp hb (withRequestId b w).1 (withRequestId b w).2)
    generalize omahaRequest .updateCheck (withRequestId b w).1 (withRequestId b w).2 = r at h1
    have h2 : AddsT ok w (if w.clock.mono ≤ r.2.clock.mono then metric (.responseTime (r.2.clock.mono - w.clock.mono).toNat (isOk r.1)) r.2 else r.2) := by
      split
      · exact h1.trans (addsT_metric ok _ _ hm)
      · exact h1
    generalize (if w.clock.mono ≤ r.2.clock.mono then metric (.responseTime (r.2.clock.mono - w.clock.mono).toNat (isOk r.1)) r.2 else r.2) = wm at h2
    cases r.1 with
    | ok body => exact h2
    | error f =>
      simp only
      split
      · exact h2.trans (addsT_yield ok _ _ (by simpa [Action.tag] using he))
      · exact (h2.trans (addsT_backoff ok ht attempt wm)).trans (ih _ _ _)

end Omaha.SM
