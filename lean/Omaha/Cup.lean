/-
Model of omaha-client/src/cup_ecdsa.rs: `parse_etag`, `StandardCupv2Handler::{new,
verify_response, verify_response_with_signature}`, `make_transaction_hash`.

The hash function and the signature predicate are parameters (`Crypto`), so every theorem holds
for any instantiation; the driver instantiates them with `Sha256.hash` and `P256.verify`.
-/
import Omaha.Basic.Der
import Omaha.Basic.P256

namespace Omaha.Cup

/-- A P-256 public key: affine coordinates. -/
abbrev PubKey := Nat × Nat

structure Crypto where
  sha256 : Bytes → Bytes
  /-- ECDSA/SHA-256 verification of `(r, s)` over a message under a public key. -/
  ecdsaVerify : PubKey → Bytes → Nat → Nat → Bool

def Crypto.std : Crypto := ⟨Sha256.hash, fun pk msg r s => P256.verify pk.1 pk.2 msg r s⟩

/-- `CupVerificationError` kinds. -/
inductive CupErr where
  | etagHeaderMissing | etagNotString | etagMalformed | requestHashMalformed
  | requestHashMismatch | signatureMalformed | keyIdMissing | signatureError
  deriving DecidableEq, Repr

/-- `HeaderValue::to_str` succeeds iff every byte is a tab or visible ASCII. -/
def visible (b : UInt8) : Bool := b = 9 || (32 ≤ b.toNat && b.toNat ≤ 126)

/-- `[.., b'"']` : drop a final double quote, if there is one. -/
def dropEndQuote (s : Bytes) : Option Bytes :=
  if s.getLast? = some 34 then some s.dropLast else none

/-- `s = p ++ rest`: drop the prefix `p`. -/
def dropPrefix : Bytes → Bytes → Option Bytes
  | [], s => some s
  | _ :: _, [] => none
  | x :: p, y :: s => if x = y then dropPrefix p s else none

/-- `parse_etag`: the slice patterns `[b'W', b'/', b'"', inner @ .., b'"']`, then
`[b'"', inner @ .., b'"']`, otherwise the input unchanged. -/
def stripEtag (e : Bytes) : Bytes :=
  match (dropPrefix [87, 47, 34] e).bind dropEndQuote with
  | some inner => inner
  | none =>
    match (dropPrefix [34] e).bind dropEndQuote with
    | some inner => inner
    | none => e

/-- `str::split_once(d)`: split at the first occurrence of `d`. -/
def splitOnce (d : UInt8) : Bytes → Option (Bytes × Bytes)
  | [] => none
  | x :: xs =>
    if x = d then some ([], xs)
    else match splitOnce d xs with
      | some (a, b) => some (x :: a, b)
      | none => none

/-- The cup2key parameter value `"<key id>:<nonce hex>"`. -/
def cup2key (kid : Nat) (nonce : Bytes) : Bytes := Dec.render kid ++ 58 :: Hex.encode nonce

/-- The message whose SHA-256 is `make_transaction_hash`. -/
def txPreimage (C : Crypto) (req resp : Bytes) (kid : Nat) (nonce : Bytes) : Bytes :=
  C.sha256 req ++ (C.sha256 resp ++ cup2key kid nonce)

/-- `make_transaction_hash`. -/
def txHash (C : Crypto) (req resp : Bytes) (kid : Nat) (nonce : Bytes) : Bytes :=
  C.sha256 (txPreimage C req resp kid nonce)

/-- `StandardCupv2Handler::new` collects `latest :: historical` into a `HashMap`: a later entry
with the same id replaces an earlier one. -/
def lookupKey (keys : List (Nat × PubKey)) (kid : Nat) : Option PubKey :=
  match keys with
  | [] => none
  | (i, k) :: rest =>
    match lookupKey rest kid with
    | some k' => some k'
    | none => if i = kid then some k else none

/-- `verify_response_with_signature` on the DER bytes of an already parsed signature. -/
def verifyWithSignature (C : Crypto) (keys : List (Nat × PubKey)) (sig req resp : Bytes)
    (kid : Nat) (nonce : Bytes) : Except CupErr Unit :=
  match lookupKey keys kid with
  | none => .error .keyIdMissing
  | some pk =>
    match Der.decodeSig sig with
    | none => .error .signatureError
    | some (r, s) =>
      -- `VerifyingKey::verify(msg = transaction hash, sig)`: ECDSA/SHA-256 over the 32 bytes
      if C.ecdsaVerify pk (txHash C req resp kid nonce) r s then .ok () else .error .signatureError

/-- `verify_response`: `etag` is the first ETag header value of the response (raw bytes). -/
def verifyResponse (C : Crypto) (keys : List (Nat × PubKey)) (req nonce : Bytes)
    (etag : Option Bytes) (resp : Bytes) (kid : Nat) : Except CupErr Bytes :=
  match etag with
  | none => .error .etagHeaderMissing
  | some raw =>
    if raw.all visible = false then .error .etagNotString
    else
      match splitOnce 58 (stripEtag raw) with
      | none => .error .etagMalformed
      | some (sigHex, hashHex) =>
        match Hex.decode hashHex with
        | none => .error .requestHashMalformed
        | some h =>
          if h ≠ C.sha256 req then .error .requestHashMismatch
          else
            match Hex.decode sigHex with
            | none => .error .signatureMalformed
            | some sig =>
              match Der.decodeSig sig with
              | none => .error .signatureError
              | some _ =>
                match verifyWithSignature C keys sig req resp kid nonce with
                | .ok () => .ok sig
                | .error e => .error e

end Omaha.Cup
