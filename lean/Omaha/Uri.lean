/-
Model of `http::Uri` parsing / printing (http 0.2) as far as the library uses it, of
`HttpUriExt::append_query_parameter` (http_uri_ext.rs) and of
`StandardCupv2Handler::decorate_request`'s URL handling (cup_ecdsa.rs).

The loops of `Authority::parse` and `PathAndQuery::from_shared` only ever look at the bytes before
the first delimiter of their component, so they are written here as "take the component, then
validate it".
-/
import Omaha.Cup

namespace Omaha.Uri

inductive Scheme where
  | http | https | other (s : Bytes)
  deriving DecidableEq, Repr, Inhabited

/-- A parsed URI with a path-and-query: absolute form (scheme and authority) or origin form. -/
structure Parts where
  scheme : Option Scheme
  authority : Bytes            -- empty in origin form
  path : Bytes                 -- may be empty ("http://host", "http://host?q")
  query : Option Bytes
  deriving DecidableEq, Repr, Inhabited

inductive R (α : Type) where
  | ok (a : α) | err | outside
  deriving Repr

def lower (b : UInt8) : UInt8 := if 65 ≤ b.toNat ∧ b.toNat ≤ 90 then b + 32 else b

/-- `URI_CHARS`: bytes allowed in the authority scan (besides `%`, handled separately). -/
def uriChar (b : UInt8) : Bool :=
  let n := b.toNat
  n = 33 || n = 35 || n = 36 || (38 ≤ n && n ≤ 59) || n = 61 || (63 ≤ n && n ≤ 91) || n = 93 || n = 95
    || (97 ≤ n && n ≤ 122) || n = 126

/-- `SCHEME_CHARS` other than ':'. -/
def schemeChar (b : UInt8) : Bool :=
  let n := b.toNat
  n = 43 || n = 45 || n = 46 || (48 ≤ n && n ≤ 57) || (65 ≤ n && n ≤ 90) || (97 ≤ n && n ≤ 122) || n = 126

def pathChar (b : UInt8) : Bool :=
  let n := b.toNat
  n = 33 || (36 ≤ n && n ≤ 59) || n = 61 || (64 ≤ n && n ≤ 95) || (97 ≤ n && n ≤ 122) || n = 124 || n = 126
    || n = 34 || n = 123 || n = 125

def queryChar (b : UInt8) : Bool :=
  let n := b.toNat
  n = 33 || (36 ≤ n && n ≤ 59) || n = 61 || (63 ≤ n && n ≤ 126)

def isDelim (b : UInt8) : Bool := b = 47 || b = 63 || b = 35        -- '/', '?', '#'

/-! ### Scheme -/

inductive SchemeScan where
  | none | tooLong | other (n : Nat)

/-- The generic scheme scan of `Scheme2::parse` over `s` from position `i`. -/
def scanScheme (full : Bytes) : Nat → Bytes → SchemeScan
  | _, [] => .none
  | i, b :: rest =>
    if b = 58 then
      if full.length < i + 3 then .none
      else if (full.drop (i + 1)).take 2 ≠ [47, 47] then .none
      else if i > 64 then .tooLong
      else .other i
    else if schemeChar b then scanScheme full (i + 1) rest
    else .none

/-- `Scheme2::parse` followed by stripping `scheme://`: the scheme and the rest. -/
def splitScheme (s : Bytes) : R (Option Scheme × Bytes) :=
  if s.length ≥ 7 ∧ (s.take 7).map lower = [104, 116, 116, 112, 58, 47, 47] then .ok (some .http, s.drop 7)
  else if s.length ≥ 8 ∧ (s.take 8).map lower = [104, 116, 116, 112, 115, 58, 47, 47] then .ok (some .https, s.drop 8)
  else if s.length > 3 then
    match scanScheme s 0 s with
    | .none => .ok (none, s)
    | .tooLong => .err
    | .other n => .ok (some (.other (s.take n)), s.drop (n + 3))
  else .ok (none, s)

/-! ### Authority -/

structure AuthState where
  colons : Nat := 0
  startBracket : Bool := false
  endBracket : Bool := false
  hasPercent : Bool := false
  atLast : Bool := false              -- the most recent '@' is the last byte seen
  deriving Repr

/-- One step of the scan in `Authority::parse`; `none` is an error return. -/
def authStep (st : AuthState) (b : UInt8) : Option AuthState :=
  if b = 58 then
    if st.colons ≥ 8 then none else some { st with colons := st.colons + 1, atLast := false }
  else if b = 91 then
    if st.hasPercent || st.startBracket then none else some { st with startBracket := true, atLast := false }
  else if b = 93 then
    if !st.startBracket || st.endBracket then none
    else some { st with endBracket := true, colons := 0, hasPercent := false, atLast := false }
  else if b = 64 then some { st with colons := 0, hasPercent := false, atLast := true }
  else if b = 37 then some { st with hasPercent := true, atLast := false }
  else if uriChar b then some { st with atLast := false }
  else none

def authScan : AuthState → Bytes → Option AuthState
  | st, [] => some st
  | st, b :: rest =>
    match authStep st b with
    | some st' => authScan st' rest
    | none => none

/-- The authority component (bytes before the first '/', '?' or '#') is acceptable. -/
def authorityOk (a : Bytes) : Bool :=
  match authScan {} a with
  | none => false
  | some st =>
    !(st.startBracket ^^ st.endBracket) && st.colons ≤ 1 && !st.atLast && !st.hasPercent

/-! ### Path and query -/

structure PQ where
  path : Bytes
  query : Option Bytes
  deriving DecidableEq, Repr

/-- The part after the path: a query introduced by '?' and ended by '#', or nothing (a fragment
or the end of input). -/
def parseQueryPart : Bytes → Option (Option Bytes)
  | 63 :: q =>
    if (q.takeWhile fun b => b ≠ 35).all queryChar then some (some (q.takeWhile fun b => b ≠ 35)) else none
  | _ => some none

/-- `PathAndQuery::from_shared`: path up to '?' or '#', optional query up to '#', fragment
dropped; `none` on a byte outside the allowed sets. -/
def parsePQ (src : Bytes) : Option PQ :=
  if (src.takeWhile fun b => b ≠ 63 && b ≠ 35).all pathChar then
    match parseQueryPart (src.drop (src.takeWhile fun b => b ≠ 63 && b ≠ 35).length) with
    | some q => some ⟨src.takeWhile fun b => b ≠ 63 && b ≠ 35, q⟩
    | none => none
  else none

/-! ### Whole URI -/

def parseOrigin (s : Bytes) : R Parts :=
  match parsePQ s with
  | some pq => .ok ⟨none, [], pq.path, pq.query⟩
  | none => .err

/-- After the scheme: authority (bytes before the first '/', '?' or '#'), then path and query. -/
def parseAfterScheme (sch : Scheme) (rest : Bytes) : R Parts :=
  if authorityOk (rest.takeWhile fun b => !isDelim b) = false then .err
  else if rest.takeWhile (fun b => !isDelim b) = [] then .err
  else match parsePQ (rest.drop (rest.takeWhile fun b => !isDelim b).length) with
    | some pq => .ok ⟨some sch, rest.takeWhile fun b => !isDelim b, pq.path, pq.query⟩
    | none => .err

def parseAbs (s : Bytes) : R Parts :=
  match splitScheme s with
  | .err => .err
  | .outside => .outside
  | .ok (none, _) => .err
  | .ok (some sch, rest) => parseAfterScheme sch rest

/-- `Uri::from_str`, for the forms that carry a path-and-query.  Authority-only forms are errors
for every use the library makes of the result (appending a query to them fails with
`SchemeMissing`); the asterisk form and over-long inputs are outside the model. -/
def parse (s : Bytes) : R Parts :=
  if s = [] then .err
  else if s.length > 65534 then .outside
  else if s = [42] then .outside
  else if s.head? = some 47 then parseOrigin s
  else parseAbs s

def schemeText : Scheme → Bytes
  | .http => [104, 116, 116, 112]
  | .https => [104, 116, 116, 112, 115]
  | .other s => s

/-- `PathAndQuery::path`: an empty path reads as "/". -/
def pathOrSlash (p : Bytes) : Bytes := if p = [] then [47] else p

def schemePrefix : Option Scheme → Bytes
  | some sch => schemeText sch ++ [58, 47, 47]
  | none => []

def querySuffix : Option Bytes → Bytes
  | some q => 63 :: q
  | none => []

/-- `Display for Uri`. -/
def print (u : Parts) : Bytes :=
  schemePrefix u.scheme ++ u.authority ++ pathOrSlash u.path ++ querySuffix u.query

/-- The query after appending `kv`: `q&kv`, or `kv` alone when there was none. -/
def queryWith : Option Bytes → Bytes → Bytes
  | some q, kv => q ++ 38 :: kv
  | none, kv => kv

/-- `append_query_parameter(key, value)` on parts. -/
def appendQuery (u : Parts) (key value : Bytes) : Parts :=
  { u with
    path := pathOrSlash u.path
    query := some (queryWith u.query (key ++ 61 :: value)) }

def cup2keyName : Bytes := [99, 117, 112, 50, 107, 101, 121]

/-- The URL part of `decorate_request`: parse, append `cup2key=<id>:<nonce hex>`, print. -/
def decorate (url : Bytes) (kid : Nat) (nonce : Bytes) : R Bytes :=
  match parse url with
  | .ok u => .ok (print (appendQuery u cup2keyName (Cup.cup2key kid nonce)))
  | .err => .err
  | .outside => .outside

end Omaha.Uri
