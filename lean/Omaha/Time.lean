/-
Model of omaha-client/src/time.rs, time/complex.rs (conversions and arithmetic) and the time
helpers of storage.rs.

`SystemTime` is an `Int` count of nanoseconds relative to the UNIX epoch, restricted to the
platform range of `std::time::SystemTime` on Linux (`i64` seconds + nanoseconds).  `Instant` is an
`Int` count of nanoseconds relative to an arbitrary origin (the type is opaque in Rust); its range
is not modelled.  `Duration` is a `Nat` count of nanoseconds (`u64` seconds + nanoseconds).
Operations that panic in Rust on overflow return `none`.
-/

namespace Omaha.Time

def i64Min : Int := -9223372036854775808
def i64Max : Int := 9223372036854775807

def InI64 (x : Int) : Prop := i64Min ≤ x ∧ x ≤ i64Max
instance (x : Int) : Decidable (InI64 x) := by unfold InI64; infer_instance

/-- Range of `SystemTime` (Linux `Timespec`): seconds in `i64`, nanoseconds in `[0, 10^9)`. -/
def wallMin : Int := i64Min * 1000000000
def wallMax : Int := i64Max * 1000000000 + 999999999

def InWall (t : Int) : Prop := wallMin ≤ t ∧ t ≤ wallMax
instance (t : Int) : Decidable (InWall t) := by unfold InWall; infer_instance

/-- `Duration` range: `u64` seconds and sub-second nanoseconds. -/
def durMax : Nat := 18446744073709551615 * 1000000000 + 999999999

/-- `system_time_conversion::micros_from_epoch_to_system_time`. -/
def fromMicros (m : Int) : Int :=
  if m > 0 then
    -- UNIX_EPOCH + Duration::from_micros(m as u64)
    (m.toNat * 1000 : Nat)
  else
    -- UNIX_EPOCH - Duration::from_micros((m as u64).wrapping_neg())
    -((-m).toNat * 1000 : Nat)

/-- `system_time_conversion::checked_system_time_to_micros_from_epoch` (after the F1 fix: the
negative branch negates in i128). -/
def toMicros (t : Int) : Option Int :=
  if 0 ≤ t then
    -- Ok(duration_since_epoch): as_micros() truncates; i64::try_from
    let micros : Nat := t.toNat / 1000
    if (micros : Int) ≤ i64Max then some micros else none
  else
    -- Err(e): e.duration().as_micros() truncates the magnitude; negate; i64::try_from
    let micros : Nat := (-t).toNat / 1000
    if i64Min ≤ -(micros : Int) then some (-(micros : Int)) else none

/-- `ComplexTime::truncate_submicrosecond_walltime`, wall component (after the F2 fix). -/
def truncateSubMicro (t : Int) : Int :=
  if 0 ≤ t then t - ((t.toNat % 1000 : Nat) : Int)
  else t + (((-t).toNat % 1000 : Nat) : Int)

/-- `StorageExt::set_time` followed by `get_time` on the same key of a storage that keeps what it
is given: `set_time` stores the microsecond count, or removes the key when it does not fit. -/
def storeReload (t : Int) : Option Int := (toMicros t).map fromMicros

/-! ### Two-clock times -/

structure CT where
  wall : Int
  mono : Int
  deriving DecidableEq, Repr

inductive PCT where
  | wall (w : Int)
  | mono (m : Int)
  | complex (c : CT)
  deriving DecidableEq, Repr

/-- `SystemTime + Duration` / `checked_add`: `none` is the panic / `None` case. -/
def wallAdd (w : Int) (d : Nat) : Option Int :=
  if w + d ≤ wallMax then some (w + d) else none

def wallSub (w : Int) (d : Nat) : Option Int :=
  if wallMin ≤ w - d then some (w - d) else none

def CT.add (c : CT) (d : Nat) : Option CT :=
  match wallAdd c.wall d with
  | some w => some ⟨w, c.mono + d⟩
  | none => none

def CT.sub (c : CT) (d : Nat) : Option CT :=
  match wallSub c.wall d with
  | some w => some ⟨w, c.mono - d⟩
  | none => none

def PCT.add : PCT → Nat → Option PCT
  | .wall w, d => (wallAdd w d).map .wall
  | .mono m, d => some (.mono (m + d))
  | .complex c, d => (c.add d).map .complex

def PCT.sub : PCT → Nat → Option PCT
  | .wall w, d => (wallSub w d).map .wall
  | .mono m, d => some (.mono (m - d))
  | .complex c, d => (c.sub d).map .complex

def PCT.destructure : PCT → Option Int × Option Int
  | .wall w => (some w, none)
  | .mono m => (none, some m)
  | .complex c => (some c.wall, some c.mono)

def PCT.completeWith (p : PCT) (c : CT) : CT :=
  let (w, m) := p.destructure
  ⟨w.getD c.wall, m.getD c.mono⟩

def PCT.toMicros (p : PCT) : Option Int :=
  match p.destructure.1 with
  | some w => Time.toMicros w
  | none => none

def CT.isAfterOrEqAny (c : CT) : PCT → Bool
  | .wall w => decide (c.wall ≥ w)
  | .mono m => decide (c.mono ≥ m)
  | .complex o => decide (c.wall ≥ o.wall) || decide (c.mono ≥ o.mono)

end Omaha.Time
