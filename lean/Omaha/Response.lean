/-
Model of omaha-client/src/protocol/response.rs: the typed decoding of a parsed JSON document
into `Response` (serde derive semantics written out: required vs optional fields, `flatten`ed
cohort and extension attributes, `OmahaStatus` as a field identifier with a catch-all, integer
ranges, duplicate-field rules), `parse_json_response` with its anti-XSSI prefix, and the URL
helpers.

Three outcomes: a value, an error, or `outside` — the document uses a serde corner this model
does not pin down (a JSON array where a derived struct is expected, which serde reads
positionally).
-/
import Omaha.Basic.JsonParse
import Omaha.Request

namespace Omaha.Resp

open Omaha.JsonP

inductive Status where
  | ok | restricted | noUpdate | error (s : Bytes)
  deriving DecidableEq, Repr, Inhabited

/-- Extension attributes: a map sorted by key (serde_json `Map` without `preserve_order`). -/
abbrev Extras := List (Bytes × Val)

structure DayStart where
  elapsedDays : Option Nat
  elapsedSeconds : Option Nat
  deriving Repr, Inhabited

structure Package where
  name : Bytes
  required : Bool
  size : Option Nat
  hash : Option Bytes
  hashSha256 : Option Bytes
  fp : Bytes
  extras : Extras
  deriving Repr, Inhabited

structure Action where
  event : Option Bytes
  run : Option Bytes
  extras : Extras
  deriving Repr, Inhabited

structure Manifest where
  version : Bytes
  actions : List Action
  packages : List Package
  deriving Repr, Inhabited

structure UpdateCheck where
  status : Status
  info : Option Bytes
  urls : Option (List Bytes)            -- codebases
  manifest : Option Manifest
  extras : Extras
  deriving Repr, Inhabited

structure App where
  id : Bytes
  status : Status
  cohort : Cohort
  ping : Option Status
  updateCheck : Option UpdateCheck
  events : Option (List Status)
  extras : Extras
  deriving Repr, Inhabited

structure Response where
  protocol : Bytes
  server : Option Bytes
  daystart : Option DayStart
  apps : List App
  deriving Repr, Inhabited

/-- Decoding outcome. -/
inductive R (α : Type) where
  | ok (a : α)
  | err
  | outside
  deriving Repr

def R.bind {α β} (x : R α) (f : α → R β) : R β :=
  match x with
  | .ok a => f a
  | .err => .err
  | .outside => .outside

/-! ### Field access on an object in document order -/

def s (x : String) : Bytes := Bytes.ofString x

/-- All values of members named `k`, in order. -/
def lookupAll (kvs : List (Bytes × Val)) (k : Bytes) : List Val :=
  (kvs.filter fun kv => kv.1 = k).map (·.2)

/-- A declared field: absent, present once, or duplicated (an error in serde derive). -/
inductive Field where
  | absent | one (v : Val) | dup

def field (kvs : List (Bytes × Val)) (k : String) : Field :=
  match lookupAll kvs (s k) with
  | [] => .absent
  | [v] => .one v
  | _ => .dup

/-- A required field decoded by `f`. -/
def req {α} (kvs : List (Bytes × Val)) (k : String) (f : Val → R α) : R α :=
  match field kvs k with
  | .one v => f v
  | .absent => .err
  | .dup => .err

/-- An optional field: absent or `null` is `none`. -/
def opt {α} (kvs : List (Bytes × Val)) (k : String) (f : Val → R α) : R (Option α) :=
  match field kvs k with
  | .absent => .ok none
  | .one .null => .ok none
  | .one v => (f v).bind fun a => .ok (some a)
  | .dup => .err

def asStr : Val → R Bytes
  | .str b => .ok b
  | _ => .err

def asBool : Val → R Bool
  | .bool b => .ok b
  | _ => .err

def asUint (max : Nat) : Val → R Nat
  | .num (.uint n) => if n ≤ max then .ok n else .err
  | _ => .err

/-- `OmahaStatus`: a string; the three known names, anything else is kept as `Error(text)`;
matching is case-sensitive. -/
def asStatus : Val → R Status
  | .str b =>
    if b = s "ok" then .ok .ok
    else if b = s "restricted" then .ok .restricted
    else if b = s "noupdate" then .ok .noUpdate
    else .ok (.error b)
  | _ => .err

def mapR {α β} (f : α → R β) : List α → R (List β)
  | [] => .ok []
  | x :: xs => (f x).bind fun y => (mapR f xs).bind fun ys => .ok (y :: ys)

def asList {α} (f : Val → R α) : Val → R (List α)
  | .arr xs => mapR f xs
  | _ => .err

/-- A derived struct *without* flattened fields: an object; a JSON array would be read
positionally by serde — outside the model. -/
def asStruct {α} (nfields : Nat) (f : List (Bytes × Val) → R α) : Val → R α
  | .obj kvs => f kvs
  | .arr xs => if xs.length < nfields then .err else .outside   -- too short: serde's invalid_length
  | _ => .err

/-- A derived struct *with* flattened fields is read through `deserialize_map`: objects only. -/
def asMapStruct {α} (f : List (Bytes × Val) → R α) : Val → R α
  | .obj kvs => f kvs
  | _ => .err

/-! ### Extension attributes: members not declared, sorted by key, last duplicate wins -/

def insertSorted (k : Bytes) (v : Val) : Extras → Extras
  | [] => [(k, v)]
  | (k', v') :: rest =>
    if k = k' then (k, v) :: rest
    else if compare k k' = .lt then (k, v) :: (k', v') :: rest
    else (k', v') :: insertSorted k v rest

def extrasOf (declared : List String) (kvs : List (Bytes × Val)) : Extras :=
  (kvs.filter fun kv => !(declared.map s).contains kv.1).foldl (fun acc kv => insertSorted kv.1 kv.2 acc) []

/-! ### The protocol structures -/

def decodePackage : Val → R Package := asMapStruct fun kvs =>
  (req kvs "name" asStr).bind fun name =>
  (req kvs "required" asBool).bind fun required =>
  (opt kvs "size" (asUint Dec.u64Max)).bind fun size =>
  (opt kvs "hash" asStr).bind fun hash =>
  (opt kvs "hash_sha256" asStr).bind fun h2 =>
  (req kvs "fp" asStr).bind fun fp =>
  .ok ⟨name, required, size, hash, h2, fp,
       extrasOf ["name", "required", "size", "hash", "hash_sha256", "fp"] kvs⟩

def decodeAction : Val → R Action := asMapStruct fun kvs =>
  (opt kvs "event" asStr).bind fun event =>
  (opt kvs "run" asStr).bind fun run =>
  .ok ⟨event, run, extrasOf ["event", "run"] kvs⟩

def decodeManifest : Val → R Manifest := asStruct 3 fun kvs =>
  (req kvs "version" asStr).bind fun version =>
  (req kvs "actions" (asStruct 1 fun a => req a "action" (asList decodeAction))).bind fun actions =>
  (req kvs "packages" (asStruct 1 fun p => req p "package" (asList decodePackage))).bind fun packages =>
  .ok ⟨version, actions, packages⟩

def decodeUrls : Val → R (List Bytes) := asStruct 1 fun kvs =>
  req kvs "url" (asList (asStruct 1 fun u => req u "codebase" asStr))

def decodeUpdateCheck : Val → R UpdateCheck := asMapStruct fun kvs =>
  (req kvs "status" asStatus).bind fun status =>
  (opt kvs "info" asStr).bind fun info =>
  (opt kvs "urls" decodeUrls).bind fun urls =>
  (opt kvs "manifest" decodeManifest).bind fun manifest =>
  .ok ⟨status, info, urls, manifest, extrasOf ["status", "info", "urls", "manifest"] kvs⟩

def decodeStatusStruct : Val → R Status := asStruct 1 fun kvs => req kvs "status" asStatus

def decodeApp : Val → R App := asMapStruct fun kvs =>
  (req kvs "appid" asStr).bind fun id =>
  (req kvs "status" asStatus).bind fun status =>
  (opt kvs "cohort" asStr).bind fun c =>
  (opt kvs "cohorthint" asStr).bind fun h =>
  (opt kvs "cohortname" asStr).bind fun n =>
  (opt kvs "ping" decodeStatusStruct).bind fun ping =>
  (opt kvs "updatecheck" decodeUpdateCheck).bind fun uc =>
  (opt kvs "event" (asList decodeStatusStruct)).bind fun events =>
  .ok ⟨id, status, ⟨c, h, n⟩, ping, uc, events,
       extrasOf ["appid", "status", "cohort", "cohorthint", "cohortname", "ping", "updatecheck", "event"] kvs⟩

def decodeDayStart : Val → R DayStart := asStruct 2 fun kvs =>
  (opt kvs "elapsed_days" (asUint Dec.u32Max)).bind fun d =>
  (opt kvs "elapsed_seconds" (asUint Dec.u32Max)).bind fun sec =>
  .ok ⟨d, sec⟩

def decodeResponse : Val → R Response := asStruct 4 fun kvs =>
  (req kvs "protocol" asStr).bind fun protocol =>
  (opt kvs "server" asStr).bind fun server =>
  (opt kvs "daystart" decodeDayStart).bind fun daystart =>
  (req kvs "app" (asList decodeApp)).bind fun apps =>
  .ok ⟨protocol, server, daystart, apps⟩

/-- The `ResponseWrapper { response }`. -/
def decodeWrapper : Val → R Response := asStruct 1 fun kvs => req kvs "response" decodeResponse

/-! ### `parse_json_response` -/

def xssiPrefix : Bytes := [41, 93, 125, 39, 10]      -- )]}'\n

/-- `parse_safe_json`: strip the prefix once if present. -/
def stripXssi (raw : Bytes) : Bytes :=
  if xssiPrefix.isPrefixOf raw then raw.drop xssiPrefix.length else raw

def decodeParsed : Parsed → R Response
  | .ok v => decodeWrapper v
  | .outside => .outside
  | .err => .err

def parseJsonResponse (raw : Bytes) : R Response := decodeParsed (JsonP.parse (stripXssi raw))

/-! ### URL helpers -/

def UpdateCheck.codebases (u : UpdateCheck) : List Bytes := u.urls.getD []

def UpdateCheck.packages (u : UpdateCheck) : List Package :=
  match u.manifest with
  | some m => m.packages
  | none => []

/-- `get_all_full_urls`: every codebase joined with every package name, codebase-major. -/
def UpdateCheck.fullUrls (u : UpdateCheck) : List Bytes :=
  u.codebases.flatMap fun c => u.packages.map fun p => c ++ p.name

def App.manifestVersion (a : App) : Option Bytes :=
  match a.updateCheck with
  | some u => u.manifest.map (·.version)
  | none => none

end Omaha.Resp
