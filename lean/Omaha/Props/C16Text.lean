/-
C16, text level, with the hypotheses stated on the response itself: every `Response` whose strings are
UTF-8 (what Rust's `String` guarantees), whose numbers fit their Rust types and whose extension
attributes are JSON values of u64 numbers and UTF-8 strings nested at most 90 deep, written as JSON text
and read by the client's parser, comes back as itself.  (`decode_text_encode` in Props/JsonText asks for
`GoodV (encWrapper r)` and a depth bound of the encoding; here both are derived.)
-/
import Omaha.Props.JsonText

namespace Omaha.Resp

open Omaha Omaha.JsonP
open Omaha.Request (Utf8 OptUtf8)

/-- Extension attributes: JSON values the writer can write, nested at most `d` deep. -/
def GoodX (x : Extras) (d : Nat) : Prop := GoodVM x ∧ depthVM x ≤ d

def Status.U : Status → Prop
  | .error b => Utf8 b
  | _ => True

def Package.U (p : Package) (d : Nat) : Prop :=
  Utf8 p.name ∧ OptUtf8 p.hash ∧ OptUtf8 p.hashSha256 ∧ Utf8 p.fp ∧ GoodX p.extras d

def Action.U (a : Action) (d : Nat) : Prop := OptUtf8 a.event ∧ OptUtf8 a.run ∧ GoodX a.extras d

def Manifest.U (m : Manifest) (d : Nat) : Prop :=
  Utf8 m.version ∧ (∀ a ∈ m.actions, a.U d) ∧ (∀ p ∈ m.packages, p.U d)

def UpdateCheck.U (u : UpdateCheck) (d : Nat) : Prop :=
  u.status.U ∧ OptUtf8 u.info ∧ (∀ us, u.urls = some us → ∀ c ∈ us, Utf8 c) ∧
  (∀ m, u.manifest = some m → m.U d) ∧ GoodX u.extras d

def App.U (a : App) (d : Nat) : Prop :=
  Utf8 a.id ∧ a.status.U ∧ OptUtf8 a.cohort.id ∧ OptUtf8 a.cohort.hint ∧ OptUtf8 a.cohort.name ∧
  (∀ st, a.ping = some st → st.U) ∧ (∀ u, a.updateCheck = some u → u.U d) ∧
  (∀ es, a.events = some es → ∀ e ∈ es, e.U) ∧ GoodX a.extras d

def Response.U (r : Response) (d : Nat) : Prop :=
  Utf8 r.protocol ∧ OptUtf8 r.server ∧ ∀ a ∈ r.apps, a.U d

/-! ### Leaves -/

theorem good_encStatus (st : Status) (h : st.U) : GoodV (encStatus st) ∧ depthV (encStatus st) = 0 := by
  cases st <;> simp only [encStatus, GoodV, depthV, and_true]
  · exact lit_ascii _ (by decide)
  · exact lit_ascii _ (by decide)
  · exact lit_ascii _ (by decide)
  · exact h

theorem good_encOptStr (o : Option Bytes) (h : OptUtf8 o) : GoodV (encOpt .str o) ∧ depthV (encOpt .str o) = 0 := by
  cases o with
  | none => exact ⟨trivial, rfl⟩
  | some b => exact ⟨h, rfl⟩

theorem good_encOptNat (o : Option Nat) (h : ∀ n, o = some n → n ≤ Dec.u64Max) :
    GoodV (encOpt encNat o) ∧ depthV (encOpt encNat o) = 0 := by
  cases o with
  | none => exact ⟨trivial, rfl⟩
  | some n => exact ⟨h n rfl, rfl⟩

theorem good_encOpt {α} (f : α → Val) (o : Option α) (k : Nat) (h : ∀ a, o = some a → GoodV (f a) ∧ depthV (f a) ≤ k) :
    GoodV (encOpt f o) ∧ depthV (encOpt f o) ≤ k := by
  cases o with
  | none => exact ⟨trivial, Nat.zero_le _⟩
  | some a => exact h a rfl

theorem good_arr_map {α} (f : α → Val) (l : List α) (k : Nat) (h : ∀ a ∈ l, GoodV (f a) ∧ depthV (f a) ≤ k) :
    GoodV (.arr (l.map f)) ∧ depthV (.arr (l.map f)) ≤ 1 + k := by
  constructor
  · simp only [GoodV]
    rw [goodVL_iff]
    intro x hx
    obtain ⟨a, ha, rfl⟩ := List.mem_map.1 hx
    exact (h a ha).1
  · simp only [depthV]
    have := depthVL_le (l.map f) k (by
      intro x hx
      obtain ⟨a, ha, rfl⟩ := List.mem_map.1 hx
      exact (h a ha).2)
    omega

/-! ### The structures -/

theorem good_encStatusStruct (st : Status) (h : st.U) : GoodV (encStatusStruct st) ∧ depthV (encStatusStruct st) ≤ 1 := by
  obtain ⟨g, d⟩ := good_encStatus st h
  unfold encStatusStruct
  exact ⟨by simp only [GoodV, GoodVM]; exact ⟨lit_ascii _ (by decide), g, trivial⟩, by simp only [depthV, depthVM, d]; omega⟩

theorem good_encPackage (p : Package) (d : Nat) (hw : p.WF) (hu : p.U d) :
    GoodV (encPackage p) ∧ depthV (encPackage p) ≤ 1 + d := by
  obtain ⟨h1, h2, h3, h4, hx, hxd⟩ := hu
  obtain ⟨g2, d2⟩ := good_encOptStr _ h2
  obtain ⟨g3, d3⟩ := good_encOptStr _ h3
  obtain ⟨gs, ds⟩ := good_encOptNat _ hw.1
  unfold encPackage
  constructor
  · simp only [GoodV]
    rw [goodVM_append]
    refine ⟨?_, hx⟩
    simp only [GoodVM, GoodV]
    exact ⟨lit_ascii _ (by decide), h1, lit_ascii _ (by decide), trivial, lit_ascii _ (by decide), gs, lit_ascii _ (by decide), g2,
      lit_ascii _ (by decide), g3, lit_ascii _ (by decide), h4, trivial⟩
  · simp only [depthV]
    rw [depthVM_append]
    simp only [depthVM, depthV, ds, d2, d3]
    omega

theorem good_encAction (a : Action) (d : Nat) (hu : a.U d) : GoodV (encAction a) ∧ depthV (encAction a) ≤ 1 + d := by
  obtain ⟨h1, h2, hx, hxd⟩ := hu
  obtain ⟨g1, d1⟩ := good_encOptStr _ h1
  obtain ⟨g2, d2⟩ := good_encOptStr _ h2
  unfold encAction
  constructor
  · simp only [GoodV]
    rw [goodVM_append]
    refine ⟨?_, hx⟩
    simp only [GoodVM]
    exact ⟨lit_ascii _ (by decide), g1, lit_ascii _ (by decide), g2, trivial⟩
  · simp only [depthV]
    rw [depthVM_append]
    simp only [depthVM, d1, d2]
    omega

theorem good_encManifest (m : Manifest) (d : Nat) (hw : m.WF) (hu : m.U d) :
    GoodV (encManifest m) ∧ depthV (encManifest m) ≤ 4 + d := by
  obtain ⟨hv, ha, hp⟩ := hu
  obtain ⟨ga, da⟩ := good_arr_map encAction m.actions (1 + d) (fun a h => good_encAction a d (ha a h))
  obtain ⟨gp, dp⟩ := good_arr_map encPackage m.packages (1 + d) (fun p h => good_encPackage p d (hw.2 p h) (hp p h))
  unfold encManifest
  constructor
  · simp only [GoodV, GoodVM]
    exact ⟨lit_ascii _ (by decide), hv, lit_ascii _ (by decide), ⟨lit_ascii _ (by decide), ga, trivial⟩,
      lit_ascii _ (by decide), ⟨lit_ascii _ (by decide), gp, trivial⟩, trivial⟩
  · simp only [depthV, depthVM] at da dp ⊢
    omega

theorem good_encUrls (us : List Bytes) (h : ∀ c ∈ us, Utf8 c) : GoodV (encUrls us) ∧ depthV (encUrls us) ≤ 3 := by
  obtain ⟨g, d⟩ := good_arr_map (fun c => Val.obj [(s "codebase", .str c)]) us 1 (fun c hc => by
    constructor
    · simp only [GoodV, GoodVM]; exact ⟨lit_ascii _ (by decide), h c hc, trivial⟩
    · simp [depthV, depthVM])
  unfold encUrls
  constructor
  · simp only [GoodV, GoodVM]
    exact ⟨lit_ascii _ (by decide), g, trivial⟩
  · simp only [depthV, depthVM] at d ⊢
    omega

theorem good_encUpdateCheck (u : UpdateCheck) (d : Nat) (hw : u.WF) (hu : u.U d) :
    GoodV (encUpdateCheck u) ∧ depthV (encUpdateCheck u) ≤ 5 + d := by
  obtain ⟨hs, hi, hurls, hm, hx, hxd⟩ := hu
  obtain ⟨gs, ds⟩ := good_encStatus _ hs
  obtain ⟨gi, di⟩ := good_encOptStr _ hi
  obtain ⟨gu, du⟩ := good_encOpt encUrls u.urls 3 (fun us h => good_encUrls us (hurls us h))
  obtain ⟨gm, dm⟩ := good_encOpt encManifest u.manifest (4 + d) (fun m h => good_encManifest m d (hw.2.1 m h) (hm m h))
  unfold encUpdateCheck
  constructor
  · simp only [GoodV]
    rw [goodVM_append]
    refine ⟨?_, hx⟩
    simp only [GoodVM]
    exact ⟨lit_ascii _ (by decide), gs, lit_ascii _ (by decide), gi, lit_ascii _ (by decide), gu, lit_ascii _ (by decide), gm, trivial⟩
  · simp only [depthV]
    rw [depthVM_append]
    simp only [depthVM, ds, di]
    omega

theorem good_encApp (a : App) (d : Nat) (hw : a.WF) (hu : a.U d) : GoodV (encApp a) ∧ depthV (encApp a) ≤ 6 + d := by
  obtain ⟨hid, hs, hc1, hc2, hc3, hping, huc, hev, hx, hxd⟩ := hu
  obtain ⟨gs, ds⟩ := good_encStatus _ hs
  obtain ⟨g1, d1⟩ := good_encOptStr _ hc1
  obtain ⟨g2, d2⟩ := good_encOptStr _ hc2
  obtain ⟨g3, d3⟩ := good_encOptStr _ hc3
  obtain ⟨gp, dp⟩ := good_encOpt encStatusStruct a.ping 1 (fun st h => good_encStatusStruct st (hping st h))
  obtain ⟨gu, du⟩ := good_encOpt encUpdateCheck a.updateCheck (5 + d) (fun u h => good_encUpdateCheck u d (hw.2.2.1 u h) (huc u h))
  obtain ⟨ge, de⟩ := good_encOpt (fun es => Val.arr (es.map encStatusStruct)) a.events 2
    (fun es h => good_arr_map encStatusStruct es 1 (fun e he => good_encStatusStruct e (hev es h e he)))
  unfold encApp
  constructor
  · simp only [GoodV]
    rw [goodVM_append]
    refine ⟨?_, hx⟩
    simp only [GoodVM, GoodV]
    exact ⟨lit_ascii _ (by decide), hid, lit_ascii _ (by decide), gs, lit_ascii _ (by decide), g1, lit_ascii _ (by decide), g2,
      lit_ascii _ (by decide), g3, lit_ascii _ (by decide), gp, lit_ascii _ (by decide), gu, lit_ascii _ (by decide), ge, trivial⟩
  · simp only [depthV]
    rw [depthVM_append]
    simp only [depthVM, depthV, ds, d1, d2, d3]
    omega

theorem good_encDayStart (ds : DayStart) (hw : ds.WF) : GoodV (encDayStart ds) ∧ depthV (encDayStart ds) ≤ 1 := by
  obtain ⟨g1, d1⟩ := good_encOptNat ds.elapsedDays (fun n h => Nat.le_trans (hw.1 n h) (by unfold Dec.u32Max Dec.u64Max; omega))
  obtain ⟨g2, d2⟩ := good_encOptNat ds.elapsedSeconds (fun n h => Nat.le_trans (hw.2 n h) (by unfold Dec.u32Max Dec.u64Max; omega))
  unfold encDayStart
  constructor
  · simp only [GoodV, GoodVM]
    exact ⟨lit_ascii _ (by decide), g1, lit_ascii _ (by decide), g2, trivial⟩
  · simp only [depthV, depthVM, d1, d2]; omega

theorem good_encWrapper (r : Response) (d : Nat) (hw : r.WF) (hu : r.U d) :
    GoodV (encWrapper r) ∧ depthV (encWrapper r) ≤ 9 + d := by
  obtain ⟨hp, hs, ha⟩ := hu
  obtain ⟨gs, ds⟩ := good_encOptStr _ hs
  obtain ⟨gd, dd⟩ := good_encOpt encDayStart r.daystart 1 (fun x h => good_encDayStart x (hw.1 x h))
  obtain ⟨ga, da⟩ := good_arr_map encApp r.apps (6 + d) (fun a h => good_encApp a d (hw.2 a h) (ha a h))
  unfold encWrapper encResponse
  constructor
  · simp only [GoodV, GoodVM]
    exact ⟨lit_ascii _ (by decide), ⟨lit_ascii _ (by decide), hp, lit_ascii _ (by decide), gs, lit_ascii _ (by decide), gd,
      lit_ascii _ (by decide), ga, trivial⟩, trivial⟩
  · simp only [depthV, depthVM, ds] at da ⊢
    omega

/-- **decode_encode (C16, text level, hypotheses on the response).** -/
theorem decode_text_encode_utf8 (r : Response) (hw : r.WF) (hu : r.U 90) :
    parseJsonResponse (Mock.render (encWrapper r)) = .ok r ∧
    parseJsonResponse (xssiPrefix ++ Mock.render (encWrapper r)) = .ok r := by
  obtain ⟨g, d⟩ := good_encWrapper r 90 hw hu
  exact Omaha.Mock.decode_text_encode r hw g (by omega)

/-! ### The hypotheses are satisfiable (an app with an update offer and an extension attribute) -/

def demoPackage : Package := { name := s "pkg", required := true, size := some 7, hash := none, hashSha256 := some (s "ab"), fp := s "fp1", extras := [] }
def demoManifest : Manifest := { version := s "1.2.3.4", actions := [{ event := some (s "install"), run := none, extras := [] }], packages := [demoPackage] }
def demoUpdateCheck : UpdateCheck := { status := .ok, info := none, urls := some [s "http://a/"], manifest := some demoManifest, extras := [(s "x", .arr [.num (.uint 1)])] }
def demoApp : App := { id := s "app", status := .ok, cohort := { id := some (s "1:1:") }, ping := some .ok, updateCheck := some demoUpdateCheck, events := none, extras := [] }
def demoResponse : Response := { protocol := s "3.0", server := some (s "prod"), daystart := some { elapsedDays := some 4775, elapsedSeconds := none }, apps := [demoApp] }

example : demoResponse.WF := by
  simp [Response.WF, demoResponse, DayStart.WF, App.WF, demoApp, Status.WF, UpdateCheck.WF, demoUpdateCheck, Manifest.WF, demoManifest,
    Action.WF, Package.WF, demoPackage, ExtrasOK, Dec.u32Max, Dec.u64Max]
  refine ⟨⟨?_, ?_, ?_, ?_⟩, rfl⟩ <;> decide

example : demoResponse.U 90 := by
  simp only [Response.U, demoResponse, App.U, demoApp, UpdateCheck.U, demoUpdateCheck, Manifest.U, demoManifest, Package.U, demoPackage,
    Action.U, Status.U, OptUtf8, GoodX, List.mem_singleton, forall_eq, Option.some.injEq, forall_eq', GoodVM, GoodV, GoodVL, depthVM, depthV, depthVL]
  refine ⟨lit_ascii _ (by decide), lit_ascii _ (by decide), lit_ascii _ (by decide), trivial, lit_ascii _ (by decide), trivial, trivial, trivial,
    ⟨trivial, trivial, lit_ascii _ (by decide), ⟨lit_ascii _ (by decide), ⟨lit_ascii _ (by decide), trivial, trivial, by omega⟩,
      lit_ascii _ (by decide), trivial, lit_ascii _ (by decide), lit_ascii _ (by decide), trivial, by omega⟩,
      ⟨lit_ascii _ (by decide), ⟨by unfold Dec.u64Max; omega, trivial⟩, trivial⟩, by omega⟩, (fun es h => by cases h), trivial, by omega⟩

end Omaha.Resp
