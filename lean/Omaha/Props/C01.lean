/-
C01 — CUP verification accepts exactly the authentic responses.

All theorems are parametric in `C : Crypto` (hash function and signature predicate); the
cryptographic assumptions (unforgeability, collision resistance) never appear as axioms: the
tamper corollaries take "the presented signature does not verify for the changed message/key"
as an explicit hypothesis, and `for_no_other` reduces acceptance for another exchange to a
signature valid for a different message or to a SHA-256 collision.
-/
import Omaha.Cup
import Omaha.Lemmas.Dec

namespace Omaha.Cup

open Omaha

/-! ### `split_once` -/

theorem splitOnce_eq_some_iff (d : UInt8) (s a b : Bytes) :
    splitOnce d s = some (a, b) ↔ s = a ++ d :: b ∧ d ∉ a := by
  induction s generalizing a with
  | nil => simp [splitOnce]
  | cons x xs ih =>
    unfold splitOnce
    by_cases hx : x = d
    · subst hx
      simp only [if_true, Option.some.injEq, Prod.mk.injEq]
      constructor
      · rintro ⟨rfl, rfl⟩; simp
      · rintro ⟨h, hn⟩
        cases a with
        | nil => simp only [List.nil_append, List.cons.injEq, true_and] at h; simp [h]
        | cons y ys =>
          simp only [List.cons_append, List.cons.injEq] at h
          exact absurd (by simp [h.1]) hn
    · simp only [hx, if_false]
      cases hs : splitOnce d xs with
      | none =>
        simp only [false_iff, not_and, reduceCtorEq]
        intro h hn
        cases a with
        | nil => simp only [List.nil_append, List.cons.injEq] at h; exact absurd h.1 hx
        | cons y ys =>
          simp only [List.cons_append, List.cons.injEq] at h
          have := (ih ys).2 ⟨h.2, fun hm => hn (by simp [hm])⟩
          rw [hs] at this; cases this
      | some p =>
        obtain ⟨a', b'⟩ := p
        simp only [Option.some.injEq, Prod.mk.injEq]
        constructor
        · rintro ⟨rfl, rfl⟩
          have ih' := (ih a').1 hs
          refine ⟨by simp [ih'.1], ?_⟩
          intro hm
          simp only [List.mem_cons] at hm
          rcases hm with h | h
          · exact hx h.symm
          · exact ih'.2 h
        · rintro ⟨h, hn⟩
          cases a with
          | nil => simp only [List.nil_append, List.cons.injEq] at h; exact absurd h.1 hx
          | cons y ys =>
            simp only [List.cons_append, List.cons.injEq] at h
            have := (ih ys).2 ⟨h.2, fun hm => hn (by simp [hm])⟩
            rw [hs] at this
            simp only [Option.some.injEq, Prod.mk.injEq] at this
            exact ⟨by rw [h.1, this.1], this.2⟩

theorem splitOnce_eq_none_iff (d : UInt8) (s : Bytes) : splitOnce d s = none ↔ d ∉ s := by
  induction s with
  | nil => simp [splitOnce]
  | cons x xs ih =>
    unfold splitOnce
    by_cases hx : x = d
    · simp [hx]
    · simp only [hx, if_false, List.mem_cons, not_or]
      cases hs : splitOnce d xs with
      | none => rw [hs] at ih; simp [ih.1 rfl, Ne.symm hx]
      | some p =>
        rw [hs] at ih
        simp only [reduceCtorEq, false_iff] at ih
        simp [ih]

/-! ### Acceptance -/

/-- **verify_iff.** The verifier accepts, returning `sig`, exactly when: there is an ETag header
made of visible ASCII whose (plain, quoted or weak-quoted) content is `sigHex:hashHex` split at the
first colon; `hashHex` decodes to SHA-256 of the retained request body; `sigHex` decodes to `sig`,
a strict DER signature `(r, s)`; a key is registered for the key id; and `(r, s)` is a valid
signature under that key over the transaction hash of (request body, response body, key id,
nonce). The returned signature is the presented one, unchanged. -/
theorem verify_iff (C : Crypto) (keys : List (Nat × PubKey)) (req nonce : Bytes)
    (etag : Option Bytes) (resp : Bytes) (kid : Nat) (sig : Bytes) :
    verifyResponse C keys req nonce etag resp kid = .ok sig ↔
      ∃ raw sigHex hashHex r s pk,
        etag = some raw ∧ raw.all visible = true ∧
        splitOnce 58 (stripEtag raw) = some (sigHex, hashHex) ∧
        Hex.decode hashHex = some (C.sha256 req) ∧
        Hex.decode sigHex = some sig ∧
        Der.decodeSig sig = some (r, s) ∧
        lookupKey keys kid = some pk ∧
        C.ecdsaVerify pk (txHash C req resp kid nonce) r s = true := by
  constructor
  · intro h
    unfold verifyResponse at h
    cases etag with
    | none => simp at h
    | some raw =>
      simp only at h
      by_cases hv : raw.all visible = false
      · simp [hv] at h
      · simp only [hv, if_false] at h
        cases hsp : splitOnce 58 (stripEtag raw) with
        | none => simp [hsp] at h
        | some p =>
          obtain ⟨sigHex, hashHex⟩ := p
          simp only [hsp] at h
          cases hh : Hex.decode hashHex with
          | none => simp [hh] at h
          | some hbytes =>
            simp only [hh] at h
            by_cases hne : hbytes ≠ C.sha256 req
            · simp [hne] at h
            · simp only [hne, if_false] at h
              cases hs : Hex.decode sigHex with
              | none => simp [hs] at h
              | some sg =>
                simp only [hs] at h
                cases hd : Der.decodeSig sg with
                | none => simp [hd] at h
                | some rs =>
                  obtain ⟨r, s⟩ := rs
                  simp only [hd, verifyWithSignature] at h
                  cases hk : lookupKey keys kid with
                  | none => simp [hk] at h
                  | some pk =>
                    simp only [hk] at h
                    by_cases hver : C.ecdsaVerify pk (txHash C req resp kid nonce) r s = true
                    · simp only [hver, if_true] at h
                      have : sg = sig := by simpa using h
                      subst this
                      refine ⟨raw, sigHex, hashHex, r, s, pk, rfl, by simpa using hv, hsp, ?_, hs, hd, rfl, hver⟩
                      have : hbytes = C.sha256 req := by simpa using hne
                      rw [hh, this]
                    · simp [hver] at h
  · rintro ⟨raw, sigHex, hashHex, r, s, pk, rfl, hv, hsp, hh, hs, hd, hk, hver⟩
    unfold verifyResponse
    simp [hv, hsp, hh, hs, hd, verifyWithSignature, hk, hver]

/-- **Totality.** Every input yields `ok` or one of the eight error kinds: the model has no
panic outcome, for any ETag bytes whatsoever. -/
theorem verify_total (C : Crypto) (keys) (req nonce : Bytes) (etag) (resp) (kid) :
    (∃ sig, verifyResponse C keys req nonce etag resp kid = .ok sig) ∨
    (∃ e, verifyResponse C keys req nonce etag resp kid = .error e) := by
  cases h : verifyResponse C keys req nonce etag resp kid with
  | ok s => exact Or.inl ⟨s, rfl⟩
  | error e => exact Or.inr ⟨e, rfl⟩

/-! ### Which error for which first failing condition (**verify_error_kind**) -/

theorem err_missing (C : Crypto) (keys) (req nonce : Bytes) (resp) (kid) :
    verifyResponse C keys req nonce none resp kid = .error .etagHeaderMissing := rfl

theorem err_not_string (C : Crypto) (keys) (req nonce : Bytes) (raw) (resp) (kid)
    (hv : raw.all visible = false) :
    verifyResponse C keys req nonce (some raw) resp kid = .error .etagNotString := by
  simp [verifyResponse, hv]

theorem err_malformed (C : Crypto) (keys) (req nonce : Bytes) (raw) (resp) (kid)
    (hv : raw.all visible = true) (hc : (58 : UInt8) ∉ stripEtag raw) :
    verifyResponse C keys req nonce (some raw) resp kid = .error .etagMalformed := by
  have := (splitOnce_eq_none_iff 58 (stripEtag raw)).2 hc
  simp [verifyResponse, hv, this]

theorem err_hash_malformed (C : Crypto) (keys) (req nonce : Bytes) (raw) (resp) (kid)
    (hv : raw.all visible = true) (sigHex hashHex : Bytes)
    (hsp : splitOnce 58 (stripEtag raw) = some (sigHex, hashHex))
    (hh : Hex.decode hashHex = none) :
    verifyResponse C keys req nonce (some raw) resp kid = .error .requestHashMalformed := by
  simp [verifyResponse, hv, hsp, hh]

theorem err_hash_mismatch (C : Crypto) (keys) (req nonce : Bytes) (raw) (resp) (kid)
    (hv : raw.all visible = true) (sigHex hashHex h : Bytes)
    (hsp : splitOnce 58 (stripEtag raw) = some (sigHex, hashHex))
    (hh : Hex.decode hashHex = some h) (hne : h ≠ C.sha256 req) :
    verifyResponse C keys req nonce (some raw) resp kid = .error .requestHashMismatch := by
  simp [verifyResponse, hv, hsp, hh, hne]

/-- After the hash matched: a signature that is not hex, not strict DER, out of range or invalid
for this exchange under the registered key gives `SignatureMalformed` / `SignatureError`, an
unregistered key id gives `SpecifiedPublicKeyIdMissing` — never acceptance. -/
theorem err_after_hash (C : Crypto) (keys) (req nonce : Bytes) (raw) (resp) (kid)
    (hv : raw.all visible = true) (sigHex hashHex : Bytes)
    (hsp : splitOnce 58 (stripEtag raw) = some (sigHex, hashHex))
    (hh : Hex.decode hashHex = some (C.sha256 req)) :
    verifyResponse C keys req nonce (some raw) resp kid =
      match Hex.decode sigHex with
      | none => .error .signatureMalformed
      | some sig =>
        match Der.decodeSig sig with
        | none => .error .signatureError
        | some (r, s) =>
          match lookupKey keys kid with
          | none => .error .keyIdMissing
          | some pk =>
            if C.ecdsaVerify pk (txHash C req resp kid nonce) r s then .ok sig
            else .error .signatureError := by
  unfold verifyResponse verifyWithSignature
  simp only [hv, Bool.true_eq_false, if_false, hsp, hh, ne_eq, not_true_eq_false]
  cases Hex.decode sigHex with
  | none => rfl
  | some sig =>
    simp only
    cases hd : Der.decodeSig sig with
    | none => rfl
    | some rs =>
      obtain ⟨r, s⟩ := rs
      simp only
      cases lookupKey keys kid with
      | none => rfl
      | some pk =>
        simp only
        by_cases hver : C.ecdsaVerify pk (txHash C req resp kid nonce) r s = true <;> simp [hver]

/-! ### The signed message determines the whole exchange (**txPreimage_injective**) -/

theorem hexEncode_injective (a b : Bytes) (h : Hex.encode a = Hex.encode b) : a = b := by
  induction a generalizing b with
  | nil => cases b <;> simp [Hex.encode] at h ⊢
  | cons x xs ih =>
    cases b with
    | nil => simp [Hex.encode] at h
    | cons y ys =>
      simp only [Hex.encode, List.cons.injEq] at h
      obtain ⟨h1, h2, h3⟩ := h
      have hx : x = y := by
        have nib : ∀ d e : Nat, d < 16 → e < 16 → Hex.nibbleByte d = Hex.nibbleByte e → d = e := by
          intro d e hd he
          unfold Hex.nibbleByte
          rw [Nat.mod_eq_of_lt hd, Nat.mod_eq_of_lt he]
          intro hh
          have := congrArg UInt8.toNat hh
          split at this <;> split at this <;> simp [UInt8.toNat_ofNat'] at this <;> omega
        have a1 := nib _ _ (by have := x.toNat_lt; omega) (by have := y.toNat_lt; omega) h1
        have a2 := nib _ _ (Nat.mod_lt _ (by omega)) (Nat.mod_lt _ (by omega)) h2
        apply UInt8.toNat_inj.1; omega
      rw [hx, ih ys h3]

theorem hexEncode_no_colon (a : Bytes) : (58 : UInt8) ∉ Hex.encode a := by
  induction a with
  | nil => simp [Hex.encode]
  | cons x xs ih =>
    simp only [Hex.encode, List.mem_cons, not_or]
    have nib : ∀ d, (58 : UInt8) ≠ Hex.nibbleByte d := by
      intro d hh
      unfold Hex.nibbleByte at hh
      have := congrArg UInt8.toNat hh
      split at this <;> simp [UInt8.toNat_ofNat'] at this <;> omega
    exact ⟨nib _, nib _, ih⟩

theorem render_no_colon (n : Nat) : (58 : UInt8) ∉ Dec.render n := by
  intro h
  have := Dec.render_all_digits n 58 h
  revert this; decide

theorem render_injective (a b : Nat) (h : Dec.render a = Dec.render b) : a = b := by
  have ha := Dec.foldDigits_render a
  rw [h, Dec.foldDigits_render b] at ha
  exact (Option.some.inj ha).symm

/-- The `cup2key` text determines key id and nonce. -/
theorem cup2key_injective (k k' : Nat) (nn nn' : Bytes) (h : cup2key k nn = cup2key k' nn') :
    k = k' ∧ nn = nn' := by
  unfold cup2key at h
  have h1 := (splitOnce_eq_some_iff 58 _ (Dec.render k) (Hex.encode nn)).2 ⟨rfl, render_no_colon k⟩
  have h2 := (splitOnce_eq_some_iff 58 _ (Dec.render k') (Hex.encode nn')).2 ⟨rfl, render_no_colon k'⟩
  rw [h, h2] at h1
  simp only [Option.some.injEq, Prod.mk.injEq] at h1
  exact ⟨(render_injective _ _ h1.1).symm, (hexEncode_injective _ _ h1.2).symm⟩

/-- **txPreimage_injective.** With a hash of fixed output length, the signed pre-image determines
(hash of request, hash of response, key id, nonce): no component can be dropped, reordered or
traded against another. -/
theorem txPreimage_injective (C : Crypto) (hlen : ∀ m, (C.sha256 m).length = 32)
    (req resp req' resp' : Bytes) (k k' : Nat) (nn nn' : Bytes)
    (h : txPreimage C req resp k nn = txPreimage C req' resp' k' nn') :
    C.sha256 req = C.sha256 req' ∧ C.sha256 resp = C.sha256 resp' ∧ k = k' ∧ nn = nn' := by
  unfold txPreimage at h
  have h1 := List.append_inj h (by rw [hlen, hlen])
  have h2 := List.append_inj h1.2 (by rw [hlen, hlen])
  exact ⟨h1.1, h2.1, cup2key_injective _ _ _ _ h2.2⟩

/-- **for_no_other.** If one presented signature is accepted for two exchanges, then either the
exchanges agree on key id, nonce and the hashes of both bodies, or the same `(r, s)` verifies
under the registered key(s) for two *different* signed messages (which ECDSA unforgeability
excludes) . -/
theorem for_no_other (C : Crypto) (hlen : ∀ m, (C.sha256 m).length = 32)
    (keys) (req nonce etag resp kid req' nonce' resp' kid') (sig : Bytes)
    (h1 : verifyResponse C keys req nonce etag resp kid = .ok sig)
    (h2 : verifyResponse C keys req' nonce' etag resp' kid' = .ok sig) :
    (C.sha256 req = C.sha256 req' ∧ C.sha256 resp = C.sha256 resp' ∧ kid = kid' ∧ nonce = nonce') ∨
    (∃ r s pk pk', lookupKey keys kid = some pk ∧ lookupKey keys kid' = some pk' ∧
      C.ecdsaVerify pk (C.sha256 (txPreimage C req resp kid nonce)) r s = true ∧
      C.ecdsaVerify pk' (C.sha256 (txPreimage C req' resp' kid' nonce')) r s = true ∧
      txPreimage C req resp kid nonce ≠ txPreimage C req' resp' kid' nonce') := by
  obtain ⟨raw, sh, hh, r, s, pk, he, _, _, _, _, hd, hk, hv⟩ := (verify_iff ..).1 h1
  obtain ⟨raw', sh', hh', r', s', pk', he', _, _, _, _, hd', hk', hv'⟩ := (verify_iff ..).1 h2
  rw [hd] at hd'
  simp only [Option.some.injEq, Prod.mk.injEq] at hd'
  obtain ⟨rfl, rfl⟩ := hd'
  by_cases heq : txPreimage C req resp kid nonce = txPreimage C req' resp' kid' nonce'
  · exact Or.inl (txPreimage_injective C hlen _ _ _ _ _ _ _ _ heq)
  · exact Or.inr ⟨r, s, pk, pk', hk, hk', hv, hv', heq⟩

/-! ### Tampering is rejected (each corollary takes the cryptographic assumption — the presented
signature does not verify for the changed message or key — as its hypothesis) -/

/-- Any change to response body, retained request body, nonce or key id (everything the signed
message is made of) is rejected, for any ETag, when the signature the ETag carries does not verify
for the changed message under the key registered for the (possibly changed) id. -/
theorem tamper_rejected (C : Crypto) (keys) (req nonce etag resp kid)
    (hforge : ∀ pk r s, lookupKey keys kid = some pk →
      C.ecdsaVerify pk (txHash C req resp kid nonce) r s = false) :
    ∀ sig, verifyResponse C keys req nonce etag resp kid ≠ .ok sig := by
  intro sig h
  obtain ⟨_, _, _, r, s, pk, _, _, _, _, _, _, hk, hv⟩ := (verify_iff ..).1 h
  rw [hforge pk r s hk] at hv
  cases hv

/-- A request body whose hash differs from the one in the ETag is rejected before any
signature check. -/
theorem tamper_req_hash_rejected (C : Crypto) (keys) (req nonce raw resp kid) (sigHex hashHex h)
    (hsp : splitOnce 58 (stripEtag raw) = some (sigHex, hashHex))
    (hh : Hex.decode hashHex = some h) (hne : h ≠ C.sha256 req) :
    ∀ sig, verifyResponse C keys req nonce (some raw) resp kid ≠ .ok sig := by
  intro sig hok
  obtain ⟨raw', _, _, _, _, _, he, _, hsp', hh', _⟩ := (verify_iff ..).1 hok
  cases he
  rw [hsp] at hsp'
  simp only [Option.some.injEq, Prod.mk.injEq] at hsp'
  obtain ⟨rfl, rfl⟩ := hsp'
  rw [hh] at hh'
  exact hne (Option.some.inj hh')

/-- A key id that is not registered is rejected. -/
theorem unknown_key_rejected (C : Crypto) (keys) (req nonce etag resp kid)
    (hk : lookupKey keys kid = none) :
    ∀ sig, verifyResponse C keys req nonce etag resp kid ≠ .ok sig := by
  intro sig h
  obtain ⟨_, _, _, _, _, pk, _, _, _, _, _, _, hk', _⟩ := (verify_iff ..).1 h
  rw [hk] at hk'; cases hk'

/-- The key map: the entry for an id is the last one listed with that id (latest first, then
historical; a later duplicate replaces an earlier one), and ids not listed have no key. -/
theorem lookupKey_none_iff (keys : List (Nat × PubKey)) (kid : Nat) :
    lookupKey keys kid = none ↔ ∀ e ∈ keys, e.1 ≠ kid := by
  induction keys with
  | nil => simp [lookupKey]
  | cons e es ih =>
    obtain ⟨i, k⟩ := e
    simp only [lookupKey, List.mem_cons, forall_eq_or_imp]
    cases h : lookupKey es kid with
    | some k' =>
      rw [h] at ih
      simp only [reduceCtorEq, false_iff] at ih ⊢
      intro ⟨_, hall⟩; exact ih hall
    | none =>
      rw [h] at ih
      simp only [true_iff] at ih
      by_cases hi : i = kid
      · simp [hi]
      · simp only [hi, if_false, true_iff, ne_eq, not_false_eq_true, true_and]
        exact ih

/-! ### `parse_etag` only ever strips ASCII bytes at the ends (**stripEtag_ascii**):
the result is a contiguous part of the input, so for a header that passed the visible-ASCII check
it is again ASCII (valid UTF-8), which discharges the `from_utf8_unchecked` obligation. -/

theorem eq_dropLast_append (s : List UInt8) (x : UInt8) (h : s.getLast? = some x) :
    s = s.dropLast ++ [x] := by
  induction s with
  | nil => simp at h
  | cons a as ih =>
    cases as with
    | nil => simp at h; simp [h]
    | cons b bs =>
      rw [List.getLast?_cons_cons] at h
      simp only [List.dropLast_cons_cons, List.cons_append, List.cons.injEq, true_and]
      exact ih h

theorem dropEndQuote_eq_some (s inner : Bytes) (h : dropEndQuote s = some inner) : s = inner ++ [34] := by
  unfold dropEndQuote at h
  split at h
  · rename_i hl
    have := Option.some.inj h
    subst this
    exact eq_dropLast_append s 34 hl
  · cases h

theorem dropPrefix_eq_some (p s r : Bytes) (h : dropPrefix p s = some r) : s = p ++ r := by
  induction p generalizing s with
  | nil => simp [dropPrefix] at h; simp [h]
  | cons x p ih =>
    cases s with
    | nil => simp [dropPrefix] at h
    | cons y s =>
      simp only [dropPrefix] at h
      split at h
      · rename_i hxy; subst hxy; simp [ih s h]
      · cases h

theorem stripEtag_infix (e : Bytes) : ∃ pre suf, e = pre ++ stripEtag e ++ suf := by
  unfold stripEtag
  cases h1 : (dropPrefix [87, 47, 34] e).bind dropEndQuote with
  | some inner =>
    obtain ⟨rest, hr, hq⟩ := Option.bind_eq_some_iff.1 h1
    exact ⟨[87, 47, 34], [34], by
      rw [dropPrefix_eq_some _ _ _ hr, dropEndQuote_eq_some _ _ hq]; simp⟩
  | none =>
    simp only
    cases h2 : (dropPrefix [34] e).bind dropEndQuote with
    | some inner =>
      obtain ⟨rest, hr, hq⟩ := Option.bind_eq_some_iff.1 h2
      exact ⟨[34], [34], by
        rw [dropPrefix_eq_some _ _ _ hr, dropEndQuote_eq_some _ _ hq]; simp⟩
    | none => exact ⟨[], [], by simp⟩

theorem stripEtag_ascii (e : Bytes) (h : ∀ b ∈ e, b.toNat < 128) : ∀ b ∈ stripEtag e, b.toNat < 128 := by
  obtain ⟨pre, suf, he⟩ := stripEtag_infix e
  intro b hb
  apply h
  rw [he]; simp [hb]

theorem visible_lt_128 (raw : Bytes) (h : raw.all visible = true) : ∀ b ∈ raw, b.toNat < 128 := by
  intro b hb
  have := List.all_eq_true.1 h b hb
  unfold visible at this
  simp only [Bool.or_eq_true, decide_eq_true_eq, Bool.and_eq_true] at this
  rcases this with h | h
  · subst h; decide
  · omega

/-- The quoted and weak-quoted encodings carry their content; anything that is not of one of the
two quoted shapes is its own content. -/
theorem stripEtag_quoted (inner : Bytes) (h : inner.head? ≠ some 87) :
    stripEtag (34 :: (inner ++ [34])) = inner := by
  unfold stripEtag
  have h1 : dropPrefix [87, 47, 34] (34 :: (inner ++ [34])) = none := by simp [dropPrefix]
  have h2 : dropPrefix [34] (34 :: (inner ++ [34])) = some (inner ++ [34]) := by simp [dropPrefix]
  simp [h1, h2, dropEndQuote]

theorem stripEtag_weak (inner : Bytes) :
    stripEtag (87 :: 47 :: 34 :: (inner ++ [34])) = inner := by
  unfold stripEtag
  have h1 : dropPrefix [87, 47, 34] (87 :: 47 :: 34 :: (inner ++ [34])) = some (inner ++ [34]) := by
    simp [dropPrefix]
  simp [h1, dropEndQuote]

theorem stripEtag_plain (e : Bytes) (h : e.getLast? ≠ some 34) : stripEtag e = e := by
  unfold stripEtag
  have key : ∀ p, (dropPrefix p e).bind dropEndQuote = none := by
    intro p
    cases hp : dropPrefix p e with
    | none => rfl
    | some rest =>
      simp only [Option.bind_some, dropEndQuote]
      have he := dropPrefix_eq_some _ _ _ hp
      have : rest.getLast? ≠ some 34 := by
        intro hr
        apply h
        rw [he]
        cases rest with
        | nil => simp at hr
        | cons x xs =>
          obtain ⟨ys, hys⟩ := List.getLast?_eq_some_iff.1 hr
          rw [hys, ← List.append_assoc]
          simp
      simp [this]
  simp [key]

/-! ### Non-vacuity (the hypotheses of `verify_iff` are satisfiable, with a toy `Crypto` whose
predicate accepts exactly one message, so the acceptance direction is exercised in the kernel;
the real SHA-256 / P-256 instantiation is exercised by the driver on every run) -/

def toyCrypto : Crypto := ⟨fun m => List.replicate 32 (UInt8.ofNat m.length),
  fun pk msg r s => pk == (1, 2) && msg == List.replicate 32 68 && r == 5 && s == 7⟩

-- ETag  "3006020105020107:0101…01"  (DER (5,7), hash of a 1-byte request body)
example :
    verifyResponse toyCrypto [(9, (1, 2))] [65] [0xAB] (some
      ([34] ++ Hex.encode [0x30, 6, 2, 1, 5, 2, 1, 7] ++ [58] ++ Hex.encode (List.replicate 32 1) ++ [34]))
      [66, 67] 9 matches .ok [0x30, 6, 2, 1, 5, 2, 1, 7] := by decide

example :
    verifyResponse toyCrypto [(9, (1, 2))] [65] [0xAB] (some
      (Hex.encode [0x30, 6, 2, 1, 5, 2, 1, 7] ++ [58] ++ Hex.encode (List.replicate 32 1)))
      [66, 67] 8 matches .error .keyIdMissing := by decide

example : Der.decodeSig [0x30, 6, 2, 1, 5, 2, 1, 7] = some (5, 7) := by decide
example : Der.decodeSig [0x30, 7, 2, 2, 0, 5, 2, 1, 7] = none := by decide       -- non-minimal INTEGER
example : Der.decodeSig [0x30, 6, 2, 1, 5, 2, 1, 7, 0] = none := by decide       -- trailing byte
example : Der.decodeSig [0x30, 0x81, 6, 2, 1, 5, 2, 1, 7] = none := by decide    -- long-form length

end Omaha.Cup
