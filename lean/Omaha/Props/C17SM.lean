/-
C17, third clause: "driving the real state machine against the in-process mock reaches the
configured outcome".  The two models are composed: the body the mock model renders for the machine's
request (`Mock.render (responseVal vs)`) is fed to the state-machine model's path function
(`pathOf`, Props/C04), through the client's parser model (text reader included).  The announcements
and the result that go with each path are C04's theorems (`performUpdateCheck_marks`,
`performUpdateCheck_result`); forced / foreign ETags are C02's (`unauth_request`).
The stream `smmock` runs the real state machine against the real mock and has both models predict it.
-/
import Omaha.Props.JsonText
import Omaha.Props.C04

namespace Omaha.Mock

open Omaha Omaha.JsonP Omaha.Resp Omaha.SM

theorem mapR_err {α β} (f : α → R β) : (l : List α) → (∀ x ∈ l, f x ≠ .outside) → (∃ x ∈ l, f x = .err) → mapR f l = .err
  | [], _, h => by obtain ⟨x, hx, _⟩ := h; cases hx
  | x :: xs, hn, h => by
    simp only [mapR]
    cases hfx : f x with
    | err => rfl
    | outside => exact absurd hfx (hn x (by simp))
    | ok y =>
      have : mapR f xs = .err := by
        apply mapR_err f xs (fun z hz => hn z (by simp [hz]))
        obtain ⟨z, hz, he⟩ := h
        simp only [List.mem_cons] at hz
        rcases hz with rfl | hz
        · rw [hfx] at he; cases he
        · exact ⟨z, hz, he⟩
      simp [R.bind, this]

/-- Every app value the server produced is decoded or rejected by the client, never "outside". -/
theorem decode_appVals_total (cfg : Cfg) : (apps : List ReqApp) → (vs : List Val) → appVals cfg apps = some vs →
    (∀ v ∈ vs, decodeApp v ≠ .outside) ∧
    (∀ a ∈ apps, ∀ m, lookup a.id cfg.responses = some m → appDecoded m a = none → ∃ v ∈ vs, decodeApp v = .err)
  | [], vs, h => by
    simp [appVals] at h; subst h
    constructor
    · intro x hx; cases hx
    · intro x hx; cases hx
  | a :: rest, vs, h => by
    simp only [appVals] at h
    cases hv : appVal cfg a with
    | none => simp [hv] at h
    | some v0 =>
      cases hr : appVals cfg rest with
      | none => simp [hv, hr] at h
      | some rs =>
        simp only [hv, hr, Option.some.injEq] at h
        subst h
        obtain ⟨i1, i2⟩ := decode_appVals_total cfg rest rs hr
        obtain ⟨m0, hm0, hd0⟩ := decode_appVal cfg a v0 hv
        constructor
        · intro v hmem
          simp only [List.mem_cons] at hmem
          rcases hmem with rfl | hmem
          · rw [hd0]; cases appDecoded m0 a <;> simp
          · exact i1 v hmem
        · intro a' ha' m hm hnone
          simp only [List.mem_cons] at ha'
          rcases ha' with rfl | ha'
          · rw [hm0] at hm; cases hm
            exact ⟨v0, by simp, by rw [hd0, hnone]⟩
          · obtain ⟨v, hv', he⟩ := i2 a' ha' m hm hnone
            exact ⟨v, by simp [hv'], he⟩

/-- **configured_outcome (invalid response).** If an app the request checks for updates is
configured with the invalid kind, the state machine's parser rejects the mock's reply: the check
takes the `unparseable` path (ErrorCheckingForUpdate, a parse-error event for all apps, result
`ResponseParser`). -/
theorem configured_outcome_invalid (cfg : Cfg) (apps : List ReqApp) (vs : List Val) (h : appVals cfg apps = some vs)
    (hu : Utf8Inputs cfg apps) (env : Env)
    (hinv : ∃ a ∈ apps, ∃ m, lookup a.id cfg.responses = some m ∧ appDecoded m a = none) :
    pathOf (.ok (Mock.render (responseVal vs))) env = .unparseable := by
  obtain ⟨t1, t2⟩ := decode_appVals_total cfg apps vs h
  obtain ⟨a, ha, m, hm, hn⟩ := hinv
  have herr : mapR decodeApp vs = .err := mapR_err decodeApp vs t1 (t2 a ha m hm hn)
  unfold pathOf
  simp only [mock_doc_reads_back cfg apps vs h hu, decode_responseVal_err vs herr]

theorem zip_mem_left {α β} : (l : List α) → (r : List β) → l.length = r.length → ∀ x ∈ l, ∃ y, (x, y) ∈ l.zip r
  | [], _, _, x, h => by cases h
  | a :: l, [], hl, _, _ => by simp at hl
  | a :: l, b :: r, hl, x, h => by
    simp only [List.mem_cons] at h
    rcases h with rfl | h
    · exact ⟨b, by simp⟩
    · obtain ⟨y, hy⟩ := zip_mem_left l r (by simpa using hl) x h
      exact ⟨y, by simp [hy]⟩

theorem zip_mem_right {α β} : (l : List α) → (r : List β) → l.length = r.length → ∀ y ∈ r, ∃ x, (x, y) ∈ l.zip r
  | [], [], _, y, h => by cases h
  | [], b :: r, hl, _, _ => by simp at hl
  | a :: l, [], hl, _, _ => by simp at hl
  | a :: l, b :: r, hl, y, h => by
    simp only [List.mem_cons] at h
    rcases h with rfl | h
    · exact ⟨a, by simp⟩
    · obtain ⟨x, hx⟩ := zip_mem_right l r (by simpa using hl) y h
      exact ⟨x, by simp [hx]⟩

/-- The decoded app offers an update exactly when the request checked for one and the configured
kind is one of the three update kinds. -/
theorem isOffered_appDecoded (m : RespMeta) (a : ReqApp) (x : Resp.App) (h : appDecoded m a = some x) :
    isOffered x = (a.updateCheck.isSome && (m.kind == .update || m.kind == .urgentUpdate || m.kind == .invalidURL)) := by
  unfold appDecoded at h
  cases hu : a.updateCheck with
  | none => rw [hu] at h; simp only [Option.some.injEq] at h; subst h; simp [isOffered]
  | some d =>
    rw [hu] at h
    simp only [Option.map_eq_some_iff] at h
    obtain ⟨uc, huc, rfl⟩ := h
    unfold ucDecoded at huc
    cases hk : m.kind <;> rw [hk] at huc <;> simp at huc <;> subst huc <;> simp [isOffered, offerDecoded] <;> decide

/-- What the client decodes from the mock's reply when no requested app is configured invalid. -/
theorem mock_reply_decodes (cfg : Cfg) (apps : List ReqApp) (vs : List Val) (h : appVals cfg apps = some vs)
    (hu : Utf8Inputs cfg apps)
    (hvalid : ∀ a ∈ apps, ∀ m, lookup a.id cfg.responses = some m → (appDecoded m a).isSome) :
    ∃ r : Response, parseJsonResponse (Mock.render (responseVal vs)) = .ok r ∧ r.apps.map (·.id) = apps.map (·.id) ∧
      ∀ p ∈ r.apps.zip apps, ∃ m, lookup p.2.id cfg.responses = some m ∧ appDecoded m p.2 = some p.1 := by
  obtain ⟨ras, h1, h2, h3⟩ := client_accepts_mock_doc cfg apps vs h hvalid
  exact ⟨_, by rw [mock_doc_reads_back cfg apps vs h hu, h1], h2, h3⟩

/-- **configured_outcome (no update).** If every app the request checks is configured `NoUpdate`,
the check takes the `noUpdate` path: the response is announced, then NoUpdateAvailable, and the
result lists every app with NoUpdate (C04). -/
theorem configured_outcome_no_update (cfg : Cfg) (apps : List ReqApp) (vs : List Val) (h : appVals cfg apps = some vs)
    (hu : Utf8Inputs cfg apps) (env : Env)
    (hkind : ∀ a ∈ apps, ∀ m, lookup a.id cfg.responses = some m → a.updateCheck.isSome = true → m.kind = .noUpdate) :
    ∃ r, pathOf (.ok (Mock.render (responseVal vs))) env = .noUpdate r ∧ r.apps.map (·.id) = apps.map (·.id) := by
  have hvalid : ∀ a ∈ apps, ∀ m, lookup a.id cfg.responses = some m → (appDecoded m a).isSome := by
    intro a ha m hm
    unfold appDecoded
    cases hu' : a.updateCheck with
    | none => rfl
    | some d => have := hkind a ha m hm (by simp [hu']); simp [ucDecoded, this]
  obtain ⟨r, hp, hids, hz⟩ := mock_reply_decodes cfg apps vs h hu hvalid
  refine ⟨r, ?_, hids⟩
  have hnone : offeredApps r = [] := by
    unfold offeredApps
    rw [List.filter_eq_nil_iff]
    intro x hx
    have hlen : r.apps.length = apps.length := by simpa using congrArg List.length hids
    obtain ⟨a, hxa⟩ := zip_mem_left r.apps apps hlen x hx
    obtain ⟨m, hm, hd⟩ := hz (x, a) hxa
    have ha : a ∈ apps := (List.of_mem_zip hxa).2
    rw [isOffered_appDecoded m a x hd]
    cases hu' : a.updateCheck with
    | none => simp
    | some d => have := hkind a ha m hm (by simp [hu']); simp [this]
  unfold pathOf
  simp only [hp, hnone, List.isEmpty_nil, if_true]

/-- **configured_outcome (update / urgent update / invalid URL).** If no requested app is
configured invalid and some app the request checks is configured with an update kind, the response
offers an update: the check goes on to the install plan — and from there by the embedder's answers
(plan, policy decision, installer results) exactly as `pathOf` says. -/
theorem configured_outcome_update (cfg : Cfg) (apps : List ReqApp) (vs : List Val) (h : appVals cfg apps = some vs)
    (hu : Utf8Inputs cfg apps) (env : Env)
    (hvalid : ∀ a ∈ apps, ∀ m, lookup a.id cfg.responses = some m → (appDecoded m a).isSome)
    (hupd : ∃ a ∈ apps, a.updateCheck.isSome = true ∧ ∃ m, lookup a.id cfg.responses = some m ∧
      (m.kind = .update ∨ m.kind = .urgentUpdate ∨ m.kind = .invalidURL)) :
    ∃ r, (offeredApps r).isEmpty = false ∧
      pathOf (.ok (Mock.render (responseVal vs))) env =
        (match env.plan with
         | none => .planFailed r
         | some planId =>
           match env.canStart with
           | .deferred => .deferred r
           | .denied => .denied r
           | .ok => .installed r planId env.results) := by
  obtain ⟨r, hp, hids, hz⟩ := mock_reply_decodes cfg apps vs h hu hvalid
  have hlen : r.apps.length = apps.length := by simpa using congrArg List.length hids
  obtain ⟨a, ha, hau, m, hm, hk⟩ := hupd
  obtain ⟨x, hxa⟩ := zip_mem_right r.apps apps hlen a ha
  obtain ⟨m', hm', hd⟩ := hz (x, a) hxa
  rw [hm] at hm'; cases hm'
  have hoff : isOffered x = true := by
    rw [isOffered_appDecoded m a x hd, hau]
    rcases hk with hk | hk | hk <;> simp [hk]
  have hne : (offeredApps r).isEmpty = false := by
    have : x ∈ offeredApps r := by
      unfold offeredApps
      exact List.mem_filter.2 ⟨(List.of_mem_zip hxa).1, hoff⟩
    cases hl : offeredApps r with
    | nil => rw [hl] at this; cases this
    | cons _ _ => rfl
  refine ⟨r, hne, ?_⟩
  unfold pathOf
  simp only [hp, hne, Bool.false_eq_true, if_false]
  cases env.plan with
  | none => rfl
  | some p => cases env.canStart <;> rfl

end Omaha.Mock
