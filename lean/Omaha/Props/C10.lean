/-
C10 — Every update outcome is reported to Omaha exactly once.

`sents` is the projection of a trace on the event-report requests put on the wire (their payload:
per app entry, the app id and the events it carries).  `pathBuilders` lists, for each path of a
check (C04's `Path`), the reports the state machine intends to send, as request builders; the
central theorem says the requests on the wire are exactly those, in order, minus the ones that
cannot be built — one request each, never repeated.  Per report, `reportEvent_lost` /
`reportResults_lost` say that an undelivered report is counted lost once per event it carried; and
C04's `performUpdateCheck_result` / `performUpdateCheck_marks` show that result and announcements
are functions of the path, on which delivery of reports has no influence.
-/
import Omaha.Props.C05
import Omaha.Lemmas.Store

namespace Omaha.SM

open Omaha

abbrev Payload := List (Bytes × List Omaha.Event)

def payloadOf (b : Request.Builder) : Payload := b.entries.map fun e => (e.app.id, e.events)

def πSent : Action → Option Payload
  | .http r _ => if r.kind = .eventReport then some (r.apps.map fun a => (a.id, a.events)) else none
  | _ => none

/-- Event-report requests on the wire so far, newest first. -/
def sents (w : World) : List Payload := proj πSent w

def NoSent (ok : Tag → Bool) : Prop := ok (.http .eventReport) = false

theorem πSent_none {ok : Tag → Bool} (h : NoSent ok) (a : Action) (ha : ok a.tag = true) : πSent a = none := by
  cases a with
  | http r o =>
    simp only [πSent]
    split
    · rename_i hk
      simp only [Action.tag, hk] at ha
      rw [h] at ha; cases ha
    · rfl
  | _ => rfl

theorem sents_of_addsT {ok : Tag → Bool} (hq : NoSent ok) {w w' : World} (h : AddsT ok w w') : sents w' = sents w :=
  proj_of_addsT πSent h (πSent_none hq)

theorem sents_emit (a : Action) (w : World) : sents (emit a w) = (πSent a).toList ++ sents w := proj_emit _ _ _
theorem sents_yield (e : Event) (w : World) : sents (yieldEv e w) = sents w := by unfold yieldEv; rw [sents_emit]; rfl
theorem sents_metric (m : Metric) (w : World) : sents (metric m w) = sents w := by unfold metric; rw [sents_emit]; rfl

/-- Tag sets without event reports. -/
def tNoEv : Tag → Bool
  | .http k => k != .eventReport
  | _ => true

theorem noSent_tNoEv : NoSent tNoEv := rfl

/-! ### One report = at most one request, with exactly the builder's payload -/

theorem sents_omahaRequest (b : Request.Builder) (w : World) :
    sents (omahaRequest .eventReport b w).2 =
      (if buildError w b = none then [payloadOf b] else []) ++ sents w := by
  unfold omahaRequest
  split
  · rename_i e he
    rw [sents_emit]; simp [he, πSent]
  · rename_i he
    simp only [he, if_true]
    rw [sents_of_addsT noSent_tNoEv (addsT_handleOutcome tNoEv rfl rfl _ _)]
    obtain ⟨req, hk, ht⟩ := sendRequest_trace .eventReport b w
    unfold sents proj
    rw [ht]
    simp only [List.filterMap_cons, πSent, hk, if_true]
    have : req.apps = wireApps b := by
      have := sendRequest_trace .eventReport b w
      -- the witness of `sendRequest_trace` is the request built from `b`
      unfold sendRequest at ht
      simp only [emit, popHttp_trace] at ht
      split at ht <;> (injection ht with h1 _; injection h1 with h2 _; rw [← h2])
    rw [this]
    simp [payloadOf, wireApps, List.map_map, Function.comp_def]

theorem buildError_requestId (w : World) (b : Request.Builder) (g : Option Bytes) :
    buildError w { b with requestId := g } = buildError w b := rfl

/-- The builder of a template report: `ev` for every app of `apps` that has an entry in `nv`, with the
app's current version as previous version and the entry as next version. -/
def eventBuilder (params : RequestParams) (ev : Omaha.Event) (apps : List App) (session : Nat)
    (nv : List (Bytes × Option Bytes)) (ns : Option Nat) : Request.Builder :=
  { (apps.foldl (fun b app =>
      match lookup app.id nv with
      | some next =>
        b.apply (.event app { ev with previousVersion := some (Version.print app.version), nextVersion := next,
                                      downloadTimeMs := ns.bind durationMs })
      | none => b) ({ params := params } : Request.Builder)) with sessionId := some (guidBytes session) }

def resultsBuilder (params : RequestParams) (evs : List (App × Omaha.Event)) (session : Nat) : Request.Builder :=
  { (evs.foldl (fun b (x : App × Omaha.Event) => b.apply (.event x.1 x.2)) ({ params := params } : Request.Builder)) with
    sessionId := some (guidBytes session) }

/-- Can this report be put on the wire at all (URL and header values acceptable)? -/
def buildable (w : World) (b : Request.Builder) : Bool := (buildError w b).isNone

theorem buildable_frame {w w' : World} (f : Frame w w') (b : Request.Builder) : buildable w' b = buildable w b := by
  unfold buildable buildError
  rw [f.cfg, f.cup]

theorem reportEvent_eq (params : RequestParams) (ev : Omaha.Event) (apps : List App) (session : Nat)
    (nv : List (Bytes × Option Bytes)) (ns : Option Nat) (w : World) :
    reportEvent params ev apps session nv ns w =
      match (omahaRequest .eventReport (withRequestId (eventBuilder params ev apps session nv ns) w).1
              (withRequestId (eventBuilder params ev apps session nv ns) w).2).1 with
      | .ok _ => (omahaRequest .eventReport (withRequestId (eventBuilder params ev apps session nv ns) w).1
              (withRequestId (eventBuilder params ev apps session nv ns) w).2).2
      | .error _ => metric (.eventLost ev) (omahaRequest .eventReport (withRequestId (eventBuilder params ev apps session nv ns) w).1
              (withRequestId (eventBuilder params ev apps session nv ns) w).2).2 := rfl

theorem reportResults_eq (params : RequestParams) (evs : List (App × Omaha.Event)) (session : Nat) (w : World) :
    reportResults params evs session w =
      match (omahaRequest .eventReport (withRequestId (resultsBuilder params evs session) w).1
              (withRequestId (resultsBuilder params evs session) w).2).1 with
      | .ok _ => (omahaRequest .eventReport (withRequestId (resultsBuilder params evs session) w).1
              (withRequestId (resultsBuilder params evs session) w).2).2
      | .error _ => evs.foldl (fun w (x : App × Omaha.Event) => metric (.eventLost x.2) w)
          (omahaRequest .eventReport (withRequestId (resultsBuilder params evs session) w).1
              (withRequestId (resultsBuilder params evs session) w).2).2 := rfl

theorem buildable_iff (w : World) (b : Request.Builder) : buildError w b = none ↔ buildable w b = true := by
  unfold buildable; cases buildError w b <;> simp

/-- **single_shot_reports (template).** A template report is one request with the template's
payload — or none when it cannot be built — and nothing else of that kind. -/
theorem reportEvent_sents (params : RequestParams) (ev : Omaha.Event) (apps : List App) (session : Nat)
    (nv : List (Bytes × Option Bytes)) (ns : Option Nat) (w : World) :
    sents (reportEvent params ev apps session nv ns w) =
      (if buildable w (eventBuilder params ev apps session nv ns)
       then [payloadOf (eventBuilder params ev apps session nv ns)] else []) ++ sents w := by
  rw [reportEvent_eq]
  generalize hb : eventBuilder params ev apps session nv ns = b
  have key := sents_omahaRequest (withRequestId b w).1 (withRequestId b w).2
  have h1 : buildError (withRequestId b w).2 (withRequestId b w).1 = buildError w b := rfl
  have h2 : payloadOf (withRequestId b w).1 = payloadOf b := rfl
  have h3 : sents (withRequestId b w).2 = sents w := rfl
  rw [h1, h2, h3] at key
  simp only [buildable_iff] at key
  split
  · exact key
  · rw [sents_metric]; exact key

/-- **single_shot_reports (per-app results).** -/
theorem reportResults_sents (params : RequestParams) (evs : List (App × Omaha.Event)) (session : Nat) (w : World) :
    sents (reportResults params evs session w) =
      (if buildable w (resultsBuilder params evs session)
       then [payloadOf (resultsBuilder params evs session)] else []) ++ sents w := by
  rw [reportResults_eq]
  generalize hb : resultsBuilder params evs session = b
  have key := sents_omahaRequest (withRequestId b w).1 (withRequestId b w).2
  have h1 : buildError (withRequestId b w).2 (withRequestId b w).1 = buildError w b := rfl
  have h2 : payloadOf (withRequestId b w).1 = payloadOf b := rfl
  have h3 : sents (withRequestId b w).2 = sents w := rfl
  rw [h1, h2, h3] at key
  simp only [buildable_iff] at key
  split
  · exact key
  · rw [sents_of_addsT noSent_tNoEv (addsT_lostFold tNoEv rfl evs _)]; exact key


/-! ### Lost reports: counted once per event, in the report's own call -/

def isLost : Action → Option Omaha.Event
  | .metric (.eventLost e) => some e
  | _ => none

def losts (w : World) : List Omaha.Event := proj isLost w

/-- Did the exchange deliver the report? -/
def delivered (b : Request.Builder) (w : World) : Bool := isOk (omahaRequest .eventReport (withRequestId b w).1 (withRequestId b w).2).1

theorem losts_omahaRequest (k : ReqKind) (b : Request.Builder) (w : World) : losts (omahaRequest k b w).2 = losts w := by
  have h := addsT_omahaRequest (tReq k) k (by cases k <;> rfl) rfl rfl rfl b w
  exact proj_of_addsT isLost h (fun a ha => by cases a <;> first | rfl | (simp [Action.tag, tReq] at ha))

/-- **lost_once (template).** An undelivered template report is counted lost exactly once; a
delivered one not at all. -/
theorem reportEvent_lost (params : RequestParams) (ev : Omaha.Event) (apps : List App) (session : Nat)
    (nv : List (Bytes × Option Bytes)) (ns : Option Nat) (w : World) :
    losts (reportEvent params ev apps session nv ns w) =
      (if delivered (eventBuilder params ev apps session nv ns) w then [] else [ev]) ++ losts w := by
  rw [reportEvent_eq]
  unfold delivered
  generalize eventBuilder params ev apps session nv ns = b
  have key := losts_omahaRequest .eventReport (withRequestId b w).1 (withRequestId b w).2
  have h3 : losts (withRequestId b w).2 = losts w := rfl
  rw [h3] at key
  cases h : (omahaRequest .eventReport (withRequestId b w).1 (withRequestId b w).2).1 with
  | ok body => simp [isOk, key]
  | error f =>
    simp only [isOk]
    unfold losts at key ⊢
    unfold metric
    rw [proj_emit, key]; rfl

theorem losts_fold (evs : List (App × Omaha.Event)) (w : World) :
    losts (evs.foldl (fun w (x : App × Omaha.Event) => metric (.eventLost x.2) w) w) =
      (evs.map (·.2)).reverse ++ losts w := by
  induction evs generalizing w with
  | nil => rfl
  | cons e rest ih =>
    simp only [List.foldl_cons, List.map_cons, List.reverse_cons, List.append_assoc]
    rw [ih]
    unfold losts metric
    rw [proj_emit]; rfl

/-- **lost_once (per-app results).** An undelivered per-app report is counted lost once for each
event it carried, in order. -/
theorem reportResults_lost (params : RequestParams) (evs : List (App × Omaha.Event)) (session : Nat) (w : World) :
    losts (reportResults params evs session w) =
      (if delivered (resultsBuilder params evs session) w then [] else (evs.map (·.2)).reverse) ++ losts w := by
  rw [reportResults_eq]
  unfold delivered
  generalize resultsBuilder params evs session = b
  have key := losts_omahaRequest .eventReport (withRequestId b w).1 (withRequestId b w).2
  have h3 : losts (withRequestId b w).2 = losts w := rfl
  rw [h3] at key
  cases h : (omahaRequest .eventReport (withRequestId b w).1 (withRequestId b w).2).1 with
  | ok body => simp [isOk, key]
  | error f =>
    simp only [isOk]
    rw [losts_fold, key]; rfl

/-! ### Which reports a check sends: a function of its path -/

/-- The reports of a path, as builders, in order. `ns` is the measured install duration. -/
def pathBuilders (params : RequestParams) (apps : List App) (session : Nat) (ns : Option Nat) : Path → List Request.Builder
  | .noResponse _ => []
  | .outside => []
  | .noUpdate _ => []
  | .unparseable => [eventBuilder params (eventError 0) apps session (apps.map fun a => (a.id, none)) none]
  | .planFailed r => [eventBuilder params (eventError 1) apps session (nextVersions r) none]
  | .deferred r => [eventBuilder params eventDeferred apps session (nextVersions r) none]
  | .denied r => [eventBuilder params (eventError 3) apps session (nextVersions r) none]
  | .installed r _ rs =>
    [eventBuilder params (eventSuccess 13) apps session (nextVersions r) none,
     resultsBuilder params (resultEvents (knownResults apps r rs) ns) session] ++
    (if (installedApps (knownResults apps r rs)).isEmpty then []
     else [eventBuilder params (eventSuccess 3) (installedApps (knownResults apps r rs)) session (nextVersions r) ns])

theorem pathBuilders_installed (params : RequestParams) (apps : List App) (session : Nat) (ns : Option Nat)
    (r : Resp.Response) (p : Nat) (rs : List AppResult) :
    pathBuilders params apps session ns (.installed r p rs) =
      [eventBuilder params (eventSuccess 13) apps session (nextVersions r) none] ++
      ([resultsBuilder params (resultEvents (knownResults apps r rs) ns) session] ++
       (if (installedApps (knownResults apps r rs)).isEmpty then []
        else [eventBuilder params (eventSuccess 3) (installedApps (knownResults apps r rs)) session (nextVersions r) ns])) := rfl

def sentOf (w : World) (bs : List Request.Builder) : List Payload :=
  ((bs.filter (buildable w)).map payloadOf).reverse

theorem sents_reportEvent_frame {w0 w : World} (f : Frame w0 w) (params : RequestParams) (ev : Omaha.Event)
    (apps : List App) (session : Nat) (nv : List (Bytes × Option Bytes)) (ns : Option Nat) :
    sents (reportEvent params ev apps session nv ns w) =
      sentOf w0 [eventBuilder params ev apps session nv ns] ++ sents w := by
  rw [reportEvent_sents, buildable_frame f]
  unfold sentOf
  cases hb : buildable w0 (eventBuilder params ev apps session nv ns) <;> simp [hb]

theorem sentOf_append (w : World) (a b : List Request.Builder) : sentOf w (a ++ b) = sentOf w b ++ sentOf w a := by
  unfold sentOf; simp [List.filter_append]

theorem installPhase_sents (params : RequestParams) (apps : List App) (session : Nat)
    (response : Resp.Response) (planId : Nat) (w0 w : World) (f0 : Frame w0 w) :
    ∃ ns, sents (installPhase params apps session (nextVersions response) response planId w).2 =
      sentOf w0 (pathBuilders params apps session ns (.installed response planId w.env.results)) ++ sents w := by
  unfold installPhase
  simp only
  have f1 := (f0.trans (frame_yield (.state .installing) w)).trans
    (frame_reportEvent params (eventSuccess 13) apps session (nextVersions response) none _)
  have s1 : sents (reportEvent params (eventSuccess 13) apps session (nextVersions response) none (yieldEv (.state .installing) w)) =
      sentOf w0 [eventBuilder params (eventSuccess 13) apps session (nextVersions response) none] ++ sents w := by
    rw [sents_reportEvent_frame (f0.trans (frame_yield _ w)), sents_yield]
  generalize reportEvent params (eventSuccess 13) apps session (nextVersions response) none (yieldEv (.state .installing) w) = w1 at f1 s1
  have f2 := f1.trans (frame_recordFirstSeen (planIdText planId) w1.clock.wall w1)
  have s2 : sents (recordFirstSeen (planIdText planId) w1.clock.wall w1).2 = sents w1 :=
    sents_of_addsT noSent_tNoEv (addsT_recordFirstSeen tNoEv rfl _ _ _)
  generalize recordFirstSeen (planIdText planId) w1.clock.wall w1 = r2 at f2 s2
  have f3 := f2.trans (frame_runInstall planId r2.2)
  have s3 : sents (runInstall planId r2.2) = sents r2.2 := sents_of_addsT noSent_tNoEv (addsG_runInstall tNoEv rfl rfl _ _)
  generalize runInstall planId r2.2 = w3 at f3 s3
  have f4 := f3.trans (frame_durationMetric w1.clock.wall r2.2.env.results w3)
  have s4 : sents (durationMetric w1.clock.wall r2.2.env.results w3).2 = sents w3 :=
    sents_of_addsT noSent_tNoEv (addsG_durationMetric tNoEv rfl _ _ _)
  generalize durationMetric w1.clock.wall r2.2.env.results w3 = r4 at f4 s4
  refine ⟨r4.1, ?_⟩
  have hres : r2.2.env.results = w.env.results := by
    have := f2.results; have h0 := f0.results; rw [this, h0]
  -- the two or three reports after the install
  have s5 : sents (reportInstall params apps session (nextVersions response) response r2.2.env.results r4.1 r4.2) =
      sentOf w0 ([resultsBuilder params (resultEvents (knownResults apps response w.env.results) r4.1) session] ++
        (if (installedApps (knownResults apps response w.env.results)).isEmpty then []
         else [eventBuilder params (eventSuccess 3) (installedApps (knownResults apps response w.env.results)) session (nextVersions response) r4.1])) ++
        sents r4.2 := by
    unfold reportInstall
    simp only
    rw [hres]
    have e1 : sents (reportResults params (resultEvents (knownResults apps response w.env.results) r4.1) session r4.2) =
        sentOf w0 [resultsBuilder params (resultEvents (knownResults apps response w.env.results) r4.1) session] ++ sents r4.2 := by
      rw [reportResults_sents, buildable_frame f4]
      unfold sentOf
      cases hb : buildable w0 (resultsBuilder params (resultEvents (knownResults apps response w.env.results) r4.1) session) <;> simp [hb]
    split
    · rename_i he
      simp only [he, if_true, List.append_nil]
      exact e1
    · rw [sents_reportEvent_frame (f4.trans (frame_reportResults _ _ _ _)), e1, sentOf_append, List.append_assoc]
  have f5 := f4.trans (frame_reportInstall params apps session (nextVersions response) response r2.2.env.results r4.1 r4.2)
  generalize reportInstall params apps session (nextVersions response) response r2.2.env.results r4.1 r4.2 = w5 at f5 s5
  have s6 : sents (finishInstall planId r2.1 w3.clock.wall (nextVersions response) response r2.2.env.results w5).2 = sents w5 := by
    unfold finishInstall
    split
    · rw [sents_yield]; exact sents_of_addsT noSent_tNoEv (addsG_insterrFold tNoEv rfl _ _)
    · exact sents_of_addsT noSent_tNoEv (addsG_recordFinish tNoEv rfl rfl rfl _ _ _ _ _)
  rw [s6, s5, s4, s3, s2, s1, pathBuilders_installed, sentOf_append, sentOf_append, sentOf_append]
  simp only [List.append_assoc]

/-- **reports_by_path.** For every world and environment, the event reports a check puts on the
wire after its response are exactly the reports of its path, in order, each at most once (those
that cannot be built at all are dropped — and counted lost, see `reportEvent_lost`). -/
theorem responsePhase_sents (params : RequestParams) (apps : List App) (session : Nat) (body : Bytes) (w : World) :
    ∃ ns, sents (responsePhase params apps session body w).2 =
      sentOf w (pathBuilders params apps session ns (pathOf (.ok body) w.env)) ++ sents w := by
  unfold responsePhase pathOf
  split
  · rename_i hp; exact ⟨none, by simp [hp, pathBuilders, sentOf]⟩
  · rename_i hp
    refine ⟨none, ?_⟩
    unfold parseFailedPhase
    simp only [hp]
    rw [sents_reportEvent_frame (frame_yield _ w), sents_yield]; rfl
  · rename_i response hp
    simp only [hp]
    split
    · rename_i ho
      refine ⟨none, ?_⟩
      unfold noUpdatePhase
      simp [ho, pathBuilders, sentOf, sents_yield]
    · rename_i ho
      unfold updatePhase
      simp only [emit_env]
      have fy : Frame w (yieldEv (.serverResponse response) w) := frame_yield _ _
      have sy : sents (yieldEv (.serverResponse response) w) = sents w := sents_yield _ _
      have ey : (yieldEv (.serverResponse response) w).env = w.env := rfl
      generalize yieldEv (.serverResponse response) w = wy at fy sy ey
      rw [ey]
      cases hpl : w.env.plan with
      | none =>
        refine ⟨none, ?_⟩
        simp only
        unfold planFailedPhase
        rw [sents_reportEvent_frame (((fy.trans (frame_emit _ _)).trans (frame_yield _ _)).trans (frame_yield _ _)),
          sents_yield, sents_yield, sents_emit, sy]
        rfl
      | some planId =>
        simp only
        have fe : Frame w (emit (.policyCanStart planId w.env.canStart) (emit (.plan params.source wy.cup.isSome (some planId)) wy)) :=
          (fy.trans (frame_emit _ _)).trans (frame_emit _ _)
        have se : sents (emit (.policyCanStart planId w.env.canStart) (emit (.plan params.source wy.cup.isSome (some planId)) wy)) = sents w := by
          rw [sents_emit, sents_emit, sy]; rfl
        have ee : (emit (.policyCanStart planId w.env.canStart) (emit (.plan params.source wy.cup.isSome (some planId)) wy)).env = w.env := by
          rw [emit_env, emit_env, ey]
        generalize emit (.policyCanStart planId w.env.canStart) (emit (.plan params.source wy.cup.isSome (some planId)) wy) = we at fe se ee
        cases hc : w.env.canStart with
        | deferred =>
          refine ⟨none, ?_⟩
          simp only
          unfold deferredPhase
          rw [sents_yield, sents_reportEvent_frame fe, se]; rfl
        | denied =>
          refine ⟨none, ?_⟩
          simp only
          unfold deniedPhase
          rw [sents_reportEvent_frame fe, se]; rfl
        | ok =>
          simp only
          obtain ⟨ns, h⟩ := installPhase_sents params apps session response planId w we fe
          refine ⟨ns, ?_⟩
          rw [h, se]
          have : we.env.results = w.env.results := by rw [ee]
          rw [this]

/-- The request phase sends no event report. -/
theorem requestPhase_sents (params : RequestParams) (apps : List App) (w : World) :
    sents (requestPhase params apps w).2.2 = sents w := by
  unfold requestPhase
  simp only
  rw [sents_of_addsT noSent_tNoEv (addsT_attemptLoop tNoEv rfl rfl rfl rfl rfl rfl rfl _ _ _ _)]
  have : sents (nextGuid (reportCheckInterval params.source (yieldEv (.state (.checking params.source)) w))).2 =
      sents (reportCheckInterval params.source (yieldEv (.state (.checking params.source)) w)) := rfl
  rw [this, sents_of_addsT noSent_tNoEv (addsT_reportCheckInterval tNoEv rfl _ _), sents_yield]

/-- **reports_by_path (whole check).** -/
theorem performUpdateCheck_sents (params : RequestParams) (apps : List App) (w : World) :
    ∃ ns, sents (performUpdateCheck params apps w).2 =
      sentOf w (pathBuilders params apps (sessionOf params w) ns (pathOf (requestPhase params apps w).1 w.env)) ++ sents w := by
  rw [performUpdateCheck_eq]
  have hs := requestPhase_sents params apps w
  have hf := requestPhase_frame params apps w
  generalize requestPhase params apps w = r at hs hf
  obtain ⟨res, attempts, w2⟩ := r
  cases res with
  | error f => exact ⟨none, by simp only [sents_metric]; simpa [pathOf, pathBuilders, sentOf] using hs⟩
  | ok body =>
    simp only
    obtain ⟨ns, h⟩ := responsePhase_sents params apps (sessionOf params w) body (metric (.requestsPerCheck attempts true) w2)
    refine ⟨ns, ?_⟩
    rw [h, sents_metric]
    have hs' : sents w2 = sents w := hs
    rw [hs']
    have he : (metric (.requestsPerCheck attempts true) w2).env = w2.env := rfl
    have h1 : w2.env.plan = w.env.plan := hf.plan
    have h2 : w2.env.canStart = w.env.canStart := hf.canStart
    have h3 : w2.env.results = w.env.results := hf.results
    have henv : pathOf (.ok body) (metric (.requestsPerCheck attempts true) w2).env = pathOf (.ok body) w.env := by
      rw [he]; unfold pathOf; simp only [h1, h2, h3]
    rw [henv]
    congr 1
    unfold sentOf
    have hb : ∀ b, buildable (metric (.requestsPerCheck attempts true) w2) b = buildable w b := fun b =>
      buildable_frame (hf.trans (frame_metric _ _)) b
    congr 2
    exact List.filter_congr (fun b _ => hb b)


/-! ### What a report says: which apps, which versions -/

theorem insertAndModify_new (entries : List Request.AppEntry) (app : App) (f : Request.AppEntry → Request.AppEntry)
    (h : ∀ e ∈ entries, e.app.id ≠ app.id) :
    Request.insertAndModify entries app f = entries ++ [f { app := app }] := by
  induction entries with
  | nil => rfl
  | cons x xs ih =>
    unfold Request.insertAndModify
    have hx : x.app.id ≠ app.id := h x (by simp)
    simp only [hx, if_false, List.cons_append]
    rw [ih (fun e he => h e (by simp [he]))]

/-- The event a template report carries for one app. -/
def appEvent (ev : Omaha.Event) (a : App) (next : Option Bytes) (ns : Option Nat) : Omaha.Event :=
  { ev with previousVersion := some (Version.print a.version), nextVersion := next, downloadTimeMs := ns.bind durationMs }

theorem foldEvents_entries (ev : Omaha.Event) (nv : List (Bytes × Option Bytes)) (ns : Option Nat)
    (apps : List App) (b : Request.Builder) (hnd : (apps.map (·.id)).Nodup)
    (hdis : ∀ e ∈ b.entries, ∀ a ∈ apps, e.app.id ≠ a.id) :
    (apps.foldl (fun b app =>
      match lookup app.id nv with
      | some next => b.apply (.event app (appEvent ev app next ns))
      | none => b) b).entries =
    b.entries ++ apps.filterMap fun a => (lookup a.id nv).map fun next =>
      ({ app := a, events := [appEvent ev a next ns] } : Request.AppEntry) := by
  induction apps generalizing b with
  | nil => simp
  | cons a rest ih =>
    simp only [List.foldl_cons, List.filterMap_cons]
    have hnd' : (rest.map (·.id)).Nodup := (List.nodup_cons.1 (by simpa using hnd)).2
    have hnotin : a.id ∉ rest.map (·.id) := (List.nodup_cons.1 (by simpa using hnd)).1
    cases hl : lookup a.id nv with
    | none =>
      simp only [Option.map_none]
      exact ih b hnd' (fun e he x hx => hdis e he x (by simp [hx]))
    | some next =>
      simp only [Option.map_some]
      have hnew : Request.insertAndModify b.entries a (Request.pushEvent (appEvent ev a next ns)) =
          b.entries ++ [{ app := a, events := [appEvent ev a next ns] }] := by
        rw [insertAndModify_new _ _ _ (fun e he => hdis e he a (by simp))]
        rfl
      rw [ih]
      · simp only [Request.Builder.apply, hnew, List.append_assoc, List.singleton_append]
      · exact hnd'
      · intro e he x hx
        simp only [Request.Builder.apply, hnew, List.mem_append, List.mem_singleton] at he
        rcases he with he | rfl
        · exact hdis e he x (by simp [hx])
        · intro hid
          exact hnotin (by simp only [List.mem_map]; exact ⟨x, hx, hid.symm⟩)

/-- **event_fields.** With distinct app ids, a template report carries, for exactly the apps of the
set that have an entry in the next-version table (the known apps offered an update) and in
app-set order, one event each: the template with the app's current version as previous version and
the table's entry (the manifest version, if any) as next version. -/
theorem eventBuilder_payload (params : RequestParams) (ev : Omaha.Event) (apps : List App) (session : Nat)
    (nv : List (Bytes × Option Bytes)) (ns : Option Nat) (hnd : (apps.map (·.id)).Nodup) :
    payloadOf (eventBuilder params ev apps session nv ns) =
      apps.filterMap fun a => (lookup a.id nv).map fun next => (a.id, [appEvent ev a next ns]) := by
  unfold payloadOf eventBuilder
  simp only
  have := foldEvents_entries ev nv ns apps { params := params } hnd (fun e he => by simp at he)
  unfold appEvent at this
  rw [this]
  simp only [List.nil_append, List.map_filterMap]
  congr 1
  funext a
  cases lookup a.id nv <;> rfl

theorem lookup_foldSet {α} (k : Bytes) (f : α → Bytes) (g : α → Option Bytes) (l : List α) (acc : List (Bytes × Option Bytes)) :
    (lookup k (l.foldl (fun acc a => setAssoc (f a) (g a) acc) acc)).isSome =
      ((lookup k acc).isSome || l.any fun a => f a == k) := by
  induction l generalizing acc with
  | nil => simp
  | cons a rest ih =>
    simp only [List.foldl_cons, List.any_cons]
    rw [ih, lookup_setAssoc]
    by_cases h : f a = k
    · simp [h]
    · have : (f a == k) = false := by simpa using h
      simp [h, this]

/-- The next-version table has an entry exactly for the ids of the response apps offered an update. -/
theorem nextVersions_has (r : Resp.Response) (k : Bytes) :
    (lookup k (nextVersions r)).isSome = (offeredApps r).any fun a => a.id == k := by
  unfold nextVersions offeredApps
  have := lookup_foldSet k (fun a : Resp.App => a.id) (fun a => a.manifestVersion) (r.apps.filter isOffered) []
  simp only [lookup, Option.isSome_none, Bool.false_or] at this
  exact this

/-- The parse-error report lists every app of the set, with no next version. -/
theorem parseError_all_apps (apps : List App) (a : App) (h : a ∈ apps) :
    (lookup a.id (apps.map fun a => (a.id, (none : Option Bytes)))).isSome := by
  induction apps with
  | nil => simp at h
  | cons x xs ih =>
    simp only [List.map_cons, lookup]
    by_cases hx : x.id = a.id
    · simp [hx]
    · simp only [hx, if_false]
      simp only [List.mem_cons] at h
      rcases h with rfl | h
      · exact absurd rfl hx
      · exact ih h

/-- Event codes of the protocol table. -/
theorem event_codes :
    (eventError 0).eventType = 3 ∧ (eventError 0).eventResult = 0 ∧ (eventError 0).errorcode = some 0 ∧
    (eventError 1).errorcode = some 1 ∧ (eventError 3).errorcode = some 3 ∧ (eventError 2).errorcode = some 2 ∧
    eventDeferred.eventType = 3 ∧ eventDeferred.eventResult = 9 ∧
    (eventSuccess 13).eventType = 13 ∧ (eventSuccess 13).eventResult = 1 ∧
    (eventSuccess 14).eventType = 14 ∧ (eventSuccess 3).eventType = 3 ∧ (eventSuccess 3).eventResult = 1 ∧
    resultEvent .installed = eventSuccess 14 ∧ resultEvent .deferred = eventDeferred ∧
    (∀ m, resultEvent (.failed m) = eventError 2) := by
  refine ⟨rfl, rfl, rfl, rfl, rfl, rfl, rfl, rfl, rfl, rfl, rfl, rfl, rfl, rfl, rfl, fun _ => rfl⟩

/-- The update-complete report goes to exactly the apps whose installer result was Installed. -/
theorem installedApps_spec (known : List (App × Resp.App × AppResult)) (a : App) :
    a ∈ installedApps known ↔ ∃ ra, (a, ra, AppResult.installed) ∈ known := by
  unfold installedApps
  simp only [List.mem_filterMap]
  constructor
  · rintro ⟨⟨x, ra, r⟩, hm, h⟩
    cases r <;> simp at h
    subst h; exact ⟨ra, hm⟩
  · rintro ⟨ra, hm⟩
    exact ⟨(a, ra, .installed), hm, rfl⟩

/-! ### Non-vacuity -/

example : payloadOf (eventBuilder {} eventDeferred
    [{ id := [97], version := ⟨1, 2, 3, 4⟩ }, { id := [98], version := ⟨5, 0, 0, 0⟩ }] 7 [([98], some [50])] none) =
    [([98], [{ eventType := 3, eventResult := 9, previousVersion := some (Version.print ⟨5, 0, 0, 0⟩), nextVersion := some [50] }])] := by
  decide

end Omaha.SM
