/-
Text-level JSON round trip and its uses (C15, C16, C17).

`Lemmas/JsonText` proves that the model of serde_json's reader, in the mode every materialising
position accepts, reads the model of serde_json's compact writer back as the same document
(`parse_render`).  Here it is applied to the request body the client builds (C15): the bytes on the
wire are a JSON document that reads back as exactly the value whose members C15's value-level
theorems describe.
-/
import Omaha.Lemmas.JsonText
import Omaha.Props.C15
import Omaha.Lemmas.JsonVal
import Omaha.Props.C17

namespace Omaha.Request

open Omaha Omaha.JsonP

/-- **parse_render.** For every document whose strings are UTF-8, whose integers are u64 and whose
nesting is below 100: reading the rendered text gives the document back. -/
theorem parse_render (j : Json) (hg : Good j) (hd : depthOf j < 100) : JsonP.parse (Json.render j) = .ok (toVal j) :=
  JsonP.parse_render j hg hd

/-- An ASCII string literal is UTF-8. -/
macro "lit" : term => `(lit_ascii _ (by decide))

/-! ### Well-formed request contents (what Rust's types guarantee: `String`s are UTF-8, numbers are u32/u64) -/

abbrev Ascii (s : Bytes) : Prop := ∀ b ∈ s, b.toNat < 128
abbrev Utf8 (s : Bytes) : Prop := validUtf8 s = true
def OptUtf8 : Option Bytes → Prop
  | some s => Utf8 s
  | none => True

structure WfApp (a : App) : Prop where
  id : Utf8 a.id
  fp : OptUtf8 a.fp
  cid : OptUtf8 a.cohort.id
  chint : OptUtf8 a.cohort.hint
  cname : OptUtf8 a.cohort.name
  uc : ∀ n, a.userCounting = some n → n ≤ Dec.u64Max
  extras : ∀ kv ∈ a.extras, Utf8 kv.1 ∧ Utf8 kv.2

structure WfEvent (e : Event) : Prop where
  ty : e.eventType ≤ Dec.u64Max
  res : e.eventResult ≤ Dec.u64Max
  code : ∀ c, e.errorcode = some c → 0 ≤ c ∧ c.toNat ≤ Dec.u64Max
  pv : OptUtf8 e.previousVersion
  nv : OptUtf8 e.nextVersion
  dl : ∀ n, e.downloadTimeMs = some n → n ≤ Dec.u64Max

structure WfEntry (e : AppEntry) : Prop where
  app : WfApp e.app
  events : ∀ ev ∈ e.events, WfEvent ev

structure WfReq (cfg : Config) (b : Builder) : Prop where
  name : Utf8 cfg.updaterName
  platform : Utf8 cfg.os.platform
  osv : Utf8 cfg.os.version
  sp : Utf8 cfg.os.sp
  arch : Utf8 cfg.os.arch
  rid : ∀ g, b.requestId = some g → Ascii g
  sid : ∀ g, b.sessionId = some g → Ascii g
  entries : ∀ e ∈ b.entries, WfEntry e

theorem joinWith_ascii (d : UInt8) (hd : d.toNat < 128) : (ps : List Bytes) → (∀ p ∈ ps, Ascii p) → Ascii (Bytes.joinWith d ps)
  | [], _ => fun _ h => by cases h
  | [p], h => h p (by simp)
  | p :: q :: r, h => by
    intro b hb
    simp only [Bytes.joinWith, List.mem_append, List.mem_cons] at hb
    rcases hb with hb | hb | hb
    · exact h p (by simp) b hb
    · subst hb; exact hd
    · exact joinWith_ascii d hd (q :: r) (fun x hx => h x (by simp [hx])) b hb

theorem render_ascii (n : Nat) : Ascii (Dec.render n) := by
  intro b hb
  have := Dec.render_all_digits n b hb
  unfold Dec.isDigit at this
  omega

theorem print_utf8 (v : Version) : Utf8 (Version.print v) := by
  apply validUtf8_ascii
  apply joinWith_ascii 46 (by decide)
  intro p hp
  simp only [Version.toList, List.map_cons, List.map_nil, List.mem_cons, List.not_mem_nil, or_false] at hp
  rcases hp with rfl | rfl | rfl | rfl <;> exact render_ascii _

theorem braced_utf8 (g : Bytes) (h : Ascii g) : Utf8 (braced g) := by
  apply validUtf8_ascii
  intro b hb
  simp only [braced, List.mem_cons, List.mem_append, List.not_mem_nil, or_false] at hb
  rcases hb with rfl | hb | rfl
  · decide
  · exact h b hb
  · decide

theorem goodM_optStr (k : String) (o : Option Bytes) (hk : Utf8 (Bytes.ofString k)) (ho : OptUtf8 o) : GoodM (optStr k o) := by
  cases o with
  | none => simp [optStr, GoodM]
  | some s => exact ⟨hk, ho, trivial⟩

theorem goodM_optNat (k : String) (o : Option Nat) (hk : Utf8 (Bytes.ofString k)) (ho : ∀ n, o = some n → n ≤ Dec.u64Max) :
    GoodM (optNat k o) := by
  cases o with
  | none => simp [optNat, GoodM]
  | some n => exact ⟨hk, ⟨by omega, by simpa using ho n rfl⟩, trivial⟩

theorem goodM_flag (k : String) (b : Bool) (hk : Utf8 (Bytes.ofString k)) : GoodM (flagMember k b) := by
  cases b
  · simp [flagMember, GoodM]
  · exact ⟨hk, trivial, trivial⟩

theorem depthM_optStr (k : String) (o : Option Bytes) : depthM (optStr k o) = 0 := by
  cases o <;> simp [optStr, depthM, depthOf]
theorem depthM_optNat (k : String) (o : Option Nat) : depthM (optNat k o) = 0 := by
  cases o <;> simp [optNat, depthM, depthOf]
theorem depthM_flag (k : String) (b : Bool) : depthM (flagMember k b) = 0 := by
  cases b <;> simp [flagMember, depthM, depthOf]

theorem good_eventJson (e : Event) (h : WfEvent e) : Good (eventJson e) ∧ depthOf (eventJson e) = 1 := by
  unfold eventJson
  constructor
  · simp only [Good, GoodM, List.cons_append, List.nil_append, List.append_assoc, goodM_append]
    refine ⟨lit, ⟨by omega, by simpa using h.ty⟩, lit, ⟨by omega, by simpa using h.res⟩, ?_⟩
    refine ⟨?_, goodM_optStr _ _ lit h.pv, goodM_optStr _ _ lit h.nv, goodM_optNat _ _ lit h.dl⟩
    cases hc : e.errorcode with
    | none => trivial
    | some c => exact ⟨lit, h.code c hc, trivial⟩
  · simp only [depthOf, List.cons_append, List.nil_append, List.append_assoc, depthM, depthM_append, depthM_optStr, depthM_optNat]
    cases e.errorcode <;> simp [depthM, depthOf]

theorem goodM_extras (l : List (Bytes × Bytes)) (h : ∀ kv ∈ l, Utf8 kv.1 ∧ Utf8 kv.2) :
    GoodM (l.map fun (k, v) => (k, Json.str v)) ∧ depthM (l.map fun (k, v) => (k, Json.str v)) = 0 := by
  induction l with
  | nil => exact ⟨trivial, rfl⟩
  | cons kv l ih =>
    obtain ⟨k, v⟩ := kv
    have := ih (fun x hx => h x (by simp [hx]))
    have h0 := h (k, v) (by simp)
    exact ⟨⟨h0.1, h0.2, this.1⟩, by simp [depthM, depthOf, this.2]⟩

theorem good_appJson (e : AppEntry) (h : WfEntry e) : Good (appJson e) ∧ depthOf (appJson e) ≤ 3 := by
  unfold appJson
  have hx := goodM_extras e.app.extras h.app.extras
  constructor
  · simp only [Good, List.cons_append, List.nil_append, List.append_assoc]
    refine ⟨lit, h.app.id, lit, print_utf8 _, ?_⟩
    simp only [goodM_append, cohortMembers]
    refine ⟨goodM_optStr _ _ lit h.app.fp, ⟨⟨goodM_optStr _ _ lit h.app.cid,
      goodM_optStr _ _ lit h.app.chint⟩, goodM_optStr _ _ lit h.app.cname⟩, ?_, ?_, ?_, hx.1⟩
    · cases e.updateCheck with
      | none => trivial
      | some ds =>
        obtain ⟨d, s⟩ := ds
        refine ⟨lit, ?_, trivial⟩
        simp only [Good, goodM_append]
        exact ⟨goodM_flag _ _ lit, goodM_flag _ _ lit⟩
    · split
      · trivial
      · refine ⟨lit, ?_, trivial⟩
        simp only [Good]
        rw [goodL_map]
        exact fun ev hev => (good_eventJson ev (h.events ev hev)).1
    · split
      · refine ⟨lit, ?_, trivial⟩
        simp only [Good, goodM_append]
        exact ⟨goodM_optNat _ _ lit h.app.uc, goodM_optNat _ _ lit h.app.uc⟩
      · trivial
  · simp only [depthOf, List.cons_append, List.nil_append, List.append_assoc, depthM, depthM_append, cohortMembers,
      depthM_optStr, hx.2]
    have hev : depthL (e.events.map eventJson) ≤ 1 :=
      depthL_map_le _ _ 1 (fun ev hev => by rw [(good_eventJson ev (h.events ev hev)).2]; exact Nat.le_refl 1)
    rcases e.updateCheck with _ | ⟨d, s⟩ <;> by_cases h1 : e.events.isEmpty = true <;> by_cases h2 : e.ping = true <;>
      simp only [h1, h2, if_true, if_false, depthM, depthOf, depthM_append, depthM_flag, depthM_optNat, Bool.false_eq_true] <;> omega

/-- The request document is within the round trip's domain: nesting depth at most six. -/
theorem good_bodyJson (cfg : Config) (b : Builder) (h : WfReq cfg b) : Good (bodyJson cfg b) ∧ depthOf (bodyJson cfg b) ≤ 6 := by
  unfold bodyJson
  have hsrc : Utf8 (sourceText b.params.source) := by cases b.params.source <;> exact lit
  have hrid : OptUtf8 (b.requestId.map braced) := by
    cases hr : b.requestId with
    | none => trivial
    | some g => exact braced_utf8 g (h.rid g hr)
  have hsid : OptUtf8 (b.sessionId.map braced) := by
    cases hr : b.sessionId with
    | none => trivial
    | some g => exact braced_utf8 g (h.sid g hr)
  constructor
  · simp only [Good, List.cons_append, List.nil_append, List.append_assoc]
    refine ⟨lit, ⟨lit, lit, lit, h.name, lit, print_utf8 _, lit, hsrc, lit, trivial, ?_⟩, trivial⟩
    simp only [goodM_append]
    refine ⟨goodM_optStr _ _ lit hrid, goodM_optStr _ _ lit hsid, lit, ?_, lit, ?_, trivial⟩
    · exact ⟨lit, h.platform, lit, h.osv, lit, h.sp, lit, h.arch, trivial⟩
    · simp only [Good]
      rw [goodL_map]
      exact fun e he => (good_appJson e (h.entries e he)).1
  · have happs : depthL (b.entries.map appJson) ≤ 3 :=
      depthL_map_le _ _ 3 (fun e he => (good_appJson e (h.entries e he)).2)
    simp only [depthOf, List.cons_append, List.nil_append, List.append_assoc, depthM, depthM_append, depthM_optStr]
    omega

/-- **body_reads_back (C15, text level).** The body the client puts on the wire is a JSON document
that a serde_json-grammar reader — in the mode every position accepts — reads back as exactly the
value `bodyJson` whose members `body_members`, `app_members`, `event_members`, … describe: nothing
is lost, added or altered by the writer's escaping, and the text is not outside the protocol's JSON. -/
theorem body_reads_back (cfg : Config) (b : Builder) (h : WfReq cfg b) (w : Wire) (hb : build cfg b = some w) :
    JsonP.parse w.body = .ok (toVal (bodyJson cfg b)) := by
  rw [build_spec] at hb
  split at hb
  · cases hb
    have := good_bodyJson cfg b h
    exact parse_render _ this.1 (by omega)
  · cases hb

end Omaha.Request

/-! ### The mock server's document, as text (C17) -/

namespace Omaha.Mock

open Omaha Omaha.JsonP Omaha.Resp

/-- Close the leaves of a `GoodV` goal on a literal document: ASCII keys and literals, `True`, hypotheses. -/
macro "good_leaves" : tactic =>
  `(tactic| (repeat' apply And.intro) <;> first | exact lit_ascii _ (by decide) | exact trivial | assumption | (unfold Dec.u64Max; omega) | rfl)

theorem goodV_offer (codebase pkg : Bytes) (urgent : Bool) (hc : validUtf8 codebase = true) (hp : validUtf8 pkg = true) :
    GoodV (offer codebase pkg urgent) ∧ depthV (offer codebase pkg urgent) ≤ 5 := by
  unfold offer
  cases urgent
  · constructor
    · simp only [GoodV, GoodVM, GoodVL, Bool.false_eq_true, if_false, List.nil_append]
      good_leaves
    · simp [depthV, depthVM, depthVL]
  · constructor
    · simp only [GoodV, GoodVM, GoodVL, if_true, List.cons_append, List.nil_append]
      good_leaves
    · simp [depthV, depthVM, depthVL]

theorem goodV_updateCheckVal (m : RespMeta) (hc : validUtf8 m.codebase = true) (hp : validUtf8 m.packageName = true) :
    GoodV (updateCheckVal m) ∧ depthV (updateCheckVal m) ≤ 5 := by
  unfold updateCheckVal
  cases m.kind
  · constructor
    · simp only [GoodV, GoodVM]; good_leaves
    · simp [depthV, depthVM]
  · exact goodV_offer _ _ _ hc hp
  · exact goodV_offer _ _ _ hc hp
  · constructor
    · simp only [GoodV, GoodVM]; good_leaves
    · simp [depthV, depthVM]
  · exact goodV_offer _ _ _ (lit_ascii _ (by decide)) hp

theorem goodV_appObj (id : Bytes) (uc : Option Val) (hid : validUtf8 id = true)
    (hu : ∀ u, uc = some u → GoodV u ∧ depthV u ≤ 5) : GoodV (appObj id uc) ∧ depthV (appObj id uc) ≤ 6 := by
  unfold appObj
  cases uc with
  | none =>
    constructor
    · simp only [GoodV, GoodVM, List.cons_append, List.nil_append]; good_leaves
    · simp [depthV, depthVM]
  | some u =>
    obtain ⟨h1, h2⟩ := hu u rfl
    constructor
    · simp only [GoodV, GoodVM, List.cons_append, List.nil_append]; good_leaves
    · simp only [depthV, depthVM, List.cons_append, List.nil_append]; omega

/-- What Rust's `String` guarantees for the server's configuration and the request it answers. -/
def Utf8Inputs (cfg : Cfg) (apps : List ReqApp) : Prop :=
  (∀ a ∈ apps, validUtf8 a.id = true) ∧
  ∀ k m, (k, m) ∈ cfg.responses → validUtf8 m.codebase = true ∧ validUtf8 m.packageName = true

theorem lookup_mem (k : Bytes) (l : List (Bytes × RespMeta)) (m : RespMeta) (h : lookup k l = some m) : ∃ k', (k', m) ∈ l := by
  induction l with
  | nil => simp [lookup] at h
  | cons kv l ih =>
    obtain ⟨k', v⟩ := kv
    simp only [lookup] at h
    split at h
    · cases h; exact ⟨k', by simp⟩
    · obtain ⟨k'', hk⟩ := ih h; exact ⟨k'', by simp [hk]⟩

theorem goodV_appVals (cfg : Cfg) : (apps : List ReqApp) → (vs : List Val) → appVals cfg apps = some vs → Utf8Inputs cfg apps →
    ∀ v ∈ vs, GoodV v ∧ depthV v ≤ 6
  | [], vs, h, _ => by simp [appVals] at h; subst h; intro v hv; cases hv
  | a :: rest, vs, h, hu => by
    simp only [appVals] at h
    cases hv : appVal cfg a with
    | none => simp [hv] at h
    | some v0 =>
      cases hr : appVals cfg rest with
      | none => simp [hv, hr] at h
      | some rs =>
        simp only [hv, hr, Option.some.injEq] at h
        subst h
        intro v hmem
        simp only [List.mem_cons] at hmem
        rcases hmem with rfl | hmem
        · obtain ⟨m, hm, hshape⟩ := appVal_shape cfg a v hv
          obtain ⟨k', hk⟩ := lookup_mem _ _ _ hm
          have hcm := hu.2 k' m hk
          rw [hshape]
          apply goodV_appObj _ _ (hu.1 a (by simp))
          intro u hu'
          cases hau : a.updateCheck with
          | none => rw [hau] at hu'; cases hu'
          | some d => rw [hau] at hu'; cases hu'; exact goodV_updateCheckVal m hcm.1 hcm.2
        · exact goodV_appVals cfg rest rs hr ⟨fun x hx => hu.1 x (by simp [hx]), hu.2⟩ v hmem

theorem goodV_responseVal (vs : List Val) (h : ∀ v ∈ vs, GoodV v ∧ depthV v ≤ 6) :
    GoodV (responseVal vs) ∧ depthV (responseVal vs) ≤ 9 := by
  unfold responseVal
  constructor
  · simp only [GoodV, GoodVM, goodVL_iff]
    refine ⟨lit_ascii _ (by decide), ⟨lit_ascii _ (by decide), fun v hv => (h v hv).1, ?_⟩, trivial⟩
    good_leaves
  · have := depthVL_le vs 6 (fun v hv => (h v hv).2)
    simp only [depthV, depthVM]
    omega

/-- The rendered document starts with `{`: the client's prefix stripping leaves it alone. -/
theorem stripXssi_render_obj (kvs : List (Bytes × Val)) : stripXssi (Mock.render (.obj kvs)) = Mock.render (.obj kvs) := by
  unfold stripXssi Mock.render
  simp [toJson, Json.render, xssiPrefix, List.isPrefixOf]

/-- **mock_doc_reads_back (C17, text level).** The bytes the mock server sends are read by the
client's parser — JSON text reader included — as exactly the document `responseVal vs` that
`client_accepts_mock_doc` / `mock_apps_in_order` describe. -/
theorem mock_doc_reads_back (cfg : Cfg) (apps : List ReqApp) (vs : List Val) (h : appVals cfg apps = some vs)
    (hu : Utf8Inputs cfg apps) :
    parseJsonResponse (Mock.render (responseVal vs)) = decodeWrapper (responseVal vs) := by
  obtain ⟨hg, hd⟩ := goodV_responseVal vs (goodV_appVals cfg apps vs h hu)
  unfold parseJsonResponse
  have : responseVal vs = .obj [(s "response", .obj [
      (s "app", .arr vs),
      (s "daystart", .obj [(s "elapsed_days", .num (.uint 4775)), (s "elapsed_seconds", .num (.uint 48810))]),
      (s "protocol", .str (s "3.0")),
      (s "server", .str (s "prod"))])] := rfl
  rw [this, stripXssi_render_obj, ← this, parse_render_val _ hg (by omega)]
  rfl

/-! ### Any response document, as text (C16) -/

theorem stripXssi_prefixed (x : Bytes) : stripXssi (xssiPrefix ++ x) = x := by
  unfold stripXssi
  simp [xssiPrefix, List.isPrefixOf]

/-- **decode_encode (C16, text level).** Every well-formed response value, written as JSON text by
a serde_json-grammar writer — with or without the `)]}'` safety prefix — is decoded by the client's
parser, text reader included, to exactly that value.  (`GoodV`: strings are UTF-8 and numbers are
u64, also inside extension attributes; nesting below the reader's limit.) -/
theorem decode_text_encode (r : Response) (h : r.WF) (hg : GoodV (encWrapper r)) (hd : depthV (encWrapper r) < 100) :
    parseJsonResponse (Mock.render (encWrapper r)) = .ok r ∧
    parseJsonResponse (xssiPrefix ++ Mock.render (encWrapper r)) = .ok r := by
  have key : decodeParsed (JsonP.parse (Mock.render (encWrapper r))) = .ok r := by
    rw [parse_render_val _ hg hd]
    exact decode_encode r h
  constructor
  · unfold parseJsonResponse
    have : encWrapper r = .obj [(s "response", encResponse r)] := rfl
    rw [this, stripXssi_render_obj, ← this]
    exact key
  · unfold parseJsonResponse
    rw [stripXssi_prefixed]
    exact key

def sampleApp : Resp.App := { id := [97], status := .ok, cohort := {}, ping := none, updateCheck := none, events := none, extras := [] }
def sampleResponse : Response := { protocol := s "3.0", server := none, daystart := some { elapsedDays := some 4775, elapsedSeconds := none }, apps := [sampleApp] }

/-- Non-vacuity: a response with one app offering nothing is within the domain. -/
example : GoodV (encWrapper sampleResponse) := by
  simp only [sampleResponse, sampleApp, encWrapper, encResponse, encOpt, encDayStart, encNat, encApp, encStatus, List.map_cons,
    List.map_nil, List.append_nil, GoodV, GoodVM, GoodVL]
  good_leaves

end Omaha.Mock
