/-
History-level clauses about identifiers, shared by C03, C06 and C10.

The model draws GUIDs and nonces from two counters (`nGuid`, `nNonce`): the k-th `GUID::new()` of
the real code is the draw `k`, the k-th nonce the handler generates is the draw `k`; the harness
canonicalises the real values to first-occurrence indices, so "the real code used a new GUID / a new
nonce here" is exactly "the model used the next draw here" (uniqueness of the *values* of distinct
draws is a property of the RNG and is observed by the streams, not proved).

* C03: with a CUP handler configured every request of every history carries a nonce (is decorated),
  without one none does, and no nonce draw is used twice.
* C06 / C10: every request of a check — each attempt, each retry, each event report — carries the
  check's session id and a request id that is a later draw than every earlier one and than the
  session id.
-/
import Omaha.Lemmas.SMDraws

namespace Omaha.SM

open Omaha

/-- **every_request_decorated, no_nonce_reuse (C03, histories).** Over any number of iterations of
`run` — checks with their retries and event reports, pings while waiting to reboot, throttled or
denied iterations, from any start state — every request put on the wire carries a nonce exactly when
a CUP handler is configured, and the nonces of all requests are pairwise distinct draws. -/
theorem every_request_decorated_fresh_nonce (us : List UnitEnv) (rs : RunState) (w : World) :
    ∃ d, (runUnits us rs w).2.2.trace = d ++ w.trace ∧
      (∀ r o, Action.http r o ∈ d → r.nonceDraw.isSome = w.cup.isSome) ∧
      (d.filterMap nonceOf).Nodup := by
  obtain ⟨d, e, _, n, k⟩ := history_draws_fresh us rs w
  exact ⟨d, e, fun r o h => (k r o h).1, n⟩

/-- With CUP the number of distinct nonces is the number of requests: none is shared. -/
theorem nonce_count_eq_request_count (us : List UnitEnv) (rs : RunState) (w : World) (hc : w.cup.isSome = true) :
    ∃ d, (runUnits us rs w).2.2.trace = d ++ w.trace ∧
      (d.filterMap nonceOf).length = (d.filter fun a => match a with | .http _ _ => true | _ => false).length := by
  obtain ⟨d, e, -, -, k⟩ := history_draws_fresh us rs w
  refine ⟨d, e, ?_⟩
  clear e
  induction d with
  | nil => rfl
  | cons a rest ih =>
    have ih' := ih (fun r o h => k r o (List.mem_cons_of_mem _ h))
    cases a with
    | http r o =>
      have := (k r o (List.mem_cons_self ..)).1
      rw [hc] at this
      obtain ⟨n, hn⟩ := Option.isSome_iff_exists.1 this
      simp only [List.filterMap_cons, nonceOf, hn, List.filter_cons, List.length_cons, if_true, ih']
    | _ => simpa [List.filterMap_cons, nonceOf, List.filter_cons] using ih'

/-- **fresh_request_id_each (histories).** Every request of every history has a request id, and no
request id draw is used twice. -/
theorem request_ids_never_reused (us : List UnitEnv) (rs : RunState) (w : World) :
    ∃ d, (runUnits us rs w).2.2.trace = d ++ w.trace ∧
      (∀ r o, Action.http r o ∈ d → r.requestDraw.isSome = true) ∧
      (d.filterMap ridOf).Nodup := by
  obtain ⟨d, e, r, _, k⟩ := history_draws_fresh us rs w
  exact ⟨d, e, fun r o h => (k r o h).2, r⟩

/-- **same_session_fresh_request_id (C06, C10).** All requests of one update check — every
update-check attempt including retries, and every event report — carry the same session id (the
draw made at the start of the check); their request ids are strictly increasing draws (newest
first in the trace), each later than the session id's draw: each request has a fresh request id,
different from every other and from the session id. -/
theorem check_same_session_fresh_request_ids (params : RequestParams) (apps : List App) (w : World) :
    ∃ d, (performUpdateCheck params apps w).2.trace = d ++ w.trace ∧
      (∀ r o, Action.http r o ∈ d → r.sessionDraw = some (sessionOf params w)) ∧
      (d.filterMap ridOf).Pairwise (· > ·) ∧
      (∀ g ∈ d.filterMap ridOf, sessionOf params w < g) := by
  obtain ⟨d, e, r, _, _, _, _⟩ := check_draws_fresh params apps w
  obtain ⟨d1, e1, p1⟩ := addsR_performUpdateCheck params apps w
  obtain ⟨d2, e2, p2⟩ := check_rids_after_session params apps w
  have h1 : d1 = d := List.append_cancel_right (e1.symm.trans e)
  have h2 : d2 = d := List.append_cancel_right (e2.symm.trans e)
  subst h1
  subst h2
  refine ⟨_, e, ?_, r, p2⟩
  intro r o h
  obtain ⟨b, n, ⟨_, hs, _⟩, hr⟩ := p1 _ h
  rw [hr]
  simp only [mkReq, hs, Option.map_some, guidOf_guidBytes]
  rfl

end Omaha.SM
