/-
C17 — Mock Omaha server conforms to the client it doubles for.

About `Omaha.Mock` (the model of mock-omaha-server's `handle_request`) against the client-side
models `Omaha.Resp` (response decoding) and `Omaha.Cup` (CUP verification).
-/
import Omaha.Mock
import Omaha.Props.C16
import Omaha.Props.C01
import Omaha.Props.C03

namespace Omaha.Mock

open Omaha.Resp Omaha.JsonP

/-! ### The apps of the response: exactly the requested apps, in request order -/

def appIdOf : Val → Option Bytes
  | .obj ((_, .str id) :: _) => some id
  | _ => none

/-- What the server answers for one app: the app object for its id, with the configured update
check when the request asked for one. -/
theorem appVal_shape (cfg : Cfg) (a : ReqApp) (v : Val) (h : appVal cfg a = some v) :
    ∃ m, lookup a.id cfg.responses = some m ∧
      v = appObj a.id (match a.updateCheck with | some _ => some (updateCheckVal m) | none => none) := by
  unfold appVal at h
  cases hm : lookup a.id cfg.responses with
  | none => simp [hm] at h
  | some m =>
    refine ⟨m, rfl, ?_⟩
    simp only [hm] at h
    cases hv : versionOk m a with
    | false => simp [hv] at h
    | true =>
      simp only [hv, Bool.not_true, Bool.false_eq_true, if_false] at h
      cases hu : a.updateCheck with
      | none =>
        simp only [hu] at h
        cases he : a.hasEvent <;> simp [he] at h
        exact h.symm
      | some d =>
        simp only [hu] at h
        by_cases hc : (d != m.assertDisabled || !cohortOk m a) = true
        · simp [hc] at h
        · have hc' : (d != m.assertDisabled || !cohortOk m a) = false := by simpa using hc
          simp [hc'] at h
          exact h.symm

theorem appVal_id (cfg : Cfg) (a : ReqApp) (v : Val) (h : appVal cfg a = some v) : appIdOf v = some a.id := by
  obtain ⟨m, _, hv⟩ := appVal_shape cfg a v h
  rw [hv]; rfl

/-- **mock_apps_in_order.** When the server answers, its document lists one app per requested app,
in request order, with the requested id. -/
theorem mock_apps_in_order (cfg : Cfg) (apps : List ReqApp) (vs : List Val) (h : appVals cfg apps = some vs) :
    vs.map appIdOf = apps.map fun a => some a.id := by
  induction apps generalizing vs with
  | nil => simp [appVals] at h; subst h; rfl
  | cons a rest ih =>
    simp only [appVals] at h
    cases hv : appVal cfg a with
    | none => simp [hv] at h
    | some v =>
      cases hr : appVals cfg rest with
      | none => simp [hv, hr] at h
      | some rs =>
        simp only [hv, hr, Option.some.injEq] at h
        subst h
        simp only [List.map_cons]
        rw [appVal_id cfg a v hv, ih rs hr]

/-! ### The client's parser accepts the document -/

def mockCohort : Cohort := ⟨some (s "1:1:"), some (s "integration-test"), some (s "integration-test")⟩

/-- What the client decodes for an update offer. -/
def offerDecoded (codebase pkg : Bytes) (urgent : Bool) : UpdateCheck :=
  { status := .ok, info := none, urls := some [codebase],
    manifest := some { version := s "0.1.2.3",
                       actions := [{ event := some (s "install"), run := some pkg, extras := [] },
                                   { event := some (s "postinstall"), run := none, extras := [] }],
                       packages := [{ name := pkg, required := true, size := none, hash := none, hashSha256 := none,
                                      fp := s "2.0.1.2.3", extras := [] }] },
    extras := if urgent then [(s "_urgent_update", .bool true)] else [] }

theorem decode_offer (codebase pkg : Bytes) (urgent : Bool) :
    decodeUpdateCheck (offer codebase pkg urgent) = .ok (offerDecoded codebase pkg urgent) := by
  cases urgent <;>
    simp (config := { decide := true }) [offer, offerDecoded, decodeUpdateCheck, asMapStruct, asStruct, req, opt, field,
      lookupAll, asStatus, asStr, asBool, asList, mapR, decodeUrls, decodeManifest, decodeAction, decodePackage, R.bind,
      extrasOf, insertSorted, asUint]

theorem decode_noupdate :
    decodeUpdateCheck (.obj [(s "status", .str (s "noupdate"))]) =
      .ok { status := .noUpdate, info := none, urls := none, manifest := none, extras := [] } := by
  simp (config := { decide := true }) [decodeUpdateCheck, asMapStruct, req, opt, field, lookupAll, asStatus, R.bind, extrasOf]

/-- The "invalid response" the server can be configured to send is one the client must reject: its
update check has no `status`. -/
theorem decode_invalid : decodeUpdateCheck (.obj [(s "invalid_status", .str (s "invalid"))]) = .err := by
  simp (config := { decide := true }) [decodeUpdateCheck, asMapStruct, req, field, lookupAll, R.bind]


/-- The update check the client decodes for a configured response kind (`none`: it must reject). -/
def ucDecoded (m : RespMeta) : Option UpdateCheck :=
  match m.kind with
  | .update => some (offerDecoded m.codebase m.packageName false)
  | .urgentUpdate => some (offerDecoded m.codebase m.packageName true)
  | .noUpdate => some { status := .noUpdate, info := none, urls := none, manifest := none, extras := [] }
  | .invalidResponse => none
  | .invalidURL => some (offerDecoded (s "http://integration.test.fuchsia.com/") m.packageName false)

theorem decode_updateCheckVal (m : RespMeta) :
    decodeUpdateCheck (updateCheckVal m) = (match ucDecoded m with | some u => .ok u | none => .err) := by
  unfold updateCheckVal ucDecoded
  cases m.kind <;> simp only [decode_offer, decode_noupdate, decode_invalid]

theorem decodeApp_obj_none (id : Bytes) :
    decodeApp (appObj id none) =
      .ok { id := id, status := .ok, cohort := mockCohort, ping := none, updateCheck := none, events := none, extras := [] } := by
  simp (config := { decide := true }) [appObj, decodeApp, asMapStruct, req, opt, field, lookupAll, asStatus, asStr, R.bind,
    extrasOf, mockCohort]

theorem decodeApp_obj_some (id : Bytes) (u : Val) (hu : u ≠ .null) :
    decodeApp (appObj id (some u)) =
      (decodeUpdateCheck u).bind fun uc =>
        .ok { id := id, status := .ok, cohort := mockCohort, ping := none, updateCheck := some uc, events := none, extras := [] } := by
  simp (config := { decide := true }) [appObj, decodeApp, asMapStruct, req, opt, field, lookupAll, asStatus, asStr, R.bind,
    extrasOf, mockCohort]
  cases u with
  | null => exact absurd rfl hu
  | _ => cases decodeUpdateCheck _ <;> simp [R.bind]

theorem updateCheckVal_ne_null (m : RespMeta) : updateCheckVal m ≠ .null := by
  unfold updateCheckVal offer; cases m.kind <;> simp

/-- The app the client decodes for a requested app under a configuration. -/
def appDecoded (m : RespMeta) (a : ReqApp) : Option Resp.App :=
  match a.updateCheck with
  | none => some { id := a.id, status := .ok, cohort := mockCohort, ping := none, updateCheck := none, events := none, extras := [] }
  | some _ =>
    (ucDecoded m).map fun uc =>
      { id := a.id, status := .ok, cohort := mockCohort, ping := none, updateCheck := some uc, events := none, extras := [] }

/-- **client_accepts_mock_doc (per app).** Whatever the server answers for an app, the client's
decoder accepts it field for field — except the deliberately invalid kind, which it rejects. -/
theorem decode_appVal (cfg : Cfg) (a : ReqApp) (v : Val) (h : appVal cfg a = some v) :
    ∃ m, lookup a.id cfg.responses = some m ∧
      decodeApp v = (match appDecoded m a with | some x => .ok x | none => .err) := by
  obtain ⟨m, hm, hv⟩ := appVal_shape cfg a v h
  refine ⟨m, hm, ?_⟩
  rw [hv]
  unfold appDecoded
  cases a.updateCheck with
  | none => exact decodeApp_obj_none a.id
  | some d =>
    simp only
    rw [decodeApp_obj_some _ _ (updateCheckVal_ne_null m), decode_updateCheckVal]
    cases ucDecoded m <;> rfl

/-- **client_accepts_mock_doc (document).** The wrapper, protocol, server, daystart and app list of
the server's document decode; the result has the apps the per-app decoder gives, in order. -/
theorem decode_responseVal (vs : List Val) (apps : List Resp.App) (h : mapR decodeApp vs = .ok apps) :
    decodeWrapper (responseVal vs) =
      .ok { protocol := s "3.0", server := some (s "prod"),
            daystart := some { elapsedDays := some 4775, elapsedSeconds := some 48810 }, apps := apps } := by
  simp (config := { decide := true }) [responseVal, decodeWrapper, decodeResponse, decodeDayStart, asStruct, req, opt, field,
    lookupAll, asStr, asUint, asList, R.bind, h]

theorem decode_responseVal_err (vs : List Val) (h : mapR decodeApp vs = .err) : decodeWrapper (responseVal vs) = .err := by
  simp (config := { decide := true }) [responseVal, decodeWrapper, decodeResponse, decodeDayStart, asStruct, req, opt, field,
    lookupAll, asStr, asUint, asList, R.bind, h]

/-- When no requested app is configured with the invalid kind (or the request carries no update
checks), the whole document is accepted and lists exactly the requested apps in request order with
the configured decisions. -/
theorem client_accepts_mock_doc (cfg : Cfg) (apps : List ReqApp) (vs : List Val) (h : appVals cfg apps = some vs)
    (hvalid : ∀ a ∈ apps, ∀ m, lookup a.id cfg.responses = some m → (appDecoded m a).isSome) :
    ∃ ras, decodeWrapper (responseVal vs) =
        .ok { protocol := s "3.0", server := some (s "prod"),
              daystart := some { elapsedDays := some 4775, elapsedSeconds := some 48810 }, apps := ras } ∧
      ras.map (·.id) = apps.map (·.id) ∧
      ∀ p ∈ ras.zip apps, ∃ m, lookup p.2.id cfg.responses = some m ∧ appDecoded m p.2 = some p.1 := by
  have key : ∃ ras, mapR decodeApp vs = .ok ras ∧ ras.map (·.id) = apps.map (·.id) ∧
      ∀ p ∈ ras.zip apps, ∃ m, lookup p.2.id cfg.responses = some m ∧ appDecoded m p.2 = some p.1 := by
    induction apps generalizing vs with
    | nil => simp [appVals] at h; subst h; exact ⟨[], rfl, rfl, by simp⟩
    | cons a rest ih =>
      simp only [appVals] at h
      cases hv : appVal cfg a with
      | none => simp [hv] at h
      | some v =>
        cases hr : appVals cfg rest with
        | none => simp [hv, hr] at h
        | some rs =>
          simp only [hv, hr, Option.some.injEq] at h
          subst h
          obtain ⟨ras, h1, h2, h3⟩ := ih rs hr (fun x hx => hvalid x (by simp [hx]))
          obtain ⟨m, hm, hd⟩ := decode_appVal cfg a v hv
          have hsome := hvalid a (by simp) m hm
          cases hx : appDecoded m a with
          | none => rw [hx] at hsome; cases hsome
          | some x =>
            rw [hx] at hd
            refine ⟨x :: ras, ?_, ?_, ?_⟩
            · simp [mapR, hd, h1, R.bind]
            · have hid : x.id = a.id := by
                unfold appDecoded at hx
                cases hu : a.updateCheck with
                | none => rw [hu] at hx; simp only [Option.some.injEq] at hx; rw [← hx]
                | some d =>
                  rw [hu] at hx
                  simp only [Option.map_eq_some_iff] at hx
                  obtain ⟨uc, _, rfl⟩ := hx
                  rfl
              simp [hid, h2]
            · intro p hp
              simp only [List.zip_cons_cons, List.mem_cons] at hp
              rcases hp with rfl | hp
              · exact ⟨m, hm, hx⟩
              · exact h3 p hp
  obtain ⟨ras, h1, h2, h3⟩ := key
  exact ⟨ras, decode_responseVal vs ras h1, h2, h3⟩

/-! ### The ETag: signed over exactly what the client verifies -/

/-- **mock_digest_eq_client.** For the cup2key value the client appends (`<key id>:<nonce hex>`),
the digest the server signs is the transaction hash the client verifies against — for every hash
function. -/
theorem mock_digest_eq_client (C : Cup.Crypto) (reqBody respBody : Bytes) (kid : Nat) (nonce : Bytes) :
    digest C reqBody respBody (Cup.cup2key kid nonce) = Cup.txHash C reqBody respBody kid nonce := rfl

/-- The server signs with the key whose id the request names, when it holds it — as latest or as
any historical key — and only then. -/
theorem holdsKey_iff (cfg : Cfg) (id : Nat) : holdsKey cfg id = true ↔ id = cfg.latest ∨ id ∈ cfg.historical := by
  unfold holdsKey
  simp only [Bool.or_eq_true, decide_eq_true_eq, List.contains_iff_mem]
  constructor
  · rintro (h | h)
    · exact Or.inl h.symm
    · exact Or.inr h
  · rintro (h | h)
    · exact Or.inl h.symm
    · exact Or.inr h

theorem inducedEtag_signed (cfg : Cfg) (uri : Bytes) (id : Nat) (v : Bytes) (h : inducedEtag cfg uri = .signed id v) :
    cup2keyOf uri = some v ∧ holdsKey cfg id = true ∧ ∃ idText rest, Cup.splitOnce 58 v = some (idText, rest) ∧ Dec.parseU64 idText = some id := by
  unfold inducedEtag at h
  split at h
  · cases h
  · cases hc : cup2keyOf uri with
    | none => simp [hc] at h
    | some w =>
      simp only [hc] at h
      cases hs : Cup.splitOnce 58 w with
      | none => simp [hs] at h
      | some p =>
        obtain ⟨idText, rest⟩ := p
        simp only [hs] at h
        cases hp : Dec.parseU64 idText with
        | none => simp [hp] at h
        | some i =>
          simp only [hp] at h
          split at h
          · rename_i hk
            cases h
            exact ⟨rfl, hk, idText, rest, hs, hp⟩
          · cases h

theorem nibbleVal_nibbleByte (d : Nat) (h : d < 16) : Hex.nibbleVal (Hex.nibbleByte d) = some d := by
  unfold Hex.nibbleByte Hex.nibbleVal
  rw [Nat.mod_eq_of_lt h]
  split
  · have : (UInt8.ofNat (48 + d)).toNat = 48 + d := by simp [UInt8.toNat_ofNat']; omega
    simp only [this]
    rw [if_pos (by omega)]
    congr 1; omega
  · have : (UInt8.ofNat (87 + d)).toNat = 87 + d := by simp [UInt8.toNat_ofNat']; omega
    simp only [this]
    rw [if_neg (by omega), if_pos (by omega)]
    congr 1; omega

/-- `hex::decode(hex::encode(b)) = b`. -/
theorem hex_decode_encode (b : Bytes) : Hex.decode (Hex.encode b) = some b := by
  induction b with
  | nil => rfl
  | cons x xs ih =>
    simp only [Hex.encode, Hex.decode]
    have hx := x.toNat_lt
    rw [nibbleVal_nibbleByte _ (by omega), nibbleVal_nibbleByte _ (Nat.mod_lt _ (by omega)), ih]
    simp only [Option.some.injEq, List.cons.injEq, and_true]
    apply UInt8.toNat_inj.1
    simp [UInt8.toNat_ofNat']
    omega

/-- The ETag the server sends: `hex(der signature) ":" hex(sha256(request body))`. -/
def etagText (sig reqHash : Bytes) : Bytes := Hex.encode sig ++ 58 :: Hex.encode reqHash

theorem etagText_chars (sig h : Bytes) : ∀ c ∈ etagText sig h, (48 ≤ c.toNat ∧ c.toNat ≤ 58) ∨ (97 ≤ c.toNat ∧ c.toNat ≤ 102) := by
  intro c hc
  unfold etagText at hc
  simp only [List.mem_append, List.mem_cons] at hc
  rcases hc with hc | rfl | hc
  · rcases Uri.hexEncode_chars sig c hc with h1 | h1
    · exact Or.inl ⟨h1.1, by omega⟩
    · exact Or.inr h1
  · exact Or.inl ⟨by decide, by decide⟩
  · rcases Uri.hexEncode_chars h c hc with h1 | h1
    · exact Or.inl ⟨h1.1, by omega⟩
    · exact Or.inr h1

/-- **client_verifies_mock_etag.** If the request's cup2key is the client's own (`kid:hex(nonce)`),
the server's DER signature over its digest is by the key pair registered with the client for `kid`,
and that signature verifies (the one cryptographic hypothesis: signatures made by a key pair verify
under its public key), then the client's verifier accepts the server's ETag
`hex(sig):hex(sha256(request))` for this exchange and returns that signature. -/
theorem client_verifies_mock_etag (C : Cup.Crypto) (keys : List (Nat × Cup.PubKey)) (pk : Cup.PubKey)
    (reqBody respBody nonce sig : Bytes) (kid r sv : Nat)
    (hkey : Cup.lookupKey keys kid = some pk) (hder : Der.decodeSig sig = some (r, sv))
    (hsig : C.ecdsaVerify pk (digest C reqBody respBody (Cup.cup2key kid nonce)) r sv = true) :
    Cup.verifyResponse C keys reqBody nonce (some (etagText sig (C.sha256 reqBody))) respBody kid = .ok sig := by
  rw [mock_digest_eq_client] at hsig
  apply (Cup.verify_iff C keys reqBody nonce _ respBody kid sig).2
  have hchars := etagText_chars sig (C.sha256 reqBody)
  have hvis : (etagText sig (C.sha256 reqBody)).all Cup.visible = true := by
    rw [List.all_eq_true]
    intro c hc
    unfold Cup.visible
    rcases hchars c hc with h | h <;> simp <;> omega
  have hlast : (etagText sig (C.sha256 reqBody)).getLast? ≠ some 34 := by
    intro hl
    have hm : (34 : UInt8) ∈ etagText sig (C.sha256 reqBody) := List.mem_of_getLast? hl
    rcases hchars 34 hm with h | h <;> simp at h
  refine ⟨etagText sig (C.sha256 reqBody), Hex.encode sig, Hex.encode (C.sha256 reqBody), r, sv, pk, rfl, hvis, ?_,
    hex_decode_encode _, hex_decode_encode _, hder, hkey, hsig⟩
  rw [Cup.stripEtag_plain _ hlast]
  exact (Cup.splitOnce_eq_some_iff 58 _ _ _).2 ⟨rfl, Cup.hexEncode_no_colon sig⟩

/-- **for_no_other.** If the same ETag is accepted for two exchanges, the two signed messages are equal
or the signature is valid for two different messages; with an injective pre-image (C01's
`txPreimage_injective`) equal messages mean the same request hash, response hash, key id and nonce. -/
theorem etag_for_no_other (C : Cup.Crypto) (hlen : ∀ m, (C.sha256 m).length = 32)
    (req resp req' resp' nonce nonce' : Bytes) (kid kid' : Nat)
    (h : Cup.txPreimage C req resp kid nonce = Cup.txPreimage C req' resp' kid' nonce') :
    C.sha256 req = C.sha256 req' ∧ C.sha256 resp = C.sha256 resp' ∧ kid = kid' ∧ nonce = nonce' :=
  Cup.txPreimage_injective C hlen req resp req' resp' kid kid' nonce nonce' h

/-! ### Reconfiguration -/

/-- **reconfigure_takes_effect.** After `set_responses_by_appid`, every later request is answered from
the new map only. -/
theorem setResponses_effect (cfg : Cfg) (m : List (Bytes × RespMeta)) (uri : Bytes) (apps : List ReqApp) :
    handle (setResponses cfg m) uri apps = handle { cfg with responses := m } uri apps := rfl

theorem setResponses_keeps_keys (cfg : Cfg) (m : List (Bytes × RespMeta)) :
    (setResponses cfg m).latest = cfg.latest ∧ (setResponses cfg m).historical = cfg.historical ∧
    (setResponses cfg m).etagOverride = cfg.etagOverride ∧ (setResponses cfg m).requireCup = cfg.requireCup :=
  ⟨rfl, rfl, rfl, rfl⟩


/-! ### Non-vacuity -/

def exCfg : Cfg :=
  { responses := [(s "app-b", { kind := .update, codebase := s "http://cb/", packageName := s "pkg" }),
                  (s "app-a", { kind := .noUpdate })],
    latest := 42, historical := [7] }

def exApps : List ReqApp :=
  [{ id := s "app-a", version := s "1.2.3.4", updateCheck := some false, cohort := none, hasEvent := false },
   { id := s "app-b", version := s "1.0.0.0", updateCheck := some false, cohort := none, hasEvent := false }]

example : (appVals exCfg exApps).map (·.map appIdOf) = some [some (s "app-a"), some (s "app-b")] := by decide

example : inducedEtag exCfg (s "/svc?x=1&cup2key=7:00ff") = .signed 7 (s "7:00ff") := by decide
example : inducedEtag exCfg (s "/svc?x=1&cup2key=8:00ff") = .none := by decide
example : inducedEtag exCfg (s "/") = .none := by decide

end Omaha.Mock
