/-
C11 — Every control request gets exactly one, truthful reply.

The schedule of an iteration of `run` fixes where each request arrives: during the outer wait
(`wake`), during the check (`during`) or during the reboot wait (`rebootSteps`).  `replies` is the
projection of the trace on the replies given; the theorems say it is exactly one reply per request
taken, with the value the property prescribes, for every schedule.
-/
import Omaha.Props.C12

namespace Omaha.SM

open Omaha

def πReply : Action → Option (Nat × Reply)
  | .reply id r => some (id, r)
  | _ => none

/-- Replies given so far, newest first. -/
def replies (w : World) : List (Nat × Reply) := proj πReply w

def NoReply (ok : Tag → Bool) : Prop := ok .reply = false

theorem πReply_none {ok : Tag → Bool} (h : NoReply ok) (a : Action) (ha : ok a.tag = true) : πReply a = none := by
  unfold NoReply at h
  cases a <;> first | rfl | (simp [Action.tag, h] at ha)

theorem replies_of_addsT {ok : Tag → Bool} (hq : NoReply ok) {w w' : World} (h : AddsT ok w w') : replies w' = replies w :=
  proj_of_addsT πReply h (πReply_none hq)

theorem replies_emit (a : Action) (w : World) : replies (emit a w) = (πReply a).toList ++ replies w := proj_emit _ _ _
theorem replies_tick (dt : Clock) (w : World) : replies (tick dt w) = replies w := rfl

/-! ### A check replies to nobody by itself -/

/-- Everything a whole check (announcements, requests, install, closing events, persistence) may add. -/
def tCheckAll : Tag → Bool
  | .schedEv | .resultEv => true
  | .stateEv _ => true
  | t => tCheckBody t

theorem tCheckBody_le_all (t : Tag) (h : tCheckBody t = true) : tCheckAll t = true := by
  cases t <;> simp_all [tCheckBody, tCheckAll]

theorem addsT_closeCheck (r : Except CheckErr (List AppResp)) (w : World) : AddsT tCheckAll w (closeCheck r w) := by
  unfold closeCheck
  simp only
  exact (((addsT_yield tCheckAll (.schedule w.ctx.sched) w rfl).trans (addsT_yield tCheckAll (.protocol _) _ rfl)).trans
    (addsT_yield tCheckAll (.result r) _ rfl)).trans (addsT_persistData tCheckAll rfl _)

theorem addsT_startUpdateCheck (params : RequestParams) (w : World) : AddsT tCheckAll w (startUpdateCheck params w).2 := by
  unfold startUpdateCheck
  have h0 : AddsT tCheckAll w (yieldEv (.state (.checking params.source)) w) := addsT_yield _ _ _ rfl
  have h1 := h0.trans ((performUpdateCheck_shape params w.apps w).mono tCheckBody_le_all)
  generalize performUpdateCheck params w.apps w = pr at h1
  obtain ⟨res, w1⟩ := pr
  cases res with
  | none => exact h1
  | some cr =>
    cases cr with
    | ok ok =>
      simp only
      unfold finishCheckOk
      exact (h1.trans ((addsT_prepareOk ok w1).mono tCheckBody_le_all)).trans (addsT_closeCheck _ _)
    | error e =>
      simp only
      unfold finishCheckErr
      exact (h1.trans ((addsT_prepareErr e w1).mono tCheckBody_le_all)).trans (addsT_closeCheck _ _)

theorem noReply_tCheckAll : NoReply tCheckAll := rfl

/-! ### Requests during the reboot wait -/

def ctlId : WaitStep × Clock → Option Nat
  | (.ctl id _, _) => some id
  | _ => none

@[simp] theorem ctlId_fire (i : Nat) (dt : Clock) : ctlId (.fire i, dt) = none := rfl
@[simp] theorem ctlId_ctl (id : Nat) (src : InstallSource) (dt : Clock) : ctlId (.ctl id src, dt) = some id := rfl

theorem noReply_tPing : NoReply tPing := rfl

theorem replies_pingOmaha (w : World) : replies (pingOmaha w).2 = replies w :=
  replies_of_addsT noReply_tPing (addsT_pingOmaha tPing rfl rfl rfl rfl rfl w)

def tNextArm : Tag → Bool
  | .pNext | .schedEv | .timerArm => true
  | _ => false

theorem replies_updateNext_armWait (t : Timing) (w : World) : replies (armWait t (updateNext t w)).2 = replies w :=
  replies_of_addsT (ok := tNextArm) rfl ((addsT_updateNext tNextArm rfl rfl t w).trans (addsT_armWait tNextArm rfl t _))

/-- **reply_exactly_once (reboot wait).** The loop consumes a prefix of the scripted steps; every
request in that prefix gets exactly one reply, AlreadyRunning, in arrival order; nobody else gets
one. -/
theorem rebootLoop_replies (opts : InstallSource) (t30 : Nat) (pingNeed : List Nat) (steps : List (WaitStep × Clock))
    (answers : List Bool) (nexts : List Timing) (w : World) :
    ∃ k, k ≤ steps.length ∧
      replies (rebootLoop opts t30 pingNeed steps answers nexts w).2 =
        (((steps.take k).filterMap ctlId).map fun id => (id, Reply.alreadyRunning)).reverse ++ replies w ∧
      ((rebootLoop opts t30 pingNeed steps answers nexts w).1 = some false → k = steps.length) := by
  induction steps generalizing opts t30 pingNeed answers nexts w with
  | nil => exact ⟨0, Nat.le_refl _, by unfold rebootLoop; rfl, fun _ => rfl⟩
  | cons sd rest ih =>
    obtain ⟨step, dt⟩ := sd
    unfold rebootLoop
    simp only
    cases step with
    | fire i =>
      simp only
      have base : replies (emit (.timerFire i) (tick dt w)) = replies w := by rw [replies_emit]; rfl
      split
      · -- 30-minute timer
        split
        · exact ⟨1, by simp, by simp [replies_emit, base, πReply], fun h => by simp at h⟩
        · obtain ⟨k, hk, hr, hs⟩ := ih opts (emit (.timerArm (.for_ (1800 * 1000000000))) (emit (.policyRebootAllowed opts (popBool answers).1) (emit (.timerFire i) (tick dt w)))).nTimer
            pingNeed (popBool answers).2 nexts
            { emit (.timerArm (.for_ (1800 * 1000000000))) (emit (.policyRebootAllowed opts (popBool answers).1) (emit (.timerFire i) (tick dt w))) with
              nTimer := (emit (.timerArm (.for_ (1800 * 1000000000))) (emit (.policyRebootAllowed opts (popBool answers).1) (emit (.timerFire i) (tick dt w)))).nTimer + 1 }
          refine ⟨k + 1, by simp [hk], ?_, fun h => by simp [hs h]⟩
          rw [hr]
          simp only [List.take_succ_cons, List.filterMap_cons, ctlId_fire, ctlId_ctl]
          congr 1
      · split
        · generalize hp : pingOmaha (emit (.timerFire i) (tick dt w)) = pr
          have hpr : replies pr.2 = replies w := by rw [← hp, replies_pingOmaha, base]
          obtain ⟨r, w1⟩ := pr
          cases r with
          | none => exact ⟨1, by simp, by rw [show replies (none, w1).2 = replies w from hpr]; simp, fun h => by simp at h⟩
          | some u =>
            simp only
            obtain ⟨k, hk, hr, hs⟩ := ih opts t30 (armWait (popTiming nexts).1 (updateNext (popTiming nexts).1 w1)).1
              answers (popTiming nexts).2 (armWait (popTiming nexts).1 (updateNext (popTiming nexts).1 w1)).2
            refine ⟨k + 1, by simp [hk], ?_, fun h => by simp [hs h]⟩
            rw [hr, replies_updateNext_armWait]
            simp only [List.take_succ_cons, List.filterMap_cons, ctlId_fire, ctlId_ctl]
            rw [hpr]
        · obtain ⟨k, hk, hr, hs⟩ := ih opts t30 (pingNeed.filter (· ≠ i)) answers nexts (emit (.timerFire i) (tick dt w))
          refine ⟨k + 1, by simp [hk], ?_, fun h => by simp [hs h]⟩
          rw [hr, base]
          simp only [List.take_succ_cons, List.filterMap_cons, ctlId_fire, ctlId_ctl]
    | ctl id src =>
      simp only
      have base : replies (emit (.reply id .alreadyRunning) (tick dt w)) = (id, .alreadyRunning) :: replies w := by
        rw [replies_emit]; rfl
      split
      · split
        · refine ⟨1, by simp, ?_, fun h => by simp at h⟩
          rw [replies_emit]
          simp [base, πReply]
        · obtain ⟨k, hk, hr, hs⟩ := ih .onDemand t30 pingNeed (popBool answers).2 nexts
            (emit (.policyRebootAllowed .onDemand (popBool answers).1) (emit (.reply id .alreadyRunning) (tick dt w)))
          refine ⟨k + 1, by simp [hk], ?_, fun h => by simp [hs h]⟩
          rw [hr, replies_emit]
          simp [base, πReply]
      · obtain ⟨k, hk, hr, hs⟩ := ih opts t30 pingNeed answers nexts (emit (.reply id .alreadyRunning) (tick dt w))
        refine ⟨k + 1, by simp [hk], ?_, fun h => by simp [hs h]⟩
        rw [hr, base]
        simp


/-- The replies given while waiting to reboot: AlreadyRunning to each request of the consumed
prefix of the script, in order. -/
def RebootReplies (steps : List (WaitStep × Clock)) (rs : List (Nat × Reply)) : Prop :=
  ∃ k, k ≤ steps.length ∧ rs = (((steps.take k).filterMap ctlId).map fun id => (id, Reply.alreadyRunning)).reverse

theorem rebootWait_replies (opts : InstallSource) (u : UnitEnv) (w : World) :
    ∃ rs, RebootReplies u.rebootSteps rs ∧ replies (rebootWait opts u w).2 = rs ++ replies w := by
  unfold rebootWait
  simp only
  have h0 : replies (emit (.policyRebootAllowed opts (popBool u.rebootAllowed).1) w) = replies w := by
    rw [replies_emit]; rfl
  split
  · exact ⟨[], ⟨0, Nat.zero_le _, rfl⟩, by simpa using h0⟩
  · generalize hx : emit (.timerArm (.for_ (1800 * 1000000000))) (emit (.policyRebootAllowed opts (popBool u.rebootAllowed).1) w) = x
    have hxr : replies x = replies w := by rw [← hx, replies_emit, h0]; rfl
    obtain ⟨k, hk, hr, _⟩ := rebootLoop_replies opts x.nTimer
      (armWait (popTiming u.rebootNext).1 (updateNext (popTiming u.rebootNext).1 { x with nTimer := x.nTimer + 1 })).1
      u.rebootSteps (popBool u.rebootAllowed).2 (popTiming u.rebootNext).2
      (armWait (popTiming u.rebootNext).1 (updateNext (popTiming u.rebootNext).1 { x with nTimer := x.nTimer + 1 })).2
    refine ⟨_, ⟨k, hk, rfl⟩, ?_⟩
    rw [hr, replies_updateNext_armWait]
    have : replies ({ x with nTimer := x.nTimer + 1 } : World) = replies x := rfl
    rw [this, hxr]

theorem waitForReboot_replies (opts : InstallSource) (u : UnitEnv) (w : World) :
    ∃ rs, RebootReplies u.rebootSteps rs ∧ replies (waitForReboot opts u w).2 = rs ++ replies w := by
  unfold waitForReboot doReboot
  obtain ⟨rs, hrs, hr⟩ := rebootWait_replies opts u w
  refine ⟨rs, hrs, ?_⟩
  generalize rebootWait opts u w = p at hr
  obtain ⟨d, x⟩ := p
  cases d with
  | none => exact hr
  | some b =>
    cases b
    · exact hr
    · simp only [replies_emit]
      simpa [πReply] using hr

theorem afterCheck_replies (u : UnitEnv) (opts : InstallSource) (reboot : Option Bool) (w : World) :
    ∃ rs, (reboot = some true → RebootReplies u.rebootSteps rs) ∧ (reboot ≠ some true → rs = []) ∧
      replies (afterCheck u opts reboot w).2 = rs ++ replies w := by
  unfold afterCheck
  cases reboot with
  | none => exact ⟨[], ⟨fun h => absurd h (by simp), fun _ => rfl, rfl⟩⟩
  | some b =>
    cases b with
    | false =>
      refine ⟨[], ⟨fun h => absurd h (by simp), fun _ => rfl, ?_⟩⟩
      show replies (yieldEv (.state .idle) w) = [] ++ replies w
      simp [yieldEv, replies_emit, πReply]
    | true =>
      simp only
      obtain ⟨rs, hrs, hr⟩ := waitForReboot_replies opts u (yieldEv (.state .waitingForReboot) w)
      refine ⟨rs, fun _ => hrs, fun h => absurd rfl h, ?_⟩
      have hy : replies (yieldEv (.state .waitingForReboot) w) = replies w := by simp [yieldEv, replies_emit, πReply]
      generalize waitForReboot opts u (yieldEv (.state .waitingForReboot) w) = p at hr
      obtain ⟨r, w1⟩ := p
      cases r with
      | none => simpa [hy] using hr
      | some b => cases b <;> simp [yieldEv, replies_emit, πReply, hy] at hr ⊢ <;> exact hr

theorem replyDuring_replies (during : List (Nat × InstallSource)) (w : World) :
    replies (replyDuring during w) = (during.map fun d => (d.1, Reply.alreadyRunning)).reverse ++ replies w := by
  unfold replyDuring
  induction during generalizing w with
  | nil => rfl
  | cons d rest ih =>
    simp only [List.foldl_cons, List.map_cons, List.reverse_cons, List.append_assoc]
    rw [ih, replies_emit]; rfl

theorem replyCtl_replies (ctl : Option Nat) (r : Reply) (w : World) :
    replies (replyCtl ctl r w) = (ctl.map fun id => (id, r)).toList ++ replies w := by
  unfold replyCtl
  cases ctl with
  | none => rfl
  | some id => rw [replies_emit]; rfl

/-- The decision is positive. -/
def CheckDecision.positive : CheckDecision → Bool
  | .ok _ | .okUpdateDeferred _ => true
  | _ => false

/-- **reply_exactly_once / reply_truthful (one iteration of `run`).** For every schedule:
* the request that ended the outer wait (if any) gets exactly one reply — Started when the policy
  allowed the check, Throttled when it refused;
* every request arriving during the check gets exactly one reply, AlreadyRunning;
* every request taken while waiting to reboot gets exactly one reply, AlreadyRunning;
* and there are no other replies. -/
theorem decideAndCheck_replies (u : UnitEnv) (opts : InstallSource) (ctl : Option Nat) (w : World) :
    ∃ rs, replies (decideAndCheck u opts ctl w).2 =
        rs ++ (if u.allow.positive then (u.during.map fun d => (d.1, Reply.alreadyRunning)).reverse else []) ++
          (ctl.map fun id => (id, if u.allow.positive then Reply.started else Reply.throttled)).toList ++ replies w ∧
      (rs = [] ∨ (u.allow.positive = true ∧ RebootReplies u.rebootSteps rs)) := by
  unfold decideAndCheck
  simp only
  have h0 : ∀ d, replies (emit (.policyAllowed w.apps w.ctx.sched w.ctx.st opts d) w) = replies w := by
    intro d; rw [replies_emit]; rfl
  have pos : ∀ params, u.allow.positive = true →
      ∃ rs, replies (afterCheck u (upgradeOpts u.during opts)
          (startUpdateCheck params (replyDuring u.during (replyCtl ctl .started (emit (.policyAllowed w.apps w.ctx.sched w.ctx.st opts u.allow) w)))).1
          (startUpdateCheck params (replyDuring u.during (replyCtl ctl .started (emit (.policyAllowed w.apps w.ctx.sched w.ctx.st opts u.allow) w)))).2).2 =
        rs ++ (if u.allow.positive then (u.during.map fun d => (d.1, Reply.alreadyRunning)).reverse else []) ++
          (ctl.map fun id => (id, if u.allow.positive then Reply.started else Reply.throttled)).toList ++ replies w ∧
        (rs = [] ∨ (u.allow.positive = true ∧ RebootReplies u.rebootSteps rs)) := by
    intro params hp
    obtain ⟨rs, h1, h2, h3⟩ := afterCheck_replies u (upgradeOpts u.during opts)
      (startUpdateCheck params (replyDuring u.during (replyCtl ctl .started (emit (.policyAllowed w.apps w.ctx.sched w.ctx.st opts u.allow) w)))).1
      (startUpdateCheck params (replyDuring u.during (replyCtl ctl .started (emit (.policyAllowed w.apps w.ctx.sched w.ctx.st opts u.allow) w)))).2
    refine ⟨rs, ?_, ?_⟩
    · rw [h3, replies_of_addsT noReply_tCheckAll (addsT_startUpdateCheck params _), replyDuring_replies, replyCtl_replies, h0]
      simp [hp, List.append_assoc]
    · by_cases hb : (startUpdateCheck params (replyDuring u.during (replyCtl ctl .started (emit (.policyAllowed w.apps w.ctx.sched w.ctx.st opts u.allow) w)))).1 = some true
      · exact Or.inr ⟨hp, h1 hb⟩
      · exact Or.inl (h2 hb)
  cases hd : u.allow with
  | tooSoon => exact ⟨[], by simp [CheckDecision.positive, replyCtl_replies, h0, hd], Or.inl rfl⟩
  | throttled => exact ⟨[], by simp [CheckDecision.positive, replyCtl_replies, h0, hd], Or.inl rfl⟩
  | denied => exact ⟨[], by simp [CheckDecision.positive, replyCtl_replies, h0, hd], Or.inl rfl⟩
  | ok params =>
    have := pos params (by rw [hd]; rfl)
    rw [hd] at this
    exact this
  | okUpdateDeferred params =>
    have := pos params (by rw [hd]; rfl)
    rw [hd] at this
    exact this

/-- Nothing before the decision replies to anybody (the request that ends the wait is answered only
after the policy has decided). -/
theorem noReply_before_decision : NoReply (fun t => tInert t && t != .reply) := rfl

/-! ### On-demand requests upgrade the reboot question -/

/-- An on-demand request during the check makes the reboot question on-demand; scheduled ones do not. -/
theorem upgradeOpts_spec (during : List (Nat × InstallSource)) (opts : InstallSource) :
    upgradeOpts during opts = if ∃ d ∈ during, d.2 = .onDemand then .onDemand else opts := by
  unfold upgradeOpts
  by_cases h : ∃ d ∈ during, d.2 = InstallSource.onDemand
  · have : during.any (fun x => x.2 == .onDemand) = true := by
      rw [List.any_eq_true]
      obtain ⟨d, hd, he⟩ := h
      exact ⟨d, hd, by simp [he]⟩
    simp [h, this]
  · have : during.any (fun x => x.2 == .onDemand) = false := by
      rw [List.any_eq_false]
      intro d hd hc
      exact h ⟨d, hd, by simpa using hc⟩
    simp [h, this]

/-- **ondemand_upgrade.** An on-demand request during the reboot wait is answered AlreadyRunning,
asks the policy at once with on-demand options — rebooting iff it agrees — and from then on the
wait's own options are on-demand. -/
theorem rebootLoop_ondemand_ctl (opts : InstallSource) (t30 : Nat) (pingNeed : List Nat) (id : Nat) (dt : Clock)
    (rest : List (WaitStep × Clock)) (answers : List Bool) (nexts : List Timing) (w : World) :
    rebootLoop opts t30 pingNeed ((.ctl id .onDemand, dt) :: rest) answers nexts w =
      if (popBool answers).1 then
        (some true, emit (.policyRebootAllowed .onDemand true) (emit (.reply id .alreadyRunning) (tick dt w)))
      else
        rebootLoop .onDemand t30 pingNeed rest (popBool answers).2 nexts
          (emit (.policyRebootAllowed .onDemand false) (emit (.reply id .alreadyRunning) (tick dt w))) := by
  conv => lhs; unfold rebootLoop
  cases h : (popBool answers).1 <;> simp [h]

/-- Once on-demand, always on-demand: every later reboot question of the wait carries on-demand
options. -/
def OnDemandQuestions : Action → Prop
  | .policyRebootAllowed o _ => o = .onDemand
  | _ => True

theorem rebootLoop_ondemand_sticky (t30 : Nat) (pingNeed : List Nat) (steps : List (WaitStep × Clock))
    (answers : List Bool) (nexts : List Timing) (w : World) :
    Adds OnDemandQuestions w (rebootLoop .onDemand t30 pingNeed steps answers nexts w).2 := by
  have lift : ∀ {ok : Tag → Bool} {x y : World}, AddsT ok x y → ok .pRebootAllowed = false → Adds OnDemandQuestions x y := by
    intro ok x y h hk
    obtain ⟨d, e, p⟩ := h
    refine ⟨d, e, ?_⟩
    intro a ha
    have := p a ha
    cases a <;> first | trivial | (simp [Action.tag, hk] at this)
  have em : ∀ (a : Action) (x : World), OnDemandQuestions a → Adds OnDemandQuestions x (emit a x) :=
    fun a x h => adds_emit _ _ _ h
  induction steps generalizing t30 pingNeed answers nexts w with
  | nil => unfold rebootLoop; exact Adds.refl _ _
  | cons sd rest ih =>
    obtain ⟨step, dt⟩ := sd
    unfold rebootLoop
    simp only
    have h0 : Adds OnDemandQuestions w (tick dt w) := Adds.of_eq_trace _ _ _ rfl
    cases step with
    | fire i =>
      simp only
      have h1 := h0.trans (em (.timerFire i) _ trivial)
      split
      · have h2 := h1.trans (em (.policyRebootAllowed .onDemand (popBool answers).1) _ rfl)
        split
        · exact h2
        · exact ((h2.trans (em (.timerArm (.for_ (1800 * 1000000000))) _ trivial)).trans (Adds.of_eq_trace _ _ _ rfl)).trans (ih _ _ _ _ _)
      · split
        · have h2 := h1.trans (lift (addsT_pingOmaha tPing rfl rfl rfl rfl rfl _) rfl)
          generalize pingOmaha (emit (.timerFire i) (tick dt w)) = pr at h2
          obtain ⟨r, w1⟩ := pr
          cases r with
          | none => exact h2
          | some u =>
            simp only
            have h3 := h2.trans (lift ((addsT_updateNext tNextArm rfl rfl (popTiming nexts).1 w1).trans
              (addsT_armWait tNextArm rfl (popTiming nexts).1 _)) rfl)
            exact h3.trans (ih _ _ _ _ _)
        · exact h1.trans (ih _ _ _ _ _)
    | ctl id src =>
      simp only
      have h1 := h0.trans (em (.reply id .alreadyRunning) _ trivial)
      split
      · have h2 := h1.trans (em (.policyRebootAllowed .onDemand (popBool answers).1) _ rfl)
        split
        · exact h2
        · exact h2.trans (ih _ _ _ _ _)
      · exact h1.trans (ih _ _ _ _ _)

/-! ### Non-vacuity -/

example : upgradeOpts [(1, .scheduledTask), (2, .onDemand)] .scheduledTask = .onDemand := by decide
example : upgradeOpts [(1, .scheduledTask)] .scheduledTask = .scheduledTask := by decide
example : RebootReplies [(.ctl 5 .onDemand, ⟨0, 0⟩), (.fire 0, ⟨0, 0⟩), (.ctl 6 .scheduledTask, ⟨0, 0⟩)]
    [(6, .alreadyRunning), (5, .alreadyRunning)] := ⟨3, by simp, by decide⟩

end Omaha.SM
