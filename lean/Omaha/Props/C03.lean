/-
C03 — Every CUP request is freshly and faithfully decorated (URL part and metadata).

`decorate` is the model of `decorate_request`'s URL handling.  The theorems say what the
decorated text is made of, that exactly one parameter is added, and — for http/https and
origin-form URLs — that re-parsing the decorated text gives back the same scheme, authority and
path and the old query followed by the new parameter (`reparse`).  The one-draw-per-request part
of the property (no nonce reuse over histories) is a property of the state machine model and is
stated in `Props/SM`; uniqueness of the draws themselves is a property of the RNG and is observed,
not proved.
-/
import Omaha.Uri
import Omaha.Lemmas.Dec
import Omaha.Props.C01

namespace Omaha.Uri

open Omaha

/-! ### What the decorated URL is -/

theorem pathOrSlash_idem (p : Bytes) : pathOrSlash (pathOrSlash p) = pathOrSlash p := by
  unfold pathOrSlash; split <;> simp_all

/-- **decorate_text.** The decorated URL is: scheme (http/https lower-cased), `://`, authority,
path ("" read as "/"), `?`, the existing query followed by `&` if there is one, and
`cup2key=<key id>:<nonce hex>`; a fragment is dropped. -/
theorem decorate_text (url : Bytes) (kid : Nat) (nonce out : Bytes) :
    decorate url kid nonce = .ok out ↔
      ∃ u, parse url = .ok u ∧
        out = schemePrefix u.scheme ++ u.authority ++ pathOrSlash u.path
              ++ 63 :: queryWith u.query (cup2keyName ++ 61 :: Cup.cup2key kid nonce) := by
  unfold decorate
  cases h : parse url with
  | ok u =>
    simp only [R.ok.injEq, exists_eq_left']
    simp [print, appendQuery, querySuffix, pathOrSlash_idem, eq_comm]
  | err => simp
  | outside => simp

/-- **decorate_preserves** (parts). Appending the parameter leaves scheme and authority intact,
reads an empty path as "/", and extends the query by exactly `key=value`. -/
theorem appendQuery_parts (u : Parts) (k v : Bytes) :
    (appendQuery u k v).scheme = u.scheme ∧ (appendQuery u k v).authority = u.authority ∧
    (appendQuery u k v).path = pathOrSlash u.path ∧
    (appendQuery u k v).query = some (queryWith u.query (k ++ 61 :: v)) := by
  simp [appendQuery]

/-- Exactly one parameter is added: splitting the new query at `&` gives the old parameters
followed by the new one. -/
theorem one_parameter_added (q kv : Bytes) (h : (38 : UInt8) ∉ kv) :
    Bytes.splitOn 38 (q ++ 38 :: kv) = Bytes.splitOn 38 q ++ [kv] := by
  induction q with
  | nil => simp [Bytes.splitOn, Bytes.splitOn_of_not_mem 38 kv h]
  | cons x xs ih =>
    simp only [List.cons_append]
    unfold Bytes.splitOn
    by_cases hx : x = 38
    · simp [hx, ih]
    · simp only [hx, if_false, ih]
      cases hs : Bytes.splitOn 38 xs with
      | nil => exact absurd hs (Bytes.splitOn_ne_nil 38 xs)
      | cons p ps => simp

theorem hexEncode_length (b : Bytes) : (Hex.encode b).length = 2 * b.length := by
  induction b with
  | nil => rfl
  | cons x xs ih => simp [Hex.encode, ih]; omega

/-- The parameter value is `<key id decimal>:<64 hex digits>` for a 32-byte nonce, and contains
no `&`, `#` or `=`. -/
theorem cup2key_shape (kid : Nat) (nonce : Bytes) (h : nonce.length = 32) :
    Cup.cup2key kid nonce = Dec.render kid ++ 58 :: Hex.encode nonce ∧ (Hex.encode nonce).length = 64 := by
  refine ⟨rfl, ?_⟩
  rw [hexEncode_length, h]

theorem hexEncode_chars (b : Bytes) : ∀ c ∈ Hex.encode b, (48 ≤ c.toNat ∧ c.toNat ≤ 57) ∨ (97 ≤ c.toNat ∧ c.toNat ≤ 102) := by
  have nib : ∀ d, (48 ≤ (Hex.nibbleByte d).toNat ∧ (Hex.nibbleByte d).toNat ≤ 57) ∨
      (97 ≤ (Hex.nibbleByte d).toNat ∧ (Hex.nibbleByte d).toNat ≤ 102) := by
    intro d
    unfold Hex.nibbleByte
    split
    · left; simp [UInt8.toNat_ofNat']; omega
    · right; simp [UInt8.toNat_ofNat']; omega
  induction b with
  | nil => simp [Hex.encode]
  | cons x xs ih =>
    intro c hc
    simp only [Hex.encode, List.mem_cons] at hc
    rcases hc with rfl | rfl | hc
    · exact nib _
    · exact nib _
    · exact ih c hc

/-- Every byte of the added `cup2key=<id>:<hex>` text is a digit, a lower-case letter, `:` or `=`
— in particular a valid query byte that is none of `&`, `#`, `?`. -/
theorem param_chars (kid : Nat) (nonce : Bytes) :
    ∀ c ∈ cup2keyName ++ 61 :: Cup.cup2key kid nonce,
      queryChar c = true ∧ c ≠ 38 ∧ c ≠ 35 := by
  intro c hc
  simp only [List.mem_append, List.mem_cons, Cup.cup2key] at hc
  have dig : ∀ c : UInt8, (48 ≤ c.toNat ∧ c.toNat ≤ 57) ∨ (97 ≤ c.toNat ∧ c.toNat ≤ 122) ∨ c = 58 ∨ c = 61 →
      queryChar c = true ∧ c ≠ 38 ∧ c ≠ 35 := by
    intro c h
    refine ⟨?_, ?_, ?_⟩
    · unfold queryChar
      rcases h with h | h | h | h
      · simp; omega
      · simp; omega
      · subst h; decide
      · subst h; decide
    · rintro rfl; rcases h with h | h | h | h <;> simp at h
    · rintro rfl; rcases h with h | h | h | h <;> simp at h
  rcases hc with hc | rfl | hc | rfl | hc
  · apply dig
    simp only [cup2keyName, List.mem_cons, List.not_mem_nil, or_false] at hc
    rcases hc with rfl | rfl | rfl | rfl | rfl | rfl | rfl <;> simp
  · exact dig _ (Or.inr (Or.inr (Or.inr rfl)))
  · exact dig _ (Or.inl (Dec.render_all_digits kid c hc))
  · exact dig _ (Or.inr (Or.inr (Or.inl rfl)))
  · rcases hexEncode_chars nonce c hc with h | h
    · exact dig _ (Or.inl h)
    · exact dig _ (Or.inr (Or.inl ⟨h.1, by omega⟩))


/-! ### Re-parsing the decorated URL (**reparse**): scheme, authority, path and the old query are
intact in the text that goes on the wire -/

theorem takeWhile_append_stop {α} (p : α → Bool) (a : List α) (b : α) (r : List α)
    (ha : ∀ x ∈ a, p x = true) (hb : p b = false) : (a ++ b :: r).takeWhile p = a := by
  induction a with
  | nil => simp [List.takeWhile, hb]
  | cons x xs ih =>
    simp only [List.cons_append, List.takeWhile_cons, ha x (by simp), if_true]
    rw [ih (fun y hy => ha y (by simp [hy]))]

theorem takeWhile_all {α} (p : α → Bool) (a : List α) (ha : ∀ x ∈ a, p x = true) : a.takeWhile p = a := by
  induction a with
  | nil => rfl
  | cons x xs ih =>
    simp only [List.takeWhile_cons, ha x (by simp), if_true]
    rw [ih (fun y hy => ha y (by simp [hy]))]

theorem mem_takeWhile {α} (p : α → Bool) (l : List α) : ∀ x ∈ l.takeWhile p, p x = true := by
  induction l with
  | nil => simp
  | cons y ys ih =>
    intro x hx
    simp only [List.takeWhile_cons] at hx
    split at hx
    · rename_i hy
      simp only [List.mem_cons] at hx
      rcases hx with rfl | hx
      · exact hy
      · exact ih x hx
    · simp at hx

/-- What follows a `takeWhile` prefix is empty or starts with an element failing the test. -/
theorem drop_takeWhile_head {α} (p : α → Bool) (l : List α) :
    l.drop (l.takeWhile p).length = [] ∨ ∃ b r, l.drop (l.takeWhile p).length = b :: r ∧ p b = false := by
  induction l with
  | nil => left; rfl
  | cons y ys ih =>
    simp only [List.takeWhile_cons]
    by_cases hy : p y = true
    · simp only [hy, if_true, List.length_cons, List.drop_succ_cons]; exact ih
    · right
      have hy' : p y = false := by simpa using hy
      exact ⟨y, ys, by simp [hy'], hy'⟩

theorem pathChar_not_stop (b : UInt8) (h : pathChar b = true) : (b ≠ 63 && b ≠ 35) = true := by
  have h63 : pathChar 63 = false := by decide
  have h35 : pathChar 35 = false := by decide
  have : b ≠ 63 := by rintro rfl; rw [h63] at h; cases h
  have : b ≠ 35 := by rintro rfl; rw [h35] at h; cases h
  simp [*]

/-- Building block: a valid path followed by `?` and a valid query parses to exactly these. -/
theorem parsePQ_build (P Q : Bytes) (hP : P.all pathChar = true) (hQ : Q.all queryChar = true)
    (hQ35 : (35 : UInt8) ∉ Q) : parsePQ (P ++ 63 :: Q) = some ⟨P, some Q⟩ := by
  have hPall : ∀ x ∈ P, pathChar x = true := by simpa using hP
  have h1 : (P ++ 63 :: Q).takeWhile (fun b => b ≠ 63 && b ≠ 35) = P :=
    takeWhile_append_stop _ P 63 Q (fun x hx => pathChar_not_stop x (hPall x hx)) (by decide)
  have h2 : Q.takeWhile (fun b => b ≠ 35) = Q :=
    takeWhile_all _ Q (fun x hx => by
      have : x ≠ 35 := by rintro rfl; exact hQ35 hx
      simp [this])
  unfold parsePQ
  rw [h1, List.drop_left]
  simp only [hP, if_true, parseQueryPart, h2, hQ]

/-- What a successful parse guarantees about the parts. -/
structure WF (u : Parts) : Prop where
  auth_nodelim : ∀ b ∈ u.authority, isDelim b = false
  auth_abs : u.scheme.isSome → authorityOk u.authority = true ∧ u.authority ≠ []
  origin : u.scheme = none → u.authority = [] ∧ u.path.head? = some 47
  path_chars : u.path.all pathChar = true
  path_start : u.path = [] ∨ u.path.head? = some 47
  query_ok : ∀ q, u.query = some q → q.all queryChar = true ∧ (35 : UInt8) ∉ q

theorem parseQueryPart_facts (r : Bytes) (q : Option Bytes) (h : parseQueryPart r = some q) :
    ∀ q', q = some q' → q'.all queryChar = true ∧ (35 : UInt8) ∉ q' := by
  unfold parseQueryPart at h
  split at h
  · rename_i qq
    split at h
    · rename_i hqc
      have := Option.some.inj h; subst this
      intro q' hq'
      have := Option.some.inj hq'; subst this
      refine ⟨hqc, ?_⟩
      intro hm
      have := mem_takeWhile (fun b => b ≠ 35) qq 35 hm
      simp at this
    · cases h
  · have := Option.some.inj h; subst this
    intro q' hq'; cases hq'

theorem parsePQ_facts (src : Bytes) (pq : PQ) (h : parsePQ src = some pq) :
    pq.path = src.takeWhile (fun b => b ≠ 63 && b ≠ 35) ∧ pq.path.all pathChar = true ∧
    ∀ q, pq.query = some q → q.all queryChar = true ∧ (35 : UInt8) ∉ q := by
  unfold parsePQ at h
  by_cases hp : (src.takeWhile fun b => b ≠ 63 && b ≠ 35).all pathChar = true
  · rw [if_pos hp] at h
    cases hq : parseQueryPart (src.drop (src.takeWhile fun b => b ≠ 63 && b ≠ 35).length) with
    | none => rw [hq] at h; cases h
    | some q =>
      rw [hq] at h
      have := Option.some.inj h; subst this
      exact ⟨rfl, hp, parseQueryPart_facts _ q hq⟩
  · rw [if_neg hp] at h; cases h

theorem parseOrigin_wf (s : Bytes) (u : Parts) (hhead : s.head? = some 47) (h : parseOrigin s = .ok u) :
    WF u := by
  unfold parseOrigin at h
  cases hpq : parsePQ s with
  | none => simp [hpq] at h
  | some pq =>
    simp only [hpq, R.ok.injEq] at h
    subst h
    obtain ⟨hpath, hchars, hq⟩ := parsePQ_facts s pq hpq
    have hstart : pq.path.head? = some 47 := by
      rw [hpath]
      cases s with
      | nil => simp at hhead
      | cons b bs =>
        simp only [List.head?_cons, Option.some.injEq] at hhead
        subst hhead
        simp [List.takeWhile_cons]
    exact ⟨by simp, by simp, fun _ => ⟨rfl, hstart⟩, hchars, Or.inr hstart, hq⟩

theorem parseAfterScheme_wf (sch : Scheme) (rest : Bytes) (u : Parts)
    (h : parseAfterScheme sch rest = .ok u) : WF u := by
  unfold parseAfterScheme at h
  split at h
  · cases h
  · rename_i hok
    split at h
    · cases h
    · rename_i hne
      cases hpq : parsePQ (rest.drop (rest.takeWhile fun b => !isDelim b).length) with
      | none => simp [hpq] at h
      | some pq =>
        simp only [hpq, R.ok.injEq] at h
        subst h
        obtain ⟨hpath, hchars, hq⟩ := parsePQ_facts _ pq hpq
        refine ⟨?_, ?_, ?_, hchars, ?_, hq⟩
        · intro b hb
          have := mem_takeWhile (fun b => !isDelim b) rest b hb
          simpa using this
        · intro _; exact ⟨by simpa using hok, hne⟩
        · intro hs; cases hs
        · rcases drop_takeWhile_head (fun b => !isDelim b) rest with h0 | ⟨b, r, hbr, hb⟩
          · left; rw [hpath, h0]; rfl
          · rw [hpath, hbr]
            have hd : isDelim b = true := by simpa using hb
            unfold isDelim at hd
            simp only [Bool.or_eq_true, decide_eq_true_eq] at hd
            rcases hd with (rfl | rfl) | rfl
            · right; simp [List.takeWhile_cons]
            · left; simp [List.takeWhile_cons]
            · left; simp [List.takeWhile_cons]

theorem parse_wf (s : Bytes) (u : Parts) (h : parse s = .ok u) : WF u := by
  unfold parse at h
  split at h
  · cases h
  · split at h
    · cases h
    · split at h
      · cases h
      · split at h
        · rename_i hhead; exact parseOrigin_wf s u hhead h
        · unfold parseAbs at h
          cases hsp : splitScheme s with
          | err => simp [hsp] at h
          | outside => simp [hsp] at h
          | ok p =>
            obtain ⟨sch, rest⟩ := p
            cases sch with
            | none => simp [hsp] at h
            | some sc =>
              simp only [hsp] at h
              exact parseAfterScheme_wf sc rest u h

/-- After the scheme, `authority ++ path' ++ ?query'` parses back to its components. -/
theorem parseAfterScheme_build (sch : Scheme) (A t Q : Bytes)
    (hA : ∀ b ∈ A, isDelim b = false) (hok : authorityOk A = true) (hne : A ≠ [])
    (hP : (47 :: t : Bytes).all pathChar = true) (hQ : Q.all queryChar = true) (hQ35 : (35 : UInt8) ∉ Q) :
    parseAfterScheme sch (A ++ ((47 :: t) ++ 63 :: Q)) = .ok ⟨some sch, A, 47 :: t, some Q⟩ := by
  have htw : (A ++ ((47 :: t) ++ 63 :: Q)).takeWhile (fun b => !isDelim b) = A := by
    rw [List.cons_append]
    exact takeWhile_append_stop _ A 47 _ (fun x hx => by simp [hA x hx]) (by decide)
  unfold parseAfterScheme
  rw [htw, List.drop_left, parsePQ_build (47 :: t) Q hP hQ hQ35]
  simp [hok, hne]

theorem splitScheme_http (rest : Bytes) :
    splitScheme ([104, 116, 116, 112, 58, 47, 47] ++ rest) = .ok (some .http, rest) := by
  unfold splitScheme
  simp [lower]

theorem splitScheme_https (rest : Bytes) :
    splitScheme ([104, 116, 116, 112, 115, 58, 47, 47] ++ rest) = .ok (some .https, rest) := by
  unfold splitScheme
  simp [lower]

/-- **reparse.** For an http, https or origin-form service URL, the decorated text parses back to
the same scheme (case-folded), the same authority, the same path ("" read as "/") and the old
query followed by the added parameter — provided the parameter text is made of query bytes other
than `#` (true of `cup2key=<id>:<hex>`, see `param_chars`) and the result stays within
`http::Uri`'s length limit. -/
theorem reparse (u : Parts) (hu : WF u) (kv : Bytes)
    (hsch : u.scheme = none ∨ u.scheme = some .http ∨ u.scheme = some .https)
    (hkvq : kv.all queryChar = true) (hkv35 : (35 : UInt8) ∉ kv)
    (hlen : (schemePrefix u.scheme ++ u.authority ++ (pathOrSlash u.path ++ 63 :: queryWith u.query kv)).length ≤ 65534) :
    parse (schemePrefix u.scheme ++ u.authority ++ (pathOrSlash u.path ++ 63 :: queryWith u.query kv)) =
      .ok ⟨u.scheme, u.authority, pathOrSlash u.path, some (queryWith u.query kv)⟩ := by
  have hP' : (pathOrSlash u.path).all pathChar = true := by
    unfold pathOrSlash; split
    · decide
    · exact hu.path_chars
  have hP'head : ∃ t, pathOrSlash u.path = 47 :: t := by
    unfold pathOrSlash
    split
    · exact ⟨[], rfl⟩
    · rename_i hne
      rcases hu.path_start with h | h
      · exact absurd h hne
      · cases hp : u.path with
        | nil => exact absurd hp hne
        | cons b t => rw [hp] at h; simp at h; exact ⟨t, by rw [h]⟩
  have hQ' : (queryWith u.query kv).all queryChar = true ∧ (35 : UInt8) ∉ queryWith u.query kv := by
    cases hq : u.query with
    | none => exact ⟨hkvq, hkv35⟩
    | some q =>
      obtain ⟨hq1, hq2⟩ := hu.query_ok q hq
      simp only [queryWith]
      constructor
      · have h38 : queryChar 38 = true := by decide
        simp [List.all_append, hq1, hkvq, h38]
      · intro hm
        simp only [List.mem_append, List.mem_cons] at hm
        rcases hm with hm | hm | hm
        · exact hq2 hm
        · cases hm
        · exact hkv35 hm
  obtain ⟨t, ht⟩ := hP'head
  rw [ht] at hP' hlen ⊢
  generalize queryWith u.query kv = Q at hQ' hlen ⊢
  rcases hsch with hs | hs | hs
  · -- origin form
    obtain ⟨ha, _⟩ := hu.origin hs
    rw [hs, ha] at hlen ⊢
    simp only [schemePrefix, List.nil_append, List.append_nil] at hlen ⊢
    unfold parse
    have e1 : ¬ ((47 :: t) ++ 63 :: Q = []) := by simp
    have e2 : ¬ ((47 :: t) ++ 63 :: Q).length > 65534 := by omega
    have e3 : ¬ ((47 :: t) ++ 63 :: Q = [42]) := by simp
    have e4 : ((47 :: t) ++ 63 :: Q).head? = some 47 := by simp
    simp only [e1, e2, e3, e4, if_false, if_true]
    unfold parseOrigin
    rw [parsePQ_build (47 :: t) Q hP' hQ'.1 hQ'.2]
  · -- http
    obtain ⟨hok, hne⟩ := hu.auth_abs (by simp [hs])
    rw [hs] at hlen ⊢
    simp only [schemePrefix, schemeText, List.append_assoc, List.cons_append, List.nil_append] at hlen ⊢
    unfold parse
    simp only [List.length_cons] at hlen
    have e2 : ¬ (104 :: 116 :: 116 :: 112 :: 58 :: 47 :: 47 :: (u.authority ++ 47 :: (t ++ 63 :: Q))).length > 65534 := by
      simp only [List.length_cons]; omega
    simp only [reduceCtorEq, if_false, e2, List.cons.injEq, List.head?_cons, Option.some.injEq]
    have e5 : ¬ ((104 : UInt8) = 42 ∧ (116 : UInt8) :: 116 :: 112 :: 58 :: 47 :: 47 :: (u.authority ++ 47 :: (t ++ 63 :: Q)) = []) := by simp
    have e6 : ¬ ((104 : UInt8) = 47) := by decide
    simp only [e5, e6, if_false]
    unfold parseAbs
    have := splitScheme_http (u.authority ++ 47 :: (t ++ 63 :: Q))
    simp only [List.cons_append, List.nil_append] at this
    rw [this]
    simp only
    have := parseAfterScheme_build .http u.authority t Q hu.auth_nodelim hok hne hP' hQ'.1 hQ'.2
    simp only [List.cons_append] at this
    rw [this]
    simp
  · -- https
    obtain ⟨hok, hne⟩ := hu.auth_abs (by simp [hs])
    rw [hs] at hlen ⊢
    simp only [schemePrefix, schemeText, List.append_assoc, List.cons_append, List.nil_append] at hlen ⊢
    unfold parse
    simp only [List.length_cons] at hlen
    have e2 : ¬ (104 :: 116 :: 116 :: 112 :: 115 :: 58 :: 47 :: 47 :: (u.authority ++ 47 :: (t ++ 63 :: Q))).length > 65534 := by
      simp only [List.length_cons]; omega
    simp only [reduceCtorEq, if_false, e2, List.cons.injEq, List.head?_cons, Option.some.injEq]
    have e5 : ¬ ((104 : UInt8) = 42 ∧ (116 : UInt8) :: 116 :: 112 :: 115 :: 58 :: 47 :: 47 :: (u.authority ++ 47 :: (t ++ 63 :: Q)) = []) := by simp
    have e6 : ¬ ((104 : UInt8) = 47) := by decide
    simp only [e5, e6, if_false]
    unfold parseAbs
    have := splitScheme_https (u.authority ++ 47 :: (t ++ 63 :: Q))
    simp only [List.cons_append, List.nil_append] at this
    rw [this]
    simp only
    have := parseAfterScheme_build .https u.authority t Q hu.auth_nodelim hok hne hP' hQ'.1 hQ'.2
    simp only [List.cons_append] at this
    rw [this]
    simp

/-- **decorate_preserves.** Decorating an http / https / origin-form service URL yields a URL that
parses to the same scheme, authority and path ("" read as "/") with the query extended by exactly
the `cup2key` parameter. -/
theorem decorate_preserves (url : Bytes) (kid : Nat) (nonce out : Bytes) (u : Parts)
    (hp : parse url = .ok u)
    (hsch : u.scheme = none ∨ u.scheme = some .http ∨ u.scheme = some .https)
    (hd : decorate url kid nonce = .ok out) (hlen : out.length ≤ 65534) :
    parse out = .ok ⟨u.scheme, u.authority, pathOrSlash u.path,
                     some (queryWith u.query (cup2keyName ++ 61 :: Cup.cup2key kid nonce))⟩ := by
  obtain ⟨u', hu', hout⟩ := (decorate_text url kid nonce out).1 hd
  rw [hp] at hu'
  have := R.ok.inj hu'; subst this
  have hc := param_chars kid nonce
  have hq : (cup2keyName ++ 61 :: Cup.cup2key kid nonce).all queryChar = true := by
    rw [List.all_eq_true]
    intro c hc'
    exact (hc c hc').1
  have hassoc : out = schemePrefix u.scheme ++ u.authority ++
      (pathOrSlash u.path ++ 63 :: queryWith u.query (cup2keyName ++ 61 :: Cup.cup2key kid nonce)) := by
    rw [hout]; simp [List.append_assoc]
  rw [hassoc] at hlen ⊢
  exact reparse u (parse_wf url u hp) _ hsch hq (fun hm => (hc 35 hm).2.2 rfl) hlen

/-! ### Non-vacuity -/

-- "http://a/p?x=1#f" with key 7 and nonce [0xAB]
example : (match decorate [104,116,116,112,58,47,47,97,47,112,63,120,61,49,35,102] 7 [0xAB] with
    | .ok out => out == [104,116,116,112,58,47,47,97,47,112,63,120,61,49,38,99,117,112,50,107,101,121,61,55,58,97,98]
    | _ => false) = true := by decide
-- "HTTPS://h" → scheme https, authority h, empty path
example : (match parse [72,84,84,80,83,58,47,47,104] with
    | .ok u => u == ⟨some .https, [104], [], none⟩ | _ => false) = true := by decide
example : (match parse [104] with | .err => true | _ => false) = true := by decide

end Omaha.Uri
