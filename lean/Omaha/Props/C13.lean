/-
C13 — Event stream is ordered, lossless and back-pressured.

Theorems about `Omaha.Gen` (the model of async_generator.rs on a zero-capacity channel), for every
program of the generator task and every schedule of polls and external events — by an invariant
(`GInv`) over all reachable states — plus the state-machine-level statement about install
progress.
-/
import Omaha.Gen
import Omaha.Props.C11

namespace Omaha.Gen

/-! ### The invariant -/

def opsOf : Task → List Op
  | .run ops | .afterWake ops | .waiting _ ops | .sending _ ops => ops
  | .done => []

/-- Items the task has still to push, in order. -/
def todoTask : Task → List Nat
  | .sending xs ops => xs ++ yieldsOf ops
  | .done => []
  | t => yieldsOf (opsOf t)

def todo (s : St) : List Nat := if s.senderAlive then todoTask s.task else []

/-- `delivered`: items the consumer has received so far; `completed`: it has received `Complete`. -/
structure GInv (prog : List Op) (delivered : List Nat) (completed : Bool) (s : St) : Prop where
  conserve : delivered ++ s.queue ++ todo s = yieldsOf prog
  parked_iff : s.parked = !s.queue.isEmpty
  queue_le : s.queue.length ≤ 1
  parked_sending : s.parked = true → ∃ xs ops, s.task = .sending xs ops
  ret_ok : s.task ≠ .done → retOf (opsOf s.task) = retOf prog
  res_ok : ∀ r, s.res = some r → r = retOf prog ∧ s.task = .done
  done_closed : s.task = .done → s.senderAlive = false ∧ s.queue = []
  term_closed : s.recvTerminated = true → s.senderAlive = false ∧ s.queue = []
  not_completed : completed = false → s.task = .done → s.res.isSome = true
  completed_final : completed = true → s.task = .done ∧ s.res = none ∧ s.recvTerminated = true
  sending_alive : ∀ xs ops, s.task = .sending xs ops → s.senderAlive = true

theorem init_inv (prog : List Op) : GInv prog [] false (init prog) := by
  refine ⟨?_, rfl, by simp [init], by simp [init], ?_, by simp [init], by simp [init], by simp [init], by simp [init], by simp, by simp [init]⟩
  · simp [init, todo, todoTask, opsOf]
  · intro _; rfl

/-! ### Running the task -/

/-- What `runOps` guarantees when started with an empty queue and an unparked sender. -/
structure RunPost (prog : List Op) (ops : List Op) (s s' : St) : Prop where
  conserve : s'.queue ++ todo s' = if s.senderAlive then yieldsOf ops else []
  parked_iff : s'.parked = !s'.queue.isEmpty
  queue_le : s'.queue.length ≤ 1
  parked_sending : s'.parked = true → ∃ xs o, s'.task = .sending xs o
  ret_ok : s'.task ≠ .done → retOf (opsOf s'.task) = retOf ops
  res_ok : (s'.task = .done → s'.res = some (retOf ops) ∧ s'.senderAlive = false ∧ s'.queue = []) ∧
           (s'.task ≠ .done → s'.res = s.res)
  term : s'.recvTerminated = s.recvTerminated
  alive : s'.senderAlive = true → s.senderAlive = true
  fired : s'.fired = s.fired
  sending_alive : ∀ xs o, s'.task = .sending xs o → s'.senderAlive = true

theorem closeSender_fields (s : St) :
    (closeSender s).senderAlive = false ∧ (closeSender s).queue = s.queue ∧ (closeSender s).parked = s.parked ∧
    (closeSender s).task = s.task ∧ (closeSender s).res = s.res ∧ (closeSender s).recvTerminated = s.recvTerminated ∧
    (closeSender s).fired = s.fired := by
  unfold closeSender
  cases h : s.senderAlive <;> simp [h]

theorem finish_fields (r : Nat) (s : St) :
    (finish r s).senderAlive = false ∧ (finish r s).queue = s.queue ∧ (finish r s).parked = s.parked ∧
    (finish r s).task = .done ∧ (finish r s).res = some r ∧ (finish r s).recvTerminated = s.recvTerminated ∧
    (finish r s).fired = s.fired := by
  unfold finish closeSender
  cases h : s.senderAlive <;> simp [h]

theorem finish_post (prog : List Op) (ops : List Op) (r : Nat) (hr : retOf ops = r) (hy : yieldsOf ops = [])
    (s : St) (hq : s.queue = []) (hp : s.parked = false) : RunPost prog ops s (finish r s) := by
  obtain ⟨c1, c2, c3, c4, c5, c6, c7⟩ := finish_fields r s
  refine ⟨?_, ?_, ?_, ?_, ?_, ?_, c6, ?_, c7, ?_⟩
  · simp [todo, c1, c2, hq, hy]
  · rw [c3, c2]; simp [hp, hq]
  · rw [c2]; simp [hq]
  · rw [c3]; simp [hp]
  · rw [c4]; simp
  · rw [c4, c5, c1, c2]; simp [hr, hq]
  · rw [c1]; simp
  · rw [c4]; simp

theorem runOps_post (prog : List Op) (ops : List Op) (s : St) (hq : s.queue = []) (hp : s.parked = false) :
    RunPost prog ops s (runOps ops s) := by
  induction ops generalizing s with
  | nil => unfold runOps; exact finish_post prog [] 0 rfl rfl s hq hp
  | cons op rest ih =>
    cases op with
    | ret r => unfold runOps; exact finish_post prog (.ret r :: rest) r rfl rfl s hq hp
    | dropHandle =>
      unfold runOps
      obtain ⟨c1, c2, c3, c4, c5, c6, c7⟩ := closeSender_fields s
      have := ih (closeSender s) (by rw [c2, hq]) (by rw [c3, hp])
      obtain ⟨p1, p2, p3, p4, p5, p6, p7, p8, p9, p10⟩ := this
      refine ⟨?_, p2, p3, p4, ?_, ?_, by rw [p7, c6], ?_, by rw [p9, c7], p10⟩
      · rw [p1, c1]; simp [yieldsOf]
      · intro h; rw [p5 h]; rfl
      · exact ⟨fun h => by simpa [retOf] using p6.1 h, fun h => by rw [p6.2 h, c5]⟩
      · intro h; have := p8 h; rw [c1] at this; cases this
    | selfWake =>
      unfold runOps
      refine ⟨?_, by simp [hp, hq], by simp [hq], by simp [hp], ?_, ?_, rfl, fun h => h, rfl, by simp⟩
      · simp [todo, todoTask, opsOf, hq, yieldsOf]
      · intro _; rfl
      · simp
    | extWait k =>
      unfold runOps
      split
      · have := ih s hq hp
        obtain ⟨p1, p2, p3, p4, p5, p6, p7, p8, p9, p10⟩ := this
        exact ⟨by rw [p1]; simp [yieldsOf], p2, p3, p4, fun h => by rw [p5 h]; rfl,
          ⟨fun h => by simpa [retOf] using p6.1 h, p6.2⟩, p7, p8, p9, p10⟩
      · refine ⟨?_, by simp [hp, hq], by simp [hq], by simp [hp], ?_, ?_, rfl, fun h => h, rfl, by simp⟩
        · simp [todo, todoTask, opsOf, hq, yieldsOf]
        · intro _; rfl
        · simp
    | yield x =>
      unfold runOps
      by_cases ha : s.senderAlive = true
      · simp only [ha, Bool.not_true, Bool.false_eq_true, if_false, hp]
        refine ⟨?_, by simp [push], by simp [push, hq], ?_, ?_, ?_, rfl, fun _ => ha, rfl, fun _ _ _ => by simpa [push] using ha⟩
        · simp [todo, todoTask, push, hq, ha, yieldsOf]
        · intro _; exact ⟨[], rest, rfl⟩
        · intro _; rfl
        · simp [push]
      · have ha' : s.senderAlive = false := by simpa using ha
        simp only [ha', Bool.not_false, if_true]
        have := ih s hq hp
        obtain ⟨p1, p2, p3, p4, p5, p6, p7, p8, p9, p10⟩ := this
        exact ⟨by rw [p1]; simp [ha'], p2, p3, p4, fun h => by rw [p5 h]; rfl,
          ⟨fun h => by simpa [retOf] using p6.1 h, p6.2⟩, p7, p8, p9, p10⟩
    | yieldAll xs =>
      unfold runOps
      by_cases ha : s.senderAlive = true
      · simp only [ha, Bool.not_true, Bool.false_eq_true, if_false, hp]
        cases xs with
        | nil =>
          simp only
          have := ih s hq hp
          obtain ⟨p1, p2, p3, p4, p5, p6, p7, p8, p9, p10⟩ := this
          exact ⟨by rw [p1]; simp [ha, yieldsOf], p2, p3, p4, fun h => by rw [p5 h]; rfl,
            ⟨fun h => by simpa [retOf] using p6.1 h, p6.2⟩, p7, p8, p9, p10⟩
        | cons x more =>
          simp only
          refine ⟨?_, by simp [push], by simp [push, hq], ?_, ?_, ?_, rfl, fun _ => ha, rfl, fun _ _ _ => by simpa [push] using ha⟩
          · simp [todo, todoTask, push, hq, ha, yieldsOf]
          · intro _; exact ⟨more, rest, rfl⟩
          · intro _; rfl
          · simp [push]
      · have ha' : s.senderAlive = false := by simpa using ha
        simp only [ha', Bool.not_false, if_true]
        have := ih s hq hp
        obtain ⟨p1, p2, p3, p4, p5, p6, p7, p8, p9, p10⟩ := this
        exact ⟨by rw [p1]; simp [ha'], p2, p3, p4, fun h => by rw [p5 h]; rfl,
          ⟨fun h => by simpa [retOf] using p6.1 h, p6.2⟩, p7, p8, p9, p10⟩



/-- From the invariant at a state whose task is about to run `ops` (queue empty, sender not
parked) to the invariant after running them. `s1` is that state up to fields `runOps` does not
read. -/
theorem ginv_run {prog : List Op} {d : List Nat} {c : Bool} {s s1 : St} {ops : List Op} (h : GInv prog d c s)
    (hnd : s.task ≠ .done) (hops : opsOf s.task = ops) (htodo : todoTask s.task = yieldsOf ops)
    (hq : s.queue = []) (hp : s.parked = false)
    (e1 : s1.queue = s.queue) (e2 : s1.parked = s.parked) (e3 : s1.senderAlive = s.senderAlive) (e4 : s1.res = s.res)
    (e5 : s1.recvTerminated = s.recvTerminated) :
    GInv prog d c (runOps ops s1) := by
  have post := runOps_post prog ops s1 (by rw [e1, hq]) (by rw [e2, hp])
  obtain ⟨p1, p2, p3, p4, p5, p6, p7, p8, p9, p10⟩ := post
  have hc : c = false := by
    cases c with
    | false => rfl
    | true => exact absurd (h.completed_final rfl).1 hnd
  have hres : s.res = none := by
    cases hr : s.res with
    | none => rfl
    | some r => exact absurd (h.res_ok r hr).2 hnd
  refine ⟨?_, p2, p3, p4, ?_, ?_, ?_, ?_, ?_, ?_, p10⟩
  · have := h.conserve
    rw [hq] at this
    rw [List.append_assoc, p1, e3]
    simpa [todo, htodo] using this
  · intro hd; rw [p5 hd, ← hops]; exact h.ret_ok hnd
  · intro r hr
    by_cases hd : (runOps ops s1).task = .done
    · have := (p6.1 hd).1
      rw [hr] at this
      cases this
      exact ⟨by rw [← hops]; exact h.ret_ok hnd, hd⟩
    · rw [p6.2 hd, e4, hres] at hr; cases hr
  · intro hd; exact ⟨(p6.1 hd).2.1, (p6.1 hd).2.2⟩
  · intro ht
    rw [p7, e5] at ht
    have hcl := h.term_closed ht
    have hal : s1.senderAlive = false := by rw [e3]; exact hcl.1
    refine ⟨?_, ?_⟩
    · cases ha : (runOps ops s1).senderAlive with
      | false => rfl
      | true => have := p8 ha; rw [hal] at this; cases this
    · have := p1
      rw [hal] at this
      simp at this
      exact this.1
  · intro _ hd; rw [(p6.1 hd).1]; rfl
  · intro hct; rw [hc] at hct; cases hct

/-- **A task poll preserves the invariant.** -/
theorem pollTask_inv {prog : List Op} {d : List Nat} {c : Bool} {s : St} (h : GInv prog d c s) :
    GInv prog d c (pollTask s) := by
  obtain ⟨task, queue, parked, alive, rr, rt, res, fired, er, wk⟩ := s
  have unparked : (∀ xs ops, task ≠ .sending xs ops) → parked = false ∧ queue = [] := by
    intro hns
    have hp : parked = false := by
      cases hpk : parked with
      | false => rfl
      | true => obtain ⟨xs, ops, e⟩ := h.parked_sending hpk; exact absurd e (hns xs ops)
    refine ⟨hp, ?_⟩
    have := h.parked_iff
    simp only [hp] at this
    cases queue with
    | nil => rfl
    | cons a b => simp at this
  cases task with
  | done => exact h
  | run ops =>
    obtain ⟨hp, hq⟩ := unparked (by intro xs o; simp)
    exact ginv_run h (by simp) rfl rfl hq hp rfl rfl rfl rfl rfl
  | afterWake ops =>
    obtain ⟨hp, hq⟩ := unparked (by intro xs o; simp)
    exact ginv_run h (by simp) rfl rfl hq hp rfl rfl rfl rfl rfl
  | waiting k ops =>
    obtain ⟨hp, hq⟩ := unparked (by intro xs o; simp)
    unfold pollTask
    simp only
    split
    · exact ginv_run h (by simp) rfl rfl hq hp rfl rfl rfl rfl rfl
    · exact ⟨h.conserve, h.parked_iff, h.queue_le, h.parked_sending, h.ret_ok, h.res_ok,
        h.done_closed, h.term_closed, h.not_completed, h.completed_final, h.sending_alive⟩
  | sending xs ops =>
    unfold pollTask
    simp only
    cases parked with
    | true => exact h
    | false =>
      simp only [Bool.false_eq_true, if_false]
      have hq : queue = [] := by
        have := h.parked_iff
        cases queue with
        | nil => rfl
        | cons a b => simp at this
      subst hq
      have hc : c = false := by
        cases c with
        | false => rfl
        | true => have := (h.completed_final rfl).1; cases this
      have hres : res = none := by
        cases res with
        | none => rfl
        | some r => have := (h.res_ok r rfl).2; cases this
      have hal : alive = true := h.sending_alive xs ops rfl
      cases xs with
      | nil => exact ginv_run h (by simp) rfl (by simp [todoTask]) rfl rfl rfl rfl rfl rfl rfl
      | cons x rest =>
        have hcons := h.conserve
        subst hal hres hc
        refine ⟨?_, by simp [push], by simp [push], ?_, ?_, ?_, ?_, ?_, ?_, ?_, ?_⟩
        · simpa [push, todo, todoTask] using hcons
        · intro _; exact ⟨rest, ops, rfl⟩
        · intro _; exact h.ret_ok (by simp)
        · intro r hr; simp [push] at hr
        · intro hd; simp [push] at hd
        · intro hterm
          have := h.term_closed (by simpa [push] using hterm)
          simp at this
        · intro _ hd; simp [push] at hd
        · intro hct; cases hct
        · intro _ _ _; simp [push]


/-- The invariant reads only these fields. -/
theorem GInv.congr {prog : List Op} {d : List Nat} {c : Bool} {s s' : St} (h : GInv prog d c s)
    (e1 : s'.task = s.task) (e2 : s'.queue = s.queue) (e3 : s'.parked = s.parked) (e4 : s'.senderAlive = s.senderAlive)
    (e5 : s'.res = s.res) (e6 : s'.recvTerminated = s.recvTerminated) : GInv prog d c s' := by
  refine ⟨?_, by rw [e3, e2]; exact h.parked_iff, by rw [e2]; exact h.queue_le, ?_, by rw [e1]; exact h.ret_ok,
    by rw [e5, e1]; exact h.res_ok, by rw [e1, e4, e2]; exact h.done_closed, by rw [e6, e4, e2]; exact h.term_closed,
    by rw [e1, e5]; exact h.not_completed, by rw [e1, e5, e6]; exact h.completed_final, by rw [e1, e4]; exact h.sending_alive⟩
  · have := h.conserve
    simpa [todo, e1, e2, e4] using this
  · rw [e3, e1]; exact h.parked_sending

/-- The consumer's view after a poll result. -/
def after (d : List Nat) (c : Bool) : PollResult → List Nat × Bool
  | .item x => (d ++ [x], c)
  | .complete _ => (d, true)
  | _ => (d, c)

/-- What a poll result may be, given what the consumer has seen so far. -/
def resultOk (prog : List Op) (d : List Nat) (c : Bool) : PollResult → Prop
  | .item _ => c = false
  | .pending => c = false
  | .complete r => c = false ∧ d = yieldsOf prog ∧ r = retOf prog
  | .none => c = true

theorem pollTask_done_id (s : St) (h : s.task = .done) : pollTask s = s := by
  unfold pollTask; rw [h]

/-- **One `poll_next` preserves the invariant and returns an admissible result.** -/
theorem pollNext_inv {prog : List Op} {d : List Nat} {c : Bool} {s : St} (h : GInv prog d c s) :
    resultOk prog d c (pollNext s).1 ∧
    GInv prog (after d c (pollNext s).1).1 (after d c (pollNext s).1).2 (pollNext s).2 := by
  have h1 : GInv prog d c { s with woken := false } := h.congr rfl rfl rfl rfl rfl rfl
  have h2 := pollTask_inv h1
  have hdone : (taskDone { s with woken := false } || taskDone (pollTask { s with woken := false })) =
      taskDone (pollTask { s with woken := false }) := by
    cases hd : taskDone { s with woken := false } with
    | false => simp
    | true =>
      have : ({ s with woken := false } : St).task = .done := by simpa [taskDone] using hd
      rw [pollTask_done_id _ this]; simp [hd]
  unfold pollNext
  simp only [hdone]
  generalize pollTask { s with woken := false } = s2 at h2
  obtain ⟨task, queue, parked, alive, rr, rt, res, fired, er, wk⟩ := s2
  have hcF : rt = false → c = false := by
    intro hrt
    cases c with
    | false => rfl
    | true => have := (h2.completed_final rfl).2.2; simp [hrt] at this
  cases rt with
  | false =>
    simp only [Bool.false_eq_true, if_false]
    cases queue with
    | cons x rest =>
      -- an item is popped
      simp only
      have hrest : rest = [] := by
        have := h2.queue_le
        simp only [List.length_cons] at this
        exact List.eq_nil_of_length_eq_zero (by omega)
      subst hrest
      refine ⟨hcF rfl, ?_⟩
      simp only [after]
      have hal : alive = true ∨ alive = false := by cases alive <;> simp
      refine ⟨?_, rfl, by simp, by simp, h2.ret_ok, h2.res_ok, ?_, by simp, h2.not_completed, ?_, h2.sending_alive⟩
      · have := h2.conserve
        simpa [todo, List.append_assoc] using this
      · intro hd; have := h2.done_closed hd; simp at this
      · intro hct; have := hcF rfl; rw [this] at hct; cases hct
    | nil =>
      simp only
      cases alive with
      | true =>
        -- nothing to deliver yet, the sender is alive: Pending, the receiver registers its waker
        simp only [Bool.not_true, Bool.false_eq_true, if_false]
        exact ⟨hcF rfl, h2.congr rfl rfl rfl rfl rfl rfl⟩
      | false =>
        -- the channel is closed and empty: the receiver terminates; the result depends on the task
        simp only [Bool.not_false, if_true]
        have h3 : GInv prog d c { task := task, queue := [], parked := parked, senderAlive := false, recvRegistered := rr, recvTerminated := true, res := res, fired := fired, extRegistered := er, woken := wk } := by
          refine ⟨h2.conserve, h2.parked_iff, h2.queue_le, h2.parked_sending, h2.ret_ok, h2.res_ok, h2.done_closed,
            fun _ => ⟨rfl, rfl⟩, h2.not_completed, ?_, h2.sending_alive⟩
          intro hct; have := hcF rfl; rw [this] at hct; cases hct
        by_cases htask : task = .done
        · subst htask
          simp only [taskDone, beq_self_eq_true, Bool.not_true, Bool.false_eq_true, if_false]
          cases res with
          | none =>
            have := h2.not_completed (hcF rfl) rfl
            simp at this
          | some r =>
            simp only
            have hr := h2.res_ok r rfl
            refine ⟨⟨hcF rfl, ?_, hr.1⟩, ?_⟩
            · have := h2.conserve
              simpa [todo] using this
            · simp only [after]
              refine ⟨h3.conserve, h3.parked_iff, h3.queue_le, h3.parked_sending, h3.ret_ok, by simp, h3.done_closed,
                fun _ => ⟨rfl, rfl⟩, by simp, fun _ => ⟨rfl, rfl, rfl⟩, h3.sending_alive⟩
        · have : taskDone { task := task, queue := [], parked := parked, senderAlive := false, recvRegistered := rr, recvTerminated := false, res := res, fired := fired, extRegistered := er, woken := wk } = false := by
            simp [taskDone, htask]
          simp only [this, Bool.not_false, if_true]
          exact ⟨hcF rfl, h3⟩
  | true =>
    simp only [if_true]
    have hcl := h2.term_closed rfl
    simp only at hcl
    obtain ⟨hal, hq⟩ := hcl
    subst hal hq
    by_cases htask : task = .done
    · subst htask
      simp only [taskDone, beq_self_eq_true, Bool.not_true, Bool.false_eq_true, if_false]
      cases res with
      | none =>
        simp only
        have hc : c = true := by
          cases c with
          | true => rfl
          | false => have := h2.not_completed rfl rfl; simp at this
        exact ⟨hc, h2⟩
      | some r =>
        simp only
        have hc : c = false := by
          cases c with
          | false => rfl
          | true => have := (h2.completed_final rfl).2.1; simp at this
        have hr := h2.res_ok r rfl
        refine ⟨⟨hc, ?_, hr.1⟩, ?_⟩
        · have := h2.conserve
          simpa [todo] using this
        · simp only [after]
          refine ⟨h2.conserve, h2.parked_iff, h2.queue_le, h2.parked_sending, h2.ret_ok, by simp, h2.done_closed,
            fun _ => ⟨rfl, rfl⟩, by simp, fun _ => ⟨rfl, rfl, rfl⟩, h2.sending_alive⟩
    · have : taskDone { task := task, queue := [], parked := parked, senderAlive := false, recvRegistered := rr, recvTerminated := true, res := res, fired := fired, extRegistered := er, woken := wk } = false := by
        simp [taskDone, htask]
      simp only [this, Bool.not_false, if_true]
      have hc : c = false := by
        cases c with
        | false => rfl
        | true => exact absurd (h2.completed_final rfl).1 htask
      exact ⟨hc, h2⟩


theorem fire_inv {prog : List Op} {d : List Nat} {c : Bool} {s : St} (k : Nat) (h : GInv prog d c s) :
    GInv prog d c (fire k { s with woken := false }) :=
  h.congr rfl rfl rfl rfl rfl rfl

/-! ### Every schedule: ordered, lossless, exactly one completion -/

def resultOf : Obs → Option PollResult
  | .polled r _ _ => some r
  | .fired _ => none

/-- The poll results of a run, in order. -/
def results (obs : List Obs) : List PollResult := obs.filterMap resultOf

/-- A sequence of poll results is admissible from the consumer's view `(d, c)`. -/
def AllOk (prog : List Op) : List Nat → Bool → List PollResult → Prop
  | _, _, [] => True
  | d, c, r :: rest => resultOk prog d c r ∧ AllOk prog (after d c r).1 (after d c r).2 rest

theorem drive_ok (prog : List Op) (sched : List Step) (d : List Nat) (c : Bool) (s : St) (h : GInv prog d c s) :
    AllOk prog d c (results (drive s sched)) := by
  induction sched generalizing d c s with
  | nil => trivial
  | cons e rest ih =>
    cases e with
    | poll =>
      obtain ⟨h1, h2⟩ := pollNext_inv h
      simp only [drive, step, results, List.filterMap_cons, resultOf]
      exact ⟨h1, ih _ _ _ h2⟩
    | fire k =>
      simp only [drive, step, results, List.filterMap_cons, resultOf]
      exact ih _ _ _ (fire_inv k h)

def itemOf : PollResult → Option Nat
  | .item x => some x
  | _ => none

/-- The items the consumer received, in order. -/
def itemsOf (rs : List PollResult) : List Nat := rs.filterMap itemOf

@[simp] theorem itemsOf_item (x : Nat) (rs : List PollResult) : itemsOf (.item x :: rs) = x :: itemsOf rs := rfl
@[simp] theorem itemsOf_pending (rs : List PollResult) : itemsOf (.pending :: rs) = itemsOf rs := rfl
@[simp] theorem itemsOf_complete (r : Nat) (rs : List PollResult) : itemsOf (.complete r :: rs) = itemsOf rs := rfl
@[simp] theorem itemsOf_none (rs : List PollResult) : itemsOf (.none :: rs) = itemsOf rs := rfl
@[simp] theorem itemsOf_nil : itemsOf [] = [] := rfl
@[simp] theorem results_polled (r : PollResult) (w t : Bool) (obs : List Obs) :
    results (.polled r w t :: obs) = r :: results obs := rfl
@[simp] theorem results_fired (w : Bool) (obs : List Obs) : results (.fired w :: obs) = results obs := rfl
@[simp] theorem results_nil : results [] = [] := rfl

/-- Items delivered so far plus what is queued plus what the task has still to push is always the
program's yield sequence: nothing lost, nothing duplicated, nothing reordered. -/
theorem drive_conserve (prog : List Op) (sched : List Step) (d : List Nat) (c : Bool) (s : St) (h : GInv prog d c s) :
    ∃ c', GInv prog (d ++ itemsOf (results (drive s sched))) c' (finalState s sched) := by
  induction sched generalizing d c s with
  | nil => exact ⟨c, by simpa [drive, finalState] using h⟩
  | cons e rest ih =>
    cases e with
    | poll =>
      obtain ⟨_, h2⟩ := pollNext_inv h
      obtain ⟨c', hc'⟩ := ih _ _ _ h2
      refine ⟨c', ?_⟩
      simp only [drive, step, finalState, results_polled]
      cases hr : (pollNext s).1 with
      | item x => rw [hr] at hc'; simpa [after, List.append_assoc] using hc'
      | pending => rw [hr] at hc'; simpa [after] using hc'
      | complete r => rw [hr] at hc'; simpa [after] using hc'
      | none => rw [hr] at hc'; simpa [after] using hc'
    | fire k =>
      obtain ⟨c', hc'⟩ := ih _ _ _ (fire_inv k h)
      exact ⟨c', by simpa only [drive, step, finalState, results_fired] using hc'⟩

/-- **stream_is_fifo.** For every program and every schedule (spurious polls, early, late and repeated
external events included) the items the consumer receives are a prefix of the program's yields, in
program order — each at most once, none skipped. -/
theorem stream_is_fifo (prog : List Op) (sched : List Step) :
    itemsOf (results (drive (init prog) sched)) <+: yieldsOf prog := by
  obtain ⟨c', h⟩ := drive_conserve prog sched [] false (init prog) (init_inv prog)
  have := h.conserve
  simp only [List.nil_append, List.append_assoc] at this
  exact ⟨_, this⟩

/-- **completes_once.** In every run: `Complete r` is returned at most once, only after every yielded
item has been delivered, with the program's return value; before it every poll returns an item or
Pending; after it every poll returns `None`. (`AllOk` from `(delivered = [], completed = false)`.) -/
theorem completes_once (prog : List Op) (sched : List Step) :
    AllOk prog [] false (results (drive (init prog) sched)) :=
  drive_ok prog sched [] false (init prog) (init_inv prog)

/-- Reading `AllOk`: a `Complete` in the results means all items came before it. -/
theorem allOk_complete_all_items (prog : List Op) (d : List Nat) (rs : List PollResult) (r : Nat) (rest : List PollResult)
    (h : AllOk prog d false (rs ++ .complete r :: rest)) (hn : ∀ x ∈ rs, x ≠ .none ∧ ∀ q, x ≠ .complete q) :
    d ++ itemsOf rs = yieldsOf prog ∧ r = retOf prog ∧ ∀ x ∈ rest, x = .none := by
  induction rs generalizing d with
  | nil =>
    simp only [List.nil_append, AllOk, resultOk, after] at h
    obtain ⟨⟨_, hd, hr⟩, hrest⟩ := h
    refine ⟨by simpa using hd, hr, ?_⟩
    clear hd hr
    induction rest with
    | nil => intro x hx; cases hx
    | cons y ys ih =>
      simp only [AllOk] at hrest
      obtain ⟨hy, hys⟩ := hrest
      have : y = .none := by
        cases y <;> simp [resultOk] at hy ⊢
      subst this
      intro x hx
      simp only [List.mem_cons] at hx
      rcases hx with rfl | hx
      · rfl
      · exact ih (by simpa [after] using hys) x hx
  | cons y ys ih =>
    simp only [List.cons_append, AllOk] at h
    obtain ⟨hy, hys⟩ := h
    have hyn := hn y (by simp)
    cases y with
    | item x =>
      have := ih (d ++ [x]) (by simpa [after] using hys) (fun z hz => hn z (by simp [hz]))
      simpa [List.append_assoc] using this
    | pending =>
      have := ih d (by simpa [after] using hys) (fun z hz => hn z (by simp [hz]))
      simpa using this
    | complete q => exact absurd rfl (hyn.2 q)
    | none => exact absurd rfl hyn.1

/-! ### Back-pressure -/

/-- **backpressure.** While an item the task has emitted has not been taken by the consumer, polling
the task changes nothing: the code after an emission cannot run before the consumer has taken the
item. (And it is the pop in `poll_next` that un-parks the sender, so it runs in a strictly later
poll than the one that returned the item.) -/
theorem no_progress_while_untaken {prog : List Op} {d : List Nat} {c : Bool} {s : St} (h : GInv prog d c s)
    (hq : s.queue ≠ []) : pollTask s = s := by
  have hp : s.parked = true := by
    rw [h.parked_iff]
    cases hqq : s.queue with
    | nil => exact absurd hqq hq
    | cons a b => rfl
  obtain ⟨xs, ops, ht⟩ := h.parked_sending hp
  unfold pollTask
  rw [ht]
  simp [hp]

/-- Each poll delivers at most one item, and the task pushes at most one item per poll: the queue
never holds more than one. -/
theorem queue_at_most_one (prog : List Op) (sched : List Step) : (finalState (init prog) sched).queue.length ≤ 1 := by
  obtain ⟨c', h⟩ := drive_conserve prog sched [] false (init prog) (init_inv prog)
  exact h.queue_le


/-! ### No lost wake-up -/

/-- Where a task can be after it has been polled: finished; blocked in a send whose item is still
in the queue; having just woken itself; or waiting for an external event that has not fired, with
its waker registered there. -/
def Settled (s : St) : Prop :=
  match s.task with
  | .run _ => False
  | .sending _ _ => s.parked = true
  | .afterWake _ => s.woken = true
  | .waiting k _ => s.fired.contains k = false ∧ s.extRegistered = some k
  | .done => True

theorem finish_settled (r : Nat) (s : St) : Settled (finish r s) := by
  unfold Settled
  rw [(finish_fields r s).2.2.2.1]
  trivial

theorem closeSender_keeps (s : St) : (closeSender s).fired = s.fired ∧ (closeSender s).extRegistered = s.extRegistered := by
  unfold closeSender; cases s.senderAlive <;> simp

theorem runOps_settled (ops : List Op) (s : St) : Settled (runOps ops s) := by
  induction ops generalizing s with
  | nil => unfold runOps; exact finish_settled 0 s
  | cons op rest ih =>
    cases op with
    | ret r => unfold runOps; exact finish_settled r s
    | dropHandle => unfold runOps; exact ih _
    | selfWake => unfold runOps; simp [Settled]
    | extWait k =>
      unfold runOps
      split
      · exact ih _
      · rename_i hk
        simp only [Settled]
        refine ⟨by simpa using hk, ?_⟩
        first | rfl | trivial
    | yield x =>
      unfold runOps
      split
      · exact ih _
      · split
        · rename_i hp; simpa [Settled] using hp
        · simp [Settled, push]
    | yieldAll xs =>
      unfold runOps
      split
      · exact ih _
      · cases xs with
        | nil =>
          simp only
          split
          · rename_i hp; simpa [Settled] using hp
          · exact ih _
        | cons x more =>
          simp only
          split
          · rename_i hp; simpa [Settled] using hp
          · simp [Settled, push]

/-- After any task poll the task is settled (a finished task stays finished). -/
theorem pollTask_is_settled (s : St) : Settled (pollTask s) := by
  unfold pollTask
  cases ht : s.task with
  | done => simp only; unfold Settled; rw [ht]; trivial
  | run ops => exact runOps_settled _ _
  | afterWake ops => exact runOps_settled _ _
  | waiting k ops =>
    simp only
    split
    · exact runOps_settled _ _
    · rename_i hk
      simp only [Settled]
      refine ⟨by simpa using hk, ?_⟩
      first | rfl | trivial
  | sending xs ops =>
    simp only
    split
    · rename_i hp
      unfold Settled
      rw [ht]
      exact hp
    · cases xs with
      | nil => exact runOps_settled _ _
      | cons x rest => simp [Settled, push]

/-- The receiver half of `poll_next` leaves the task, the fired events and the task's registration
alone. -/
theorem pollNext_keeps (s : St) :
    (pollNext s).2.task = (pollTask { s with woken := false }).task ∧
    (pollNext s).2.fired = (pollTask { s with woken := false }).fired ∧
    (pollNext s).2.extRegistered = (pollTask { s with woken := false }).extRegistered := by
  unfold pollNext
  simp only
  generalize pollTask { s with woken := false } = s2
  generalize (taskDone { s with woken := false } || taskDone s2) = td
  obtain ⟨task, queue, parked, alive, rr, rt, res, fired, er, wk⟩ := s2
  cases rt <;> cases queue <;> cases alive <;> cases td <;> cases res <;> simp

/-- **no_lost_wakeup.** Whenever `poll_next` returns Pending without the root waker having been woken
during that poll, the task is waiting for an external event that has not fired, and its waker is
registered with that event — so the event's firing wakes it (`fire_wakes`). In every other Pending
state the waker has already been woken. Hence an executor that polls only when woken cannot miss a
wake-up, under any schedule. -/
theorem unwoken_pending_is_external_wait {prog : List Op} {d : List Nat} {c : Bool} {s : St} (h : GInv prog d c s)
    (hp : (pollNext s).1 = .pending) (hw : (pollNext s).2.woken = false) :
    ∃ k ops, (pollNext s).2.task = .waiting k ops ∧ (pollNext s).2.fired.contains k = false ∧
      (pollNext s).2.extRegistered = some k := by
  have h1 : GInv prog d c { s with woken := false } := h.congr rfl rfl rfl rfl rfl rfl
  have h2 := pollTask_inv h1
  have hs := pollTask_is_settled { s with woken := false }
  have hdone : (taskDone { s with woken := false } || taskDone (pollTask { s with woken := false })) =
      taskDone (pollTask { s with woken := false }) := by
    cases hd : taskDone { s with woken := false } with
    | false => simp
    | true =>
      have : ({ s with woken := false } : St).task = .done := by simpa [taskDone] using hd
      rw [pollTask_done_id _ this]; simp [hd]
  obtain ⟨k1, k2, k3⟩ := pollNext_keeps s
  rw [k1, k2, k3]
  unfold pollNext at hp hw
  simp only [hdone] at hp hw
  generalize pollTask { s with woken := false } = s2 at h2 hs hp hw ⊢
  obtain ⟨task, queue, parked, alive, rr, rt, res, fired, er, wk⟩ := s2
  -- the receiver phase does not touch task / fired / extRegistered, and can only set `woken`
  have key : ∀ k ops, task = .waiting k ops → fired.contains k = false ∧ er = some k := by
    intro k ops ht; subst ht; simpa [Settled] using hs
  cases task with
  | run ops => simp [Settled] at hs
  | done =>
    -- a finished task never yields Pending
    have hcl := h2.done_closed rfl
    simp only at hcl
    obtain ⟨ha, hq⟩ := hcl
    subst ha hq
    cases rt <;> cases res <;> simp [taskDone] at hp
  | afterWake ops =>
    have hwk : wk = true := by simpa [Settled] using hs
    subst hwk
    cases rt <;> cases queue <;> cases alive <;> simp [taskDone] at hw hp
  | sending xs ops =>
    have hpk : parked = true := by simpa [Settled] using hs
    subst hpk
    have hq := h2.parked_iff
    cases queue with
    | nil => simp at hq
    | cons x rest =>
      cases rt with
      | false => simp at hp
      | true => have := (h2.term_closed rfl).2; simp at this
  | waiting k ops =>
    obtain ⟨hf, he⟩ := key k ops rfl
    exact ⟨k, ops, rfl, hf, he⟩

/-- The awaited event's firing wakes the task. -/
theorem fire_wakes (k : Nat) (s : St) (h : s.extRegistered = some k) : (fire k { s with woken := false }).woken = true := by
  simp [fire, h]

/-- A spurious poll of a blocked generator changes nothing observable: it returns Pending again. -/
theorem spurious_poll_pending {prog : List Op} {d : List Nat} {c : Bool} {s : St} (h : GInv prog d c s)
    (hp : (pollNext s).1 = .pending) (hw : (pollNext s).2.woken = false) :
    (pollNext (pollNext s).2).1 = .pending ∧ (pollNext (pollNext s).2).2.woken = false := by
  obtain ⟨k, ops, ht, hf, he⟩ := unwoken_pending_is_external_wait h hp hw
  have h' := (pollNext_inv h).2
  rw [hp] at h'
  simp only [after] at h'
  generalize pollNext s = pr at ht hf he h'
  obtain ⟨r, s1⟩ := pr
  simp only at ht hf he h'
  obtain ⟨task, queue, parked, alive, rr, rt, res, fired, er, wk⟩ := s1
  simp only at ht hf he
  subst ht he
  have hu : parked = false ∧ queue = [] := by
    have hpk : parked = false := by
      cases hpk : parked with
      | false => rfl
      | true => obtain ⟨xs, o, e⟩ := h'.parked_sending hpk; cases e
    refine ⟨hpk, ?_⟩
    have := h'.parked_iff
    simp only [hpk] at this
    cases queue with
    | nil => rfl
    | cons a b => simp at this
  obtain ⟨hpk, hq⟩ := hu
  subst hpk hq
  unfold pollNext pollTask
  simp only [taskDone, hf]
  cases rt <;> cases alive <;> simp [taskDone]

/-! ### Non-vacuity: the run of Appendix E of DESIGN.md -/

example : results (drive (init [.yield 1, .yieldAll [2, 3], .selfWake, .extWait 0, .yield 4, .dropHandle, .selfWake, .ret 9])
      [.poll, .poll, .poll, .poll, .poll, .fire 0, .poll, .poll, .poll, .poll]) =
    [.item 1, .item 2, .item 3, .pending, .pending, .item 4, .pending, .complete 9, .none] := by decide

example : yieldsOf [.yield 1, .yieldAll [2, 3], .selfWake, .extWait 0, .yield 4, .dropHandle, .selfWake, .ret 9] = [1, 2, 3, 4] := by
  decide

end Omaha.Gen

namespace Omaha.SM

/-- **progress_before_outcome.** The install call is followed by every progress value the installer
reported, in order, as InstallProgress events — before the state machine acts on the install's
outcome (duration metric, result reports, installer-error events, InstallationError, the check's
result all come later in `installPhase`). -/
theorem runInstall_trace (planId : Nat) (w : World) :
    (runInstall planId w).trace =
      (w.env.progress.map fun k => Action.event (.progress k)).reverse ++
        .install planId w.env.progress w.env.results :: w.trace := by
  unfold runInstall
  have key : ∀ (ps : List Nat) (x : World),
      (ps.foldl (fun w k => yieldEv (.progress k) w) x).trace = (ps.map fun k => Action.event (.progress k)).reverse ++ x.trace := by
    intro ps
    induction ps with
    | nil => intro x; rfl
    | cons p rest ih =>
      intro x
      simp only [List.foldl_cons, List.map_cons, List.reverse_cons, List.append_assoc]
      rw [ih]; rfl
  show (w.env.progress.foldl (fun w k => yieldEv (.progress k) w) (emit (.install planId w.env.progress w.env.results) w)).trace = _
  rw [key]; rfl

end Omaha.SM
