/-
C09 — Cohort and user-counting data follow the server and persist.
-/
import Omaha.Props.C10
import Omaha.Props.C02

namespace Omaha.SM

open Omaha

/-! ### Field-wise merge: present (even empty) overwrites, absent keeps -/

/-- **cohort_merge.** -/
theorem cohort_merge (c o : Cohort) :
    (updateCohort c o).id = (match o.id with | some v => some v | none => c.id) ∧
    (updateCohort c o).hint = (match o.hint with | some v => some v | none => c.hint) ∧
    (updateCohort c o).name = (match o.name with | some v => some v | none => c.name) := by
  unfold updateCohort
  refine ⟨?_, ?_, ?_⟩
  · cases o.id <;> rfl
  · cases o.hint <;> rfl
  · cases o.name <;> rfl

theorem cohort_empty_overwrites (c : Cohort) :
    (updateCohort c { id := some [], hint := none, name := some [] }).id = some [] ∧
    (updateCohort c { id := some [], hint := none, name := some [] }).hint = c.hint ∧
    (updateCohort c { id := some [], hint := none, name := some [] }).name = some [] := by
  unfold updateCohort; cases c.hint <;> simp

/-! ### Routing: every app named in the response, whatever the order; nobody else -/

/-- **routing.** The app set keeps its apps, ids and order; an app named in the response takes the
merge of its cohort with the (first) response entry bearing its id, and that entry's user-counting
day; an app not named is unchanged. -/
theorem updateFromOmaha_spec (apps : List App) (rs : List AppResp) :
    (updateFromOmaha apps rs).length = apps.length ∧
    (updateFromOmaha apps rs).map (·.id) = apps.map (·.id) ∧
    ∀ i (h : i < apps.length),
      ((updateFromOmaha apps rs)[i]?) = some (
        match rs.find? (fun r => r.id == apps[i].id) with
        | some r => { apps[i] with cohort := updateCohort apps[i].cohort r.cohort, userCounting := r.userCounting }
        | none => apps[i]) := by
  unfold updateFromOmaha
  refine ⟨by simp, ?_, ?_⟩
  · rw [List.map_map]
    apply List.map_congr_left
    intro a _
    simp only [Function.comp]
    split <;> rfl
  · intro i h
    simp only [List.getElem?_map, List.getElem?_eq_getElem h, Option.map_some]
    rfl

theorem updateFromOmaha_unnamed (apps : List App) (rs : List AppResp) (a : App) (ha : a ∈ apps)
    (hn : ∀ r ∈ rs, r.id ≠ a.id) : a ∈ updateFromOmaha apps rs := by
  unfold updateFromOmaha
  refine List.mem_map.2 ⟨a, ha, ?_⟩
  have : rs.find? (fun r => r.id == a.id) = none := by
    rw [List.find?_eq_none]
    intro r hr; simpa using hn r hr
  simp [this]

/-- Fields the merge never touches. -/
theorem updateFromOmaha_keeps (apps : List App) (rs : List AppResp) :
    (updateFromOmaha apps rs).map (fun a => (a.id, a.version, a.fp, a.extras)) =
      apps.map (fun a => (a.id, a.version, a.fp, a.extras)) := by
  unfold updateFromOmaha
  rw [List.map_map]
  apply List.map_congr_left
  intro a _
  simp only [Function.comp]
  split <;> rfl

/-- What the check hands to the merge: per response app, the cohort the response carries for it
and the response's day number (the same for all apps; absent when the response has no daystart or
no elapsed_days). -/
theorem makeAppResponses_data (r : Resp.Response) (act : AppAction) :
    (makeAppResponses r act).map (fun x => (x.id, x.cohort, x.userCounting)) =
      r.apps.map (fun a => (a.id, a.cohort, r.daystart.bind (·.elapsedDays))) := by
  unfold makeAppResponses
  rw [List.map_map]; rfl

theorem zipResp_data (ds : Option Nat) (apps : List Resp.App) (acts : List AppAction) (h : acts.length = apps.length) :
    ((apps.zip acts).map fun (p : Resp.App × AppAction) =>
      ({ id := p.1.id, cohort := p.1.cohort, userCounting := ds, result := p.2 } : AppResp)).map
        (fun x => (x.id, x.cohort, x.userCounting)) = apps.map (fun a => (a.id, a.cohort, ds)) := by
  induction apps generalizing acts with
  | nil => simp
  | cons a rest ih =>
    cases acts with
    | nil => simp at h
    | cons x xs =>
      simp only [List.zip_cons_cons, List.map_cons]
      rw [ih xs (by simpa using h)]

theorem installResponses_data (r : Resp.Response) (rs : List AppResult) :
    (installResponses r rs).map (fun x => (x.id, x.cohort, x.userCounting)) =
      r.apps.map (fun a => (a.id, a.cohort, r.daystart.bind (·.elapsedDays))) :=
  zipResp_data _ r.apps _ (alignResults_length r.apps rs)

/-! ### Only on success -/

theorem reportAttemptsInstall_apps (s : Bool) (w : World) : (reportAttemptsInstall s w).apps = w.apps := by
  unfold reportAttemptsInstall
  simp only
  split <;> exact (storeOp_frame _ _).2.1

/-- **only_on_ok (success).** A successful check replaces the app set by its merge with the
check's responses. -/
theorem finishCheckOk_apps (ok : CheckOk) (w : World) :
    (finishCheckOk ok w).apps = updateFromOmaha w.apps ok.responses := by
  unfold finishCheckOk
  rw [(closeCheck_frame _ _).2.1]
  unfold prepareOk
  simp only
  split
  · rw [reportAttemptsInstall_apps]; rfl
  · rfl

/-- **only_on_ok (failure).** A failed check — whatever the failure — leaves every app as it was;
so does everything a check does before it ends (`frame_performUpdateCheck`). -/
theorem finishCheckErr_apps (e : CheckErr) (w : World) : (finishCheckErr e w).apps = w.apps := by
  unfold finishCheckErr
  rw [(closeCheck_frame _ _).2.1]
  unfold prepareErr
  simp only
  unfold reportAttemptsCheck
  simp only [Bool.false_eq_true, if_false]
  split <;> rfl

theorem check_keeps_apps_until_end (params : RequestParams) (apps : List App) (w : World) :
    (performUpdateCheck params apps w).2.apps = w.apps := (frame_performUpdateCheck params apps w).apps

/-- **only_on_ok (pings).** A successful ping merges like a successful check (every app named gets the
response's cohort fields and day number); a failed ping changes no app. -/
theorem pingSucceeded_apps (r : Resp.Response) (w : World) :
    (pingSucceeded r w).apps = updateFromOmaha w.apps (makeAppResponses r .noUpdate) := by
  unfold pingSucceeded
  simp only
  rw [(persistData_frame _).2.1]
  rfl

theorem pingFailed_apps (w : World) : (pingFailed w).apps = w.apps := (ping_failure_counts w).2.2.2

/-! ### The next request sends exactly the stored values -/

theorem foldCheck_entries (flags : Bool × Bool) (apps : List App) (b : Request.Builder)
    (hf : (b.params.disableUpdates, b.params.offerUpdateIfSameVersion) = flags)
    (hnd : (apps.map (·.id)).Nodup) (hdis : ∀ e ∈ b.entries, ∀ a ∈ apps, e.app.id ≠ a.id) :
    (apps.foldl (fun b app => (b.apply (.updateCheck app)).apply (.ping app)) b).entries =
      b.entries ++ apps.map fun a => ({ app := a, updateCheck := some flags, ping := true } : Request.AppEntry) := by
  induction apps generalizing b with
  | nil => simp
  | cons a rest ih =>
    simp only [List.foldl_cons, List.map_cons]
    have hnd' : (rest.map (·.id)).Nodup := (List.nodup_cons.1 (by simpa using hnd)).2
    have hnotin : a.id ∉ rest.map (·.id) := (List.nodup_cons.1 (by simpa using hnd)).1
    have h1 : Request.insertAndModify b.entries a (Request.setUc (b.params.disableUpdates, b.params.offerUpdateIfSameVersion)) =
        b.entries ++ [{ app := a, updateCheck := some flags }] := by
      rw [insertAndModify_new _ _ _ (fun e he => hdis e he a (by simp)), hf]; rfl
    have h2 : Request.insertAndModify (b.entries ++ [{ app := a, updateCheck := some flags }]) a Request.setPing =
        b.entries ++ [{ app := a, updateCheck := some flags, ping := true }] := by
      have : ∀ (es : List Request.AppEntry), (∀ e ∈ es, e.app.id ≠ a.id) →
          Request.insertAndModify (es ++ [{ app := a, updateCheck := some flags }]) a Request.setPing =
            es ++ [{ app := a, updateCheck := some flags, ping := true }] := by
        intro es
        induction es with
        | nil => intro _; simp [Request.insertAndModify, Request.setPing]
        | cons x xs ihx =>
          intro hx
          have : x.app.id ≠ a.id := hx x (by simp)
          simp only [List.cons_append, Request.insertAndModify, this, if_false]
          rw [ihx (fun e he => hx e (by simp [he]))]
      exact this _ (fun e he => hdis e he a (by simp))
    rw [ih]
    · simp only [Request.Builder.apply, h1, h2, List.append_assoc, List.singleton_append]
    · simpa [Request.Builder.apply] using hf
    · exact hnd'
    · intro e he x hx
      simp only [Request.Builder.apply, h1, h2, List.mem_append, List.mem_singleton] at he
      rcases he with he | rfl
      · exact hdis e he x (by simp [hx])
      · intro hid
        exact hnotin (by simp only [List.mem_map]; exact ⟨x, hx, hid.symm⟩)

/-- **next_request_sends.** With distinct app ids, the update-check request lists every app of the
set, in order, with exactly the app's current cohort fields, version and fingerprint, an update
check with the parameters' flags, and a ping whose `ad` and `rd` are both the app's user-counting
day (absent when it has none). -/
theorem checkBuilder_wire (params : RequestParams) (apps : List App) (session : Nat) (hnd : (apps.map (·.id)).Nodup) :
    wireApps (checkBuilder params apps session) =
      apps.map fun a => ({ id := a.id, version := a.version, fp := a.fp, cohort := a.cohort,
                           updateCheck := some (params.disableUpdates, params.offerUpdateIfSameVersion),
                           ping := some a.userCounting, events := [] } : WireApp) := by
  unfold checkBuilder wireApps
  simp only
  rw [foldCheck_entries (params.disableUpdates, params.offerUpdateIfSameVersion) apps { params := params } rfl hnd
    (fun e he => by simp at he)]
  simp [List.map_map, Function.comp_def]

/-- The ping request sends the same identification and day numbers. -/
theorem pingBuilder_wire (params : RequestParams) (apps : List App) (hnd : (apps.map (·.id)).Nodup) :
    wireApps (apps.foldl (fun b app => b.apply (.ping app)) ({ params := params } : Request.Builder)) =
      apps.map fun a => ({ id := a.id, version := a.version, fp := a.fp, cohort := a.cohort,
                           updateCheck := none, ping := some a.userCounting, events := [] } : WireApp) := by
  have key : ∀ (apps : List App) (b : Request.Builder), (apps.map (·.id)).Nodup →
      (∀ e ∈ b.entries, ∀ a ∈ apps, e.app.id ≠ a.id) →
      (apps.foldl (fun b app => b.apply (.ping app)) b).entries =
        b.entries ++ apps.map fun a => ({ app := a, ping := true } : Request.AppEntry) := by
    intro apps
    induction apps with
    | nil => intro b _ _; simp
    | cons a rest ih =>
      intro b hnd hdis
      simp only [List.foldl_cons, List.map_cons]
      have hnd' : (rest.map (·.id)).Nodup := (List.nodup_cons.1 (by simpa using hnd)).2
      have hnotin : a.id ∉ rest.map (·.id) := (List.nodup_cons.1 (by simpa using hnd)).1
      have h1 : Request.insertAndModify b.entries a Request.setPing = b.entries ++ [{ app := a, ping := true }] := by
        rw [insertAndModify_new _ _ _ (fun e he => hdis e he a (by simp))]; rfl
      rw [ih _ hnd']
      · simp only [Request.Builder.apply, h1, List.append_assoc, List.singleton_append]
      · intro e he x hx
        simp only [Request.Builder.apply, h1, List.mem_append, List.mem_singleton] at he
        rcases he with he | rfl
        · exact hdis e he x (by simp [hx])
        · intro hid
          exact hnotin (by simp only [List.mem_map]; exact ⟨x, hx, hid.symm⟩)
  unfold wireApps
  rw [key apps { params := params } hnd (fun e he => by simp at he)]
  simp [List.map_map, Function.comp_def]

/-! ### Persisted per app, with the check's result -/

def appWrite (a : App) : StoreOp := .set a.id (.str (persistedAppJson a))

def storeOpsOf (w : World) : List StoreOp := w.trace.filterMap fun a => match a with
  | .storage op _ => some op
  | _ => none

theorem storeOpsOf_storeOp (op : StoreOp) (w : World) : storeOpsOf (storeOp op w).2 = op :: storeOpsOf w := by
  unfold storeOpsOf
  rw [(storeOp_frame op w).2.2.2.2.2.2]
  rfl

theorem persistApps_ops (apps : List App) (w : World) :
    storeOpsOf (persistApps apps w) = (apps.map appWrite).reverse ++ storeOpsOf w := by
  induction apps generalizing w with
  | nil => rfl
  | cons a rest ih =>
    unfold persistApps
    rw [ih]
    unfold storeOp_
    rw [storeOpsOf_storeOp]
    simp [appWrite]

/-- **persisted_with_result.** The storage operations that close a check (or a ping) are: the three
context writes, then one write per app of the *current* app set — the app's cohort and
user-counting day, JSON-encoded under the app's id — then one commit. -/
theorem persistData_ops (w : World) :
    ∃ c1 c2 c3, storeOpsOf (persistData w) =
      .commit :: ((w.apps.map appWrite).reverse ++ [c3, c2, c1] ++ storeOpsOf w) := by
  unfold persistData
  unfold storeOp_
  rw [storeOpsOf_storeOp, persistApps_ops]
  obtain ⟨o1, o2, o3, hc⟩ := persistCtx_trace w
  refine ⟨optOp kLastUpdateTime ((w.ctx.sched.lastUpdate.bind pctWall).bind Time.toMicros),
    optOp kPoll (Option.map (fun ns => ((ns / 1000 : Nat) : Int)) w.ctx.st.poll),
    optOp kFailedChecks (if w.ctx.st.failures = 0 then none else some (w.ctx.st.failures : Int)), ?_⟩
  have : storeOpsOf (persistCtx w) =
      [optOp kFailedChecks (if w.ctx.st.failures = 0 then none else some (w.ctx.st.failures : Int)),
       optOp kPoll (Option.map (fun ns => ((ns / 1000 : Nat) : Int)) w.ctx.st.poll),
       optOp kLastUpdateTime ((w.ctx.sched.lastUpdate.bind pctWall).bind Time.toMicros)] ++ storeOpsOf w := by
    unfold storeOpsOf
    rw [hc]
    simp only [List.filterMap_append, List.filterMap_cons, List.filterMap_nil]
  rw [this]
  simp only [List.append_assoc]

/-- After a successful check the per-app writes carry the merged values (the merge happens before
the data is persisted). -/
theorem finishCheckOk_persists_merged (ok : CheckOk) (w : World) :
    ∃ w1, finishCheckOk ok w = persistData w1 ∧ w1.apps = updateFromOmaha w.apps ok.responses := by
  unfold finishCheckOk closeCheck
  refine ⟨_, rfl, ?_⟩
  show (prepareOk ok w).apps = _
  unfold prepareOk
  simp only
  split
  · rw [reportAttemptsInstall_apps]; rfl
  · rfl

theorem pingSucceeded_persists_merged (r : Resp.Response) (w : World) :
    ∃ w1, pingSucceeded r w = persistData w1 ∧ w1.apps = updateFromOmaha w.apps (makeAppResponses r .noUpdate) := by
  unfold pingSucceeded
  exact ⟨_, rfl, rfl⟩

/-- What is written for an app: its three cohort fields (only those set) and its day number. -/
theorem persistedAppJson_shape (a : App) :
    persistedAppJson a = Json.render (.obj [
      (Bytes.ofString "cohort", .obj (Request.optStr "cohort" a.cohort.id ++ Request.optStr "cohorthint" a.cohort.hint ++
        Request.optStr "cohortname" a.cohort.name)),
      (Bytes.ofString "user_counting", .obj [(Bytes.ofString "ClientRegulatedByDate",
        match a.userCounting with | some n => .int n | none => .null)])]) := rfl

/-! ### Restored after a restart into every field the embedder left unset -/

/-- **restore_fills_unset.** When the stored record decodes to `p`, each cohort field and the
user-counting day of the loaded app is the embedder's value if it set one, the stored value
otherwise; nothing else changes. An undecodable or absent record leaves the app as configured. -/
theorem loadApp_spec (st : Store) (a : App) (text : Bytes) (p : PersistedApp)
    (hs : st.getString a.id = some text) (hd : decodePersistedApp text = some (some p)) :
    loadApp st a = some { a with
      cohort := { id := (match a.cohort.id with | some v => some v | none => p.cohort.id),
                  hint := (match a.cohort.hint with | some v => some v | none => p.cohort.hint),
                  name := (match a.cohort.name with | some v => some v | none => p.cohort.name) },
      userCounting := (match a.userCounting with | some n => some n | none => p.userCounting) } := by
  unfold loadApp
  simp only [hs, hd]
  congr 2
  · congr 1
    · cases a.cohort.id <;> rfl
    · cases a.cohort.hint <;> rfl
    · cases a.cohort.name <;> rfl
  · cases a.userCounting <;> rfl

theorem loadApp_absent (st : Store) (a : App) (hs : st.getString a.id = none) : loadApp st a = some a := by
  unfold loadApp; simp [hs]

theorem loadApp_undecodable (st : Store) (a : App) (text : Bytes)
    (hs : st.getString a.id = some text) (hd : decodePersistedApp text = some none) : loadApp st a = some a := by
  unfold loadApp; simp [hs, hd]

/-! ### Non-vacuity -/

example : updateFromOmaha
    [{ id := [97], version := ⟨1, 0, 0, 0⟩, cohort := { id := some [1], hint := some [2], name := none } },
     { id := [98], version := ⟨1, 0, 0, 0⟩, userCounting := some 5 }]
    [{ id := [98], cohort := { id := some [] }, userCounting := some 9, result := .noUpdate },
     { id := [97], cohort := { hint := some [], name := some [7] }, userCounting := none, result := .noUpdate }] =
    [{ id := [97], version := ⟨1, 0, 0, 0⟩, cohort := { id := some [1], hint := some [], name := some [7] }, userCounting := none },
     { id := [98], version := ⟨1, 0, 0, 0⟩, cohort := { id := some [] }, userCounting := some 9 }] := by decide

end Omaha.SM
