/-
C08, crash clause, as theorems over whole traces.

`Lemmas/SMStore` proves that the store is always the replay of the successful storage operations
logged in the trace (`history_store_is_replay`).  The storage the process dies with at any instant is
therefore determined by the prefix of the trace up to that instant — and the trace, storage
operations with their results included, is what the correspondence compares with the real state
machine.  Here: for *every* prefix of *every* trace, what survives a crash is exactly the view the
store had at the last successful `commit` of that prefix — the values of one commit, never a mixture
of two — and a machine rebuilt on it loads its context from that snapshot.
-/
import Omaha.Lemmas.SMStore
import Omaha.Props.C08

namespace Omaha.SM

open Omaha

/-- The prefix of the history up to and including its last successful commit (traces are newest
first: drop the newest actions until a successful `commit` is at the head). -/
def lastCommit : List Action → List Action
  | [] => []
  | a :: older =>
    match a with
    | .storage .commit true => a :: older
    | _ => lastCommit older

/-- **only_commit_moves_durable_state (every prefix).** For every list of actions — so for every
prefix of every history — the durable map is what it was right after the last successful commit. -/
theorem replay_committed_lastCommit (d : List Action) (s : Store) :
    (replay d s).committed = (replay (lastCommit d) s).committed := by
  induction d with
  | nil => rfl
  | cons a older ih =>
    cases a with
    | storage op ok =>
      cases ok with
      | false => simpa [replay, lastCommit] using ih
      | true =>
        cases op with
        | set k v => simpa [replay, lastCommit, applyOp] using ih
        | remove k => simpa [replay, lastCommit, applyOp] using ih
        | commit => rfl
    | _ => simpa [replay, lastCommit] using ih

/-- `lastCommit` is a suffix of the list (an earlier point of the same history). -/
theorem lastCommit_suffix (d : List Action) : ∃ newer, d = newer ++ lastCommit d := by
  induction d with
  | nil => exact ⟨[], rfl⟩
  | cons a older ih =>
    obtain ⟨n, hn⟩ := ih
    cases a with
    | storage op ok =>
      cases ok with
      | false => exact ⟨.storage op false :: n, by simp only [lastCommit, List.cons_append]; rw [← hn]⟩
      | true =>
        cases op with
        | set k v => exact ⟨.storage (.set k v) true :: n, by simp only [lastCommit, List.cons_append]; rw [← hn]⟩
        | remove k => exact ⟨.storage (.remove k) true :: n, by simp only [lastCommit, List.cons_append]; rw [← hn]⟩
        | commit => exact ⟨[], rfl⟩
    | _ => exact ⟨_ :: n, by simp only [lastCommit, List.cons_append]; rw [← hn]⟩

/-- **commit_is_a_snapshot.** Right after a successful commit, what would survive a crash is, key by
key, exactly what the store showed at that instant (pending writes over the older durable map):
one consistent snapshot. -/
theorem commit_is_snapshot (older : List Action) (s : Store) (k : Bytes) :
    (replay (.storage .commit true :: older) s).crash.get k = (replay older s).get k := by
  simp only [replay, applyOp]
  exact crash_commit_get _ k

/-- **crash_consistent (every prefix of every trace).** If the process dies after any prefix `d` of a
history (any environment interaction: `d` is any list of actions), the storage that survives shows,
for every key, what the store showed at the instant of the last successful commit in `d` — or the
initial durable map if there was none.  Never a mixture of two commits, never a partial commit. -/
theorem crash_survivor_is_last_commit (d : List Action) (s : Store) (k : Bytes) :
    (replay d s).crash.get k =
      (match lastCommit d with
       | .storage .commit true :: older => (replay older s).get k
       | _ => lookup k s.committed) := by
  rw [crash_get, replay_committed_lastCommit]
  cases hl : lastCommit d with
  | nil => simp [replay]
  | cons a older =>
    have hhead : a = .storage .commit true := by
      -- by construction `lastCommit` is empty or starts with a successful commit
      clear k
      induction d with
      | nil => simp [lastCommit] at hl
      | cons b rest ih =>
        cases b with
        | storage op ok =>
          cases ok with
          | false => simp only [lastCommit] at hl; exact ih hl
          | true =>
            cases op with
            | set k v => simp only [lastCommit] at hl; exact ih hl
            | remove k => simp only [lastCommit] at hl; exact ih hl
            | commit => simp only [lastCommit] at hl; exact (List.cons.inj hl).1.symm
        | _ => simp only [lastCommit] at hl; exact ih hl
    subst hhead
    simp only
    rw [← crash_get]
    exact commit_is_snapshot older s k

/-- **crash_consistent (histories).** Over any number of iterations of `run` from any start state: the
history's trace extends the old one by `d`; for *every* split `d = newer ++ sofar` (the process dies
when only `sofar` has happened) the surviving storage is determined by `sofar` alone — it is the
replay of `sofar`'s successful storage operations, crashed — and by `crash_survivor_is_last_commit`
shows the snapshot of `sofar`'s last successful commit.  At the end of the history the model's own
store is that replay. -/
theorem history_crash_consistent (us : List UnitEnv) (rs : RunState) (w : World) :
    ∃ d, (runUnits us rs w).2.2.trace = d ++ w.trace ∧ (runUnits us rs w).2.2.store = replay d w.store ∧
      ∀ newer sofar, d = newer ++ sofar → ∀ k,
        (replay sofar w.store).crash.get k =
          (match lastCommit sofar with
           | .storage .commit true :: older => (replay older w.store).get k
           | _ => lookup k w.store.committed) := by
  obtain ⟨d, e, hs⟩ := history_store_is_replay us rs w
  exact ⟨d, e, hs, fun _ sofar _ k => crash_survivor_is_last_commit sofar w.store k⟩

/-- A rebuilt machine reads its context from the surviving storage only through `get` (three keys), so
it presents the snapshot of the last completed commit: `loadCtx` of two stores that agree on every key
agree. -/
theorem loadCtx_of_get_eq (s1 s2 : Store) (h : ∀ k, s1.get k = s2.get k) : loadCtx s1 = loadCtx s2 := by
  unfold loadCtx Store.getTime Store.getInt
  simp only [h]

/-- **rebuilt_machine_sees_last_commit.** The context a state machine rebuilt after a crash presents
to its policy is the one it would have loaded from the store as it stood at the last successful
commit before the crash. -/
theorem rebuilt_machine_sees_last_commit (older : List Action) (newer : List Action) (s : Store)
    (hn : lastCommit (newer ++ .storage .commit true :: older) = .storage .commit true :: older) :
    loadCtx (replay (newer ++ .storage .commit true :: older) s).crash = loadCtx (replay older s).commit := by
  apply loadCtx_of_get_eq
  intro k
  have := crash_survivor_is_last_commit (newer ++ .storage .commit true :: older) s k
  rw [hn] at this
  simp only at this
  rw [this, commit_get]

/-! ### Non-vacuity: two commits, a crash in the middle of the third batch of writes -/

example :
    let d : List Action :=
      [.storage (.set [1] (.int 9)) true,            -- newest: written, not committed
       .storage .commit true, .storage (.set [2] (.int 7)) true, .storage (.remove [1]) true,
       .storage .commit false,                       -- a failed commit changes nothing
       .storage .commit true, .storage (.set [1] (.int 5)) true]
    ((replay d {}).crash.get [1], (replay d {}).crash.get [2]) = (none, some (.int 7)) := by decide

end Omaha.SM
