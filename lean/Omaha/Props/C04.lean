/-
C04 — Update-check flow: announced states and result match what happened.

The observables are the events of the stream.  `marks` is the projection of a trace on the
announcements the property speaks about (state changes, installer errors, the server response);
`pathOf` is the path the check took as a function of what the environment did (outcome of the
request phase, parse result, plan / policy / installer answers).  The central theorem
`performUpdateCheck_marks` says the announcements are exactly `pathMarks (pathOf …)`, for every
world and environment; the iff-clauses of the property are then read off `pathMarks`.
-/
import Omaha.Lemmas.SMReboot
import Omaha.Props.C08

namespace Omaha.SM

open Omaha

/-! ### Projections -/

inductive Mark where
  | state (s : State)
  | insterr (m : Nat)
  | response
  deriving DecidableEq, Repr

def πMark : Action → Option Mark
  | .event (.state s) => some (.state s)
  | .event (.installerError m) => some (.insterr m)
  | .event (.serverResponse _) => some .response
  | _ => none

def πEv : Action → Option Event
  | .event e => some e
  | _ => none

/-- The announcements so far, newest first. -/
def marks (w : World) : List Mark := proj πMark w

/-- All events so far, newest first. -/
def evs (w : World) : List Event := proj πEv w

/-- A tag set that contains no announcement. -/
def NoMarks (ok : Tag → Bool) : Prop :=
  (∀ s, ok (.stateEv s) = false) ∧ ok .insterrEv = false ∧ ok .responseEv = false

theorem πMark_none {ok : Tag → Bool} (h : NoMarks ok) (a : Action) (ha : ok a.tag = true) : πMark a = none := by
  cases a with
  | event e =>
    cases e with
    | state s => simp [Action.tag, h.1 s] at ha
    | installerError m => simp [Action.tag, h.2.1] at ha
    | serverResponse r => simp [Action.tag, h.2.2] at ha
    | _ => rfl
  | _ => rfl

theorem marks_of_addsT {ok : Tag → Bool} (hq : NoMarks ok) {w w' : World} (h : AddsT ok w w') : marks w' = marks w :=
  proj_of_addsT πMark h (πMark_none hq)

theorem noMarks_tQuiet : NoMarks tQuiet := ⟨fun _ => rfl, rfl, rfl⟩
theorem noMarks_tQuietI : NoMarks tQuietI := ⟨fun _ => rfl, rfl, rfl⟩
theorem noMarks_tQuietR : NoMarks tQuietR := ⟨fun _ => rfl, rfl, rfl⟩
theorem noMarks_tReq (k : ReqKind) : NoMarks (tReq k) := ⟨fun _ => rfl, rfl, rfl⟩
theorem noMarks_tStorage : NoMarks tStorage := ⟨fun _ => rfl, rfl, rfl⟩

theorem marks_yield_state (s : State) (w : World) : marks (yieldEv (.state s) w) = .state s :: marks w := by
  unfold marks yieldEv; rw [proj_emit]; rfl

theorem marks_yield_response (r : Resp.Response) (w : World) :
    marks (yieldEv (.serverResponse r) w) = .response :: marks w := by
  unfold marks yieldEv; rw [proj_emit]; rfl

theorem marks_yield_insterr (m : Nat) (w : World) :
    marks (yieldEv (.installerError m) w) = .insterr m :: marks w := by
  unfold marks yieldEv; rw [proj_emit]; rfl

theorem marks_emit_none (a : Action) (w : World) (h : πMark a = none) : marks (emit a w) = marks w := by
  unfold marks; rw [proj_emit, h]; rfl

theorem marks_metric (m : Metric) (w : World) : marks (metric m w) = marks w := marks_emit_none _ _ rfl

/-! ### The path of a check -/

inductive Path where
  | noResponse (e : ReqErr)
  | unparseable
  | noUpdate (r : Resp.Response)
  | planFailed (r : Resp.Response)
  | deferred (r : Resp.Response)
  | denied (r : Resp.Response)
  | installed (r : Resp.Response) (plan : Nat) (results : List AppResult)
  | outside

/-- The path, from the outcome of the request phase and the environment's script. -/
def pathOf (res : Except ReqFail Bytes) (env : Env) : Path :=
  match res with
  | .error f => .noResponse f.err
  | .ok body =>
    match Resp.parseJsonResponse body with
    | .outside => .outside
    | .err => .unparseable
    | .ok r =>
      if (offeredApps r).isEmpty then .noUpdate r
      else
        match env.plan with
        | none => .planFailed r
        | some planId =>
          match env.canStart with
          | .deferred => .deferred r
          | .denied => .denied r
          | .ok => .installed r planId env.results

/-- The announcements of a path, in the order they are made. -/
def pathMarks : Path → List Mark
  | .noResponse _ => [.state .errorChecking]
  | .unparseable => [.state .errorChecking]
  | .noUpdate _ => [.response, .state .noUpdate]
  | .planFailed _ => [.response, .state .installing, .state .installationError]
  | .deferred _ => [.response, .state .deferred]
  | .denied _ => [.response]
  | .installed _ _ results =>
    [.response, .state .installing] ++ (failedMessages results).map .insterr ++
      (if noFailure results then [] else [.state .installationError])
  | .outside => []

/-! ### The request phase -/

/-- The first part of `performUpdateCheck`: everything up to and including the attempt loop. -/
def requestPhase (params : RequestParams) (apps : List App) (w : World) : Except ReqFail Bytes × Nat × World :=
  let w := yieldEv (.state (.checking params.source)) w
  let w := reportCheckInterval params.source w
  let (session, w) := nextGuid w
  attemptLoop 3 1 (checkBuilder params apps session) w

/-- The session id of the check. -/
def sessionOf (params : RequestParams) (w : World) : Nat :=
  (nextGuid (reportCheckInterval params.source (yieldEv (.state (.checking params.source)) w))).1

theorem performUpdateCheck_eq (params : RequestParams) (apps : List App) (w : World) :
    performUpdateCheck params apps w =
      match (requestPhase params apps w).1 with
      | .error f => (some (.error (.omahaRequest f.err)),
          metric (.requestsPerCheck (requestPhase params apps w).2.1 false) (requestPhase params apps w).2.2)
      | .ok body => responsePhase params apps (sessionOf params w) body
          (metric (.requestsPerCheck (requestPhase params apps w).2.1 true) (requestPhase params apps w).2.2) := by
  unfold performUpdateCheck requestPhase sessionOf
  simp only
  generalize attemptLoop 3 1 _ _ = r
  obtain ⟨res, attempts, w2⟩ := r
  cases res <;> rfl

theorem marks_omahaRequest (k : ReqKind) (b : Request.Builder) (w : World) : marks (omahaRequest k b w).2 = marks w :=
  marks_of_addsT (noMarks_tReq k) (addsT_omahaRequest (tReq k) k (by cases k <;> rfl) rfl rfl rfl _ _)

theorem marks_ite_metric (c : Prop) [Decidable c] (m : Metric) (w : World) : marks (if c then metric m w else w) = marks w := by
  split
  · exact marks_metric _ _
  · rfl

theorem giveUp_of_three (f : ReqFail) (attempt : Nat) (poll : Option Nat) (h : attempt ≥ 3) : giveUp f attempt poll = true := by
  unfold giveUp
  have : decide (attempt ≥ 3) = true := by simp; omega
  cases f.err <;> simp [this]

theorem attemptLoop_marks (fuel attempt : Nat) (b : Request.Builder) (w : World) (hf : fuel + attempt ≥ 4) (h1 : fuel ≥ 1) :
    marks (attemptLoop fuel attempt b w).2.2 =
      (if isOk (attemptLoop fuel attempt b w).1 then [] else [.state .errorChecking]) ++ marks w := by
  fun_induction attemptLoop fuel attempt b w
  · omega
  · rename_i fuel attempt b w start b' w2 hx w1 body hr wm
    have e : marks w1 = marks w := by
      have := marks_omahaRequest .updateCheck b' w2
      rw [hr] at this
      rw [this]
      have : w2 = (withRequestId b w).2 := by rw [hx]
      rw [this]; rfl
    simp only [isOk, if_true, List.nil_append]
    show marks (if start ≤ w1.clock.mono then _ else w1) = _
    rw [marks_ite_metric, e]
  · rename_i fuel attempt b w start b' w2 hx w1 f hr wm hg
    have e : marks w1 = marks w := by
      have := marks_omahaRequest .updateCheck b' w2
      rw [hr] at this
      rw [this]
      have : w2 = (withRequestId b w).2 := by rw [hx]
      rw [this]; rfl
    simp only [isOk]
    rw [marks_yield_state]
    show _ :: marks (if start ≤ w1.clock.mono then _ else w1) = _
    rw [marks_ite_metric, e]; rfl
  · rename_i fuel attempt b w start b' w2 hx w1 f hr wm hg ih
    have e : marks w1 = marks w := by
      have := marks_omahaRequest .updateCheck b' w2
      rw [hr] at this
      rw [this]
      have : w2 = (withRequestId b w).2 := by rw [hx]
      rw [this]; rfl
    have hlt : attempt < 3 := Nat.lt_of_not_le fun hge => hg (giveUp_of_three _ _ _ hge)
    rw [ih (by omega) (by omega)]
    congr 1
    rw [marks_of_addsT noMarks_tQuiet (addsT_backoff tQuiet rfl attempt wm)]
    show marks (if start ≤ w1.clock.mono then _ else w1) = _
    rw [marks_ite_metric, e]

/-! ### The phases after the response -/

theorem marks_reportEvent (params : RequestParams) (ev : Omaha.Event) (apps : List App) (session : Nat)
    (nv : List (Bytes × Option Bytes)) (ns : Option Nat) (w : World) :
    marks (reportEvent params ev apps session nv ns w) = marks w :=
  marks_of_addsT noMarks_tQuiet (addsQ_reportEvent _ _ _ _ _ _ _)

theorem failedMessages_isEmpty (rs : List AppResult) : (failedMessages rs).isEmpty = noFailure rs := by
  induction rs with
  | nil => rfl
  | cons r rest ih =>
    cases r <;> simp_all [failedMessages, noFailure]

theorem marks_insterrFold (ms : List Nat) (w : World) :
    marks (ms.foldl (fun w m => yieldEv (.installerError m) w) w) = (ms.map Mark.insterr).reverse ++ marks w := by
  induction ms generalizing w with
  | nil => rfl
  | cons m rest ih =>
    simp only [List.foldl_cons, List.map_cons, List.reverse_cons, List.append_assoc]
    rw [ih, marks_yield_insterr]; rfl

/-- The announcements of an attempted install, in order. -/
def installMarks (results : List AppResult) : List Mark :=
  [.state .installing] ++ (failedMessages results).map .insterr ++
    (if noFailure results then [] else [.state .installationError])

theorem finishInstall_marks (planId : Nat) (firstSeen finish : Int) (nv : List (Bytes × Option Bytes))
    (response : Resp.Response) (results : List AppResult) (w : World) :
    marks (finishInstall planId firstSeen finish nv response results w).2 =
      (if noFailure results then [] else [Mark.state .installationError]) ++
        ((failedMessages results).map Mark.insterr).reverse ++ marks w := by
  unfold finishInstall
  have hE := failedMessages_isEmpty results
  split
  · rename_i h
    have : noFailure results = false := by
      rw [← hE]; simpa using h
    simp only [this, marks_yield_state, marks_insterrFold]
    simp
  · rename_i h
    have hn : noFailure results = true := by
      rw [← hE]; simpa using h
    have : failedMessages results = [] := by
      have := hE; rw [hn] at this; simpa using this
    simp only [hn, this, if_true, List.map_nil, List.reverse_nil, List.nil_append]
    exact marks_of_addsT noMarks_tQuietR (addsQ_recordFinish _ _ _ _ _)

theorem installPhase_marks (params : RequestParams) (apps : List App) (session : Nat)
    (nv : List (Bytes × Option Bytes)) (response : Resp.Response) (planId : Nat) (w : World) :
    marks (installPhase params apps session nv response planId w).2 = (installMarks w.env.results).reverse ++ marks w := by
  unfold installPhase
  simp only
  have f1 := (frame_yield (.state .installing) w).trans
    (frame_reportEvent params (eventSuccess 13) apps session nv none _)
  have m1 : marks (reportEvent params (eventSuccess 13) apps session nv none (yieldEv (.state .installing) w)) =
      .state .installing :: marks w := by rw [marks_reportEvent, marks_yield_state]
  generalize reportEvent params (eventSuccess 13) apps session nv none (yieldEv (.state .installing) w) = w1 at f1 m1
  have f2 := f1.trans (frame_recordFirstSeen (planIdText planId) w1.clock.wall w1)
  have m2 : marks (recordFirstSeen (planIdText planId) w1.clock.wall w1).2 = .state .installing :: marks w := by
    rw [marks_of_addsT noMarks_tQuiet (addsQ_recordFirstSeen _ _ _), m1]
  generalize recordFirstSeen (planIdText planId) w1.clock.wall w1 = r2 at f2 m2
  have m3 : marks (runInstall planId r2.2) = .state .installing :: marks w := by
    rw [marks_of_addsT noMarks_tQuietI (addsQ_runInstall _ _), m2]
  generalize runInstall planId r2.2 = w3 at m3
  have m4 : marks (durationMetric w1.clock.wall r2.2.env.results w3).2 = .state .installing :: marks w := by
    rw [marks_of_addsT noMarks_tQuiet (addsQ_durationMetric _ _ _), m3]
  generalize durationMetric w1.clock.wall r2.2.env.results w3 = r4 at m4
  have m5 : marks (reportInstall params apps session nv response r2.2.env.results r4.1 r4.2) = .state .installing :: marks w := by
    rw [marks_of_addsT noMarks_tQuiet (addsQ_reportInstall _ _ _ _ _ _ _ _), m4]
  rw [finishInstall_marks, m5, f2.results]
  unfold installMarks
  split <;> simp

/-- The announcements after the response was announced, when some app was offered an update. -/
def updateMarks (env : Env) : List Mark :=
  match env.plan with
  | none => [.state .installing, .state .installationError]
  | some _ =>
    match env.canStart with
    | .deferred => [.state .deferred]
    | .denied => []
    | .ok => installMarks env.results

theorem updatePhase_marks (params : RequestParams) (apps : List App) (session : Nat) (response : Resp.Response)
    (w : World) : marks (updatePhase params apps session response w).2 = (updateMarks w.env).reverse ++ marks w := by
  unfold updatePhase updateMarks
  simp only
  split
  · rename_i hp
    unfold planFailedPhase
    simp only [emit] at hp
    simp only [hp]
    rw [marks_reportEvent, marks_yield_state, marks_yield_state, marks_emit_none _ _ rfl]; rfl
  · rename_i planId hp
    simp only [emit] at hp
    simp only [hp]
    split
    · rename_i hc
      simp only [emit] at hc
      simp only [hc]
      unfold deferredPhase
      rw [marks_yield_state, marks_reportEvent, marks_emit_none _ _ rfl, marks_emit_none _ _ rfl]; rfl
    · rename_i hc
      simp only [emit] at hc
      simp only [hc]
      unfold deniedPhase
      rw [marks_reportEvent, marks_emit_none _ _ rfl, marks_emit_none _ _ rfl]; rfl
    · rename_i hc
      simp only [emit] at hc
      simp only [hc]
      rw [installPhase_marks, marks_emit_none _ _ rfl, marks_emit_none _ _ rfl]; rfl

theorem pathMarks_ok_offered (body : Bytes) (r : Resp.Response) (env : Env)
    (hp : Resp.parseJsonResponse body = .ok r) (ho : (offeredApps r).isEmpty = false) :
    pathMarks (pathOf (.ok body) env) = .response :: updateMarks env := by
  unfold pathOf updateMarks
  simp only [hp, ho]
  cases env.plan with
  | none => rfl
  | some planId =>
    simp only
    cases env.canStart <;> simp [pathMarks, installMarks]

theorem responsePhase_marks (params : RequestParams) (apps : List App) (session : Nat) (body : Bytes) (w : World) :
    marks (responsePhase params apps session body w).2 = (pathMarks (pathOf (.ok body) w.env)).reverse ++ marks w := by
  unfold responsePhase
  split
  · rename_i hp
    simp [pathOf, hp, pathMarks]
  · rename_i hp
    unfold parseFailedPhase
    rw [marks_reportEvent, marks_yield_state]
    simp [pathOf, hp, pathMarks]
  · rename_i response hp
    simp only
    split
    · rename_i ho
      unfold noUpdatePhase
      rw [marks_yield_state, marks_yield_response]
      simp [pathOf, hp, ho, pathMarks]
    · rename_i ho
      have ho' : (offeredApps response).isEmpty = false := by simpa using ho
      rw [updatePhase_marks, marks_yield_response, pathMarks_ok_offered body response _ hp ho']
      simp [yieldEv, emit]

theorem requestPhase_frame (params : RequestParams) (apps : List App) (w : World) :
    Frame w (requestPhase params apps w).2.2 := by
  unfold requestPhase
  simp only
  have h0 := frame_yield (.state (.checking params.source)) w
  generalize yieldEv (.state (.checking params.source)) w = w0 at h0
  have h1 := h0.trans (frame_reportCheckInterval params.source w0)
  generalize reportCheckInterval params.source w0 = w1 at h1
  have h2 : Frame w (nextGuid w1).2 := h1.trans ⟨rfl, rfl, rfl, rfl, rfl, rfl, rfl, rfl, rfl, rfl, rfl⟩
  exact h2.trans (frame_attemptLoop 3 1 _ _)

theorem requestPhase_marks (params : RequestParams) (apps : List App) (w : World) :
    marks (requestPhase params apps w).2.2 =
      (if isOk (requestPhase params apps w).1 then [] else [Mark.state .errorChecking]) ++
        .state (.checking params.source) :: marks w := by
  unfold requestPhase
  simp only
  rw [attemptLoop_marks _ _ _ _ (by omega) (by omega)]
  congr 1
  have : marks (nextGuid (reportCheckInterval params.source (yieldEv (.state (.checking params.source)) w))).2 =
      marks (reportCheckInterval params.source (yieldEv (.state (.checking params.source)) w)) := rfl
  rw [this, marks_of_addsT noMarks_tQuiet (addsT_reportCheckInterval tQuiet rfl _ _), marks_yield_state]

/-- **flow_shape (states in between name the path taken).** For every world and environment, the
announcements of an update check are: CheckingForUpdates, then exactly the announcements of the
path the check took. -/
theorem performUpdateCheck_marks (params : RequestParams) (apps : List App) (w : World) :
    marks (performUpdateCheck params apps w).2 =
      (pathMarks (pathOf (requestPhase params apps w).1 w.env)).reverse ++
        .state (.checking params.source) :: marks w := by
  rw [performUpdateCheck_eq]
  have hm := requestPhase_marks params apps w
  have hf := requestPhase_frame params apps w
  generalize requestPhase params apps w = r at hm hf
  obtain ⟨res, attempts, w2⟩ := r
  cases res with
  | error f =>
    simp only [isOk] at hm
    simp only [marks_metric, hm, pathOf, pathMarks]
    rfl
  | ok body =>
    simp only [isOk, if_true, List.nil_append] at hm
    simp only
    rw [responsePhase_marks, marks_metric, hm]
    have : (metric (.requestsPerCheck attempts true) w2).env = w2.env := rfl
    rw [this]
    have henv : pathOf (.ok body) w2.env = pathOf (.ok body) w.env := by
      have h1 : w2.env.plan = w.env.plan := hf.plan
      have h2 : w2.env.canStart = w.env.canStart := hf.canStart
      have h3 : w2.env.results = w.env.results := hf.results
      unfold pathOf
      simp only [h1, h2, h3]
    rw [henv]

/-! ### The iff-clauses of the property, read off `pathMarks` -/

/-- A usable response: the request phase ended with a body and the body parsed. -/
def Path.usable : Path → Option Resp.Response
  | .noUpdate r | .planFailed r | .deferred r | .denied r | .installed r _ _ => some r
  | _ => none

theorem error_iff (p : Path) (hp : p ≠ .outside) :
    Mark.state .errorChecking ∈ pathMarks p ↔ p.usable = none := by
  cases p <;> simp [pathMarks, Path.usable] at *

/-- NoUpdateAvailable iff a usable response offered no update. -/
theorem noUpdate_iff (p : Path) : Mark.state .noUpdate ∈ pathMarks p ↔ ∃ r, p = .noUpdate r := by
  cases p <;> simp [pathMarks]

/-- InstallationDeferredByPolicy iff the policy deferred. -/
theorem deferred_iff (p : Path) : Mark.state .deferred ∈ pathMarks p ↔ ∃ r, p = .deferred r := by
  cases p <;> simp [pathMarks]

/-- InstallingUpdate iff an install plan was attempted (plan creation tried and failed, or the
install was started). -/
theorem installing_iff (p : Path) :
    Mark.state .installing ∈ pathMarks p ↔ (∃ r, p = .planFailed r) ∨ (∃ r n rs, p = .installed r n rs) := by
  cases p <;> simp [pathMarks]

theorem noFailure_false_iff (rs : List AppResult) : noFailure rs = false ↔ ∃ m, AppResult.failed m ∈ rs := by
  induction rs with
  | nil => simp [noFailure]
  | cons r rest ih =>
    cases r <;> simp_all [noFailure]

/-- InstallationError iff plan creation failed or some app's install failed. -/
theorem installationError_iff (p : Path) :
    Mark.state .installationError ∈ pathMarks p ↔
      (∃ r, p = .planFailed r) ∨ (∃ r n rs, p = .installed r n rs ∧ ∃ m, AppResult.failed m ∈ rs) := by
  cases p with
  | installed r n rs =>
    have key : Mark.state .installationError ∈ pathMarks (.installed r n rs) ↔ noFailure rs = false := by
      simp only [pathMarks, List.mem_append, List.mem_cons, List.mem_map, reduceCtorEq, false_or, List.not_mem_nil,
        or_false, and_false, exists_false]
      cases noFailure rs <;> simp
    rw [key, noFailure_false_iff]
    constructor
    · intro h; exact Or.inr ⟨r, n, rs, rfl, h⟩
    · rintro (⟨_, h⟩ | ⟨_, _, _, h, hm⟩)
      · cases h
      · cases h; exact hm
  | _ => simp [pathMarks]

/-- One installer-error announcement per failed app, in order, all before InstallationError. -/
theorem insterr_per_failed (r : Resp.Response) (n : Nat) (rs : List AppResult) :
    pathMarks (.installed r n rs) =
      [.response, .state .installing] ++ (failedMessages rs).map .insterr ++
        (if noFailure rs then [] else [.state .installationError]) := rfl

theorem failedMessages_spec (rs : List AppResult) (m : Nat) : m ∈ failedMessages rs ↔ AppResult.failed m ∈ rs := by
  induction rs with
  | nil => simp [failedMessages]
  | cons r rest ih =>
    cases r <;> simp_all [failedMessages]

/-- The server response is announced iff a body was obtained (authenticated, see
`handleOutcome_ok_iff`) and parsed. -/
theorem response_iff (p : Path) : Mark.response ∈ pathMarks p ↔ p.usable.isSome := by
  cases p <;> simp [pathMarks, Path.usable]

/-- A body reaches the parser only from an exchange that returned a 2xx response which, when CUP is
configured, passed verification. -/
theorem handleOutcome_ok_iff (o : HttpOutcome) (w : World) (body : Bytes) :
    (handleOutcome o w).1 = .ok body ↔
      ∃ status ra auth dt, o = .response status ra body auth dt ∧ (w.cup.isSome → auth = true) ∧
        200 ≤ status ∧ status < 300 := by
  unfold handleOutcome
  cases o with
  | fail k dt => simp
  | response status ra b auth dt =>
    dsimp only
    have hcup : (tick dt w).cup = w.cup := rfl
    rw [hcup]
    by_cases hc : w.cup.isSome = true ∧ (!auth) = true
    · rw [if_pos hc]
      constructor
      · intro h; cases h
      · rintro ⟨st, ra', au, dt', h, ha, _, _⟩
        cases h
        have := ha hc.1
        rw [this] at hc
        exact absurd hc.2 (by decide)
    · rw [if_neg hc]
      by_cases hs : 200 ≤ status ∧ status < 300
      · rw [if_pos hs]
        constructor
        · intro h
          cases h
          refine ⟨status, ra, auth, dt, rfl, ?_, hs.1, hs.2⟩
          intro hi
          cases auth
          · exact absurd ⟨hi, rfl⟩ hc
          · rfl
        · rintro ⟨st, ra', au, dt', h, _⟩
          cases h; rfl
      · rw [if_neg hs]
        constructor
        · intro h; cases h
        · rintro ⟨st, ra', au, dt', h, _, h1, h2⟩
          cases h
          exact absurd ⟨h1, h2⟩ hs


/-! ### The closing events: final schedule, final protocol state, exactly one result, last -/

theorem πEv_none_storage (a : Action) (h : tStorage a.tag = true) : πEv a = none := by
  cases a with
  | event e => cases e <;> simp [Action.tag, tStorage] at h
  | _ => rfl

theorem closeCheck_evs (r : Except CheckErr (List AppResp)) (w : World) :
    evs (closeCheck r w) = [.result r, .protocol w.ctx.st, .schedule w.ctx.sched] ++ evs w := by
  unfold closeCheck
  simp only
  unfold evs
  rw [proj_of_addsT πEv (addsT_persistData tStorage rfl _) πEv_none_storage]
  simp only [yieldEv, proj_emit]
  rfl

/-- Events that may occur between CheckingForUpdates and the closing events. -/
def midEvent : Event → Prop
  | .result _ => False
  | .schedule _ => False
  | .state s => s ≠ .idle ∧ s ≠ .waitingForReboot
  | _ => True

theorem midEvent_of_tCheckBody (a : Action) (h : tCheckBody a.tag = true) : ∀ e, πEv a = some e → midEvent e := by
  intro e he
  cases a with
  | event e' =>
    simp only [πEv, Option.some.injEq] at he
    subst he
    cases e' <;> simp_all [Action.tag, tCheckBody, midEvent]
  | _ => simp [πEv] at he

theorem evs_of_addsT_body {w w' : World} (h : AddsT tCheckBody w w') :
    ∃ mid, evs w' = mid ++ evs w ∧ ∀ e ∈ mid, midEvent e := by
  obtain ⟨d, e, p⟩ := h
  refine ⟨d.filterMap πEv, ?_, ?_⟩
  · unfold evs proj; rw [e, List.filterMap_append]
  · intro ev hev
    obtain ⟨a, ha, hae⟩ := List.mem_filterMap.1 hev
    exact midEvent_of_tCheckBody a (p a ha) ev hae

theorem addsT_reportAttemptsInstall (s : Bool) (w : World) : AddsT tCheckBody w (reportAttemptsInstall s w) := by
  unfold reportAttemptsInstall
  simp only
  split
  · exact (addsT_metric tCheckBody _ w rfl).trans (addsT_storeOp_ tCheckBody rfl _ _)
  · exact (addsT_metric tCheckBody _ w rfl).trans (addsT_storeOp_ tCheckBody rfl _ _)

theorem addsT_prepareOk (ok : CheckOk) (w : World) : AddsT tCheckBody w (prepareOk ok w) := by
  unfold prepareOk
  simp only
  have ha : AddsT tCheckBody w (reportAttemptsCheck true (setLastUpdate w)) := by
    unfold reportAttemptsCheck
    simp only [if_true]
    exact (AddsT.of_eq tCheckBody w _ rfl).trans (addsT_metric tCheckBody _ _ rfl)
  have hb : AddsT tCheckBody w { reportAttemptsCheck true (setLastUpdate w) with apps := updateFromOmaha (reportAttemptsCheck true (setLastUpdate w)).apps ok.responses } :=
    ha.trans (AddsT.of_eq _ _ _ rfl)
  split
  · exact hb.trans (addsT_reportAttemptsInstall _ _)
  · exact hb

theorem addsT_prepareErr (e : CheckErr) (w : World) : AddsT tCheckBody w (prepareErr e w) := by
  unfold prepareErr
  simp only
  have ha : AddsT tCheckBody w (if talkedToOmaha e then setLastUpdate w else w) := by
    split
    · exact AddsT.of_eq _ _ _ rfl
    · exact AddsT.refl _ _
  have hb := ha.trans (addsT_metric tCheckBody (.failureReason (failureReason e)) _ rfl)
  refine hb.trans ?_
  unfold reportAttemptsCheck
  exact AddsT.of_eq _ _ _ rfl

/-- **flow_shape (first and last).** Every update check that the model describes announces
CheckingForUpdates first; everything in between is neither a result nor a schedule change nor
Idle / WaitingForReboot; and its last three events are the schedule, the protocol state — both as
the context holds them when the check is over — and exactly one result. -/
theorem startUpdateCheck_evs (params : RequestParams) (w : World) (h : (startUpdateCheck params w).1 ≠ none) :
    ∃ r mid, evs (startUpdateCheck params w).2 =
        [.result r, .protocol (startUpdateCheck params w).2.ctx.st, .schedule (startUpdateCheck params w).2.ctx.sched] ++
          mid ++ .state (.checking params.source) :: evs w ∧
      ∀ e ∈ mid, midEvent e := by
  unfold startUpdateCheck at h ⊢
  have hs := performUpdateCheck_shape params w.apps w
  generalize performUpdateCheck params w.apps w = pr at h hs
  obtain ⟨res, w1⟩ := pr
  have hfirst : evs (yieldEv (.state (.checking params.source)) w) = .state (.checking params.source) :: evs w := by
    unfold evs yieldEv; rw [proj_emit]; rfl
  cases res with
  | none => exact absurd rfl h
  | some cr =>
    cases cr with
    | ok ok =>
      simp only
      unfold finishCheckOk
      have h2 := hs.trans (addsT_prepareOk ok w1)
      generalize prepareOk ok w1 = w2 at h2
      obtain ⟨mid, hm, hmid⟩ := evs_of_addsT_body h2
      refine ⟨.ok ok.responses, mid, ?_, hmid⟩
      rw [closeCheck_evs, hm, hfirst, (closeCheck_frame _ _).1]
      simp
    | error e =>
      simp only
      unfold finishCheckErr
      have h2 := hs.trans (addsT_prepareErr e w1)
      generalize prepareErr e w1 = w2 at h2
      obtain ⟨mid, hm, hmid⟩ := evs_of_addsT_body h2
      refine ⟨.error e, mid, ?_, hmid⟩
      rw [closeCheck_evs, hm, hfirst, (closeCheck_frame _ _).1]
      simp


/-! ### The result: the response's apps in order, each with the action it received -/

def actionOf : AppResult → AppAction
  | .installed => .updated
  | .deferred => .deferredByPolicy
  | .failed _ => .installError

theorem alignResults_length (apps : List Resp.App) (rs : List AppResult) :
    (alignResults apps rs).length = apps.length := by
  induction apps generalizing rs with
  | nil => simp [alignResults]
  | cons a rest ih =>
    unfold alignResults
    split
    · cases rs with
      | nil => simp [ih]
      | cons r rs' => simp [ih]
    · simp [ih]

/-- **result_alignment.** With one installer result per offered app (the installer's contract), the
apps offered an update receive the installer's results in response order — whatever else the
response lists in between — and every other app is reported NoUpdate. -/
theorem alignResults_spec (apps : List Resp.App) (rs : List AppResult)
    (h : rs.length = (apps.filter isOffered).length) :
    ((apps.zip (alignResults apps rs)).filter (fun p => isOffered p.1)) = (apps.filter isOffered).zip (rs.map actionOf) ∧
    ∀ p ∈ apps.zip (alignResults apps rs), isOffered p.1 = false → p.2 = .noUpdate := by
  induction apps generalizing rs with
  | nil => simp [alignResults]
  | cons a rest ih =>
    unfold alignResults
    by_cases ho : isOffered a = true
    · simp only [ho, if_true]
      cases rs with
      | nil => simp [List.filter, ho] at h
      | cons r rs' =>
        have h' : rs'.length = (rest.filter isOffered).length := by
          simpa [List.filter, ho] using h
        obtain ⟨i1, i2⟩ := ih rs' h'
        constructor
        · simp only [List.zip_cons_cons, List.filter_cons, ho, if_true, List.map_cons]
          rw [i1]
          cases r <;> rfl
        · intro p hp hn
          simp only [List.zip_cons_cons, List.mem_cons] at hp
          rcases hp with rfl | hp
          · simp [ho] at hn
          · exact i2 p hp hn
    · have ho' : isOffered a = false := by simpa using ho
      simp only [ho', Bool.false_eq_true, if_false]
      have h' : rs.length = (rest.filter isOffered).length := by
        simpa [List.filter, ho'] using h
      obtain ⟨i1, i2⟩ := ih rs h'
      constructor
      · simp only [List.zip_cons_cons, List.filter_cons, ho', Bool.false_eq_true, if_false]
        exact i1
      · intro p hp hn
        simp only [List.zip_cons_cons, List.mem_cons] at hp
        rcases hp with rfl | hp
        · rfl
        · exact i2 p hp hn

theorem zipResp_ids (ds : Option Nat) (apps : List Resp.App) (acts : List AppAction) (h : acts.length = apps.length) :
    ((apps.zip acts).map fun (p : Resp.App × AppAction) =>
      ({ id := p.1.id, cohort := p.1.cohort, userCounting := ds, result := p.2 } : AppResp)).map (·.id) = apps.map (·.id) := by
  induction apps generalizing acts with
  | nil => simp
  | cons a rest ih =>
    cases acts with
    | nil => simp at h
    | cons x xs =>
      simp only [List.zip_cons_cons, List.map_cons]
      rw [ih xs (by simpa using h)]

theorem zipResp_actions (ds : Option Nat) (apps : List Resp.App) (acts : List AppAction) (h : acts.length = apps.length) :
    ((apps.zip acts).map fun (p : Resp.App × AppAction) =>
      ({ id := p.1.id, cohort := p.1.cohort, userCounting := ds, result := p.2 } : AppResp)).map (·.result) = acts := by
  induction apps generalizing acts with
  | nil => cases acts <;> simp_all
  | cons a rest ih =>
    cases acts with
    | nil => simp at h
    | cons x xs =>
      simp only [List.zip_cons_cons, List.map_cons]
      rw [ih xs (by simpa using h)]

theorem installResponses_ids (r : Resp.Response) (rs : List AppResult) :
    (installResponses r rs).map (·.id) = r.apps.map (·.id) :=
  zipResp_ids _ r.apps _ (alignResults_length r.apps rs)

theorem installResponses_actions (r : Resp.Response) (rs : List AppResult) :
    (installResponses r rs).map (·.result) = alignResults r.apps rs :=
  zipResp_actions _ r.apps _ (alignResults_length r.apps rs)

theorem makeAppResponses_ids (r : Resp.Response) (a : AppAction) :
    (makeAppResponses r a).map (·.id) = r.apps.map (·.id) ∧ ∀ x ∈ makeAppResponses r a, x.result = a := by
  unfold makeAppResponses
  constructor
  · rw [List.map_map]; rfl
  · intro x hx
    obtain ⟨y, _, rfl⟩ := List.mem_map.1 hx
    rfl

/-- The result of a path: error kind, or the response's apps with their actions. -/
def pathResult : Path → Option (Except CheckErr (List AppResp))
  | .noResponse e => some (.error (.omahaRequest e))
  | .unparseable => some (.error .responseParser)
  | .noUpdate r => some (.ok (makeAppResponses r .noUpdate))
  | .planFailed _ => some (.error .installPlan)
  | .deferred r => some (.ok (makeAppResponses r .deferredByPolicy))
  | .denied r => some (.ok (makeAppResponses r .deniedByPolicy))
  | .installed r _ rs => some (.ok (installResponses r rs))
  | .outside => none

def resOf (c : CheckResult) : Option (Except CheckErr (List AppResp)) :=
  c.map fun x => match x with
    | .ok ok => .ok ok.responses
    | .error e => .error e

/-- Is a reboot pending after this check? -/
def rebootOf (c : CheckResult) : Bool :=
  match c with
  | some (.ok ok) => ok.reboot
  | _ => false

/-- A reboot is pending exactly after an install in which no app failed and for which the policy
says a reboot is needed. -/
def pathReboot (p : Path) (env : Env) : Bool :=
  match p with
  | .installed _ _ rs => noFailure rs && env.rebootNeeded
  | _ => false

theorem recordFinish_fst (planId : Nat) (firstSeen finish : Int) (nv : List (Bytes × Option Bytes)) (w : World) :
    (recordFinish planId firstSeen finish nv w).1 = (recordFinish planId firstSeen finish nv w).2.env.rebootNeeded := rfl

theorem installPhase_result (params : RequestParams) (apps : List App) (session : Nat)
    (nv : List (Bytes × Option Bytes)) (response : Resp.Response) (planId : Nat) (w : World) :
    (installPhase params apps session nv response planId w).1 =
      some (.ok ⟨installResponses response w.env.results, noFailure w.env.results && w.env.rebootNeeded⟩) := by
  unfold installPhase
  simp only
  have f1 := (frame_yield (.state .installing) w).trans
    (frame_reportEvent params (eventSuccess 13) apps session nv none _)
  generalize reportEvent params (eventSuccess 13) apps session nv none (yieldEv (.state .installing) w) = w1 at f1
  have f2 := f1.trans (frame_recordFirstSeen (planIdText planId) w1.clock.wall w1)
  generalize recordFirstSeen (planIdText planId) w1.clock.wall w1 = r2 at f2
  have f3 := f2.trans (frame_runInstall planId r2.2)
  generalize runInstall planId r2.2 = w3 at f3
  have f4 := f3.trans (frame_durationMetric w1.clock.wall r2.2.env.results w3)
  generalize durationMetric w1.clock.wall r2.2.env.results w3 = r4 at f4
  have f5 := f4.trans (frame_reportInstall params apps session nv response r2.2.env.results r4.1 r4.2)
  generalize reportInstall params apps session nv response r2.2.env.results r4.1 r4.2 = w5 at f5
  rw [f2.results]
  unfold finishInstall
  have hE := failedMessages_isEmpty w.env.results
  split
  · rename_i h
    have : noFailure w.env.results = false := by rw [← hE]; simpa using h
    simp [this]
  · rename_i h
    have hn : noFailure w.env.results = true := by rw [← hE]; simpa using h
    rw [recordFinish_fst, (f5.trans (frame_recordFinish _ _ _ _ _)).rebootNeeded, hn]
    simp

theorem responsePhase_result (params : RequestParams) (apps : List App) (session : Nat) (body : Bytes) (w : World) :
    resOf (responsePhase params apps session body w).1 = pathResult (pathOf (.ok body) w.env) ∧
    rebootOf (responsePhase params apps session body w).1 = pathReboot (pathOf (.ok body) w.env) w.env := by
  unfold responsePhase pathOf
  split
  · rename_i hp; simp [hp, resOf, pathResult, rebootOf, pathReboot]
  · rename_i hp; simp [hp, parseFailedPhase, resOf, pathResult, rebootOf, pathReboot]
  · rename_i response hp
    simp only [hp]
    split
    · rename_i ho; simp [ho, noUpdatePhase, resOf, pathResult, rebootOf, pathReboot]
    · unfold updatePhase
      simp only
      have e1 : (yieldEv (.serverResponse response) w).env = w.env := rfl
      have e2 : ∀ a, (emit a (yieldEv (.serverResponse response) w)).env = w.env := fun _ => rfl
      rw [e2]
      cases hpl : w.env.plan with
      | none => simp [planFailedPhase, resOf, pathResult, rebootOf, pathReboot]
      | some planId =>
        simp only
        have e3 : ∀ a b, (emit a (emit b (yieldEv (.serverResponse response) w))).env = w.env := fun _ _ => rfl
        rw [e3]
        cases hc : w.env.canStart with
        | deferred => simp [deferredPhase, resOf, pathResult, rebootOf, pathReboot]
        | denied => simp [deniedPhase, resOf, pathResult, rebootOf, pathReboot]
        | ok =>
          simp only
          rw [installPhase_result]
          simp [resOf, pathResult, rebootOf, pathReboot, e3]

/-- **result_alignment (whole check).** The result of the check and whether a reboot is pending are
functions of the path. -/
theorem performUpdateCheck_result (params : RequestParams) (apps : List App) (w : World) :
    resOf (performUpdateCheck params apps w).1 = pathResult (pathOf (requestPhase params apps w).1 w.env) ∧
    rebootOf (performUpdateCheck params apps w).1 = pathReboot (pathOf (requestPhase params apps w).1 w.env) w.env := by
  rw [performUpdateCheck_eq]
  have hf := requestPhase_frame params apps w
  generalize requestPhase params apps w = r at hf
  obtain ⟨res, attempts, w2⟩ := r
  cases res with
  | error f => simp [resOf, pathOf, pathResult, rebootOf, pathReboot]
  | ok body =>
    simp only
    have h1 : w2.env.plan = w.env.plan := hf.plan
    have h2 : w2.env.canStart = w.env.canStart := hf.canStart
    have h3 : w2.env.results = w.env.results := hf.results
    have h4 : w2.env.rebootNeeded = w.env.rebootNeeded := hf.rebootNeeded
    have := responsePhase_result params apps (sessionOf params w) body (metric (.requestsPerCheck attempts true) w2)
    have he : (metric (.requestsPerCheck attempts true) w2).env = w2.env := rfl
    rw [he] at this
    have henv : pathOf (.ok body) w2.env = pathOf (.ok body) w.env := by
      unfold pathOf; simp only [h1, h2, h3]
    rw [henv] at this
    refine ⟨this.1, ?_⟩
    rw [this.2]
    unfold pathReboot
    split <;> simp [h4]

/-! ### In continuous operation: Idle after every check, WaitingForReboot in between iff a reboot is pending -/

theorem noMarks_tReboot : NoMarks tReboot := ⟨fun _ => rfl, rfl, rfl⟩

/-- **idle_follows.** After a check, `run` announces Idle — directly when no reboot is pending, and
after WaitingForReboot and the reboot wait (during which nothing else is announced) when one is. -/
theorem afterCheck_marks (u : UnitEnv) (opts : InstallSource) (reboot : Bool) (w : World)
    (hc : (afterCheck u opts (some reboot) w).1 = .completed) :
    marks (afterCheck u opts (some reboot) w).2 =
      .state .idle :: ((if reboot then [.state .waitingForReboot] else []) ++ marks w) := by
  unfold afterCheck at hc ⊢
  cases reboot with
  | false => simp [marks_yield_state]
  | true =>
    simp only at hc ⊢
    have hm := marks_of_addsT noMarks_tReboot (addsT_waitForReboot opts u (yieldEv (.state .waitingForReboot) w))
    generalize waitForReboot opts u (yieldEv (.state .waitingForReboot) w) = p at hc hm
    obtain ⟨r, w1⟩ := p
    cases r with
    | none => simp at hc
    | some b =>
      cases b with
      | false => simp at hc
      | true =>
        simp only [marks_yield_state]
        simp only at hm
        rw [hm, marks_yield_state]
        simp

/-- While the unit is still waiting to reboot, WaitingForReboot is the last announcement. -/
theorem afterCheck_waiting (u : UnitEnv) (opts : InstallSource) (w : World)
    (hc : (afterCheck u opts (some true) w).1 = .stalled) :
    marks (afterCheck u opts (some true) w).2 = .state .waitingForReboot :: marks w := by
  unfold afterCheck at hc ⊢
  simp only at hc ⊢
  have hm := marks_of_addsT noMarks_tReboot (addsT_waitForReboot opts u (yieldEv (.state .waitingForReboot) w))
  generalize waitForReboot opts u (yieldEv (.state .waitingForReboot) w) = p at hc hm
  obtain ⟨r, w1⟩ := p
  cases r with
  | none => simp at hc
  | some b =>
    cases b with
    | true => simp at hc
    | false =>
      simp only at hm ⊢
      rw [hm, marks_yield_state]

/-! ### Non-vacuity -/

def exResp : Resp.Response := { protocol := [], server := none, daystart := none, apps := [] }

def exApp (id : Bytes) (uc : Option Resp.Status) : Resp.App :=
  { id := id, status := .ok, cohort := {}, ping := none,
    updateCheck := uc.map fun s => { status := s, info := none, urls := none, manifest := none, extras := [] },
    events := none, extras := [] }

example : pathMarks (.installed exResp 1 [.installed, .failed 7, .deferred, .failed 2]) =
    [.response, .state .installing, .insterr 7, .insterr 2, .state .installationError] := by decide

example : alignResults [exApp [1] (some .ok), exApp [2] (some .noUpdate), exApp [3] none, exApp [4] (some .ok)]
    [.failed 0, .installed] = [.installError, .noUpdate, .noUpdate, .updated] := by decide

example : pathMarks (.denied exResp) = [.response] := by decide

end Omaha.SM
