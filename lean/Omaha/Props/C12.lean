/-
C12 — Scheduled checks wait for the policy's time and minimum wait.
-/
import Omaha.Props.C14

namespace Omaha.SM

open Omaha

/-! ### Before every wait: ask, announce, arm -/

/-- **ask_announce_arm.** Before a wait the state machine asks the policy for the timing, stores it
as the schedule's next update time, announces that schedule, and arms `wait_for(min)` (exactly when
a minimum wait is given, with exactly that duration) and `wait_until(time)` with exactly that
bound; the wait is over only when all of the timers armed here have fired (`need`). -/
theorem ask_announce_arm (t : Timing) (w : World) :
    (armWait t (updateNext t w)).2.trace =
      (match t.minWait with
        | some d => [.timerArm (.until_ t.time), .timerArm (.for_ d)]
        | none => [.timerArm (.until_ t.time)]) ++
      [.event (.schedule { w.ctx.sched with next := some t }),
       .policyNext w.apps w.ctx.sched w.ctx.st t] ++ w.trace ∧
    (armWait t (updateNext t w)).1 =
      (match t.minWait with
        | some _ => [w.nTimer, w.nTimer + 1]
        | none => [w.nTimer]) ∧
    (armWait t (updateNext t w)).2.ctx.sched.next = some t := by
  unfold armWait updateNext
  cases t.minWait <;> simp [emit, yieldEv]

/-! ### The wait ends on timers only when every armed timer has fired -/

/-- **no_early_check.** If the outer wait ends because of timers, every timer armed for it has
fired — whatever the order of firings. -/
theorem outerWait_timers_all_fired (need : List Nat) (steps : List WaitStep) (w : World)
    (h : (outerWait need steps w).1 = .timers) : ∀ i ∈ need, WaitStep.fire i ∈ steps := by
  induction steps generalizing need w with
  | nil =>
    unfold outerWait at h
    intro i hi
    cases need with
    | nil => cases hi
    | cons a rest => simp at h
  | cons s rest ih =>
    cases s with
    | fire j =>
      unfold outerWait at h
      simp only at h
      intro i hi
      by_cases hij : i = j
      · subst hij; simp
      · split at h
        · rename_i he
          have : i ∈ need.filter (· ≠ j) := by simp [hi, hij]
          rw [List.isEmpty_iff.1 he] at this
          cases this
        · have := ih _ _ h i (by simp [hi, hij])
          simp [this]
    | ctl id src =>
      unfold outerWait at h
      simp at h

/-- A control request ends the wait at once — no timer needs to fire (**wakes_without_timer**) — and
it is the only other way the wait ends. -/
theorem outerWait_ctl_first (need : List Nat) (id : Nat) (src : InstallSource) (rest : List WaitStep) (w : World) :
    outerWait need (.ctl id src :: rest) w = (.ctl id src, w) := by
  unfold outerWait; rfl

theorem outerWait_ctl_mem (need : List Nat) (steps : List WaitStep) (w : World) (id : Nat) (src : InstallSource)
    (h : (outerWait need steps w).1 = .ctl id src) : WaitStep.ctl id src ∈ steps := by
  induction steps generalizing need w with
  | nil => unfold outerWait at h; split at h <;> cases h
  | cons s rest ih =>
    cases s with
    | fire j =>
      unfold outerWait at h
      simp only at h
      split at h
      · cases h
      · simp [ih _ _ h]
    | ctl id' src' =>
      unfold outerWait at h
      simp only at h
      cases h
      simp

/-- While only a proper subset of the armed timers has fired, the machine keeps waiting (the script
ends `stalled`): nothing but the firings is added to the trace. -/
theorem outerWait_subset_waits (need : List Nat) (steps : List WaitStep) (w : World)
    (hf : ∀ s ∈ steps, ∃ i, s = .fire i) (hm : ∃ i ∈ need, WaitStep.fire i ∉ steps) :
    (outerWait need steps w).1 = .stalled := by
  induction steps generalizing need w with
  | nil =>
    unfold outerWait
    obtain ⟨i, hi, _⟩ := hm
    cases need with
    | nil => cases hi
    | cons a rest => simp
  | cons s rest ih =>
    obtain ⟨j, rfl⟩ := hf s (by simp)
    unfold outerWait
    simp only
    obtain ⟨i, hi, hni⟩ := hm
    have hij : i ≠ j := by
      intro e; subst e; exact hni (by simp)
    have hmem : i ∈ need.filter (· ≠ j) := by simp [hi, hij]
    split
    · rename_i he
      rw [List.isEmpty_iff.1 he] at hmem
      cases hmem
    · exact ih _ _ (fun s hs => hf s (by simp [hs])) ⟨i, hmem, fun h => hni (by simp [h])⟩

/-- Either order: when every armed timer fires (and no request arrives), the wait ends on timers. -/
theorem outerWait_all_fired (need : List Nat) (steps : List WaitStep) (w : World)
    (hf : ∀ s ∈ steps, ∃ i, s = .fire i) (hall : ∀ i ∈ need, WaitStep.fire i ∈ steps) (hne : need ≠ []) :
    (outerWait need steps w).1 = .timers := by
  induction steps generalizing need w with
  | nil =>
    cases need with
    | nil => exact absurd rfl hne
    | cons a rest => have := hall a (by simp); cases this
  | cons s rest ih =>
    obtain ⟨j, rfl⟩ := hf s (by simp)
    unfold outerWait
    simp only
    split
    · rfl
    · rename_i he
      refine ih _ _ (fun s hs => hf s (by simp [hs])) ?_ ?_
      · intro i hi
        simp only [List.mem_filter, ne_eq, decide_eq_true_eq] at hi
        have := hall i hi.1
        simp only [List.mem_cons, WaitStep.fire.injEq] at this
        rcases this with h | h
        · exact absurd h hi.2
        · exact h
      · intro hemp
        rw [hemp] at he
        exact he rfl

/-- A scheduled (unrequested) check is the `.timers` outcome of the wait: in `run`, the policy is asked
with default (scheduled) options exactly in that case. -/
theorem scheduled_check_only_after_timers (u : UnitEnv) (rs : RunState) (w : World) :
    let w0 : World := { w with env := u.env, nTimer := 0 }
    let w2 := updateNext u.next (waitedStep rs w0).2
    let ow := outerWait (armWait u.next w2).1 u.wake (armWait u.next w2).2
    (runUnit u rs w).2.2 =
      match ow.1 with
      | .stalled => tick u.wakeDt ow.2
      | .timers => (decideAndCheck u .scheduledTask none (tick u.wakeDt ow.2)).2
      | .ctl id src => (decideAndCheck u src (some id) (tick u.wakeDt ow.2)).2 := by
  intro w0 w2 ow
  unfold runUnit
  simp only
  split <;> rename_i h <;> simp only [ow, w2, w0] <;> rw [h]

/-! ### While waiting to reboot -/

/-- The first question, the 30-minute timer (exactly 1800 s), and the ping schedule by the same
ask-announce-arm rule. -/
theorem rebootWait_start (opts : InstallSource) (u : UnitEnv) (w : World) (h : (popBool u.rebootAllowed).1 = false) :
    ∃ w1, rebootWait opts u w =
        rebootLoop opts w.nTimer (armWait (popTiming u.rebootNext).1 (updateNext (popTiming u.rebootNext).1 w1)).1
          u.rebootSteps (popBool u.rebootAllowed).2 (popTiming u.rebootNext).2
          (armWait (popTiming u.rebootNext).1 (updateNext (popTiming u.rebootNext).1 w1)).2 ∧
      w1.trace = .timerArm (.for_ (1800 * 1000000000)) :: .policyRebootAllowed opts false :: w.trace ∧
      w1.nTimer = w.nTimer + 1 := by
  unfold rebootWait
  simp only [h, Bool.false_eq_true, if_false]
  exact ⟨_, rfl, rfl, rfl⟩

/-- What a reboot-wait step may add when it is neither a timer firing nor an on-demand request:
only the AlreadyRunning reply. -/
def tReplyOnly : Tag → Bool
  | .reply => true
  | _ => false

/-- **reboot_question_only_on_timer_or_ondemand.** A scheduled (not on-demand) request during the
reboot wait is answered and nothing else happens: no policy question, no ping, no reboot. -/
theorem rebootLoop_scheduled_ctl (opts : InstallSource) (t30 : Nat) (pingNeed : List Nat) (id : Nat) (dt : Clock)
    (rest : List (WaitStep × Clock)) (answers : List Bool) (nexts : List Timing) (w : World) :
    rebootLoop opts t30 pingNeed ((.ctl id .scheduledTask, dt) :: rest) answers nexts w =
      rebootLoop opts t30 pingNeed rest answers nexts (emit (.reply id .alreadyRunning) (tick dt w)) := by
  conv => lhs; unfold rebootLoop
  simp

/-- A timer that is neither the 30-minute timer nor the last outstanding ping timer only shrinks the
set of timers the ping still waits for: **ping_same_rule** (the ping goes out when the last of them
fires, see the next lemma). -/
theorem rebootLoop_partial_fire (opts : InstallSource) (t30 : Nat) (pingNeed : List Nat) (i : Nat) (dt : Clock)
    (rest : List (WaitStep × Clock)) (answers : List Bool) (nexts : List Timing) (w : World)
    (h30 : i ≠ t30) (hp : ¬ ((pingNeed.filter (· ≠ i)).isEmpty ∧ pingNeed.contains i)) :
    rebootLoop opts t30 pingNeed ((.fire i, dt) :: rest) answers nexts w =
      rebootLoop opts t30 (pingNeed.filter (· ≠ i)) rest answers nexts (emit (.timerFire i) (tick dt w)) := by
  conv => lhs; unfold rebootLoop
  simp only [h30, if_false]
  rw [if_neg hp]

theorem rebootLoop_last_fire_pings (opts : InstallSource) (t30 : Nat) (pingNeed : List Nat) (i : Nat) (dt : Clock)
    (rest : List (WaitStep × Clock)) (answers : List Bool) (nexts : List Timing) (w : World)
    (h30 : i ≠ t30) (hp : (pingNeed.filter (· ≠ i)).isEmpty ∧ pingNeed.contains i) :
    rebootLoop opts t30 pingNeed ((.fire i, dt) :: rest) answers nexts w =
      match pingOmaha (emit (.timerFire i) (tick dt w)) with
      | (none, w1) => (none, w1)
      | (some (), w1) =>
        rebootLoop opts t30 (armWait (popTiming nexts).1 (updateNext (popTiming nexts).1 w1)).1 rest answers (popTiming nexts).2
          (armWait (popTiming nexts).1 (updateNext (popTiming nexts).1 w1)).2 := by
  conv => lhs; unfold rebootLoop
  simp only [h30, if_false]
  rw [if_pos hp]
  generalize pingOmaha (emit (.timerFire i) (tick dt w)) = pr
  obtain ⟨r, w1⟩ := pr
  cases r <;> rfl

/-- The 30-minute timer re-asks the policy with the wait's current options, and on a refusal is
re-armed for exactly 30 minutes again. -/
theorem rebootLoop_t30 (opts : InstallSource) (t30 : Nat) (pingNeed : List Nat) (dt : Clock)
    (rest : List (WaitStep × Clock)) (answers : List Bool) (nexts : List Timing) (w : World) :
    rebootLoop opts t30 pingNeed ((.fire t30, dt) :: rest) answers nexts w =
      if (popBool answers).1 then
        (some true, emit (.policyRebootAllowed opts true) (emit (.timerFire t30) (tick dt w)))
      else
        rebootLoop opts (emit (.timerFire t30) (tick dt w)).nTimer pingNeed rest (popBool answers).2 nexts
          { emit (.timerArm (.for_ (1800 * 1000000000))) (emit (.policyRebootAllowed opts false) (emit (.timerFire t30) (tick dt w))) with
            nTimer := (emit (.timerFire t30) (tick dt w)).nTimer + 1 } := by
  conv => lhs; unfold rebootLoop
  simp only [if_true]
  cases h : (popBool answers).1 <;> simp [h, emit]

/-! ### Non-vacuity -/

example : (outerWait [0, 1] [.fire 1, .fire 0] (default : World)).1 = .timers := rfl
example : (outerWait [0, 1] [.fire 1] (default : World)).1 = .stalled := rfl
example : (outerWait [0, 1] [.fire 0, .ctl 7 .onDemand] (default : World)).1 = .ctl 7 .onDemand := rfl

end Omaha.SM
