/-
C19 — Times survive persistence and compare consistently.
All statements quantify over every `Int` (nanoseconds / microseconds) in the stated range.
-/
import Omaha.Time

namespace Omaha.Time

/-! ### Microsecond conversion -/

/-- **from_to_micros.** Converting any i64 microsecond count to a system time and back is the
identity, over the whole i64 range (including `i64::MIN`). -/
theorem from_to_micros (m : Int) (h : InI64 m) : toMicros (fromMicros m) = some m := by
  unfold InI64 i64Min i64Max at h
  unfold toMicros fromMicros i64Max i64Min
  by_cases hm : m > 0
  · simp only [hm, if_true]
    have h0 : (0 : Int) ≤ ((m.toNat * 1000 : Nat) : Int) := by omega
    simp only [h0, if_true]
    have : ((m.toNat * 1000 : Nat) : Int).toNat / 1000 = m.toNat := by omega
    simp only [this]
    have h2 : (m.toNat : Int) ≤ 9223372036854775807 := by omega
    simp only [h2, if_true]
    congr 1; omega
  · simp only [hm, if_false]
    by_cases hz : m = 0
    · subst hz; simp
    · have hneg : ¬ (0 : Int) ≤ -(((-m).toNat * 1000 : Nat) : Int) := by omega
      simp only [hneg, if_false]
      have : (- -(((-m).toNat * 1000 : Nat) : Int)).toNat / 1000 = (-m).toNat := by omega
      simp only [this]
      have h2 : (-9223372036854775808 : Int) ≤ -((-m).toNat : Int) := by omega
      simp only [h2, if_true]
      congr 1; omega

/-- The system time of a microsecond count is that many thousand nanoseconds, and lies in the
platform range. -/
theorem fromMicros_eq (m : Int) : fromMicros m = m * 1000 := by
  unfold fromMicros; split <;> omega

theorem fromMicros_inWall (m : Int) (h : InI64 m) : InWall (fromMicros m) := by
  rw [fromMicros_eq]
  unfold InI64 i64Min i64Max at h
  unfold InWall wallMin wallMax i64Min i64Max
  omega

/-- **toMicros_spec.** The conversion truncates toward the epoch (`Int.tdiv` rounds toward zero)
and returns `none` exactly when the truncated value does not fit in i64. -/
theorem toMicros_spec (t : Int) :
    toMicros t = if InI64 (t.tdiv 1000) then some (t.tdiv 1000) else none := by
  unfold toMicros InI64 i64Min i64Max
  by_cases ht : 0 ≤ t
  · simp only [ht, if_true]
    have e : ((t.toNat / 1000 : Nat) : Int) = t.tdiv 1000 := by
      rw [Int.tdiv_eq_ediv_of_nonneg ht]; omega
    rw [e]
    have : (-9223372036854775808 : Int) ≤ t.tdiv 1000 := by
      rw [Int.tdiv_eq_ediv_of_nonneg ht]; omega
    simp [this]
  · simp only [ht, if_false]
    have e : -(((-t).toNat / 1000 : Nat) : Int) = t.tdiv 1000 := by
      have : t = -(-t) := by omega
      rw [this, Int.neg_tdiv, Int.tdiv_eq_ediv_of_nonneg (by omega)]
      simp only [Int.neg_neg]; omega
    rw [e]
    have : t.tdiv 1000 ≤ 9223372036854775807 := by
      rw [← e]; omega
    simp [this]

theorem toMicros_none_iff (t : Int) : toMicros t = none ↔ ¬ InI64 (t.tdiv 1000) := by
  rw [toMicros_spec]; split <;> simp_all

/-- Truncation is toward the epoch: the result is no further from zero than the input and differs
from it by less than one microsecond. -/
theorem toMicros_toward_epoch (t q : Int) (h : toMicros t = some q) :
    (0 ≤ t → 0 ≤ q ∧ q * 1000 ≤ t ∧ t < q * 1000 + 1000) ∧
    (t < 0 → q ≤ 0 ∧ t ≤ q * 1000 ∧ q * 1000 - 1000 < t) := by
  unfold toMicros at h
  by_cases ht : 0 ≤ t
  · simp only [ht, if_true] at h
    split at h
    · have := Option.some.inj h; subst this
      refine ⟨fun _ => ?_, fun h' => by omega⟩
      omega
    · simp at h
  · simp only [ht, if_false] at h
    split at h
    · have := Option.some.inj h; subst this
      refine ⟨fun h' => by omega, fun _ => ?_⟩
      omega
    · simp at h

/-- Never a panic: the conversion is a total function (every input yields `some` or `none`);
and it succeeds on the whole range of times that `fromMicros` can produce. -/
theorem toMicros_total (t : Int) : (∃ q, toMicros t = some q) ∨ toMicros t = none := by
  cases h : toMicros t
  · exact Or.inr rfl
  · exact Or.inl ⟨_, rfl⟩

/-! ### Storage round trip and the truncation helper -/

/-- **truncate_agrees.** The helper agrees with the storage round trip wherever the latter stores a
value. -/
theorem truncate_agrees (t q : Int) (h : toMicros t = some q) :
    fromMicros q = truncateSubMicro t := by
  have := toMicros_toward_epoch t q h
  rw [fromMicros_eq]
  unfold truncateSubMicro
  unfold toMicros at h
  by_cases ht : 0 ≤ t
  · simp only [ht, if_true] at h ⊢
    split at h
    · have := Option.some.inj h; subst this; omega
    · simp at h
  · simp only [ht, if_false] at h ⊢
    split at h
    · have := Option.some.inj h; subst this; omega
    · simp at h

/-- **store_reload.** Storing and reloading a time yields the same instant at microsecond
precision: the reloaded value is the truncation, it converts to the same microsecond count, and
it is within a microsecond of the original on the epoch side. -/
theorem store_reload (t q : Int) (h : toMicros t = some q) :
    storeReload t = some (truncateSubMicro t) ∧ toMicros (truncateSubMicro t) = some q := by
  have hq : InI64 q := by
    rw [toMicros_spec] at h
    split at h
    · rename_i hi; rw [← Option.some.inj h]; exact hi
    · simp at h
  constructor
  · unfold storeReload; rw [h]; simp [truncate_agrees t q h]
  · rw [← truncate_agrees t q h]; exact from_to_micros q hq

/-- **truncate_idem.** -/
theorem truncate_idem (t : Int) : truncateSubMicro (truncateSubMicro t) = truncateSubMicro t := by
  unfold truncateSubMicro
  by_cases ht : 0 ≤ t
  · simp only [ht, if_true]
    have : (0 : Int) ≤ t - ((t.toNat % 1000 : Nat) : Int) := by omega
    simp only [this, if_true]; omega
  · simp only [ht, if_false]
    by_cases h2 : (0 : Int) ≤ t + (((-t).toNat % 1000 : Nat) : Int)
    · simp only [h2, if_true]; omega
    · simp only [h2, if_false]; omega

/-- The truncated value is a whole number of microseconds on the epoch side of `t`. -/
theorem truncate_spec (t : Int) : truncateSubMicro t = t.tdiv 1000 * 1000 := by
  unfold truncateSubMicro
  by_cases ht : 0 ≤ t
  · simp only [ht, if_true]
    rw [Int.tdiv_eq_ediv_of_nonneg ht]; omega
  · simp only [ht, if_false]
    have : t = -(-t) := by omega
    rw [this, Int.neg_tdiv, Int.tdiv_eq_ediv_of_nonneg (by omega)]
    simp only [Int.neg_neg]; omega

/-! ### Two-clock times keep exactly their components -/

/-- **components_kept** (add). -/
theorem pct_add_components (p r : PCT) (d : Nat) (h : p.add d = some r) :
    r.destructure = (p.destructure.1.map (· + (d : Int)), p.destructure.2.map (· + (d : Int))) := by
  cases p with
  | wall w =>
    simp only [PCT.add, wallAdd] at h
    split at h <;> simp at h
    subst h; simp [PCT.destructure]
  | mono m =>
    simp only [PCT.add, Option.some.injEq] at h
    subst h; simp [PCT.destructure]
  | complex c =>
    simp only [PCT.add, CT.add, wallAdd] at h
    split at h <;> simp at h
    rename_i w hw
    split at hw <;> simp at hw
    subst hw; subst h; simp [PCT.destructure]

/-- **components_kept** (sub). -/
theorem pct_sub_components (p r : PCT) (d : Nat) (h : p.sub d = some r) :
    r.destructure = (p.destructure.1.map (· - (d : Int)), p.destructure.2.map (· - (d : Int))) := by
  cases p with
  | wall w =>
    simp only [PCT.sub, wallSub] at h
    split at h <;> simp at h
    subst h; simp [PCT.destructure]
  | mono m =>
    simp only [PCT.sub, Option.some.injEq] at h
    subst h; simp [PCT.destructure]
  | complex c =>
    simp only [PCT.sub, CT.sub, wallSub] at h
    split at h <;> simp at h
    rename_i w hw
    split at hw <;> simp at hw
    subst hw; subst h; simp [PCT.destructure]

/-- Addition fails (panics in Rust) exactly on overflow of the wall clock range. -/
theorem pct_add_none_iff (p : PCT) (d : Nat) :
    p.add d = none ↔ ∃ w, p.destructure.1 = some w ∧ wallMax < w + d := by
  cases p with
  | wall w => simp only [PCT.add, wallAdd, PCT.destructure]; split <;> simp <;> omega
  | mono m => simp [PCT.add, PCT.destructure]
  | complex c => simp only [PCT.add, CT.add, wallAdd, PCT.destructure]; split <;> simp_all <;> omega

theorem pct_sub_none_iff (p : PCT) (d : Nat) :
    p.sub d = none ↔ ∃ w, p.destructure.1 = some w ∧ w - d < wallMin := by
  cases p with
  | wall w => simp only [PCT.sub, wallSub, PCT.destructure]; split <;> simp <;> omega
  | mono m => simp [PCT.sub, PCT.destructure]
  | complex c => simp only [PCT.sub, CT.sub, wallSub, PCT.destructure]; split <;> simp_all <;> omega

/-- **components_kept** (complete-with): present components win, missing ones are filled. -/
theorem completeWith_spec (p : PCT) (c : CT) :
    (p.completeWith c).wall = (match p.destructure.1 with | some w => w | none => c.wall) ∧
    (p.completeWith c).mono = (match p.destructure.2 with | some m => m | none => c.mono) := by
  cases p <;> simp [PCT.completeWith, PCT.destructure]

/-- **components_kept** (destructure): exactly the components the value was built from, and at
least one of them. -/
theorem destructure_spec (p : PCT) :
    (p = .wall w ↔ p.destructure = (some w, none)) ∧
    (p = .mono m ↔ p.destructure = (none, some m)) ∧
    (p = .complex ⟨w, m⟩ ↔ p.destructure = (some w, some m)) ∧
    (p.destructure.1.isSome ∨ p.destructure.2.isSome) := by
  cases p with
  | wall w' => simp [PCT.destructure]
  | mono m' => simp [PCT.destructure]
  | complex c => cases c; simp [PCT.destructure]

/-- **after_or_eq_any_iff.** Holds exactly when at least one component present on both sides
(a complete time has both) has been reached. -/
theorem after_or_eq_any_iff (c : CT) (p : PCT) :
    c.isAfterOrEqAny p = true ↔
      (∃ w, p.destructure.1 = some w ∧ w ≤ c.wall) ∨ (∃ m, p.destructure.2 = some m ∧ m ≤ c.mono) := by
  cases p with
  | wall w => simp [CT.isAfterOrEqAny, PCT.destructure]
  | mono m => simp [CT.isAfterOrEqAny, PCT.destructure]
  | complex o => simp [CT.isAfterOrEqAny, PCT.destructure]

/-! ### Non-vacuity and the boundary witnesses of the two repaired defects -/

example : InI64 i64Min ∧ toMicros (fromMicros i64Min) = some i64Min := by decide
example : toMicros (-1500) = some (-1) ∧ truncateSubMicro (-1500) = -1000 := by decide
example : truncateSubMicro (-2000) = -2000 := by decide
example : toMicros (i64Max * 1000 + 1000) = none := by decide
example : toMicros (i64Min * 1000 - 999) = some i64Min ∧ toMicros (i64Min * 1000 - 1000) = none := by decide
example : (PCT.wall wallMax).add 1 = none ∧ (PCT.wall wallMax).add 0 = some (.wall wallMax) := by decide
example : (CT.mk 5 5).isAfterOrEqAny (.complex ⟨9, 5⟩) = true ∧ (CT.mk 5 5).isAfterOrEqAny (.complex ⟨9, 6⟩) = false := by decide

end Omaha.Time
