/-
C02 — Unauthenticated responses never influence the updater.

The state-machine model takes, per exchange, whether the response is authentic for this request
(`HttpOutcome.response … authentic …`); C01 characterises when the standard handler says so, and the
`sm` stream runs the real `StandardCupv2Handler` against six kinds of forgery.
-/
import Omaha.Props.C06
import Omaha.Props.C08

namespace Omaha.SM

open Omaha

/-- An outcome that fails authentication: a response without a valid signature for this exchange,
while a CUP handler is configured. -/
def Unauth (o : HttpOutcome) : Prop := ∃ st ra body dt, o = .response st ra body false dt

/-- **unauth_no_effect** (exchange level). Whatever the forged response carries — status,
X-Retry-After, body — processing it changes neither the context (poll interval, failure count,
last-contact time), nor the apps (cohorts, user counting), nor the store, and emits nothing: no
ProtocolStateChange, no storage action. The result is the validation error. -/
theorem unauth_no_effect (o : HttpOutcome) (w : World) (hu : Unauth o) (hc : w.cup.isSome) :
    (handleOutcome o w).1 matches .error ⟨.cupValidation, false⟩ ∧
    (handleOutcome o w).2.ctx = w.ctx ∧ (handleOutcome o w).2.apps = w.apps ∧
    (handleOutcome o w).2.store = w.store ∧ (handleOutcome o w).2.trace = w.trace := by
  obtain ⟨st, ra, body, dt, rfl⟩ := hu
  refine ⟨?_, no_response_no_change w _ (Or.inr ⟨st, ra, body, dt, rfl, hc⟩)⟩
  have := outcome_classification (.response st ra body false dt) w
  rw [this]
  simp [hc]

theorem sendRequest_frame (k : ReqKind) (b : Request.Builder) (w : World) :
    (sendRequest k b w).2.ctx = w.ctx ∧ (sendRequest k b w).2.apps = w.apps ∧
    (sendRequest k b w).2.store = w.store ∧ (sendRequest k b w).2.cup = w.cup := by
  unfold sendRequest popHttp
  cases k <;> simp only [emit] <;> split <;> split <;> simp

/-- **unauth_no_effect** (request level). A request whose response fails authentication returns the
validation error; context, apps and store are exactly as before the request, and the only action
added to the trace is the exchange itself. -/
theorem unauth_request (k : ReqKind) (b : Request.Builder) (w : World) (hb : buildError w b = none)
    (hc : w.cup.isSome) (hu : Unauth (sendRequest k b w).1) :
    (omahaRequest k b w).1 matches .error ⟨.cupValidation, false⟩ ∧
    (omahaRequest k b w).2.ctx = w.ctx ∧ (omahaRequest k b w).2.apps = w.apps ∧
    (omahaRequest k b w).2.store = w.store ∧
    ∃ req, req.kind = k ∧ (omahaRequest k b w).2.trace = .http req (sendRequest k b w).1 :: w.trace := by
  have f := sendRequest_frame k b w
  have hc' : (sendRequest k b w).2.cup.isSome := by rw [f.2.2.2]; exact hc
  obtain ⟨h1, h2, h3, h4, h5⟩ := unauth_no_effect _ (sendRequest k b w).2 hu hc'
  obtain ⟨req, hk, ht⟩ := sendRequest_trace k b w
  have e : omahaRequest k b w = handleOutcome (sendRequest k b w).1 (sendRequest k b w).2 := by
    unfold omahaRequest; rw [hb]
  rw [e]
  exact ⟨h1, h2.trans f.1, h3.trans f.2.1, h4.trans f.2.2.1, req, hk, h5.trans ht⟩

/-- **no retry.** An authentication failure ends the attempt loop at once, on any attempt. -/
theorem unauth_not_retried (attempt : Nat) (poll : Option Nat) :
    giveUp ⟨.cupValidation, false⟩ attempt poll = true :=
  never_retried _ _ _ (Or.inr (Or.inr (Or.inr rfl)))

/-- One step of the loop, when the attempt's request fails with an error that is not retried:
the loop returns that error with the current attempt number, having announced
ErrorCheckingForUpdate — and no further request is made. -/
theorem attemptLoop_stops (fuel attempt : Nat) (b : Request.Builder) (w : World) (f : ReqFail)
    (hres : (omahaRequest .updateCheck (withRequestId b w).1 (withRequestId b w).2).1 = .error f)
    (hg : ∀ poll, giveUp f attempt poll = true) :
    (attemptLoop (fuel + 1) attempt b w).2.1 = attempt ∧
    ucCount (attemptLoop (fuel + 1) attempt b w).2.2 ≤ ucCount w + 1 := by
  have hle := attemptLoop_le 1 attempt b w
  unfold attemptLoop at hle ⊢
  simp only at hle ⊢
  generalize hr : omahaRequest .updateCheck (withRequestId b w).1 (withRequestId b w).2 = r at hres hle ⊢
  generalize (if w.clock.mono ≤ r.2.clock.mono then metric (.responseTime (r.2.clock.mono - w.clock.mono).toNat (isOk r.1)) r.2 else r.2) = wm at hle ⊢
  rw [hres] at hle ⊢
  simp only [hg, if_true] at hle ⊢
  exact ⟨trivial, hle⟩

/-- **unauth_check_outcome** (bookkeeping). A check that ends with the validation error counts as
one failed check (Internal failure reason), does not move the last-contact time, and leaves the apps
as they were. -/
theorem unauth_check_bookkeeping (w : World) :
    let w' := finishCheckErr (.omahaRequest .cupValidation) w
    w'.ctx.st.failures = satAdd32 w.ctx.st.failures ∧
    w'.ctx.sched.lastUpdate = w.ctx.sched.lastUpdate ∧
    w'.ctx.st.poll = w.ctx.st.poll ∧
    w'.apps = w.apps ∧ failureReason (.omahaRequest .cupValidation) = 4 := by
  intro w'
  refine ⟨finishCheckErr_failures _ _, ?_, ?_, ?_, rfl⟩
  · have := finishCheckErr_lastUpdate (.omahaRequest .cupValidation) w
    simpa [talkedToOmaha] using this
  · show (finishCheckErr _ w).ctx.st.poll = _
    unfold finishCheckErr prepareErr
    simp only [talkedToOmaha, Bool.false_eq_true, if_false]
    rw [(closeCheck_frame _ _).1]
    rfl
  · show (finishCheckErr _ w).apps = _
    unfold finishCheckErr prepareErr
    simp only [talkedToOmaha, Bool.false_eq_true, if_false]
    rw [(closeCheck_frame _ _).2.1]
    rfl

/-- **unauth_event_report.** An event report whose response fails authentication (like any
undelivered report) is recorded as a lost event — the metric is the only trace of it. -/
theorem report_lost_iff (params : RequestParams) (ev : Omaha.Event) (apps : List App) (session : Nat)
    (nv : List (Bytes × Option Bytes)) (ns : Option Nat) (w : World) :
    ∃ b w1, (reportEvent params ev apps session nv ns w) =
      (match (omahaRequest .eventReport b w1).1 with
       | .ok _ => (omahaRequest .eventReport b w1).2
       | .error _ => metric (.eventLost ev) (omahaRequest .eventReport b w1).2) ∧ w1.trace = w.trace ∧
      w1.ctx = w.ctx ∧ w1.apps = w.apps ∧ w1.store = w.store := by
  unfold reportEvent
  simp only
  exact ⟨_, _, rfl, rfl, rfl, rfl, rfl⟩

/-- **unauth_ping.** A ping whose response fails authentication counts as one failure and nothing
else changes in the context. -/
theorem ping_failure_counts (w : World) :
    (pingFailed w).ctx.st.failures = satAdd32 w.ctx.st.failures ∧
    (pingFailed w).ctx.sched = w.ctx.sched ∧ (pingFailed w).ctx.st.poll = w.ctx.st.poll ∧
    (pingFailed w).apps = w.apps := by
  unfold pingFailed
  have f := persistData_frame { w with ctx := { w.ctx with st := { w.ctx.st with failures := satAdd32 w.ctx.st.failures } } }
  refine ⟨?_, ?_, ?_, ?_⟩
  · rw [f.1]
  · rw [f.1]
  · rw [f.1]
  · rw [f.2.1]

/-! ### Non-vacuity -/

example : Unauth (.response 500 (some [53]) [1, 2] false ⟨0, 0⟩) := ⟨_, _, _, _, rfl⟩
example : giveUp ⟨.cupValidation, false⟩ 1 none = true := by decide

end Omaha.SM
