/-
C11 over whole histories: in any sequence of iterations of `run` — with requests at the waits, during
the checks and during the reboot waits — whose request ids are pairwise distinct, nobody is answered
twice, and every reply goes to a request of the iteration it is given in.
(`decideAndCheck_replies` in Props/C11 is the statement for one iteration, with the reply values.)
-/
import Omaha.Props.C11
import Omaha.Props.C05

namespace Omaha.SM

open Omaha

/-- What an iteration may add to the trace before the policy is asked, other than nothing: no reply. -/
def tPrelude : Tag → Bool
  | .metric | .storage | .pNext | .schedEv | .timerArm | .timerFire => true
  | _ => false

theorem noReply_tPrelude : NoReply tPrelude := rfl

theorem addsT_waitedStep_prelude (rs : RunState) (w : World) : AddsT tPrelude w (waitedStep rs w).2 := by
  unfold waitedStep
  split
  · split
    · split
      · rename_i w1 hw
        have h1 : AddsT tPrelude w w1 := by
          unfold reportWaited at hw
          simp only at hw
          split at hw
          · cases hw
          · split at hw
            · cases hw
            · split at hw
              · cases hw
              · cases hw; exact addsT_metric tPrelude _ _ rfl
        exact ((h1.trans (addsT_storeOp_ tPrelude rfl _ _)).trans (addsT_storeOp_ tPrelude rfl _ _)).trans
          (addsT_storeOp_ tPrelude rfl _ _)
      · exact AddsT.refl _ _
    · exact AddsT.refl _ _
  · exact AddsT.refl _ _

theorem addsT_outerWait_prelude (need : List Nat) (steps : List WaitStep) (w : World) :
    AddsT tPrelude w (outerWait need steps w).2 := by
  induction steps generalizing need w with
  | nil => unfold outerWait; exact AddsT.refl _ _
  | cons s rest ih =>
    cases s with
    | fire i =>
      unfold outerWait
      simp only
      split
      · exact addsT_emit tPrelude _ _ rfl
      · exact (addsT_emit tPrelude (.timerFire i) w rfl).trans (ih _ _)
    | ctl id src => unfold outerWait; exact AddsT.refl _ _

/-- Nobody is answered before the policy has decided. -/
theorem prelude_replies (u : UnitEnv) (rs : RunState) (w : World) :
    let w0 : World := { w with env := u.env, nTimer := 0 }
    let w1 := (waitedStep rs w0).2
    let w2 := updateNext u.next w1
    let w3 := (armWait u.next w2).2
    replies (tick u.wakeDt (outerWait (armWait u.next w2).1 u.wake w3).2) = replies w := by
  intro w0 w1 w2 w3
  have h : AddsT tPrelude w0 (tick u.wakeDt (outerWait (armWait u.next w2).1 u.wake w3).2) :=
    ((((addsT_waitedStep_prelude rs w0).trans (addsT_updateNext tPrelude rfl rfl u.next w1)).trans
      (addsT_armWait tPrelude rfl u.next w2)).trans (addsT_outerWait_prelude _ u.wake w3)).trans (addsT_tick _ _ _)
  exact replies_of_addsT noReply_tPrelude h

theorem nodup_reverse' {l : List Nat} (h : l.Nodup) : l.reverse.Nodup := by
  unfold List.Nodup at *
  exact List.pairwise_reverse.2 (h.imp (fun h => h.symm))

/-! ### The requests of an iteration's script -/

def wakeId : WaitStep → Option Nat
  | .ctl id _ => some id
  | _ => none

/-- The ids of all requests in an iteration's script: at the wait, during the check, during the reboot wait. -/
def unitIds (u : UnitEnv) : List Nat :=
  u.wake.filterMap wakeId ++ (u.during.map (·.1) ++ u.rebootSteps.filterMap ctlId)

theorem rebootReplies_ids (steps : List (WaitStep × Clock)) (rs : List (Nat × Reply)) (h : RebootReplies steps rs) :
    ∃ k, rs.map (·.1) = ((steps.take k).filterMap ctlId).reverse := by
  obtain ⟨k, _, rfl⟩ := h
  exact ⟨k, by simp [List.map_reverse, List.map_map, Function.comp_def]⟩

/-- One iteration: the new replies go to requests of this iteration's script, to each at most once. -/
theorem runUnit_new_replies (u : UnitEnv) (rs : RunState) (w : World) :
    ∃ new, replies (runUnit u rs w).2.2 = new ++ replies w ∧ (∀ id ∈ new.map (·.1), id ∈ unitIds u) ∧
      ((unitIds u).Nodup → (new.map (·.1)).Nodup) := by
  unfold runUnit
  simp only
  have hp := prelude_replies u rs w
  simp only at hp
  generalize hw4 : (tick u.wakeDt (outerWait (armWait u.next (updateNext u.next (waitedStep rs { w with env := u.env, nTimer := 0 }).2)).1 u.wake
    (armWait u.next (updateNext u.next (waitedStep rs { w with env := u.env, nTimer := 0 }).2)).2).2) = w4 at hp
  generalize hwk : (outerWait (armWait u.next (updateNext u.next (waitedStep rs { w with env := u.env, nTimer := 0 }).2)).1 u.wake
    (armWait u.next (updateNext u.next (waitedStep rs { w with env := u.env, nTimer := 0 }).2)).2).1 = wake
  -- the common part: an iteration that reaches the decision, woken by `ctl` (whose id, if any, is in the script)
  have core : ∀ (opts : InstallSource) (ctl : Option Nat), (∀ id, ctl = some id → id ∈ u.wake.filterMap wakeId) →
      ∃ new, replies (decideAndCheck u opts ctl w4).2 = new ++ replies w ∧ (∀ id ∈ new.map (·.1), id ∈ unitIds u) ∧
        ((unitIds u).Nodup → (new.map (·.1)).Nodup) := by
    intro opts ctl hctl
    obtain ⟨rr, hr, hrr⟩ := decideAndCheck_replies u opts ctl w4
    -- the three groups of new replies
    let D : List (Nat × Reply) := if u.allow.positive then (u.during.map fun d => (d.1, Reply.alreadyRunning)).reverse else []
    let C : List (Nat × Reply) := (ctl.map fun id => (id, if u.allow.positive then Reply.started else Reply.throttled)).toList
    have hD : ∃ l : List Nat, D.map (·.1) = l.reverse ∧ l.Sublist (u.during.map (·.1)) := by
      by_cases hpz : u.allow.positive = true
      · refine ⟨u.during.map (·.1), ?_, List.Sublist.refl _⟩
        simp [D, hpz, List.map_reverse, List.map_map, Function.comp_def]
      · refine ⟨[], ?_, List.nil_sublist _⟩
        simp [D, hpz]
    have hC : C.map (·.1) = ctl.toList := by cases ctl <;> simp [C]
    have hR : ∃ l : List Nat, rr.map (·.1) = l.reverse ∧ l.Sublist (u.rebootSteps.filterMap ctlId) := by
      rcases hrr with rfl | ⟨_, hrr⟩
      · exact ⟨[], rfl, List.nil_sublist _⟩
      · obtain ⟨k, hk⟩ := rebootReplies_ids _ _ hrr
        exact ⟨(u.rebootSteps.take k).filterMap ctlId, hk, (List.take_sublist k _).filterMap _⟩
    obtain ⟨lD, hlD, sD⟩ := hD
    obtain ⟨lR, hlR, sR⟩ := hR
    refine ⟨rr ++ D ++ C, ?_, ?_, ?_⟩
    · rw [hr, hp]
    · intro id hid
      simp only [List.map_append, List.mem_append, hlD, hlR, hC, List.mem_reverse] at hid
      unfold unitIds
      rcases hid with (hid | hid) | hid
      · exact List.mem_append_right _ (List.mem_append_right _ (sR.subset hid))
      · exact List.mem_append_right _ (List.mem_append_left _ (sD.subset hid))
      · exact List.mem_append_left _ (hctl id (by cases ctl <;> simp_all))
    · intro hn
      unfold unitIds at hn
      rw [List.nodup_append] at hn
      obtain ⟨nA, nBC, dA⟩ := hn
      rw [List.nodup_append] at nBC
      obtain ⟨nB, nC, dB⟩ := nBC
      simp only [List.map_append, hlD, hlR, hC]
      rw [List.nodup_append]
      refine ⟨?_, ?_, ?_⟩
      · rw [List.nodup_append]
        refine ⟨nodup_reverse' (sR.nodup nC), nodup_reverse' (sD.nodup nB), ?_⟩
        intro a ha b hb
        exact fun e => dB b (sD.subset (List.mem_reverse.1 hb)) a (sR.subset (List.mem_reverse.1 ha)) e.symm
      · cases ctl <;> simp
      · intro a ha b hb
        have hbA : b ∈ u.wake.filterMap wakeId := hctl b (by cases ctl <;> simp_all)
        have haBC : a ∈ u.during.map (·.1) ++ u.rebootSteps.filterMap ctlId := by
          rcases List.mem_append.1 ha with ha | ha
          · exact List.mem_append_right _ (sR.subset (List.mem_reverse.1 ha))
          · exact List.mem_append_left _ (sD.subset (List.mem_reverse.1 ha))
        exact fun e => dA b hbA a haBC e.symm
  cases wake with
  | stalled => exact ⟨[], by simpa using hp, by simp, fun _ => by simp⟩
  | timers => exact core .scheduledTask none (fun _ h => by cases h)
  | ctl id src =>
    refine core src (some id) ?_
    intro id' h
    cases h
    have := outerWait_ctl_mem _ _ _ _ _ hwk
    exact List.mem_filterMap.2 ⟨_, this, rfl⟩

/-- **reply_at_most_once (whole history).** Through any number of consecutive iterations of `run` whose
scripts name pairwise distinct requests, no request is answered twice, and every reply goes to a
request of the history. -/
theorem history_replies_at_most_once (units : List UnitEnv) (rs : RunState) (w : World)
    (hn : (units.flatMap unitIds).Nodup)
    (hold : ∀ id ∈ (replies w).map (·.1), id ∉ units.flatMap unitIds)
    (hwn : ((replies w).map (·.1)).Nodup) :
    ((replies (runUnits units rs w).2.2).map (·.1)).Nodup := by
  induction units generalizing rs w with
  | nil => exact hwn
  | cons u rest ih =>
    unfold runUnits
    obtain ⟨new, hnew, hmem, hnd⟩ := runUnit_new_replies u rs w
    simp only [List.flatMap_cons] at hn hold
    rw [List.nodup_append] at hn
    obtain ⟨nU, nRest, dU⟩ := hn
    have hstep : ((replies (runUnit u rs w).2.2).map (·.1)).Nodup := by
      rw [hnew, List.map_append, List.nodup_append]
      refine ⟨hnd nU, hwn, ?_⟩
      intro a ha b hb e
      subst e
      exact hold a hb (List.mem_append_left _ (hmem a ha))
    generalize hru : runUnit u rs w = res at hnew hstep
    obtain ⟨r, rs', w'⟩ := res
    cases r with
    | completed =>
      simp only
      refine ih rs' w' nRest ?_ hstep
      intro id hid hin
      simp only at hnew
      rw [hnew, List.map_append, List.mem_append] at hid
      rcases hid with hid | hid
      · exact dU id (hmem id hid) id hin rfl
      · exact hold id hid (List.mem_append_right _ hin)
    | stalled => exact hstep
    | outside => exact hstep

/-- A history started by a fresh machine (no reply given yet). -/
theorem fresh_history_replies_at_most_once (units : List UnitEnv) (rs : RunState) (w : World)
    (hn : (units.flatMap unitIds).Nodup) (h0 : replies w = []) :
    ((replies (runUnits units rs w).2.2).map (·.1)).Nodup :=
  history_replies_at_most_once units rs w hn (by simp [h0]) (by simp [h0])

/-- The hypothesis is satisfiable: two iterations with a request at each wait, one during the first
check and two during its reboot wait. -/
example (u v : UnitEnv) (hu : u.wake = [.fire 0, .ctl 1 .onDemand]) (hd : u.during = [(2, .scheduledTask)])
    (hr : u.rebootSteps = [(.ctl 3 .onDemand, ⟨0, 0⟩), (.fire 1, ⟨0, 0⟩), (.ctl 4 .scheduledTask, ⟨0, 0⟩)])
    (hv : v.wake = [.ctl 5 .scheduledTask]) (hvd : v.during = []) (hvr : v.rebootSteps = []) :
    ([u, v].flatMap unitIds).Nodup := by
  simp only [unitIds, hu, hd, hr, hv, hvd, hvr, List.flatMap_cons, List.flatMap_nil, List.map_cons, List.map_nil]
  decide

end Omaha.SM
