/-
C03 — the re-parse theorem for service URLs whose scheme is neither http nor https
(`Scheme2::Other` in http 0.2: any run of scheme characters of length ≤ 64 followed by "://").

`Props/C03.reparse` covers http, https and origin-form URLs; this file closes the remaining case
of `Parts.scheme`, so that "scheme, authority, path and any existing query stay intact" is proved
for every URL form the model of `Uri::from_str` accepts.
-/
import Omaha.Props.C03

namespace Omaha.Uri

open Omaha

/-- What `Scheme2::parse` requires of a generic scheme: scheme characters only, at most 64 of them,
and not one of the two built-in schemes in any letter case (those are recognised before the generic
scan and stored as `.http` / `.https`). -/
structure OtherScheme (sc : Bytes) : Prop where
  chars : ∀ b ∈ sc, schemeChar b = true
  short : sc.length ≤ 64
  not_http : sc.map lower ≠ [104, 116, 116, 112]
  not_https : sc.map lower ≠ [104, 116, 116, 112, 115]

theorem lower_ne_colon (b : UInt8) (h : schemeChar b = true) : lower b ≠ 58 := by
  unfold lower
  split
  · rename_i hr
    intro h'
    have : (b + 32).toNat = 58 := by rw [h']; rfl
    rw [UInt8.toNat_add] at this
    have : (32 : UInt8).toNat = 32 := rfl
    omega
  · intro h'
    subst h'
    revert h
    decide

theorem schemeChar_ne (b : UInt8) (h : schemeChar b = true) : b ≠ 58 ∧ b ≠ 47 ∧ b ≠ 42 := by
  refine ⟨?_, ?_, ?_⟩ <;> (intro h'; subst h'; revert h; decide)

/-- The generic scan walks over the scheme characters and stops at the `:` of `://`. -/
theorem scanScheme_other (full sc r : Bytes) (i : Nat) (hsc : ∀ b ∈ sc, schemeChar b = true)
    (h2 : (full.drop (i + sc.length + 1)).take 2 = [47, 47]) (hl : i + sc.length + 3 ≤ full.length)
    (h64 : i + sc.length ≤ 64) :
    (match scanScheme full i (sc ++ 58 :: r) with | .other n => n = i + sc.length | _ => False) := by
  induction sc generalizing i with
  | nil =>
    simp only [List.length_nil, Nat.add_zero, List.nil_append] at *
    unfold scanScheme
    have e1 : ¬ full.length < i + 3 := by omega
    have e3 : ¬ i > 64 := by omega
    simp [e1, h2, e3]
  | cons b sc ih =>
    have hb := hsc b (by simp)
    have hb58 := (schemeChar_ne b hb).1
    simp only [List.cons_append]
    unfold scanScheme
    simp only [hb58, if_false, hb, if_true]
    have := ih (i + 1) (fun x hx => hsc x (by simp [hx]))
      (by simpa [Nat.add_assoc, Nat.add_comm 1] using h2)
      (by simp only [List.length_cons] at hl; omega) (by simp only [List.length_cons] at h64; omega)
    simp only [List.length_cons]
    have e : i + (sc.length + 1) = i + 1 + sc.length := by omega
    rw [e]
    exact this

theorem not_http_prefix (sc rest : Bytes) (hs : OtherScheme sc) :
    ¬ ((sc ++ 58 :: 47 :: 47 :: rest).length ≥ 7 ∧
        ((sc ++ 58 :: 47 :: 47 :: rest).take 7).map lower = [104, 116, 116, 112, 58, 47, 47]) := by
  have l58 : lower 58 = 58 := by decide
  rintro ⟨_, h⟩
  rcases sc with _ | ⟨a, _ | ⟨b, _ | ⟨c, _ | ⟨d, _ | ⟨e, sc⟩⟩⟩⟩⟩
  · simp [l58] at h
  · simp [l58] at h
  · simp [l58] at h
  · simp [l58] at h
  · apply hs.not_http
    simp only [List.cons_append, List.nil_append, List.take_succ_cons, List.map_cons, List.cons.injEq] at h
    simp [h.1, h.2.1, h.2.2.1, h.2.2.2.1]
  · have := lower_ne_colon e (hs.chars e (by simp))
    simp only [List.cons_append, List.take_succ_cons, List.map_cons, List.cons.injEq] at h
    exact this h.2.2.2.2.1

theorem not_https_prefix (sc rest : Bytes) (hs : OtherScheme sc) :
    ¬ ((sc ++ 58 :: 47 :: 47 :: rest).length ≥ 8 ∧
        ((sc ++ 58 :: 47 :: 47 :: rest).take 8).map lower = [104, 116, 116, 112, 115, 58, 47, 47]) := by
  have l58 : lower 58 = 58 := by decide
  rintro ⟨_, h⟩
  rcases sc with _ | ⟨a, _ | ⟨b, _ | ⟨c, _ | ⟨d, _ | ⟨e, _ | ⟨f, sc⟩⟩⟩⟩⟩⟩
  · simp [l58] at h
  · simp [l58] at h
  · simp [l58] at h
  · simp [l58] at h
  · simp [l58] at h
  · apply hs.not_https
    simp only [List.cons_append, List.nil_append, List.take_succ_cons, List.map_cons, List.cons.injEq] at h
    simp [h.1, h.2.1, h.2.2.1, h.2.2.2.1, h.2.2.2.2.1]
  · have := lower_ne_colon f (hs.chars f (by simp))
    simp only [List.cons_append, List.take_succ_cons, List.map_cons, List.cons.injEq] at h
    exact this h.2.2.2.2.2.1

/-- `scheme://rest` splits into the generic scheme and the rest. -/
theorem splitScheme_other (sc rest : Bytes) (hs : OtherScheme sc) (hr : rest ≠ []) :
    splitScheme (sc ++ 58 :: 47 :: 47 :: rest) = .ok (some (.other sc), rest) := by
  unfold splitScheme
  rw [if_neg (not_http_prefix sc rest hs), if_neg (not_https_prefix sc rest hs)]
  have hlen : (sc ++ 58 :: 47 :: 47 :: rest).length > 3 := by
    cases rest with
    | nil => exact absurd rfl hr
    | cons x xs => simp only [List.length_append, List.length_cons]; omega
  rw [if_pos hlen]
  have hscan := scanScheme_other (sc ++ 58 :: 47 :: 47 :: rest) sc (47 :: 47 :: rest) 0 hs.chars
    (by have : List.drop (sc.length + 1) sc = [] := List.drop_eq_nil_of_le (by omega)
        simp [List.drop_append, this])
    (by simp only [List.length_append, List.length_cons]; omega)
    (by have := hs.short; omega)
  cases hsc : scanScheme (sc ++ 58 :: 47 :: 47 :: rest) 0 (sc ++ 58 :: 47 :: 47 :: rest) with
  | none => rw [hsc] at hscan; exact hscan.elim
  | tooLong => rw [hsc] at hscan; exact hscan.elim
  | other n =>
    rw [hsc] at hscan
    simp only [Nat.zero_add] at hscan
    subst hscan
    simp [List.drop_append]

/-- **reparse_other.** The decorated text of a service URL with a generic scheme parses back to the
same scheme text, authority and path ("" read as "/") and the old query followed by the added
parameter. Together with `reparse` this covers every value of `Parts.scheme`. -/
theorem reparse_other (u : Parts) (hu : WF u) (kv : Bytes) (sc : Bytes)
    (hsch : u.scheme = some (.other sc)) (hs : OtherScheme sc)
    (hkvq : kv.all queryChar = true) (hkv35 : (35 : UInt8) ∉ kv)
    (hlen : (schemePrefix u.scheme ++ u.authority ++ (pathOrSlash u.path ++ 63 :: queryWith u.query kv)).length ≤ 65534) :
    parse (schemePrefix u.scheme ++ u.authority ++ (pathOrSlash u.path ++ 63 :: queryWith u.query kv)) =
      .ok ⟨u.scheme, u.authority, pathOrSlash u.path, some (queryWith u.query kv)⟩ := by
  have hP' : (pathOrSlash u.path).all pathChar = true := by
    unfold pathOrSlash; split
    · decide
    · exact hu.path_chars
  have hP'head : ∃ t, pathOrSlash u.path = 47 :: t := by
    unfold pathOrSlash
    split
    · exact ⟨[], rfl⟩
    · rename_i hne
      rcases hu.path_start with h | h
      · exact absurd h hne
      · cases hp : u.path with
        | nil => exact absurd hp hne
        | cons b t => rw [hp] at h; simp at h; exact ⟨t, by rw [h]⟩
  have hQ' : (queryWith u.query kv).all queryChar = true ∧ (35 : UInt8) ∉ queryWith u.query kv := by
    cases hq : u.query with
    | none => exact ⟨hkvq, hkv35⟩
    | some q =>
      obtain ⟨hq1, hq2⟩ := hu.query_ok q hq
      simp only [queryWith]
      constructor
      · have h38 : queryChar 38 = true := by decide
        simp [List.all_append, hq1, hkvq, h38]
      · intro hm
        simp only [List.mem_append, List.mem_cons] at hm
        rcases hm with hm | hm | hm
        · exact hq2 hm
        · cases hm
        · exact hkv35 hm
  obtain ⟨t, ht⟩ := hP'head
  rw [ht] at hP' hlen ⊢
  generalize queryWith u.query kv = Q at hQ' hlen ⊢
  obtain ⟨hok, hne⟩ := hu.auth_abs (by simp [hsch])
  rw [hsch] at hlen ⊢
  simp only [schemePrefix, schemeText, List.append_assoc, List.cons_append, List.nil_append] at hlen ⊢
  have hrest : u.authority ++ 47 :: (t ++ 63 :: Q) ≠ [] := by simp
  have hsplit := splitScheme_other sc (u.authority ++ 47 :: (t ++ 63 :: Q)) hs hrest
  generalize hS : sc ++ 58 :: 47 :: 47 :: (u.authority ++ 47 :: (t ++ 63 :: Q)) = S at hlen hsplit ⊢
  have hhead : S.head? ≠ some 47 ∧ S ≠ [42] ∧ S ≠ [] := by
    subst hS
    cases sc with
    | nil => simp
    | cons b r =>
      have := schemeChar_ne b (hs.chars b (by simp))
      simp [this.2.1]
  unfold parse
  rw [if_neg hhead.2.2, if_neg (by omega), if_neg hhead.2.1, if_neg hhead.1]
  unfold parseAbs
  rw [hsplit]
  simp only
  have := parseAfterScheme_build (.other sc) u.authority t Q hu.auth_nodelim hok hne hP' hQ'.1 hQ'.2
  simp only [List.cons_append] at this
  rw [this]

/-- **decorate_preserves_other.** `decorate_preserves` for a service URL with a generic scheme.
`OtherScheme sc` is what `Scheme2::parse` guarantees of any generic scheme it returns; here it is a
hypothesis (the scan's converse is not proved), and the `uri` correspondence stream compares the
model's `parse` with `http::Uri` on generic-scheme URLs. -/
theorem decorate_preserves_other (url : Bytes) (kid : Nat) (nonce out : Bytes) (u : Parts) (sc : Bytes)
    (hp : parse url = .ok u) (hsch : u.scheme = some (.other sc)) (hs : OtherScheme sc)
    (hd : decorate url kid nonce = .ok out) (hlen : out.length ≤ 65534) :
    parse out = .ok ⟨u.scheme, u.authority, pathOrSlash u.path,
                     some (queryWith u.query (cup2keyName ++ 61 :: Cup.cup2key kid nonce))⟩ := by
  obtain ⟨u', hu', hout⟩ := (decorate_text url kid nonce out).1 hd
  rw [hp] at hu'
  have := R.ok.inj hu'; subst this
  have hc := param_chars kid nonce
  have hq : (cup2keyName ++ 61 :: Cup.cup2key kid nonce).all queryChar = true := by
    rw [List.all_eq_true]
    intro c hc'
    exact (hc c hc').1
  have hassoc : out = schemePrefix u.scheme ++ u.authority ++
      (pathOrSlash u.path ++ 63 :: queryWith u.query (cup2keyName ++ 61 :: Cup.cup2key kid nonce)) := by
    rw [hout]; simp [List.append_assoc]
  rw [hassoc] at hlen ⊢
  exact reparse_other u (parse_wf url u hp) _ sc hsch hs hq (fun hm => (hc 35 hm).2.2 rfl) hlen

/-! ### Every generic scheme `parse` returns is an `OtherScheme` -/

/-- What a successful generic scan says about the text: from position `i` on it reads `n - i`
scheme characters, then "://". -/
theorem scanScheme_facts (full : Bytes) (rest : Bytes) (i n : Nat) (hfull : full.drop i = rest)
    (h : scanScheme full i rest = .other n) :
    i ≤ n ∧ n ≤ 64 ∧ (∀ b ∈ (full.drop i).take (n - i), schemeChar b = true) ∧
      (full.drop n).take 3 = [58, 47, 47] := by
  induction rest generalizing i with
  | nil => unfold scanScheme at h; cases h
  | cons b r ih =>
    have hfull' : full.drop (i + 1) = r := by rw [← List.drop_drop, hfull]; rfl
    unfold scanScheme at h
    split at h
    · rename_i hb
      split at h
      · cases h
      · split at h
        · cases h
        · split at h
          · cases h
          · rename_i h2 h64
            have hh := SchemeScan.other.inj h
            subst hh
            refine ⟨Nat.le_refl _, by omega, by simp, ?_⟩
            simp only [ne_eq, Decidable.not_not] at h2
            have h1 : (full.drop i).take 3 = b :: ((full.drop (i + 1)).take 2) := by
              rw [hfull, hfull']; rfl
            rw [h1, h2, hb]
    · rename_i hb
      split at h
      · rename_i hsc
        obtain ⟨h1, h2, h3, h4⟩ := ih (i + 1) hfull' h
        refine ⟨by omega, h2, ?_, h4⟩
        intro x hx
        rw [hfull] at hx
        have e : n - i = (n - (i + 1)) + 1 := by omega
        rw [e, List.take_succ_cons] at hx
        rcases List.mem_cons.1 hx with rfl | hx
        · exact hsc
        · rw [← hfull'] at hx; exact h3 x hx
      · cases h

theorem http_prefix_of (sc rest : Bytes) (hm : sc.map lower = [104, 116, 116, 112]) :
    (sc ++ 58 :: 47 :: 47 :: rest).length ≥ 7 ∧
      ((sc ++ 58 :: 47 :: 47 :: rest).take 7).map lower = [104, 116, 116, 112, 58, 47, 47] := by
  have l58 : lower 58 = 58 := by decide
  have l47 : lower 47 = 47 := by decide
  rcases sc with _ | ⟨a, _ | ⟨b, _ | ⟨c, _ | ⟨d, _ | ⟨e, r⟩⟩⟩⟩⟩ <;> simp at hm
  obtain ⟨h1, h2, h3, h4⟩ := hm
  simp [h1, h2, h3, h4, l58, l47]

theorem https_prefix_of (sc rest : Bytes) (hm : sc.map lower = [104, 116, 116, 112, 115]) :
    (sc ++ 58 :: 47 :: 47 :: rest).length ≥ 8 ∧
      ((sc ++ 58 :: 47 :: 47 :: rest).take 8).map lower = [104, 116, 116, 112, 115, 58, 47, 47] := by
  have l58 : lower 58 = 58 := by decide
  have l47 : lower 47 = 47 := by decide
  rcases sc with _ | ⟨a, _ | ⟨b, _ | ⟨c, _ | ⟨d, _ | ⟨e, _ | ⟨f, r⟩⟩⟩⟩⟩⟩ <;> simp at hm
  obtain ⟨h1, h2, h3, h4, h5⟩ := hm
  simp [h1, h2, h3, h4, h5, l58, l47]

/-- The converse of `splitScheme_other`: a generic scheme returned by the split satisfies
`OtherScheme`. -/
theorem splitScheme_other_facts (s sc rest : Bytes) (h : splitScheme s = .ok (some (.other sc), rest)) :
    OtherScheme sc := by
  unfold splitScheme at h
  split at h
  · cases h
  · rename_i hn1
    split at h
    · cases h
    · rename_i hn2
      split at h
      · cases hsc : scanScheme s 0 s with
        | none => rw [hsc] at h; cases h
        | tooLong => rw [hsc] at h; cases h
        | other n =>
          rw [hsc] at h
          simp only [R.ok.injEq, Prod.mk.injEq, Option.some.injEq, Scheme.other.injEq] at h
          obtain ⟨h1, _⟩ := h
          obtain ⟨_, h64, hch, h3⟩ := scanScheme_facts s s 0 n rfl hsc
          simp only [List.drop_zero, Nat.sub_zero] at hch
          have hs : s = sc ++ 58 :: 47 :: 47 :: s.drop (n + 3) := by
            have a := (List.take_append_drop n s).symm
            have b := (List.take_append_drop 3 (s.drop n)).symm
            rw [h3, List.drop_drop] at b
            rw [b, h1] at a
            simpa [Nat.add_comm] using a
          have hn : sc.length ≤ 64 := by
            rw [← h1, List.length_take]; omega
          refine ⟨by rw [← h1]; exact hch, hn, ?_, ?_⟩
          · intro hm
            apply hn1
            rw [hs]
            exact http_prefix_of sc _ hm
          · intro hm
            apply hn2
            rw [hs]
            exact https_prefix_of sc _ hm
      · cases h

/-- A generic scheme in the result of `parse` satisfies `OtherScheme`. -/
theorem parse_other_scheme (url : Bytes) (u : Parts) (sc : Bytes) (hp : parse url = .ok u)
    (hsch : u.scheme = some (.other sc)) : OtherScheme sc := by
  unfold parse at hp
  split at hp
  · cases hp
  · split at hp
    · cases hp
    · split at hp
      · cases hp
      · split at hp
        · unfold parseOrigin at hp
          split at hp
          · simp only [R.ok.injEq] at hp; subst hp; cases hsch
          · cases hp
        · unfold parseAbs at hp
          cases hsp : splitScheme url with
          | err => simp [hsp] at hp
          | outside => simp [hsp] at hp
          | ok p =>
            obtain ⟨sch, rest⟩ := p
            cases sch with
            | none => simp [hsp] at hp
            | some sch =>
              simp only [hsp] at hp
              have : u.scheme = some sch := by
                unfold parseAfterScheme at hp
                split at hp
                · cases hp
                · split at hp
                  · cases hp
                  · split at hp
                    · simp only [R.ok.injEq] at hp; subst hp; rfl
                    · cases hp
              rw [this] at hsch
              have := Option.some.inj hsch; subst this
              exact splitScheme_other_facts url sc rest hsp

/-- **decorate_preserves_any.** For *every* service URL the model of `Uri::from_str` accepts —
origin form, http, https or a generic scheme — the decorated URL parses back to the same scheme,
authority and path ("" read as "/") with the query extended by exactly the `cup2key` parameter
(unless the result exceeds `http::Uri`'s length limit). No hypothesis on the scheme is left. -/
theorem decorate_preserves_any (url : Bytes) (kid : Nat) (nonce out : Bytes) (u : Parts)
    (hp : parse url = .ok u) (hd : decorate url kid nonce = .ok out) (hlen : out.length ≤ 65534) :
    parse out = .ok ⟨u.scheme, u.authority, pathOrSlash u.path,
                     some (queryWith u.query (cup2keyName ++ 61 :: Cup.cup2key kid nonce))⟩ := by
  cases hs : u.scheme with
  | none => rw [← hs]; exact decorate_preserves url kid nonce out u hp (Or.inl hs) hd hlen
  | some sch =>
    cases sch with
    | http => rw [← hs]; exact decorate_preserves url kid nonce out u hp (Or.inr (Or.inl hs)) hd hlen
    | https => rw [← hs]; exact decorate_preserves url kid nonce out u hp (Or.inr (Or.inr hs)) hd hlen
    | other sc =>
      rw [← hs]
      exact decorate_preserves_other url kid nonce out u sc hp hs (parse_other_scheme url u sc hp hs) hd hlen

/-- **decorate_canonical.** The decorated URL is in canonical form: what a receiver parses out of
it prints back to exactly the text that was sent, so client and server agree on the bytes of the
request line whichever of the two forms they keep. -/
theorem decorate_canonical (url : Bytes) (kid : Nat) (nonce out : Bytes) (u : Parts)
    (hp : parse url = .ok u) (hd : decorate url kid nonce = .ok out) (hlen : out.length ≤ 65534) :
    ∃ u2, parse out = .ok u2 ∧ print u2 = out := by
  refine ⟨_, decorate_preserves_any url kid nonce out u hp hd hlen, ?_⟩
  obtain ⟨u', hu', hout⟩ := (decorate_text url kid nonce out).1 hd
  rw [hp] at hu'
  have := R.ok.inj hu'; subst this
  rw [hout]
  simp [print, querySuffix, pathOrSlash_idem]

/-- **decorate_twice.** Decorating an already decorated URL keeps the first `cup2key` parameter in
place and appends a second one (the library never does this; the theorem pins down that an
existing `cup2key` in the configured URL is treated like any other query text). -/
theorem decorate_twice (url : Bytes) (k1 k2 : Nat) (n1 n2 out1 out2 : Bytes) (u : Parts)
    (hp : parse url = .ok u) (hd1 : decorate url k1 n1 = .ok out1) (hl1 : out1.length ≤ 65534)
    (hd2 : decorate out1 k2 n2 = .ok out2) :
    out2 = out1 ++ 38 :: (cup2keyName ++ 61 :: Cup.cup2key k2 n2) := by
  have h1 := decorate_preserves_any url k1 n1 out1 u hp hd1 hl1
  obtain ⟨u1, hu1, ho1⟩ := (decorate_text url k1 n1 out1).1 hd1
  rw [hp] at hu1
  have := R.ok.inj hu1; subst this
  obtain ⟨u2, hu2, ho2⟩ := (decorate_text out1 k2 n2 out2).1 hd2
  rw [h1] at hu2
  have := R.ok.inj hu2; subst this
  rw [ho2, ho1]
  simp [queryWith, pathOrSlash_idem, List.append_assoc]

/-! ### `Display` then `from_str` is the identity on parsed URLs -/

/-- The re-parse theorems joined: scheme hypothesis replaced by "generic schemes are well formed". -/
theorem reparse_any (u : Parts) (hu : WF u) (kv : Bytes)
    (hs : ∀ sc, u.scheme = some (.other sc) → OtherScheme sc)
    (hkvq : kv.all queryChar = true) (hkv35 : (35 : UInt8) ∉ kv)
    (hlen : (schemePrefix u.scheme ++ u.authority ++ (pathOrSlash u.path ++ 63 :: queryWith u.query kv)).length ≤ 65534) :
    parse (schemePrefix u.scheme ++ u.authority ++ (pathOrSlash u.path ++ 63 :: queryWith u.query kv)) =
      .ok ⟨u.scheme, u.authority, pathOrSlash u.path, some (queryWith u.query kv)⟩ := by
  cases hsc : u.scheme with
  | none => rw [← hsc]; exact reparse u hu kv (Or.inl hsc) hkvq hkv35 hlen
  | some sch =>
    cases sch with
    | http => rw [← hsc]; exact reparse u hu kv (Or.inr (Or.inl hsc)) hkvq hkv35 hlen
    | https => rw [← hsc]; exact reparse u hu kv (Or.inr (Or.inr hsc)) hkvq hkv35 hlen
    | other sc => rw [← hsc]; exact reparse_other u hu kv sc hsc (hs sc hsc) hkvq hkv35 hlen

/-- **parse_print_query.** Printing a parsed URL that has a query and parsing the text again gives
the same parts (an empty path read as "/"): `Display` and `from_str` of `http::Uri` are mutually
inverse on everything the library hands to the HTTP client with a query — in particular on every
decorated URL. -/
theorem parse_print_query (url : Bytes) (u : Parts) (q : Bytes) (hp : parse url = .ok u)
    (hq : u.query = some q) (hlen : (print u).length ≤ 65534) :
    parse (print u) = .ok { u with path := pathOrSlash u.path } := by
  have hu := parse_wf url u hp
  have hu' : WF { u with query := none } :=
    ⟨hu.auth_nodelim, hu.auth_abs, hu.origin, hu.path_chars, hu.path_start, fun _ h => by cases h⟩
  obtain ⟨hq1, hq2⟩ := hu.query_ok q hq
  have hpr : print u = schemePrefix u.scheme ++ u.authority ++ (pathOrSlash u.path ++ 63 :: q) := by
    simp [print, querySuffix, hq, List.append_assoc]
  rw [hpr] at hlen ⊢
  have := reparse_any { u with query := none } hu' q
    (fun sc h => parse_other_scheme url u sc hp h) hq1 hq2 (by simpa [queryWith] using hlen)
  simp only [queryWith] at this
  rw [this, ← hq]

/-- A valid path with nothing after it parses to that path and no query. -/
theorem parsePQ_build_nq (P : Bytes) (hP : P.all pathChar = true) : parsePQ P = some ⟨P, none⟩ := by
  have hPall : ∀ x ∈ P, pathChar x = true := by simpa using hP
  have h1 : P.takeWhile (fun b => b ≠ 63 && b ≠ 35) = P :=
    takeWhile_all _ P (fun x hx => pathChar_not_stop x (hPall x hx))
  unfold parsePQ
  rw [h1]
  simp [hP, parseQueryPart]

theorem parseAfterScheme_build_nq (sch : Scheme) (A t : Bytes)
    (hA : ∀ b ∈ A, isDelim b = false) (hok : authorityOk A = true) (hne : A ≠ [])
    (hP : (47 :: t : Bytes).all pathChar = true) :
    parseAfterScheme sch (A ++ 47 :: t) = .ok ⟨some sch, A, 47 :: t, none⟩ := by
  have htw : (A ++ 47 :: t).takeWhile (fun b => !isDelim b) = A :=
    takeWhile_append_stop _ A 47 _ (fun x hx => by simp [hA x hx]) (by decide)
  unfold parseAfterScheme
  rw [htw, List.drop_left, parsePQ_build_nq (47 :: t) hP]
  simp [hok, hne]

/-- Absolute form: after a well-formed scheme and "://", `parse` is `parseAfterScheme`. -/
theorem parse_abs (sch : Scheme) (rest : Bytes) (hr : rest ≠ [])
    (hs : ∀ sc, sch = .other sc → OtherScheme sc)
    (hlen : (schemeText sch ++ 58 :: 47 :: 47 :: rest).length ≤ 65534) :
    parse (schemeText sch ++ 58 :: 47 :: 47 :: rest) = parseAfterScheme sch rest := by
  have key : ∀ S : Bytes, S.length ≤ 65534 → S.head? ≠ some 47 → S ≠ [42] → S ≠ [] →
      splitScheme S = .ok (some sch, rest) → parse S = parseAfterScheme sch rest := by
    intro S h1 h2 h3 h4 h5
    unfold parse
    rw [if_neg h4, if_neg (by omega), if_neg h3, if_neg h2]
    unfold parseAbs
    rw [h5]
  cases sch with
  | http =>
    apply key _ hlen <;> try (simp [schemeText])
    exact splitScheme_http rest
  | https =>
    apply key _ hlen <;> try (simp [schemeText])
    exact splitScheme_https rest
  | other sc =>
    have hos := hs sc rfl
    apply key _ hlen
    · simp only [schemeText]
      cases sc with
      | nil => simp
      | cons b r => have := schemeChar_ne b (hos.chars b (by simp)); simp [this.2.1]
    · simp only [schemeText]
      cases sc with
      | nil => simp
      | cons b r => simp
    · simp [schemeText]
    · exact splitScheme_other sc rest hos hr

/-- **parse_print.** `Display` then `from_str` is the identity on every parsed URL (an empty path
read as "/"), with or without a query. -/
theorem parse_print (url : Bytes) (u : Parts) (hp : parse url = .ok u) (hlen : (print u).length ≤ 65534) :
    parse (print u) = .ok { u with path := pathOrSlash u.path } := by
  cases hq : u.query with
  | some q => rw [← hq]; exact parse_print_query url u q hp hq hlen
  | none =>
    have hu := parse_wf url u hp
    have hP' : (pathOrSlash u.path).all pathChar = true := by
      unfold pathOrSlash; split
      · decide
      · exact hu.path_chars
    have hP'head : ∃ t, pathOrSlash u.path = 47 :: t := by
      unfold pathOrSlash
      split
      · exact ⟨[], rfl⟩
      · rename_i hne
        rcases hu.path_start with h | h
        · exact absurd h hne
        · cases hpth : u.path with
          | nil => exact absurd hpth hne
          | cons b t => rw [hpth] at h; simp at h; exact ⟨t, by rw [h]⟩
    obtain ⟨t, ht⟩ := hP'head
    have hpr : print u = schemePrefix u.scheme ++ (u.authority ++ 47 :: t) := by
      simp [print, querySuffix, hq, ht, List.append_assoc]
    rw [hpr] at hlen ⊢
    rw [ht] at hP' ⊢
    cases hsc : u.scheme with
    | none =>
      obtain ⟨ha, _⟩ := hu.origin hsc
      rw [hsc] at hlen
      rw [ha] at hlen ⊢
      simp only [schemePrefix, List.nil_append] at hlen ⊢
      unfold parse
      have e1 : ¬ ((47 :: t : Bytes) = []) := by simp
      have e2 : ¬ (47 :: t : Bytes).length > 65534 := by omega
      have e4 : (47 :: t : Bytes).head? = some 47 := by simp
      by_cases e3 : (47 :: t : Bytes) = [42]
      · simp at e3
      · rw [if_neg e1, if_neg e2, if_neg e3, if_pos e4]
        unfold parseOrigin
        rw [parsePQ_build_nq (47 :: t) hP']
    | some sch =>
      obtain ⟨hok, hne⟩ := hu.auth_abs (by simp [hsc])
      rw [hsc] at hlen
      simp only [schemePrefix, List.append_assoc, List.cons_append, List.nil_append] at hlen ⊢
      rw [parse_abs sch (u.authority ++ 47 :: t) (by simp)
        (fun sc h => parse_other_scheme url u sc hp (by rw [hsc, h])) hlen]
      rw [parseAfterScheme_build_nq sch u.authority t hu.auth_nodelim hok hne hP']

/-! ### Non-vacuity -/

-- "ftp+x" is a generic scheme; "Http" is not
example : OtherScheme [102, 116, 112, 43, 120] := ⟨by decide, by decide, by decide, by decide⟩
example : ¬ OtherScheme [72, 116, 116, 112] := fun h => h.not_http (by decide)
-- "ab://h/p?x" decorated with key 7 and nonce [0xAB] re-parses with the scheme kept
example : (match decorate [97,98,58,47,47,104,47,112,63,120] 7 [0xAB] with
    | .ok out => (match parse out with
        | .ok u => u == ⟨some (.other [97,98]), [104], [47,112], some [120,38,99,117,112,50,107,101,121,61,55,58,97,98]⟩
        | _ => false)
    | _ => false) = true := by decide

end Omaha.Uri
