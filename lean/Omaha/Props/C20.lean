/-
C20 — Versions parse, print and order numerically.

Property theorems only; helper lemmas live in `Omaha/Lemmas`.  Every theorem quantifies over all
byte strings / all component tuples; nothing here is bounded.
-/
import Omaha.Version
import Omaha.Lemmas.Dec

namespace Omaha.Version

open Omaha Bytes Dec

/-! ### Parsing -/

theorem parseParts_eq_some_iff (ps : List Bytes) (ns : List Nat) :
    parseParts ps = some ns ↔
      ns.length = ps.length ∧ ∀ i (h : i < ps.length) (h' : i < ns.length), parseU32 ps[i] = some ns[i] := by
  induction ps generalizing ns with
  | nil =>
    cases ns <;> simp [parseParts]
  | cons p ps ih =>
    cases ns with
    | nil =>
      simp only [parseParts]
      cases parseU32 p <;> cases parseParts ps <;> simp
    | cons n ns =>
      simp only [parseParts]
      cases hp : parseU32 p with
      | none =>
        constructor
        · intro h; cases h
        · rintro ⟨_, hall⟩
          have := hall 0 (by simp) (by simp)
          simp [hp] at this
      | some m =>
        cases hps : parseParts ps with
        | none =>
          constructor
          · intro h; cases h
          · rintro ⟨hlen, hall⟩
            have : parseParts ps = some ns := (ih ns).2 ⟨by simpa using hlen, fun i h h' => by
              have := hall (i+1) (by simp; omega) (by simp; omega)
              simpa using this⟩
            simp [hps] at this
        | some ms =>
          have ihms := ih ms
          simp only [hps, true_iff] at ihms
          constructor
          · intro h
            simp only [Option.some.injEq, List.cons.injEq] at h
            obtain ⟨rfl, rfl⟩ := h
            refine ⟨by simp [ihms.1], ?_⟩
            intro i h h'
            cases i with
            | zero => simpa using hp
            | succ i => simpa using ihms.2 i (by simpa using h) (by simpa using h')
          · rintro ⟨hlen, hall⟩
            have h0 := hall 0 (by simp) (by simp)
            simp only [List.getElem_cons_zero, hp, Option.some.injEq] at h0
            have : parseParts ps = some ns := (ih ns).2 ⟨by simpa using hlen, fun i h h' => by
              have := hall (i+1) (by simp; omega) (by simp; omega)
              simpa using this⟩
            rw [hps] at this
            simp [h0, Option.some.inj this]

theorem parseParts_isSome_iff (ps : List Bytes) :
    (parseParts ps).isSome ↔ ∀ p ∈ ps, (parseU32 p).isSome := by
  induction ps with
  | nil => simp [parseParts]
  | cons p ps ih =>
    simp only [parseParts, List.mem_cons, forall_eq_or_imp]
    cases hp : parseU32 p <;> cases hps : parseParts ps <;> simp_all

theorem ofList_isSome_iff (ns : List Nat) : (ofList ns).isSome ↔ ns.length ≤ 4 := by
  match ns with
  | [] | [_] | [_, _] | [_, _, _] | [_, _, _, _] => simp [ofList]
  | _ :: _ :: _ :: _ :: _ :: _ => simp [ofList]

/-- **parse_accepts_iff.** A string is accepted exactly when it consists of one to four
dot-separated parts, each of which is in Rust's `u32` grammar (see
`Dec.parseUnsigned_eq_some_iff`: an optional `+`, one or more ASCII digits, value ≤ 2³²−1). -/
theorem parse_accepts_iff (s : Bytes) :
    (parse s).isSome ↔
      (splitOn 46 s).length ≤ 4 ∧ ∀ p ∈ splitOn 46 s, (parseU32 p).isSome := by
  unfold parse
  simp only
  by_cases hlen : (splitOn 46 s).length > 4
  · simp [hlen]; omega
  · simp only [hlen, if_false]
    have hle : (splitOn 46 s).length ≤ 4 := by omega
    simp only [hle, true_and]
    rw [← parseParts_isSome_iff]
    cases hp : parseParts (splitOn 46 s) with
    | none => simp
    | some ns =>
      have := (parseParts_eq_some_iff _ _).1 hp
      simp only [Option.isSome_some, iff_true]
      rw [ofList_isSome_iff]; omega

/-- The number of parts is always at least one (so "one to four"). -/
theorem parts_pos (s : Bytes) : 1 ≤ (splitOn 46 s).length := by
  have := splitOn_ne_nil 46 s
  cases h : splitOn 46 s with
  | nil => exact absurd h this
  | cons _ _ => simp

/-- **parse_value.** When accepted, the components are the parsed parts, in order, and missing
trailing components are zero. -/
theorem parse_value (s : Bytes) (v : Version) (h : parse s = some v) :
    ∀ i (hi : i < 4), v.toList[i]'(by simp [toList]; exact hi) =
      if h' : i < (splitOn 46 s).length then ((parseU32 (splitOn 46 s)[i]).getD 0) else 0 := by
  unfold parse at h
  simp only at h
  split at h
  · simp at h
  · rename_i hlen
    cases hp : parseParts (splitOn 46 s) with
    | none => simp [hp] at h
    | some ns =>
      simp only [hp] at h
      obtain ⟨hl, hall⟩ := (parseParts_eq_some_iff _ _).1 hp
      have hpos := parts_pos s
      match ns, hl, hall, h with
      | [a], hl, hall, h =>
        simp only [ofList, Option.some.injEq] at h; subst h
        intro i hi
        have h0 := hall 0 (by omega) (by simp)
        simp only [List.length_cons, List.length_nil] at hl
        match i, hi with
        | 0, _ => simp [toList, ← hl, h0]
        | 1, _ | 2, _ | 3, _ => simp [toList, ← hl]
      | [a, b], hl, hall, h =>
        simp only [ofList, Option.some.injEq] at h; subst h
        intro i hi
        have h0 := hall 0 (by omega) (by simp)
        have h1 := hall 1 (by simp at hl; omega) (by simp)
        simp only [List.length_cons, List.length_nil] at hl
        match i, hi with
        | 0, _ => simp [toList, ← hl, h0]
        | 1, _ => simp [toList, ← hl, h1]
        | 2, _ | 3, _ => simp [toList, ← hl]
      | [a, b, c], hl, hall, h =>
        simp only [ofList, Option.some.injEq] at h; subst h
        intro i hi
        have h0 := hall 0 (by omega) (by simp)
        have h1 := hall 1 (by simp at hl; omega) (by simp)
        have h2 := hall 2 (by simp at hl; omega) (by simp)
        simp only [List.length_cons, List.length_nil] at hl
        match i, hi with
        | 0, _ => simp [toList, ← hl, h0]
        | 1, _ => simp [toList, ← hl, h1]
        | 2, _ => simp [toList, ← hl, h2]
        | 3, _ => simp [toList, ← hl]
      | [a, b, c, d], hl, hall, h =>
        simp only [ofList, Option.some.injEq] at h; subst h
        intro i hi
        have h0 := hall 0 (by omega) (by simp)
        have h1 := hall 1 (by simp at hl; omega) (by simp)
        have h2 := hall 2 (by simp at hl; omega) (by simp)
        have h3 := hall 3 (by simp at hl; omega) (by simp)
        simp only [List.length_cons, List.length_nil] at hl
        match i, hi with
        | 0, _ => simp [toList, ← hl, h0]
        | 1, _ => simp [toList, ← hl, h1]
        | 2, _ => simp [toList, ← hl, h2]
        | 3, _ => simp [toList, ← hl, h3]
      | [], hl, _, _ => simp at hl; omega
      | _ :: _ :: _ :: _ :: _ :: _, hl, _, _ => simp at hl; omega

/-- Parsed versions always fit in 32 bits per component. -/
theorem parse_wf (s : Bytes) (v : Version) (h : parse s = some v) : v.WF := by
  have hv := parse_value s v h
  have bound : ∀ p : Bytes, (parseU32 p).getD 0 ≤ u32Max := by
    intro p
    cases hp : parseU32 p with
    | none => simp [u32Max]
    | some n =>
      obtain ⟨_, _, _, _, _, hle⟩ := (parseUnsigned_eq_some_iff u32Max p n).1 hp
      simpa using hle
  have h0 := hv 0 (by omega); have h1 := hv 1 (by omega)
  have h2 := hv 2 (by omega); have h3 := hv 3 (by omega)
  simp only [toList, List.getElem_cons_zero, List.getElem_cons_succ] at h0 h1 h2 h3
  refine ⟨?_, ?_, ?_, ?_⟩
  · rw [h0]; split <;> first | exact bound _ | simp [u32Max]
  · rw [h1]; split <;> first | exact bound _ | simp [u32Max]
  · rw [h2]; split <;> first | exact bound _ | simp [u32Max]
  · rw [h3]; split <;> first | exact bound _ | simp [u32Max]

/-! Rejections named by the property, as corollaries of `parse_accepts_iff`. -/

theorem reject_empty_part (s : Bytes) (h : [] ∈ splitOn 46 s) : parse s = none := by
  have := (parse_accepts_iff s)
  cases hp : parse s with
  | none => rfl
  | some v =>
    rw [hp] at this
    have h2 := (this.1 rfl).2 [] h
    simp [parseU32, parseUnsigned, stripPlus, parseBody] at h2

theorem reject_too_many_parts (s : Bytes) (h : 4 < (splitOn 46 s).length) : parse s = none := by
  have := (parse_accepts_iff s)
  cases hp : parse s with
  | none => rfl
  | some v => rw [hp] at this; have := (this.1 rfl).1; omega

theorem reject_bad_part (s : Bytes) (p : Bytes) (hp : p ∈ splitOn 46 s) (hbad : parseU32 p = none) :
    parse s = none := by
  have := (parse_accepts_iff s)
  cases hps : parse s with
  | none => rfl
  | some v => rw [hps] at this; have := (this.1 rfl).2 p hp; simp [hbad] at this

/-- A part is bad when it is non-numeric or overflows: the exact grammar of an accepted part. -/
theorem part_ok_iff (p : Bytes) (n : Nat) :
    parseU32 p = some n ↔
      ∃ body, (p = body ∨ p = 43 :: body) ∧ body ≠ [] ∧ (∀ b ∈ body, isDigit b) ∧
        valueOf body = n ∧ n ≤ 4294967295 :=
  parseUnsigned_eq_some_iff u32Max p n

/-! ### Printing -/

theorem render_no_dot (n : Nat) : (46 : UInt8) ∉ render n := by
  intro h
  have := render_all_digits n 46 h
  revert this; decide

/-- **print_four_parts.** The printed form always has exactly four dot-separated parts, the
canonical decimal renderings of the components. -/
theorem print_four_parts (v : Version) :
    splitOn 46 (print v) = [render v.a, render v.b, render v.c, render v.d] := by
  unfold print toList
  apply splitOn_joinWith
  · simp
  · intro p hp
    simp only [List.map_cons, List.map_nil, List.mem_cons, List.not_mem_nil, or_false] at hp
    rcases hp with rfl | rfl | rfl | rfl <;> exact render_no_dot _

/-- **parse_print.** `parse (print v) = v` for every version. -/
theorem parse_print (v : Version) (h : v.WF) : parse (print v) = some v := by
  unfold parse
  simp only [print_four_parts]
  obtain ⟨ha, hb, hc, hd⟩ := h
  have e : ∀ n, n ≤ u32Max → parseU32 (render n) = some n := fun n hn => parseUnsigned_render _ n hn
  simp [parseParts, e _ ha, e _ hb, e _ hc, e _ hd, ofList]

/-- Two versions print alike only if they are equal (printing is injective). -/
theorem print_injective (v w : Version) (hv : v.WF) (hw : w.WF) (h : print v = print w) : v = w := by
  have := parse_print v hv
  rw [h, parse_print w hw] at this
  exact (Option.some.inj this).symm

/-- The printed text consists of digits and dots only, hence the JSON string token around it
needs no escaping: (de)serialisation uses exactly that string. -/
theorem print_chars (v : Version) : ∀ b ∈ print v, isDigit b ∨ b = 46 := by
  intro b hb
  have hj := joinWith_splitOn 46 (print v)
  rw [print_four_parts] at hj
  rw [← hj] at hb
  simp only [joinWith, List.mem_append, List.mem_cons] at hb
  rcases hb with h | h | h | h | h | h | h
  · exact Or.inl (render_all_digits _ b h)
  · exact Or.inr h
  · exact Or.inl (render_all_digits _ b h)
  · exact Or.inr h
  · exact Or.inl (render_all_digits _ b h)
  · exact Or.inr h
  · exact Or.inl (render_all_digits _ b h)

theorem json_is_quoted_print (v : Version) : toJsonText v = [34] ++ print v ++ [34] := by
  simp [toJsonText]

/-! ### Conversion from arrays -/

/-- **ofArray_zero_fill.** -/
theorem ofArray_zero_fill (a b c d : Nat) :
    ofList [a] = some ⟨a, 0, 0, 0⟩ ∧ ofList [a, b] = some ⟨a, b, 0, 0⟩ ∧
    ofList [a, b, c] = some ⟨a, b, c, 0⟩ ∧ ofList [a, b, c, d] = some ⟨a, b, c, d⟩ := by
  simp [ofList]

/-! ### Ordering -/

/-- Lexicographic "less than" on the components, numeric per component. -/
def LexLt (v w : Version) : Prop :=
  v.a < w.a ∨ (v.a = w.a ∧ (v.b < w.b ∨ (v.b = w.b ∧ (v.c < w.c ∨ (v.c = w.c ∧ v.d < w.d)))))

theorem cmp_eq_iff (v w : Version) : cmp v w = .eq ↔ v = w := by
  unfold cmp
  cases v; cases w
  simp only [Ordering.then_eq_eq, Nat.compare_eq_eq, Version.mk.injEq]

/-- **compare_numeric.** -/
theorem cmp_lt_iff (v w : Version) : cmp v w = .lt ↔ LexLt v w := by
  unfold cmp LexLt
  simp only [Ordering.then_eq_lt, Nat.compare_eq_lt, Nat.compare_eq_eq]

theorem cmp_swap (v w : Version) : cmp w v = (cmp v w).swap := by
  unfold cmp
  simp only [Ordering.swap_then, Nat.compare_swap]

theorem cmp_gt_iff (v w : Version) : cmp v w = .gt ↔ LexLt w v := by
  rw [← cmp_lt_iff, cmp_swap v w]
  cases cmp v w <;> simp [Ordering.swap]

theorem lexLt_trans (u v w : Version) (h1 : LexLt u v) (h2 : LexLt v w) : LexLt u w := by
  unfold LexLt at *; omega

theorem lexLt_irrefl (v : Version) : ¬ LexLt v v := by unfold LexLt; omega

theorem lexLt_total (v w : Version) : LexLt v w ∨ v = w ∨ LexLt w v := by
  cases v; cases w
  simp only [LexLt, Version.mk.injEq]; omega

/-! ### Non-vacuity: concrete instances of the hypotheses and of the interesting branches -/

-- "1.+2.03", "1..2", "1.2.3.4.5", "4294967296", "4294967295.0.0.1"
example : parse [49, 46, 43, 50, 46, 48, 51] = some ⟨1, 2, 3, 0⟩ := by decide
example : parse [49, 46, 46, 50] = none := by decide
example : parse [49, 46, 50, 46, 51, 46, 52, 46, 53] = none := by decide
example : parse [52, 50, 57, 52, 57, 54, 55, 50, 57, 54] = none := by decide
example : parse [52, 50, 57, 52, 57, 54, 55, 50, 57, 53, 46, 48, 46, 48, 46, 49]
    = some ⟨4294967295, 0, 0, 1⟩ := by decide
example : (⟨1, 2, 3, 4294967295⟩ : Version).WF := by decide
example : cmp ⟨1, 9, 0, 0⟩ ⟨1, 10, 0, 0⟩ = .lt := by decide
example : LexLt ⟨1, 9, 0, 0⟩ ⟨1, 10, 0, 0⟩ := by unfold LexLt; decide

end Omaha.Version
