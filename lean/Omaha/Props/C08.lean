/-
C08 — Protocol bookkeeping is exact, durable and crash-consistent.
-/
import Omaha.Lemmas.Store
import Omaha.Props.C07
import Omaha.Props.C19

namespace Omaha.SM

open Omaha

/-! ### Frame lemmas: what the closing steps of a check leave alone -/

theorem persistApps_frame (apps : List App) (w : World) :
    (persistApps apps w).ctx = w.ctx ∧ (persistApps apps w).apps = w.apps ∧ (persistApps apps w).clock = w.clock := by
  induction apps generalizing w with
  | nil => exact ⟨rfl, rfl, rfl⟩
  | cons a rest ih =>
    unfold persistApps
    obtain ⟨h1, h2, h3⟩ := ih (storeOp_ (.set a.id (.str (persistedAppJson a))) w)
    have f := storeOp_frame (.set a.id (.str (persistedAppJson a))) w
    exact ⟨h1.trans f.1, h2.trans f.2.1, h3.trans f.2.2.2.1⟩

theorem persistData_frame (w : World) :
    (persistData w).ctx = w.ctx ∧ (persistData w).apps = w.apps ∧ (persistData w).clock = w.clock := by
  unfold persistData
  have f1 := persistCtx_frame w
  have f2 := persistApps_frame w.apps (persistCtx w)
  have f3 := storeOp_frame .commit (persistApps w.apps (persistCtx w))
  exact ⟨f3.1.trans (f2.1.trans f1.1), f3.2.1.trans (f2.2.1.trans f1.2.1), f3.2.2.2.1.trans (f2.2.2.trans f1.2.2.2.1)⟩

theorem closeCheck_frame (r : Except CheckErr (List AppResp)) (w : World) :
    (closeCheck r w).ctx = w.ctx ∧ (closeCheck r w).apps = w.apps ∧ (closeCheck r w).clock = w.clock := by
  unfold closeCheck
  simp only
  have := persistData_frame (yieldEv (.result r) (yieldEv (.protocol w.ctx.st) (yieldEv (.schedule w.ctx.sched) w)))
  exact ⟨this.1, this.2.1, this.2.2⟩

theorem reportAttemptsInstall_frame (s : Bool) (w : World) :
    (reportAttemptsInstall s w).ctx = w.ctx ∧ (reportAttemptsInstall s w).clock = w.clock := by
  unfold reportAttemptsInstall
  simp only
  split
  · exact ⟨(storeOp_frame _ _).1, (storeOp_frame _ _).2.2.2.1⟩
  · exact ⟨(storeOp_frame _ _).1, (storeOp_frame _ _).2.2.2.1⟩

/-! ### The failure counter -/

/-- A check that succeeded resets the count. -/
theorem finishCheckOk_failures (ok : CheckOk) (w : World) : (finishCheckOk ok w).ctx.st.failures = 0 := by
  unfold finishCheckOk prepareOk
  simp only
  rw [(closeCheck_frame _ _).1]
  cases installSuccess ok.responses with
  | none => simp [reportAttemptsCheck, metric, emit]
  | some s => simp only; rw [(reportAttemptsInstall_frame _ _).1]; simp [reportAttemptsCheck, metric, emit]

/-- A check that failed, for whatever reason, counts one more (saturating at `u32::MAX`). -/
theorem finishCheckErr_failures (e : CheckErr) (w : World) :
    (finishCheckErr e w).ctx.st.failures = satAdd32 w.ctx.st.failures := by
  unfold finishCheckErr prepareErr
  simp only
  rw [(closeCheck_frame _ _).1]
  cases talkedToOmaha e <;> simp [reportAttemptsCheck, metric, emit, setLastUpdate]

theorem pingFailed_failures (w : World) : (pingFailed w).ctx.st.failures = satAdd32 w.ctx.st.failures := by
  unfold pingFailed; rw [(persistData_frame _).1]

theorem pingSucceeded_failures (r : Resp.Response) (w : World) : (pingSucceeded r w).ctx.st.failures = 0 := by
  unfold pingSucceeded; simp only; rw [(persistData_frame _).1]; rfl

/-- One completed check or ping, as far as the bookkeeping is concerned. -/
inductive Outcome where
  | checkOk | checkFailed (contact : Bool) | pingOk | pingFailed
  deriving DecidableEq, Repr

def Outcome.success : Outcome → Bool
  | .checkOk | .pingOk => true
  | _ => false

/-- The counter after a history: reset by every success, plus one (saturating) per failure. -/
def failuresAfter : Nat → List Outcome → Nat
  | n, [] => n
  | n, o :: rest => failuresAfter (if o.success then 0 else satAdd32 n) rest

/-- Number of failures since the last success. -/
def trailingFailures : List Outcome → Nat
  | [] => 0
  | o :: rest => if rest.all (fun x => !x.success) then (if o.success then 0 else 1) + trailingFailures rest else trailingFailures rest

theorem satAdd32_eq (n : Nat) (h : n < Dec.u32Max) : satAdd32 n = n + 1 := by
  unfold satAdd32; split <;> omega

theorem failuresAfter_all_failed (n : Nat) (os : List Outcome) (h : os.all (fun x => !x.success) = true)
    (hb : n + os.length ≤ Dec.u32Max) : failuresAfter n os = n + os.length := by
  induction os generalizing n with
  | nil => rfl
  | cons o rest ih =>
    simp only [List.all_cons, Bool.and_eq_true, Bool.not_eq_true'] at h
    simp only [failuresAfter, h.1, Bool.false_eq_true, if_false, List.length_cons] at hb ⊢
    rw [satAdd32_eq n (by omega), ih (n + 1) h.2 (by omega)]
    omega

/-- **failures_count.** After any history of checks and pings the count equals the number of
failed ones since the last success (as long as that number fits in u32; it saturates beyond). -/
theorem failures_count (os : List Outcome) (n : Nat) (hs : ∃ o ∈ os, o.success = true)
    (hb : os.length ≤ Dec.u32Max) : failuresAfter n os = trailingFailures os := by
  induction os generalizing n with
  | nil => obtain ⟨o, ho, _⟩ := hs; simp at ho
  | cons o rest ih =>
    simp only [failuresAfter, trailingFailures]
    simp only [List.length_cons] at hb
    by_cases hall : rest.all (fun x => !x.success) = true
    · simp only [hall, if_true]
      -- then `o` itself is the last success
      have ho : o.success = true := by
        obtain ⟨x, hx, hxs⟩ := hs
        simp only [List.mem_cons] at hx
        rcases hx with rfl | hx
        · exact hxs
        · have := List.all_eq_true.1 hall x hx
          simp [hxs] at this
      simp only [ho, if_true]
      rw [failuresAfter_all_failed 0 rest hall (by omega)]
      have : trailingFailures rest = rest.length := by
        clear ih hs hb ho
        induction rest with
        | nil => rfl
        | cons r rs ihr =>
          simp only [List.all_cons, Bool.and_eq_true, Bool.not_eq_true'] at hall
          simp [trailingFailures, hall.2, hall.1, ihr hall.2]; omega
      omega
    · simp only [hall, Bool.false_eq_true, if_false]
      apply ih
      · have : ∃ x ∈ rest, (!x.success) = false := by
          simpa [List.all_eq_true] using hall
        obtain ⟨x, hx, hxs⟩ := this
        exact ⟨x, hx, by simpa using hxs⟩
      · omega

/-! ### The last-contact time -/

def nowPCT (w : World) : PCT := .complex ⟨w.clock.wall, w.clock.mono⟩

theorem finishCheckOk_lastUpdate (ok : CheckOk) (w : World) :
    (finishCheckOk ok w).ctx.sched.lastUpdate = some (nowPCT w) := by
  unfold finishCheckOk prepareOk
  simp only
  rw [(closeCheck_frame _ _).1]
  cases installSuccess ok.responses with
  | none => simp [reportAttemptsCheck, metric, emit, setLastUpdate, nowPCT]
  | some s =>
    simp only; rw [(reportAttemptsInstall_frame _ _).1]
    simp [reportAttemptsCheck, metric, emit, setLastUpdate, nowPCT]

/-- **last_contact.** A failed check moves the last-contact time exactly when the server answered
(unparseable body, unusable install plan); transport, HTTP-status, construction and
authentication failures leave it untouched. -/
theorem finishCheckErr_lastUpdate (e : CheckErr) (w : World) :
    (finishCheckErr e w).ctx.sched.lastUpdate =
      if talkedToOmaha e then some (nowPCT w) else w.ctx.sched.lastUpdate := by
  unfold finishCheckErr prepareErr
  simp only
  rw [(closeCheck_frame _ _).1]
  cases talkedToOmaha e <;> simp [reportAttemptsCheck, metric, emit, setLastUpdate, nowPCT]

theorem talkedToOmaha_iff (e : CheckErr) : talkedToOmaha e = true ↔ e = .responseParser ∨ e = .installPlan := by
  cases e <;> simp [talkedToOmaha]

theorem pingFailed_lastUpdate (w : World) : (pingFailed w).ctx.sched.lastUpdate = w.ctx.sched.lastUpdate := by
  unfold pingFailed; rw [(persistData_frame _).1]

theorem pingSucceeded_lastUpdate (r : Resp.Response) (w : World) :
    (pingSucceeded r w).ctx.sched.lastUpdate = some (nowPCT w) := by
  unfold pingSucceeded; simp only; rw [(persistData_frame _).1]; rfl

/-! ### Every check ends: result delivered, then context and apps written, then one commit -/

/-- **commit_at_end.** The last actions of every check are, in order: ScheduleChange,
ProtocolStateChange, UpdateCheckResult, the three context writes, one write per app, commit. -/
theorem closeCheck_trace (r : Except CheckErr (List AppResp)) (w : World) :
    ∃ ctxWrites appWrites o,
      (closeCheck r w).trace =
        .storage .commit o :: (appWrites ++ ctxWrites ++
          [.event (.result r), .event (.protocol w.ctx.st), .event (.schedule w.ctx.sched)] ++ w.trace) ∧
      ctxWrites.length = 3 ∧ appWrites.length = w.apps.length ∧
      (∀ a ∈ ctxWrites ++ appWrites, isStorage a) := by
  let w0 := yieldEv (.result r) (yieldEv (.protocol w.ctx.st) (yieldEv (.schedule w.ctx.sched) w))
  have key : closeCheck r w = persistData w0 := rfl
  have ht0 : w0.trace = [.event (.result r), .event (.protocol w.ctx.st), .event (.schedule w.ctx.sched)] ++ w.trace := rfl
  have ha0 : w0.apps = w.apps := rfl
  obtain ⟨o1, o2, o3, hc⟩ := persistCtx_trace w0
  have happs : ∀ (apps : List App) (w1 : World), ∃ d, (persistApps apps w1).trace = d ++ w1.trace ∧ d.length = apps.length ∧ ∀ a ∈ d, isStorage a := by
    intro apps
    induction apps with
    | nil => intro w1; exact ⟨[], rfl, rfl, by simp⟩
    | cons a rest ih =>
      intro w1
      obtain ⟨d, hd, hl, hs⟩ := ih (storeOp_ (.set a.id (.str (persistedAppJson a))) w1)
      refine ⟨d ++ [.storage (.set a.id (.str (persistedAppJson a))) (storeOp (.set a.id (.str (persistedAppJson a))) w1).1], ?_, by simp [hl], ?_⟩
      · unfold persistApps
        rw [hd]
        simp [storeOp_, (storeOp_frame _ _).2.2.2.2.2.2]
      · intro x hx
        rcases List.mem_append.1 hx with h | h
        · exact hs x h
        · simp at h; subst h; simp [isStorage]
  obtain ⟨d, hd, hl, hs⟩ := happs w0.apps (persistCtx w0)
  refine ⟨[.storage (optOp kFailedChecks (if w0.ctx.st.failures = 0 then none else some (w0.ctx.st.failures : Int))) o3,
           .storage (optOp kPoll (w0.ctx.st.poll.map fun ns => ((ns / 1000 : Nat) : Int))) o2,
           .storage (optOp kLastUpdateTime ((w0.ctx.sched.lastUpdate.bind pctWall).bind Time.toMicros)) o1],
          d, (storeOp .commit (persistApps w0.apps (persistCtx w0))).1, ?_, rfl, ?_, ?_⟩
  · rw [key]
    unfold persistData
    simp only [storeOp_]
    rw [(storeOp_frame _ _).2.2.2.2.2.2, hd, hc, ht0]
    simp only [List.append_assoc]
  · rw [hl, ha0]
  · intro a ha
    rcases List.mem_append.1 ha with h | h
    · simp only [List.mem_cons, List.not_mem_nil, or_false] at h
      rcases h with rfl | rfl | rfl <;> simp [isStorage]
    · exact hs a h

/-! ### What is committed is what the context held (µs precision), and survives a crash -/

/-- The context as a restarted state machine will see it: wall-clock last-contact time truncated to
microseconds, poll interval and failure count. -/
def durableView (c : Ctx) : Option Int × Option Nat × Nat :=
  (((c.sched.lastUpdate.bind pctWall).bind Time.toMicros).map Time.fromMicros, c.st.poll, c.st.failures)

/-- With a working storage, `persistCtx` followed by `commit` — and then a crash — leaves a store
from which `loadCtx` reads exactly the context's durable view (for the values the protocol can
produce: poll interval a whole number of microseconds below 2⁶⁴ µs, failure count in u32). -/
theorem persist_commit_crash_load (w : World) (h : NoStoreFail w)
    (hpoll : ∀ p, w.ctx.st.poll = some p → p % 1000 = 0 ∧ p / 1000 ≤ 18446744073709551615)
    (hfail : w.ctx.st.failures ≤ Dec.u32Max) :
    let st := (storeOp_ .commit (persistCtx w)).store.crash
    ((loadCtx st).sched.lastUpdate.bind pctWall, (loadCtx st).st.poll, (loadCtx st).st.failures)
      = durableView w.ctx := by
  intro st
  -- the three writes and the commit all succeed
  have e1 := storeOp_ok (optOp kLastUpdateTime ((w.ctx.sched.lastUpdate.bind pctWall).bind Time.toMicros)) w h
  generalize hw1 : storeOp (optOp kLastUpdateTime ((w.ctx.sched.lastUpdate.bind pctWall).bind Time.toMicros)) w = r1 at e1
  have f1 := storeOp_frame (optOp kLastUpdateTime ((w.ctx.sched.lastUpdate.bind pctWall).bind Time.toMicros)) w
  rw [hw1] at f1
  have e2 := storeOp_ok (optOp kPoll (w.ctx.st.poll.map fun ns => ((ns / 1000 : Nat) : Int))) r1.2 e1.2.1
  generalize hw2 : storeOp (optOp kPoll (w.ctx.st.poll.map fun ns => ((ns / 1000 : Nat) : Int))) r1.2 = r2 at e2
  have f2 := storeOp_frame (optOp kPoll (w.ctx.st.poll.map fun ns => ((ns / 1000 : Nat) : Int))) r1.2
  rw [hw2] at f2
  have e3 := storeOp_ok (optOp kFailedChecks (if w.ctx.st.failures = 0 then none else some (w.ctx.st.failures : Int))) r2.2 e2.2.1
  generalize hw3 : storeOp (optOp kFailedChecks (if w.ctx.st.failures = 0 then none else some (w.ctx.st.failures : Int))) r2.2 = r3 at e3
  have e4 := storeOp_ok .commit r3.2 e3.2.1
  have hp : persistCtx w = r3.2 := by
    unfold persistCtx
    simp only [setOptionInt_eq]
    rw [hw1, f1.1, hw2, f2.1, f1.1, hw3]
  have hst : st = (applyOp .commit r3.2.store).crash := by
    show (storeOp_ .commit (persistCtx w)).store.crash = _
    rw [hp, storeOp_, e4.2.2]
  -- reading any key after commit + crash = reading it before
  have hget : ∀ k, st.get k = r3.2.store.get k := by
    intro k; rw [hst]; exact crash_commit_get _ _
  have hk12 : kLastUpdateTime ≠ kPoll := by decide
  have hk13 : kLastUpdateTime ≠ kFailedChecks := by decide
  have hk23 : kPoll ≠ kFailedChecks := by decide
  -- the three keys
  have g1 : st.getInt kLastUpdateTime = (w.ctx.sched.lastUpdate.bind pctWall).bind Time.toMicros := by
    unfold Store.getInt
    rw [hget, e3.2.2, applyOp_get, e2.2.2, e1.2.2]
    cases hl : (w.ctx.sched.lastUpdate.bind pctWall).bind Time.toMicros <;>
      cases w.ctx.st.poll <;> by_cases hf : w.ctx.st.failures = 0 <;>
      simp [optOp, applyOp_get, hf, hk12, hk13, hk23, Ne.symm hk12, Ne.symm hk13, Ne.symm hk23]
  have g2 : st.getInt kPoll = w.ctx.st.poll.map fun ns => ((ns / 1000 : Nat) : Int) := by
    unfold Store.getInt
    rw [hget, e3.2.2, applyOp_get, e2.2.2]
    cases hl : (w.ctx.sched.lastUpdate.bind pctWall).bind Time.toMicros <;>
      cases w.ctx.st.poll <;> by_cases hf : w.ctx.st.failures = 0 <;>
      simp [optOp, applyOp_get, hf, hk12, hk13, hk23, Ne.symm hk12, Ne.symm hk13, Ne.symm hk23]
  have g3 : st.getInt kFailedChecks = if w.ctx.st.failures = 0 then none else some (w.ctx.st.failures : Int) := by
    unfold Store.getInt
    rw [hget, e3.2.2, applyOp_get]
    by_cases hf : w.ctx.st.failures = 0 <;> simp [optOp, hf]
  unfold loadCtx durableView Store.getTime
  simp only [g1, g2, g3]
  refine Prod.ext ?_ (Prod.ext ?_ ?_)
  · cases (w.ctx.sched.lastUpdate.bind pctWall).bind Time.toMicros <;> simp [pctWall]
  · cases hpl : w.ctx.st.poll with
    | none => simp [loadPoll]
    | some p =>
      obtain ⟨hm, hle⟩ := hpoll p hpl
      simp only [Option.map_some]
      have h0 : (0 : Int) ≤ ((p / 1000 : Nat) : Int) := Int.natCast_nonneg _
      have h1 : ((p / 1000 : Nat) : Int) ≤ u64Max := by
        show ((p / 1000 : Nat) : Int) ≤ 18446744073709551615
        omega
      simp only [loadPoll, h0, h1, and_self, if_true, Int.toNat_natCast]
      congr 1; omega
  · by_cases hf : w.ctx.st.failures = 0
    · simp [hf, loadFails]
    · have h0 : (0 : Int) ≤ (w.ctx.st.failures : Int) := Int.natCast_nonneg _
      have h1 : (w.ctx.st.failures : Int) ≤ u32Max := by
        show (w.ctx.st.failures : Int) ≤ 4294967295
        unfold Dec.u32Max at hfail; omega
      simp only [hf, if_false, loadFails, h0, h1, and_self, if_true, Int.toNat_natCast]

/-- The durable last-contact time is the context's wall-clock value at microsecond precision
(C19's `truncate_agrees`). -/
theorem durable_time_is_truncation (t q : Int) (h : Time.toMicros t = some q) :
    Time.fromMicros q = Time.truncateSubMicro t := Time.truncate_agrees t q h

/-- Between commits the durable map does not move: only a successful `commit` operation changes
what survives a crash. -/
theorem committed_only_by_commit (op : StoreOp) (s : Store) (h : op ≠ .commit) :
    (applyOp op s).committed = s.committed := by
  cases op with
  | set k v => rfl
  | remove k => rfl
  | commit => exact absurd rfl h

theorem failed_op_changes_nothing (op : StoreOp) (w : World) (h : (storeOp op w).1 = false) :
    (storeOp op w).2.store = w.store := by
  unfold storeOp at h ⊢
  simp only at h ⊢
  split
  · unfold popFail; split <;> rfl
  · rename_i hf; simp [hf] at h

/-! ### Non-vacuity -/

example : failuresAfter 7 [.checkFailed false, .checkOk, .pingFailed, .checkFailed true] = 2 := by decide
example : trailingFailures [.checkFailed false, .checkOk, .pingFailed, .checkFailed true] = 2 := by decide
example : failuresAfter 0 [.pingFailed, .pingOk] = 0 := by decide

end Omaha.SM
