/-
The canonical order of the writes inside each storage transaction (a stable insertion sort by key of
every maximal run of consecutive writes — what `check`'s `canon_tx_order` computes on both traces), and
the theorem that licenses comparing modulo it: two storage logs with the same canonical form lead to
stores no reader can tell apart, now, later, after the commit and after a crash.
-/
import Omaha.Props.C08Order

namespace Omaha.SM

open Omaha

/-- Lexicographic "strictly before" on keys. -/
def keyLt : Bytes → Bytes → Bool
  | [], [] => false
  | [], _ :: _ => true
  | _ :: _, [] => false
  | a :: as, b :: bs => a.toNat < b.toNat || (a == b && keyLt as bs)

theorem keyLt_irrefl (k : Bytes) : keyLt k k = false := by
  induction k with
  | nil => rfl
  | cons a as ih => simp [keyLt, ih]

/-- Insert a write into the leading run of writes, after the writes with a strictly smaller key (so
writes to the same key keep their order) and never past a commit. -/
def insertW (a : StoreOp) (ka : Bytes) : List StoreOp → List StoreOp
  | [] => [a]
  | b :: rest =>
    match writeKey b with
    | some kb => if keyLt kb ka then b :: insertW a ka rest else a :: b :: rest
    | none => a :: b :: rest

def canon : List StoreOp → List StoreOp
  | [] => []
  | op :: rest =>
    match writeKey op with
    | some k => insertW op k (canon rest)
    | none => op :: canon rest

theorem TxPerm.cons (x : StoreOp) {l l' : List StoreOp} (h : TxPerm l l') : TxPerm (x :: l) (x :: l') := by
  induction h with
  | refl l => exact .refl _
  | swap pre post a b ka kb ha hb hne => exact .swap (x :: pre) post a b ka kb ha hb hne
  | trans _ _ ih1 ih2 => exact .trans ih1 ih2

theorem TxPerm.symm {l l' : List StoreOp} (h : TxPerm l l') : TxPerm l' l := by
  induction h with
  | refl l => exact .refl _
  | swap pre post a b ka kb ha hb hne => exact .swap pre post b a kb ka hb ha (fun e => hne e.symm)
  | trans _ _ ih1 ih2 => exact .trans ih2 ih1

theorem insertW_perm (a : StoreOp) (ka : Bytes) (ha : writeKey a = some ka) (l : List StoreOp) :
    TxPerm (a :: l) (insertW a ka l) := by
  induction l with
  | nil => exact .refl _
  | cons b rest ih =>
    unfold insertW
    cases hb : writeKey b with
    | none => exact .refl _
    | some kb =>
      simp only
      by_cases hlt : keyLt kb ka = true
      · simp only [hlt, if_true]
        have hne : ka ≠ kb := by
          intro e
          subst e
          rw [keyLt_irrefl] at hlt
          cases hlt
        exact .trans (.swap [] rest a b ka kb ha hb hne) (TxPerm.cons b ih)
      · simp only [hlt]
        exact .refl _

/-- The canonical form is reached by swapping adjacent writes to different keys. -/
theorem canon_perm (l : List StoreOp) : TxPerm l (canon l) := by
  induction l with
  | nil => exact .refl _
  | cons op rest ih =>
    unfold canon
    cases hk : writeKey op with
    | none => exact TxPerm.cons op ih
    | some k => exact .trans (TxPerm.cons op ih) (insertW_perm op k hk _)

/-- **Comparing modulo the canonical order is sound**: equal canonical forms, indistinguishable stores. -/
theorem canon_eq_eqv (l l' : List StoreOp) (h : canon l = canon l') (s : Store) : (runOps l s).Eqv (runOps l' s) :=
  txPerm_eqv (.trans (canon_perm l) (h ▸ (canon_perm l').symm)) s

/-- Nothing is reordered across a commit, and writes to one key keep their order. -/
example : canon [.set [2] (.int 1), .set [1] (.int 1), .commit, .set [1] (.int 2), .remove [1], .set [0] (.int 3)]
    = [.set [1] (.int 1), .set [2] (.int 1), .commit, .set [0] (.int 3), .set [1] (.int 2), .remove [1]] := by decide

end Omaha.SM
