/-
C01, DER layer: every ECDSA signature `(r, s)` with `r, s < 2²⁵⁶`, in its canonical DER encoding —
whatever its length, from 8 bytes (both values below 128) to 72 bytes (both with the top bit set) —
is decoded by the model of the `ecdsa`/`der` decoder to exactly `(r, s)`.  In particular the
decoder accepts the authentic signatures that happen to be shorter than 70 bytes (about one in
sixty).  That the model is the crates' decoder is the `cup` stream's business (it searches for
short signatures in every fifth case).
-/
import Omaha.Basic.Der
import Omaha.Props.C01

namespace Omaha.Der

open Omaha

/-- Minimal big-endian magnitude of a natural number (`[]` for 0); `fuel` bounds the digits. -/
def toBEAux : Nat → Nat → Bytes → Bytes
  | 0, _, acc => acc
  | fuel + 1, n, acc => if n = 0 then acc else toBEAux fuel (n / 256) (UInt8.ofNat (n % 256) :: acc)

def toBE (n : Nat) : Bytes := toBEAux n n []

/-- Content bytes of a canonical DER INTEGER holding `n ≥ 0`. -/
def intContent (n : Nat) : Bytes :=
  match toBE n with
  | [] => [0]
  | b :: tl => if b.toNat ≥ 128 then 0 :: b :: tl else b :: tl

/-- The magnitude the decoder reports for the content of `n`. -/
def magnitude (n : Nat) : Bytes :=
  match toBE n with
  | [] => [0]
  | m => m

def derInt (n : Nat) : Bytes := 2 :: UInt8.ofNat (intContent n).length :: intContent n

/-- Canonical DER encoding of the signature `(r, s)`. -/
def encodeSig (r s : Nat) : Bytes :=
  48 :: UInt8.ofNat ((derInt r).length + (derInt s).length) :: (derInt r ++ derInt s)

theorem foldl_be (acc : Nat) (b : Bytes) :
    b.foldl (fun a x => a * 256 + x.toNat) acc = acc * 256 ^ b.length + b.foldl (fun a x => a * 256 + x.toNat) 0 := by
  induction b generalizing acc with
  | nil => simp
  | cons x b ih =>
    simp only [List.foldl_cons, List.length_cons]
    rw [ih (acc * 256 + x.toNat), ih (0 * 256 + x.toNat), Nat.pow_succ]
    have : ∀ p q : Nat, (acc * 256 + q) * p + 0 = acc * (p * 256) + (0 * 256 + q) * p := by
      intro p q; rw [Nat.add_mul, Nat.zero_mul, Nat.zero_add, Nat.add_zero, Nat.mul_assoc, Nat.mul_comm 256 p]
    have h := this (256 ^ b.length) x.toNat
    omega

theorem beNat_append (a b : Bytes) : beNat (a ++ b) = beNat a * 256 ^ b.length + beNat b := by
  unfold beNat
  rw [List.foldl_append, foldl_be]

theorem toBEAux_spec (fuel n : Nat) (acc : Bytes) (h : n ≤ fuel) :
    ∃ m, toBEAux fuel n acc = m ++ acc ∧ beNat m = n ∧ (n ≠ 0 → m.head?.map (·.toNat) ≠ some 0 ∧ m ≠ []) ∧
      (n = 0 → m = []) ∧ (∀ k, n < 256 ^ k → m.length ≤ k) := by
  induction fuel generalizing n acc with
  | zero =>
    have : n = 0 := by omega
    subst this
    exact ⟨[], rfl, rfl, fun h => absurd rfl h, fun _ => rfl, fun _ _ => by simp⟩
  | succ fuel ih =>
    unfold toBEAux
    by_cases hn : n = 0
    · subst hn
      simp only [if_true]
      exact ⟨[], rfl, rfl, fun h => absurd rfl h, fun _ => rfl, fun _ _ => by simp⟩
    · simp only [hn, if_false]
      obtain ⟨m, e, hv, hne, hz, hlen⟩ := ih (n / 256) (UInt8.ofNat (n % 256) :: acc) (by omega)
      refine ⟨m ++ [UInt8.ofNat (n % 256)], by rw [e]; simp, ?_, ?_, fun h => h.elim, ?_⟩
      · rw [beNat_append, hv]
        simp only [List.length_cons, List.length_nil, Nat.pow_one, beNat, List.foldl_cons, List.foldl_nil, Nat.zero_mul, Nat.zero_add]
        have : (UInt8.ofNat (n % 256)).toNat = n % 256 := by
          rw [UInt8.toNat_ofNat']; omega
        rw [this]; omega
      · intro _
        by_cases hq : n / 256 = 0
        · have hm := hz hq
          subst hm
          have hlt : n < 256 := by omega
          have : (UInt8.ofNat (n % 256)).toNat = n := by rw [UInt8.toNat_ofNat']; omega
          refine ⟨?_, by simp⟩
          simp only [List.nil_append, List.head?_cons, Option.map_some, this]
          intro h; exact hn (Option.some.inj h)
        · obtain ⟨h1, h2⟩ := hne hq
          refine ⟨?_, by simp⟩
          cases m with
          | nil => exact absurd rfl h2
          | cons b tl => simpa using h1
      · intro k hk
        cases k with
        | zero => simp at hk; omega
        | succ k =>
          have : n / 256 < 256 ^ k := by
            rw [Nat.pow_succ] at hk
            exact Nat.div_lt_of_lt_mul (by rw [Nat.mul_comm]; exact hk)
          have := hlen k this
          simp only [List.length_append, List.length_cons, List.length_nil]
          omega

theorem toBE_spec (n : Nat) :
    beNat (toBE n) = n ∧ (n ≠ 0 → (toBE n).head?.map (·.toNat) ≠ some 0 ∧ toBE n ≠ []) ∧ (n = 0 → toBE n = []) ∧
      (∀ k, n < 256 ^ k → (toBE n).length ≤ k) := by
  obtain ⟨m, e, h1, h2, h3, h4⟩ := toBEAux_spec n n [] (Nat.le_refl n)
  unfold toBE
  rw [e, List.append_nil]
  exact ⟨h1, h2, h3, h4⟩

/-- The decoder's canonical-INTEGER check on the canonical content of `n` yields `n`'s magnitude. -/
theorem uintContent_intContent (n : Nat) : uintContent (intContent n) = some (magnitude n) := by
  obtain ⟨_, hne, hz, _⟩ := toBE_spec n
  unfold intContent magnitude
  cases hm : toBE n with
  | nil => rfl
  | cons b tl =>
    have hn0 : n ≠ 0 := fun h => by rw [hz h] at hm; cases hm
    have hb : b.toNat ≠ 0 := by
      have := (hne hn0).1
      rw [hm] at this
      simpa using this
    simp only
    split
    · rename_i hge
      -- a padding zero in front of a byte with the top bit set
      simp only [uintContent]
      have : ¬ b.toNat < 128 := by omega
      simp [this]
    · rename_i hlt
      have hb0 : b ≠ 0 := fun h => hb (by rw [h]; rfl)
      cases tl with
      | nil =>
        unfold uintContent
        split
        · rename_i heq; cases heq
        · rename_i heq; cases heq; exact absurd rfl hb0
        · rename_i heq; cases heq
        · rename_i heq; cases heq; simp; omega
      | cons c tl2 =>
        unfold uintContent
        split
        · rename_i heq; cases heq
        · rename_i heq; cases heq
        · rename_i heq; cases heq; exact absurd rfl hb0
        · rename_i heq; cases heq; simp; omega

theorem magnitude_spec (n : Nat) (h : n < 256 ^ 32) : beNat (magnitude n) = n ∧ (magnitude n).length ≤ 32 := by
  obtain ⟨hv, _, hz, hlen⟩ := toBE_spec n
  unfold magnitude
  cases hm : toBE n with
  | nil =>
    have : n = 0 := by rw [hm] at hv; simpa [beNat] using hv.symm
    subst this
    exact ⟨rfl, by simp⟩
  | cons b tl =>
    simp only
    rw [← hm]
    exact ⟨hv, hlen 32 h⟩

theorem intContent_length (n : Nat) (h : n < 256 ^ 32) : 1 ≤ (intContent n).length ∧ (intContent n).length ≤ 33 := by
  obtain ⟨_, _, _, hlen⟩ := toBE_spec n
  have := hlen 32 h
  unfold intContent
  cases hm : toBE n with
  | nil => simp
  | cons b tl =>
    rw [hm] at this
    simp only [List.length_cons] at this
    simp only
    split <;> simp only [List.length_cons] <;> omega

/-- One INTEGER of the encoding is read back, the rest of the input untouched. -/
theorem readUInt_derInt (n : Nat) (h : n < 256 ^ 32) (rest : Bytes) :
    readUInt (derInt n ++ rest) = some (magnitude n, rest) := by
  obtain ⟨h1, h33⟩ := intContent_length n h
  unfold derInt
  simp only [List.cons_append]
  unfold readUInt
  have hl : (UInt8.ofNat (intContent n).length).toNat = (intContent n).length := by
    rw [UInt8.toNat_ofNat']; omega
  simp only [hl]
  have hc : (intContent n).length < 128 ∧ (intContent n).length ≤ (intContent n ++ rest).length := by
    simp only [List.length_append]; omega
  simp only [hc, and_self, if_true, List.take_left', List.drop_left', uintContent_intContent]

/-- **der_roundtrip.** For all `r, s < 2²⁵⁶` the canonical DER encoding of `(r, s)` — of any length —
decodes to `(r, s)`. -/
theorem decodeSig_encodeSig (r s : Nat) (hr : r < 256 ^ 32) (hs : s < 256 ^ 32) :
    decodeSig (encodeSig r s) = some (r, s) := by
  obtain ⟨_, hr33⟩ := intContent_length r hr
  obtain ⟨_, hs33⟩ := intContent_length s hs
  unfold encodeSig decodeSig
  have hlen : (derInt r).length + (derInt s).length ≤ 70 := by
    unfold derInt; simp only [List.length_cons]; omega
  have hl : (UInt8.ofNat ((derInt r).length + (derInt s).length)).toNat = (derInt r).length + (derInt s).length := by
    rw [UInt8.toNat_ofNat']; omega
  simp only [hl, List.length_append]
  have hc : (derInt r).length + (derInt s).length < 128 := by omega
  simp only [hc, and_self, if_true]
  rw [readUInt_derInt r hr]
  simp only
  have := readUInt_derInt s hs []
  rw [List.append_nil] at this
  rw [this]
  simp only
  obtain ⟨vr, lr⟩ := magnitude_spec r hr
  obtain ⟨vs, ls⟩ := magnitude_spec s hs
  simp [lr, ls, vr, vs]

/-- The encodings come in every length from 8 to 72 bytes; the decoder does not care. -/
example : (encodeSig 1 1).length = 8 ∧ (encodeSig (256 ^ 32 - 1) (256 ^ 32 - 1)).length = 72 ∧
    (encodeSig (2 ^ 246) (2 ^ 254)).length = 69 ∧ decodeSig (encodeSig 1 (2 ^ 247)) = some (1, 2 ^ 247) := by decide

end Omaha.Der
