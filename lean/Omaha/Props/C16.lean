/-
C16 — Response parser is total and faithful.

`decode_encode` is stated at the level of the parsed JSON value: for every protocol `Response`
value (any number of apps, any strings, unknown status strings, absent-vs-empty cohort fields,
extension attributes in canonical form) there is a document value that decodes to exactly it.
The text layer (`JsonP.parse`) and the serde typing rules are tied to serde_json / the derive
macros by the correspondence stream `resp`.
-/
import Omaha.Response

namespace Omaha.Resp

open Omaha Omaha.JsonP

/-! ### Lookup lemmas -/

theorem lookupAll_append (a b : List (Bytes × Val)) (k : Bytes) :
    lookupAll (a ++ b) k = lookupAll a k ++ lookupAll b k := by
  simp [lookupAll, List.filter_append]

theorem lookupAll_cons (k' : Bytes) (v : Val) (rest : List (Bytes × Val)) (k : Bytes) :
    lookupAll ((k', v) :: rest) k = if k' = k then v :: lookupAll rest k else lookupAll rest k := by
  by_cases h : k' = k <;> simp [lookupAll, List.filter_cons, h]

theorem lookupAll_nil (k : Bytes) : lookupAll [] k = [] := rfl

/-- Members whose keys are all different from `k` contribute nothing. -/
theorem lookupAll_of_not_mem (x : List (Bytes × Val)) (k : Bytes) (h : ∀ kv ∈ x, kv.1 ≠ k) :
    lookupAll x k = [] := by
  induction x with
  | nil => rfl
  | cons kv rest ih =>
    obtain ⟨k', v⟩ := kv
    rw [lookupAll_cons]
    have : k' ≠ k := h (k', v) (by simp)
    simp only [this, if_false]
    exact ih (fun kv hkv => h kv (by simp [hkv]))

/-! ### Canonical extension attributes -/

/-- Extension attributes in the form the decoder produces them (sorted by key, one entry per
key) and not using any declared member name. -/
def ExtrasOK (declared : List String) (x : Extras) : Prop :=
  (∀ kv ∈ x, (declared.map s).contains kv.1 = false) ∧
  x.foldl (fun acc kv => insertSorted kv.1 kv.2 acc) [] = x

theorem extrasOf_append_declared (declared : List String) (decl x : List (Bytes × Val))
    (hd : ∀ kv ∈ decl, (declared.map s).contains kv.1 = true) (hx : ExtrasOK declared x) :
    extrasOf declared (decl ++ x) = x := by
  unfold extrasOf
  rw [List.filter_append]
  have h1 : decl.filter (fun kv => !(declared.map s).contains kv.1) = [] := by
    rw [List.filter_eq_nil_iff]
    intro kv hkv
    have := hd kv hkv
    rw [this]; simp
  have h2 : x.filter (fun kv => !(declared.map s).contains kv.1) = x := by
    rw [List.filter_eq_self]
    intro kv hkv
    have := hx.1 kv hkv
    rw [this]; simp
  rw [h1, h2, List.nil_append]
  exact hx.2

theorem not_declared_ne (declared : List String) (x : Extras) (hx : ExtrasOK declared x)
    (k : String) (hk : k ∈ declared) : ∀ kv ∈ x, kv.1 ≠ s k := by
  intro kv hkv heq
  have := hx.1 kv hkv
  rw [heq] at this
  have hc : (declared.map s).contains (s k) = true := by
    rw [List.contains_iff_mem]; exact List.mem_map_of_mem hk
  rw [hc] at this; cases this

/-! ### Encoding (a right inverse of decoding) -/

def encOpt {α} (f : α → Val) : Option α → Val
  | none => .null
  | some a => f a

def encStatus : Status → Val
  | .ok => .str (s "ok")
  | .restricted => .str (s "restricted")
  | .noUpdate => .str (s "noupdate")
  | .error b => .str b

/-- An `Error(text)` status is only representable when the text is not one of the known names. -/
def Status.WF : Status → Prop
  | .error b => b ≠ s "ok" ∧ b ≠ s "restricted" ∧ b ≠ s "noupdate"
  | _ => True

def encNat (n : Nat) : Val := .num (.uint n)

def encPackage (p : Package) : Val :=
  .obj ([(s "name", .str p.name), (s "required", .bool p.required), (s "size", encOpt encNat p.size),
         (s "hash", encOpt .str p.hash), (s "hash_sha256", encOpt .str p.hashSha256), (s "fp", .str p.fp)] ++ p.extras)

def Package.WF (p : Package) : Prop :=
  (∀ n, p.size = some n → n ≤ Dec.u64Max) ∧
  ExtrasOK ["name", "required", "size", "hash", "hash_sha256", "fp"] p.extras

def encAction (a : Action) : Val :=
  .obj ([(s "event", encOpt .str a.event), (s "run", encOpt .str a.run)] ++ a.extras)

def Action.WF (a : Action) : Prop := ExtrasOK ["event", "run"] a.extras

def encManifest (m : Manifest) : Val :=
  .obj [(s "version", .str m.version),
        (s "actions", .obj [(s "action", .arr (m.actions.map encAction))]),
        (s "packages", .obj [(s "package", .arr (m.packages.map encPackage))])]

def Manifest.WF (m : Manifest) : Prop := (∀ a ∈ m.actions, a.WF) ∧ (∀ p ∈ m.packages, p.WF)

def encUrls (us : List Bytes) : Val :=
  .obj [(s "url", .arr (us.map fun c => .obj [(s "codebase", .str c)]))]

def encUpdateCheck (u : UpdateCheck) : Val :=
  .obj ([(s "status", encStatus u.status), (s "info", encOpt .str u.info), (s "urls", encOpt encUrls u.urls),
         (s "manifest", encOpt encManifest u.manifest)] ++ u.extras)

def UpdateCheck.WF (u : UpdateCheck) : Prop :=
  u.status.WF ∧ (∀ m, u.manifest = some m → m.WF) ∧ ExtrasOK ["status", "info", "urls", "manifest"] u.extras

def encStatusStruct (st : Status) : Val := .obj [(s "status", encStatus st)]

def encApp (a : App) : Val :=
  .obj ([(s "appid", .str a.id), (s "status", encStatus a.status),
         (s "cohort", encOpt .str a.cohort.id), (s "cohorthint", encOpt .str a.cohort.hint),
         (s "cohortname", encOpt .str a.cohort.name),
         (s "ping", encOpt encStatusStruct a.ping), (s "updatecheck", encOpt encUpdateCheck a.updateCheck),
         (s "event", encOpt (fun es => .arr (es.map encStatusStruct)) a.events)] ++ a.extras)

def App.WF (a : App) : Prop :=
  a.status.WF ∧ (∀ st, a.ping = some st → st.WF) ∧ (∀ u, a.updateCheck = some u → u.WF) ∧
  (∀ es, a.events = some es → ∀ e ∈ es, e.WF) ∧
  ExtrasOK ["appid", "status", "cohort", "cohorthint", "cohortname", "ping", "updatecheck", "event"] a.extras

def encDayStart (d : DayStart) : Val :=
  .obj [(s "elapsed_days", encOpt encNat d.elapsedDays), (s "elapsed_seconds", encOpt encNat d.elapsedSeconds)]

def DayStart.WF (d : DayStart) : Prop :=
  (∀ n, d.elapsedDays = some n → n ≤ Dec.u32Max) ∧ (∀ n, d.elapsedSeconds = some n → n ≤ Dec.u32Max)

def encResponse (r : Response) : Val :=
  .obj [(s "protocol", .str r.protocol), (s "server", encOpt .str r.server),
        (s "daystart", encOpt encDayStart r.daystart), (s "app", .arr (r.apps.map encApp))]

def Response.WF (r : Response) : Prop :=
  (∀ d, r.daystart = some d → d.WF) ∧ (∀ a ∈ r.apps, a.WF)

def encWrapper (r : Response) : Val := .obj [(s "response", encResponse r)]

/-! ### Decoding the encoding -/

theorem asStatus_enc (st : Status) (h : st.WF) : asStatus (encStatus st) = .ok st := by
  cases st with
  | ok => simp [encStatus, asStatus]
  | restricted =>
    have : s "restricted" ≠ s "ok" := by decide
    simp [encStatus, asStatus, this]
  | noUpdate =>
    have h1 : s "noupdate" ≠ s "ok" := by decide
    have h2 : s "noupdate" ≠ s "restricted" := by decide
    simp [encStatus, asStatus, h1, h2]
  | error b =>
    obtain ⟨h1, h2, h3⟩ := h
    simp [encStatus, asStatus, h1, h2, h3]

theorem mapR_map {α} (f : Val → R α) (enc : α → Val) (P : α → Prop) (xs : List α)
    (h : ∀ x, P x → f (enc x) = .ok x) (hp : ∀ x ∈ xs, P x) :
    mapR f (xs.map enc) = .ok xs := by
  induction xs with
  | nil => rfl
  | cons x xs ih =>
    simp only [List.map_cons, mapR]
    rw [h x (hp x (by simp)), ih (fun y hy => hp y (by simp [hy]))]
    rfl

/-- Field lookup in `decl ++ extras` where `extras` does not use the name. -/
theorem field_decl (decl x : List (Bytes × Val)) (k : String) (hx : ∀ kv ∈ x, kv.1 ≠ s k) :
    field (decl ++ x) k = field decl k := by
  unfold field
  rw [lookupAll_append, lookupAll_of_not_mem x (s k) hx, List.append_nil]

theorem opt_null_or {α} (kvs : List (Bytes × Val)) (k : String) (f : Val → R α) (enc : α → Val)
    (o : Option α) (hf : field kvs k = .one (encOpt enc o))
    (hdec : ∀ a, o = some a → f (enc a) = .ok a) (hnn : ∀ a, enc a ≠ .null) :
    opt kvs k f = .ok o := by
  unfold opt
  rw [hf]
  cases o with
  | none => rfl
  | some a =>
    simp only [encOpt]
    have := hnn a
    cases he : enc a with
    | null => exact absurd he this
    | _ => simp [← he, hdec a rfl, R.bind]

end Omaha.Resp

namespace Omaha.Resp
open Omaha Omaha.JsonP

theorem encNat_ne_null (n : Nat) : encNat n ≠ .null := by simp [encNat]
theorem str_ne_null (b : Bytes) : Val.str b ≠ .null := by simp

theorem asUint_enc (max n : Nat) (h : n ≤ max) : asUint max (encNat n) = .ok n := by
  simp [asUint, encNat, h]

theorem req_of_field {α} (kvs : List (Bytes × Val)) (k : String) (f : Val → R α) (v : Val)
    (h : field kvs k = .one v) : req kvs k f = f v := by
  simp [req, h]

theorem bind_ok {α β} (a : α) (f : α → R β) : (R.ok a).bind f = f a := rfl

/-- `field (decl ++ extras) k = one v` for a literal member list `decl` and extras avoiding `k`. -/
macro "solve_field " nd:term ", " k:str : tactic =>
  `(tactic| (rw [field_decl _ _ _ ($nd $k (by simp))];
             simp (config := { decide := true }) [field, lookupAll_cons, lookupAll_nil]))

/-- `field decl k = one v` for a literal member list. -/
macro "solve_field0" : tactic =>
  `(tactic| simp (config := { decide := true }) [field, lookupAll_cons, lookupAll_nil])

theorem decodePackage_enc (p : Package) (h : p.WF) : decodePackage (encPackage p) = .ok p := by
  obtain ⟨hsz, hx⟩ := h
  have nd := not_declared_ne _ _ hx
  unfold decodePackage encPackage asMapStruct
  simp only
  rw [req_of_field _ "name" _ (.str p.name) (by solve_field nd, "name")]
  rw [req_of_field _ "required" _ (.bool p.required) (by solve_field nd, "required")]
  rw [opt_null_or _ "size" _ encNat p.size (by solve_field nd, "size")
        (fun n hn => asUint_enc _ n (hsz n hn)) encNat_ne_null]
  rw [opt_null_or _ "hash" _ Val.str p.hash (by solve_field nd, "hash") (fun _ _ => rfl) str_ne_null]
  rw [opt_null_or _ "hash_sha256" _ Val.str p.hashSha256 (by solve_field nd, "hash_sha256") (fun _ _ => rfl) str_ne_null]
  rw [req_of_field _ "fp" _ (.str p.fp) (by solve_field nd, "fp")]
  simp only [asStr, asBool, bind_ok]
  rw [extrasOf_append_declared _ _ _ (by simp (config := { decide := true })) hx]

theorem decodeAction_enc (a : Action) (h : a.WF) : decodeAction (encAction a) = .ok a := by
  have nd := not_declared_ne _ _ h
  unfold decodeAction encAction asMapStruct
  simp only
  rw [opt_null_or _ "event" _ Val.str a.event (by solve_field nd, "event") (fun _ _ => rfl) str_ne_null]
  rw [opt_null_or _ "run" _ Val.str a.run (by solve_field nd, "run") (fun _ _ => rfl) str_ne_null]
  simp only [bind_ok]
  rw [extrasOf_append_declared _ _ _ (by simp (config := { decide := true })) h]

theorem asList_map {α} (f : Val → R α) (enc : α → Val) (P : α → Prop) (xs : List α)
    (h : ∀ x, P x → f (enc x) = .ok x) (hp : ∀ x ∈ xs, P x) :
    asList f (.arr (xs.map enc)) = .ok xs := by
  simp only [asList]; exact mapR_map f enc P xs h hp

theorem decodeManifest_enc (m : Manifest) (h : m.WF) : decodeManifest (encManifest m) = .ok m := by
  obtain ⟨ha, hp⟩ := h
  unfold decodeManifest encManifest asStruct
  simp only
  rw [req_of_field _ "version" _ (.str m.version) (by solve_field0)]
  rw [req_of_field _ "actions" _ (.obj [(s "action", .arr (m.actions.map encAction))]) (by solve_field0)]
  rw [req_of_field _ "packages" _ (.obj [(s "package", .arr (m.packages.map encPackage))]) (by solve_field0)]
  simp only [asStr, bind_ok, asStruct]
  rw [req_of_field _ "action" _ (.arr (m.actions.map encAction)) (by solve_field0)]
  rw [req_of_field _ "package" _ (.arr (m.packages.map encPackage)) (by solve_field0)]
  rw [asList_map _ encAction Action.WF _ decodeAction_enc ha]
  rw [asList_map _ encPackage Package.WF _ decodePackage_enc hp]
  rfl

theorem decodeUrls_enc (us : List Bytes) : decodeUrls (encUrls us) = .ok us := by
  unfold decodeUrls encUrls asStruct
  simp only
  rw [req_of_field _ "url" _ (.arr (us.map fun c => .obj [(s "codebase", .str c)])) (by solve_field0)]
  apply asList_map _ (fun c => Val.obj [(s "codebase", .str c)]) (fun _ => True) us
  · intro c _
    simp only [asStruct]
    rw [req_of_field _ "codebase" _ (.str c) (by solve_field0)]
    rfl
  · intros; trivial

theorem encUrls_ne_null (us : List Bytes) : encUrls us ≠ .null := by simp [encUrls]
theorem encManifest_ne_null (m : Manifest) : encManifest m ≠ .null := by simp [encManifest]
theorem encStatusStruct_ne_null (st : Status) : encStatusStruct st ≠ .null := by simp [encStatusStruct]

theorem decodeUpdateCheck_enc (u : UpdateCheck) (h : u.WF) :
    decodeUpdateCheck (encUpdateCheck u) = .ok u := by
  obtain ⟨hst, hm, hx⟩ := h
  have nd := not_declared_ne _ _ hx
  unfold decodeUpdateCheck encUpdateCheck asMapStruct
  simp only
  rw [req_of_field _ "status" _ (encStatus u.status) (by solve_field nd, "status")]
  rw [opt_null_or _ "info" _ Val.str u.info (by solve_field nd, "info") (fun _ _ => rfl) str_ne_null]
  rw [opt_null_or _ "urls" _ encUrls u.urls (by solve_field nd, "urls") (fun us _ => decodeUrls_enc us) encUrls_ne_null]
  rw [opt_null_or _ "manifest" _ encManifest u.manifest (by solve_field nd, "manifest")
        (fun m hm' => decodeManifest_enc m (hm m hm')) encManifest_ne_null]
  rw [asStatus_enc _ hst]
  simp only [bind_ok]
  rw [extrasOf_append_declared _ _ _ (by simp (config := { decide := true })) hx]

theorem decodeStatusStruct_enc (st : Status) (h : st.WF) :
    decodeStatusStruct (encStatusStruct st) = .ok st := by
  unfold decodeStatusStruct encStatusStruct asStruct
  simp only
  rw [req_of_field _ "status" _ (encStatus st) (by solve_field0)]
  exact asStatus_enc st h

theorem encUpdateCheck_ne_null (u : UpdateCheck) : encUpdateCheck u ≠ .null := by simp [encUpdateCheck]

theorem decodeApp_enc (a : App) (h : a.WF) : decodeApp (encApp a) = .ok a := by
  obtain ⟨hst, hpg, huc, hev, hx⟩ := h
  have nd := not_declared_ne _ _ hx
  unfold decodeApp encApp asMapStruct
  simp only
  rw [req_of_field _ "appid" _ (.str a.id) (by solve_field nd, "appid")]
  rw [req_of_field _ "status" _ (encStatus a.status) (by solve_field nd, "status")]
  rw [opt_null_or _ "cohort" _ Val.str a.cohort.id (by solve_field nd, "cohort") (fun _ _ => rfl) str_ne_null]
  rw [opt_null_or _ "cohorthint" _ Val.str a.cohort.hint (by solve_field nd, "cohorthint") (fun _ _ => rfl) str_ne_null]
  rw [opt_null_or _ "cohortname" _ Val.str a.cohort.name (by solve_field nd, "cohortname") (fun _ _ => rfl) str_ne_null]
  rw [opt_null_or _ "ping" _ encStatusStruct a.ping (by solve_field nd, "ping")
        (fun st hs => decodeStatusStruct_enc st (hpg st hs)) encStatusStruct_ne_null]
  rw [opt_null_or _ "updatecheck" _ encUpdateCheck a.updateCheck (by solve_field nd, "updatecheck")
        (fun u hu => decodeUpdateCheck_enc u (huc u hu)) encUpdateCheck_ne_null]
  rw [opt_null_or _ "event" _ (fun es => Val.arr (es.map encStatusStruct)) a.events (by solve_field nd, "event")
        (fun es hes => asList_map _ encStatusStruct Status.WF es decodeStatusStruct_enc (hev es hes))
        (by intro es; simp)]
  rw [asStatus_enc _ hst]
  simp only [asStr, bind_ok]
  rw [extrasOf_append_declared _ _ _ (by simp (config := { decide := true })) hx]

theorem decodeDayStart_enc (d : DayStart) (h : d.WF) : decodeDayStart (encDayStart d) = .ok d := by
  obtain ⟨h1, h2⟩ := h
  unfold decodeDayStart encDayStart asStruct
  simp only
  rw [opt_null_or _ "elapsed_days" _ encNat d.elapsedDays (by solve_field0)
        (fun n hn => asUint_enc _ n (h1 n hn)) encNat_ne_null]
  rw [opt_null_or _ "elapsed_seconds" _ encNat d.elapsedSeconds (by solve_field0)
        (fun n hn => asUint_enc _ n (h2 n hn)) encNat_ne_null]
  rfl

theorem encDayStart_ne_null (d : DayStart) : encDayStart d ≠ .null := by simp [encDayStart]

/-- **decode_encode.** Every protocol response value — any number of apps in any order, statuses
with unknown strings preserved as errors, cohort fields distinguishing absent from empty,
daystart, update-check urls, manifest, actions and packages, extension attributes — is decoded
field for field from its document. -/
theorem decode_encode (r : Response) (h : r.WF) : decodeWrapper (encWrapper r) = .ok r := by
  obtain ⟨hd, ha⟩ := h
  unfold decodeWrapper encWrapper asStruct
  simp only
  rw [req_of_field _ "response" _ (encResponse r) (by solve_field0)]
  unfold decodeResponse encResponse asStruct
  simp only
  rw [req_of_field _ "protocol" _ (.str r.protocol) (by solve_field0)]
  rw [opt_null_or _ "server" _ Val.str r.server (by solve_field0) (fun _ _ => rfl) str_ne_null]
  rw [opt_null_or _ "daystart" _ encDayStart r.daystart (by solve_field0)
        (fun d hd' => decodeDayStart_enc d (hd d hd')) encDayStart_ne_null]
  rw [req_of_field _ "app" _ (.arr (r.apps.map encApp)) (by solve_field0)]
  rw [asList_map _ encApp App.WF _ decodeApp_enc ha]
  rfl

/-! ### Absent and `null` are the same for optional members; empty is different -/

theorem opt_absent {α} (kvs : List (Bytes × Val)) (k : String) (f : Val → R α)
    (h : lookupAll kvs (s k) = []) : opt kvs k f = .ok none := by
  simp [opt, field, h]

theorem opt_null {α} (kvs : List (Bytes × Val)) (k : String) (f : Val → R α)
    (h : lookupAll kvs (s k) = [.null]) : opt kvs k f = .ok none := by
  simp [opt, field, h]

theorem opt_empty_string (kvs : List (Bytes × Val)) (k : String)
    (h : lookupAll kvs (s k) = [.str []]) : opt kvs k asStr = .ok (some []) := by
  simp [opt, field, h, asStr, R.bind]

/-! ### Missing or mistyped required members are rejected (**missing_or_mistyped_rejected**) -/

theorem req_missing {α} (kvs : List (Bytes × Val)) (k : String) (f : Val → R α)
    (h : lookupAll kvs (s k) = []) : req kvs k f = .err := by
  simp [req, field, h]

theorem req_duplicate {α} (kvs : List (Bytes × Val)) (k : String) (f : Val → R α) (v w : Val)
    (rest : List Val) (h : lookupAll kvs (s k) = v :: w :: rest) : req kvs k f = .err := by
  simp [req, field, h]

theorem asStr_mistyped (v : Val) (h : ∀ b, v ≠ .str b) : asStr v = .err := by
  cases v <;> simp_all [asStr]

theorem asBool_mistyped (v : Val) (h : ∀ b, v ≠ .bool b) : asBool v = .err := by
  cases v <;> simp_all [asBool]

theorem asStatus_mistyped (v : Val) (h : ∀ b, v ≠ .str b) : asStatus v = .err := by
  cases v <;> simp_all [asStatus]

theorem asUint_mistyped (max : Nat) (v : Val) (h : ∀ n, n ≤ max → v ≠ .num (.uint n)) :
    asUint max v = .err := by
  cases v with
  | num n =>
    cases n with
    | uint k =>
      by_cases hk : k ≤ max
      · exact absurd rfl (h k hk)
      · simp [asUint, hk]
    | other t => simp [asUint]
  | _ => simp [asUint]

theorem asList_mistyped {α} (f : Val → R α) (v : Val) (h : ∀ xs, v ≠ .arr xs) : asList f v = .err := by
  cases v <;> simp_all [asList]

/-- An accepted document has the wrapper, and inside it `protocol` (a string) and `app` (an
array), each exactly once. -/
theorem accepted_has_required (kvs : List (Bytes × Val)) (r : Response)
    (h : decodeWrapper (.obj kvs) = .ok r) :
    ∃ rkvs, lookupAll kvs (s "response") = [.obj rkvs] ∧
      lookupAll rkvs (s "protocol") = [.str r.protocol] ∧
      ∃ apps, lookupAll rkvs (s "app") = [.arr apps] ∧ mapR decodeApp apps = .ok r.apps := by
  unfold decodeWrapper asStruct at h
  simp only [req, field] at h
  cases hl : lookupAll kvs (s "response") with
  | nil => simp [hl] at h
  | cons v rest =>
    cases rest with
    | cons w rest' => simp [hl] at h
    | nil =>
      simp only [hl] at h
      cases v with
      | obj rkvs =>
        refine ⟨rkvs, rfl, ?_⟩
        unfold decodeResponse asStruct at h
        simp only [req, field] at h
        cases hp : lookupAll rkvs (s "protocol") with
        | nil => simp [hp, R.bind] at h
        | cons pv prest =>
          cases prest with
          | cons _ _ => simp [hp, R.bind] at h
          | nil =>
            simp only [hp] at h
            cases pv with
            | str pb =>
              simp only [asStr, bind_ok] at h
              cases hs : opt rkvs "server" asStr with
              | err => simp [hs, R.bind] at h
              | outside => simp [hs, R.bind] at h
              | ok sv =>
                simp only [hs, bind_ok] at h
                cases hdd : opt rkvs "daystart" decodeDayStart with
                | err => simp [hdd, R.bind] at h
                | outside => simp [hdd, R.bind] at h
                | ok dv =>
                  simp only [hdd, bind_ok] at h
                  cases hap : lookupAll rkvs (s "app") with
                  | nil => simp [hap, R.bind] at h
                  | cons av arest =>
                    cases arest with
                    | cons _ _ => simp [hap, R.bind] at h
                    | nil =>
                      simp only [hap] at h
                      cases av with
                      | arr apps =>
                        simp only [asList] at h
                        cases hm : mapR decodeApp apps with
                        | err => simp [hm, R.bind] at h
                        | outside => simp [hm, R.bind] at h
                        | ok as' =>
                          simp only [hm, bind_ok, R.ok.injEq] at h
                          subst h
                          exact ⟨rfl, apps, rfl, hm⟩
                      | _ => simp [asList, R.bind] at h
            | _ => simp [asStr, R.bind] at h
      | arr xs => simp only [decodeResponse, asStruct] at h; split at h <;> cases h
      | null => simp [decodeResponse, asStruct] at h
      | bool _ => simp [decodeResponse, asStruct] at h
      | num _ => simp [decodeResponse, asStruct] at h
      | str _ => simp [decodeResponse, asStruct] at h

/-! ### The anti-XSSI prefix (**prefix_neutral**) -/

/-- With the prefix the rest is parsed; the prefix changes nothing else. -/
theorem prefix_neutral (b : Bytes) :
    parseJsonResponse (xssiPrefix ++ b) = decodeParsed (JsonP.parse b) := by
  unfold parseJsonResponse stripXssi
  have : xssiPrefix.isPrefixOf (xssiPrefix ++ b) = true := by simp [xssiPrefix, List.isPrefixOf]
  simp only [this, if_true]
  have : (xssiPrefix ++ b).drop xssiPrefix.length = b := by simp
  rw [this]

/-- Without the prefix the input is parsed as it is. -/
theorem no_prefix_unchanged (b : Bytes) (h : xssiPrefix.isPrefixOf b = false) :
    parseJsonResponse b = decodeParsed (JsonP.parse b) := by
  unfold parseJsonResponse stripXssi
  simp [h]

/-- Only one prefix is stripped: a doubled prefix is not a document. -/
theorem double_prefix_rejected (b : Bytes) : parseJsonResponse (xssiPrefix ++ (xssiPrefix ++ b)) = .err := by
  rw [prefix_neutral]
  have : JsonP.parse (xssiPrefix ++ b) = .err := by
    unfold JsonP.parse parseDoc
    have h1 : ∀ m fuel d, parseValue m (fuel + 1) d (xssiPrefix ++ b) = none := by
      intro m fuel d
      simp [parseValue, xssiPrefix, skipWs]
    have e1 : 2 * (xssiPrefix ++ b).length + 2 = (2 * (xssiPrefix ++ b).length + 1) + 1 := by omega
    rw [e1, h1, h1]
  rw [this]; rfl

/-! ### Totality -/

/-- Parsing any byte string returns a value, an error, or "outside the model" — the model has no
panic outcome. -/
theorem parse_total (b : Bytes) :
    (∃ r, parseJsonResponse b = .ok r) ∨ parseJsonResponse b = .err ∨ parseJsonResponse b = .outside := by
  cases h : parseJsonResponse b with
  | ok r => exact Or.inl ⟨r, rfl⟩
  | err => exact Or.inr (Or.inl rfl)
  | outside => exact Or.inr (Or.inr rfl)

/-! ### Full URLs (**full_urls_product**) -/

/-- Every codebase joined with every package name, codebase-major, in document order. -/
theorem full_urls_product (u : UpdateCheck) :
    u.fullUrls = (u.codebases.flatMap fun c => u.packages.map fun p => c ++ p.name) := rfl

theorem full_urls_length (u : UpdateCheck) :
    u.fullUrls.length = u.codebases.length * u.packages.length := by
  unfold UpdateCheck.fullUrls
  induction u.codebases with
  | nil => simp
  | cons c cs ih => simp [List.flatMap_cons, ih, Nat.succ_mul, Nat.add_comm]

theorem full_urls_mem (u : UpdateCheck) (x : Bytes) :
    x ∈ u.fullUrls ↔ ∃ c ∈ u.codebases, ∃ p ∈ u.packages, x = c ++ p.name := by
  simp [UpdateCheck.fullUrls, List.mem_flatMap, eq_comm]

/-! ### Non-vacuity -/

def pkg1 : Package := ⟨[112], true, some 5, none, some [], [102], [([122], .null)]⟩
def uc1 : UpdateCheck := ⟨.ok, none, some [[104], [105]], some ⟨[49], [⟨some [105], none, []⟩], [pkg1]⟩, []⟩
def app1 : App := ⟨[97], .error [101], ⟨some [], none, some [110]⟩, some .noUpdate, some uc1, some [.ok], [([95, 117], .bool true)]⟩
def resp1 : Response := ⟨[51], some [112], some ⟨some 4775, none⟩, [app1, app1]⟩

example : pkg1.WF := by
  refine ⟨by intro n hn; cases hn; decide, ?_, ?_⟩
  · decide
  · rfl
example : uc1.fullUrls = [[104, 112], [105, 112]] := by decide

end Omaha.Resp
