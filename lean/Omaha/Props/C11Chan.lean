/-
C11, the channel-closure clauses: a request made after the state machine is gone — or pending when it
goes — is answered `StateMachineGone` instead of hanging; while the machine exists nobody is told it is
gone; a resolved request never changes; dropping every handle changes nothing for the machine.
All statements are about `Omaha.Chan` (Omaha/Chan.lean) and hold for every sequence of operations.
-/
import Omaha.Chan

namespace Omaha.Chan

open Omaha.SM (Reply)

/-- Request ids are chosen fresh by the callers (each call of `start_update_check` is its own request). -/
def Fresh (s : St) : Op → Prop
  | .send id => id ∉ s.pending ∧ id ∉ s.done.map Prod.fst
  | _ => True

def FreshRun : St → List Op → Prop
  | _, [] => True
  | s, op :: rest => Fresh s op ∧ FreshRun (step s op) rest

structure Inv (s : St) : Prop where
  nodup : (s.pending ++ s.done.map Prod.fst).Nodup
  dead : s.alive = false → s.pending = []
  resolved : ∀ p ∈ s.done, p.2 ≠ .pending
  alive : s.alive = true → ∀ p ∈ s.done, p.2 ≠ .gone

theorem inv_init : Inv {} := ⟨by simp, by simp, by simp, by simp⟩

theorem lookup_none_of_not_mem {l : List (Nat × Status)} {id : Nat} (h : id ∉ l.map Prod.fst) : l.lookup id = none := by
  induction l with
  | nil => rfl
  | cons p rest ih =>
    obtain ⟨k, v⟩ := p
    simp only [List.map_cons, List.mem_cons, not_or] at h
    have hk : (id == k) = false := by simpa using h.1
    simp only [List.lookup_cons, hk]
    exact ih h.2

theorem lookup_some_mem {l : List (Nat × Status)} {id : Nat} {st : Status} (h : l.lookup id = some st) : (id, st) ∈ l := by
  induction l with
  | nil => simp at h
  | cons p rest ih =>
    obtain ⟨k, v⟩ := p
    simp only [List.lookup_cons] at h
    by_cases hk : (id == k) = true
    · simp only [hk] at h
      have : id = k := by simpa using hk
      cases h; subst this; exact List.mem_cons_self
    · simp only [hk] at h
      exact List.mem_cons_of_mem _ (ih h)

theorem lookup_map_gone (l : List Nat) (rest : List (Nat × Status)) (id : Nat) (h : id ∈ l) :
    (l.map (fun i => (i, Status.gone)) ++ rest).lookup id = some .gone := by
  induction l with
  | nil => simp at h
  | cons x xs ih =>
    simp only [List.map_cons, List.cons_append, List.lookup_cons]
    by_cases hx : (id == x) = true
    · simp [hx]
    · simp only [hx]
      have : id ≠ x := by simpa using hx
      rcases List.mem_cons.1 h with h | h
      · exact absurd h this
      · exact ih h

theorem lookup_map_gone_not (l : List Nat) (rest : List (Nat × Status)) (id : Nat) (h : id ∉ l) :
    (l.map (fun i => (i, Status.gone)) ++ rest).lookup id = rest.lookup id := by
  induction l with
  | nil => rfl
  | cons x xs ih =>
    simp only [List.mem_cons, not_or] at h
    have hx : (id == x) = false := by simpa using h.1
    simp only [List.map_cons, List.cons_append, List.lookup_cons, hx]
    exact ih h.2

theorem inv_step {s : St} (op : Op) (hi : Inv s) (hf : Fresh s op) : Inv (step s op) := by
  cases op with
  | send id =>
    obtain ⟨h1, h2⟩ := hf
    cases ha : s.alive with
    | true =>
      simp only [step, ha, if_true]
      refine ⟨?_, by simp [ha], hi.resolved, fun _ => hi.alive ha⟩
      have := hi.nodup
      rw [List.nodup_append] at this ⊢
      obtain ⟨n1, n2, n3⟩ := this
      refine ⟨?_, n2, ?_⟩
      · rw [List.nodup_append]; exact ⟨n1, by simp, by intro a ha' b hb; simp at hb; subst hb; intro e; exact h1 (e ▸ ha')⟩
      · intro a ha' b hb
        rcases List.mem_append.1 ha' with ha' | ha'
        · exact n3 a ha' b hb
        · simp at ha'; subst ha'; intro e; exact h2 (e ▸ hb)
    | false =>
      simp only [step, ha]
      refine ⟨?_, fun _ => hi.dead ha, ?_, by simp⟩
      · have hp := hi.dead ha
        have := hi.nodup
        simp only [hp, List.nil_append, List.map_cons] at this ⊢
        exact List.nodup_cons.2 ⟨h2, this⟩
      · intro p hp
        rcases List.mem_cons.1 hp with rfl | hp
        · simp
        · exact hi.resolved p hp
  | reply id r =>
    simp only [step]
    split
    · rename_i hc
      simp only [Bool.and_eq_true] at hc
      obtain ⟨ha, hm⟩ := hc
      have hm : id ∈ s.pending := by simpa using hm
      have := hi.nodup
      rw [List.nodup_append] at this
      obtain ⟨n1, n2, n3⟩ := this
      refine ⟨?_, by simp [ha], ?_, ?_⟩
      · simp only [List.map_cons]
        rw [List.nodup_append]
        refine ⟨n1.erase id, List.nodup_cons.2 ⟨fun h => n3 id hm id h rfl, n2⟩, ?_⟩
        intro a ha' b hb
        have ha'' := List.mem_of_mem_erase ha'
        rcases List.mem_cons.1 hb with rfl | hb
        · intro e; subst e; exact (List.Nodup.mem_erase_iff n1).1 ha' |>.1 rfl
        · exact n3 a ha'' b hb
      · intro p hp
        rcases List.mem_cons.1 hp with rfl | hp
        · simp
        · exact hi.resolved p hp
      · intro _ p hp
        rcases List.mem_cons.1 hp with rfl | hp
        · simp
        · exact hi.alive ha p hp
    · exact hi
  | dropMachine =>
    simp only [step]
    refine ⟨?_, fun _ => rfl, ?_, by simp⟩
    · have := hi.nodup
      simpa [List.map_append, List.map_map, Function.comp_def] using this
    · intro p hp
      rcases List.mem_append.1 hp with hp | hp
      · simp only [List.mem_map] at hp
        obtain ⟨_, _, rfl⟩ := hp
        simp
      · exact hi.resolved p hp
  | dropHandles => exact hi

theorem inv_run' (s : St) (ops : List Op) (hi : Inv s) (hf : FreshRun s ops) : Inv (ops.foldl step s) := by
  induction ops generalizing s with
  | nil => exact hi
  | cons op rest ih => exact ih _ (inv_step op hi hf.1) hf.2

theorem inv_run (ops : List Op) (hf : FreshRun {} ops) : Inv (run ops) := inv_run' _ _ inv_init hf

/-! ### The clauses -/

/-- **Never hangs once the machine is gone**: in a state without a machine no request is pending. -/
theorem dead_no_pending {s : St} (hi : Inv s) (hd : s.alive = false) (id : Nat) : status s id ≠ some .pending := by
  unfold status
  cases h : s.done.lookup id with
  | some st =>
    simp only
    intro e
    cases e
    exact hi.resolved _ (lookup_some_mem h) rfl
  | none => simp [hi.dead hd]

theorem lookup_isSome_iff (l : List (Nat × Status)) (id : Nat) : (l.lookup id).isSome = true ↔ id ∈ l.map Prod.fst := by
  induction l with
  | nil => simp
  | cons p rest ih =>
    obtain ⟨k, v⟩ := p
    simp only [List.lookup_cons, List.map_cons, List.mem_cons]
    by_cases hk : (id == k) = true
    · have : id = k := by simpa using hk
      simp [hk, this]
    · have : id ≠ k := by simpa using hk
      simp only [hk, ih]
      exact ⟨Or.inr, fun h => h.resolve_left this⟩

/-- A request is known (has a status) iff it is pending or resolved. -/
def Known (s : St) (id : Nat) : Prop := id ∈ s.pending ∨ id ∈ s.done.map Prod.fst

theorem known_iff (s : St) (id : Nat) : (status s id).isSome = true ↔ Known s id := by
  unfold status Known
  cases h : s.done.lookup id with
  | some st =>
    have := (lookup_isSome_iff s.done id).1 (by simp [h])
    simp [this]
  | none =>
    have : id ∉ s.done.map Prod.fst := fun hm => by
      have := (lookup_isSome_iff s.done id).2 hm
      simp [h] at this
    by_cases hc : id ∈ s.pending <;> simp [hc, this]

theorem known_step (s : St) (op : Op) (id : Nat) (h : Known s id) : Known (step s op) id := by
  unfold Known at *
  cases op with
  | send j =>
    cases ha : s.alive
    · rcases h with h | h
      · exact Or.inl (by simpa [step, ha] using h)
      · exact Or.inr (by simp only [step, ha]; exact List.mem_cons_of_mem _ h)
    · rcases h with h | h
      · exact Or.inl (by simp only [step, ha, if_true]; exact List.mem_append_left _ h)
      · exact Or.inr (by simpa [step, ha] using h)
  | reply j r =>
    simp only [step]
    split
    · rcases h with h | h
      · by_cases e : id = j
        · exact Or.inr (by simp [e])
        · exact Or.inl ((List.mem_erase_of_ne e).2 h)
      · exact Or.inr (by simp only [List.map_cons]; exact List.mem_cons_of_mem _ h)
    · exact h
  | dropMachine =>
    simp only [step]
    right
    simp only [List.map_append, List.map_map, List.mem_append]
    rcases h with h | h
    · exact Or.inl (List.mem_map.2 ⟨id, h, rfl⟩)
    · exact Or.inr h
  | dropHandles => exact h

theorem known_send (s : St) (id : Nat) : Known (step s (.send id)) id := by
  unfold Known
  cases ha : s.alive <;> simp [step, ha]

/-- Every request that was made has a status. -/
theorem sent_known (s : St) (ops : List Op) (id : Nat) (h : id ∈ sent ops ∨ Known s id) : Known (ops.foldl step s) id := by
  induction ops generalizing s with
  | nil =>
    rcases h with h | h
    · simp [sent] at h
    · exact h
  | cons op rest ih =>
    apply ih
    rcases h with h | h
    · cases op with
      | send j =>
        simp only [sent, List.mem_cons] at h
        rcases h with rfl | h
        · exact Or.inr (known_send s _)
        · exact Or.inl h
      | reply j r => exact Or.inl h
      | dropMachine => exact Or.inl h
      | dropHandles => exact Or.inl h
    · exact Or.inr (known_step s op id h)

theorem sent_has_status (ops : List Op) (id : Nat) (h : id ∈ sent ops) : (status (run ops) id).isSome :=
  (known_iff _ _).2 (sent_known _ _ _ (Or.inl h))

/-- **C11, gone instead of hanging**: once the machine has been dropped, every request that was ever made
— before the drop and still unanswered, or after it — has been resolved: with the machine's reply if
it gave one in time, with `StateMachineGone` otherwise. -/
theorem gone_not_hanging (ops : List Op) (hf : FreshRun {} ops) (hd : (run ops).alive = false) (id : Nat)
    (h : id ∈ sent ops) : ∃ st, status (run ops) id = some st ∧ st ≠ .pending := by
  have := sent_has_status ops id h
  cases hs : status (run ops) id with
  | none => simp [hs] at this
  | some st => exact ⟨st, rfl, fun e => dead_no_pending (inv_run ops hf) hd id (e ▸ hs)⟩

/-- A request made when the machine is already gone is told so at once. -/
theorem send_when_gone (s : St) (id : Nat) (hd : s.alive = false) : status (step s (.send id)) id = some .gone := by
  simp [status, step, hd, List.lookup_cons]

/-- While the machine exists nobody is told that it is gone. -/
theorem alive_never_gone {s : St} (hi : Inv s) (ha : s.alive = true) (id : Nat) : status s id ≠ some .gone := by
  unfold status
  cases h : s.done.lookup id with
  | some st =>
    simp only
    intro e
    cases e
    exact hi.alive ha _ (lookup_some_mem h) rfl
  | none =>
    simp only
    split <;> simp

/-- A resolved request stays as it was resolved, whatever happens afterwards. -/
theorem resolved_stable {s : St} (op : Op) (hi : Inv s) (hf : Fresh s op) (id : Nat) (st : Status)
    (h : status s id = some st) (hr : st ≠ .pending) : status (step s op) id = some st := by
  have hl : s.done.lookup id = some st := by
    unfold status at h
    cases hl : s.done.lookup id with
    | some x => simpa [hl] using h
    | none =>
      simp only [hl] at h
      split at h
      · cases h; exact absurd rfl hr
      · cases h
  have hmem : id ∈ s.done.map Prod.fst := List.mem_map.2 ⟨_, lookup_some_mem hl, rfl⟩
  have hnp : id ∉ s.pending := by
    intro hp
    have := hi.nodup
    rw [List.nodup_append] at this
    exact this.2.2 id hp id hmem rfl
  cases op with
  | send j =>
    have hne : (id == j) = false := by
      have : id ≠ j := fun e => hf.2 (e ▸ hmem)
      simpa using this
    cases ha : s.alive <;> simp [status, step, ha, List.lookup_cons, hne, hl]
  | reply j r =>
    simp only [step]
    split
    · rename_i hc
      simp only [Bool.and_eq_true] at hc
      have hj : j ∈ s.pending := by simpa using hc.2
      have hne : (id == j) = false := by
        have : id ≠ j := fun e => hnp (e ▸ hj)
        simpa using this
      simp [status, List.lookup_cons, hne, hl]
    · exact h
  | dropMachine =>
    simp only [step, status]
    rw [lookup_map_gone_not _ _ _ hnp, hl]
  | dropHandles => exact h

/-- Dropping every handle is invisible to the requests already made, and to the machine. -/
theorem dropHandles_noop (s : St) : step s .dropHandles = s := rfl

/-- A caller is only ever told what the machine replied to that very request. -/
theorem status_replied_iff (s : St) (id : Nat) (r : Reply) :
    status s id = some (.replied r) ↔ s.done.lookup id = some (.replied r) := by
  unfold status
  cases h : s.done.lookup id with
  | some st => simp
  | none =>
    simp only
    split <;> simp

theorem replied_step (s : St) (op : Op) (id : Nat) (r : Reply) (h : status (step s op) id = some (.replied r)) :
    status s id = some (.replied r) ∨ op = .reply id r := by
  rw [status_replied_iff] at h ⊢
  cases op with
  | send j =>
    cases ha : s.alive
    · have h' : List.lookup id ((j, Status.gone) :: s.done) = some (.replied r) := by simpa [step, ha] using h
      rw [List.lookup_cons] at h'
      by_cases hj : (id == j) = true
      · rw [hj] at h'; cases h'
      · have hj' : (id == j) = false := by simpa using hj
        rw [hj'] at h'
        exact Or.inl h'
    · simp only [step, ha, if_true] at h
      exact Or.inl h
  | reply j r' =>
    simp only [step] at h
    split at h
    · simp only [List.lookup_cons] at h
      by_cases hj : (id == j) = true
      · simp only [hj] at h
        have : id = j := by simpa using hj
        cases h
        exact Or.inr (by rw [this])
      · simp only [hj] at h
        exact Or.inl h
    · exact Or.inl h
  | dropMachine =>
    simp only [step] at h
    by_cases hc : id ∈ s.pending
    · rw [lookup_map_gone _ _ _ hc] at h
      cases h
    · rw [lookup_map_gone_not _ _ _ hc] at h
      exact Or.inl h
  | dropHandles => exact Or.inl h

theorem replied_only_by_machine' (s : St) (ops : List Op) (id : Nat) (r : Reply)
    (h : status (ops.foldl step s) id = some (.replied r)) :
    status s id = some (.replied r) ∨ Op.reply id r ∈ ops := by
  induction ops generalizing s with
  | nil => exact Or.inl h
  | cons op rest ih =>
    rcases ih _ h with h' | h'
    · rcases replied_step s op id r h' with h'' | rfl
      · exact Or.inl h''
      · exact Or.inr List.mem_cons_self
    · exact Or.inr (List.mem_cons_of_mem _ h')

theorem replied_only_by_machine (ops : List Op) (id : Nat) (r : Reply)
    (h : status (run ops) id = some (.replied r)) : Op.reply id r ∈ ops := by
  rcases replied_only_by_machine' {} ops id r h with h | h
  · simp [status] at h
  · exact h

/-! ### The hypotheses are satisfiable, the statuses are the expected ones -/

def demoOps : List Op := [.send 1, .send 2, .reply 1 .started, .dropHandles, .dropMachine, .send 3, .reply 2 .alreadyRunning]

example : FreshRun {} demoOps := by simp [demoOps, FreshRun, Fresh, step]
example : (run demoOps).alive = false := by decide
example : status (run demoOps) 1 = some (.replied .started) := by decide
example : status (run demoOps) 2 = some .gone := by decide
example : status (run demoOps) 3 = some .gone := by decide
example : status (run [.send 1, .send 2, .reply 1 .started]) 2 = some .pending := by decide

end Omaha.Chan
