/-
C18 — Update-attempt bookkeeping spans attempts and reboots.
-/
import Omaha.Props.C09

namespace Omaha.SM

open Omaha

/-! ### First-seen time: kept for the same plan, reset by a different one -/

/-- **first_seen_stable (same plan).** While the stored plan id is this plan's, the attempt neither
writes nor commits anything, and the first-seen time it uses is the stored one. -/
theorem recordFirstSeen_same (planId : Bytes) (now : Int) (w : World) (t : Int)
    (hp : w.store.getString kInstallPlanId = some planId) (ht : w.store.getTime kFirstSeen = some t) :
    recordFirstSeen planId now w = (t, w) := by
  unfold recordFirstSeen samePlan
  simp [hp, ht]

/-- A crash (loss of uncommitted writes) does not change what was committed, so a restarted state
machine sees the same plan id and first-seen time. -/
theorem crash_keeps_committed (s : Store) (k : Bytes) (h : s.pending = []) : (s.crash).get k = s.get k := by
  unfold Store.crash Store.get
  simp [h]

theorem kPlan_ne_kFirstSeen : kInstallPlanId ≠ kFirstSeen := by decide

/-- **first_seen_stable (different plan).** With a working storage, an attempt at a plan other than
the recorded one records the new id and the current time, committed at once — so that from then
on (and after any crash) `recordFirstSeen_same` applies with exactly this time at microsecond
precision. -/
theorem recordFirstSeen_new (planId : Bytes) (now : Int) (w : World) (q : Int)
    (hn : samePlan w planId = false) (hs : NoStoreFail w) (hq : Time.toMicros now = some q) :
    let w' := (recordFirstSeen planId now w).2
    (recordFirstSeen planId now w).1 = now ∧
    w'.store.pending = [] ∧
    w'.store.getString kInstallPlanId = some planId ∧
    w'.store.getTime kFirstSeen = some (Time.fromMicros q) := by
  intro w'
  have e : recordFirstSeen planId now w = recordNewPlan planId now w := by
    unfold recordFirstSeen; simp [hn]
  obtain ⟨h1a, hs1, h1b⟩ := storeOp_ok (.set kInstallPlanId (.str planId)) w hs
  have h2 : setTime kFirstSeen now (storeOp (.set kInstallPlanId (.str planId)) w).2 =
      storeOp (.set kFirstSeen (.int q)) (storeOp (.set kInstallPlanId (.str planId)) w).2 := by
    unfold setTime setOptionInt; simp [hq]
  obtain ⟨h2a, hs2, h2b⟩ := storeOp_ok (.set kFirstSeen (.int q)) _ hs1
  obtain ⟨h3a, _, h3b⟩ := storeOp_ok .commit _ hs2
  have key : w' = storeOp_ .commit (storeOp (.set kFirstSeen (.int q)) (storeOp (.set kInstallPlanId (.str planId)) w).2).2 := by
    show (recordFirstSeen planId now w).2 = _
    rw [e]
    unfold recordNewPlan
    simp [h1a, h2, h2a]
  have hget : ∀ k, w'.store.get k =
      if kFirstSeen = k then some (.int q) else if kInstallPlanId = k then some (.str planId) else w.store.get k := by
    intro k
    rw [key]; unfold storeOp_
    rw [h3b, applyOp_get, h2b, applyOp_get, h1b, applyOp_get]
  refine ⟨?_, ?_, ?_, ?_⟩
  · rw [e]; unfold recordNewPlan; simp [h1a, h2, h2a]
  · rw [key]; unfold storeOp_; rw [h3b]; rfl
  · unfold Store.getString
    rw [hget, if_neg (Ne.symm kPlan_ne_kFirstSeen)]
    simp
  · unfold Store.getTime Store.getInt
    rw [hget]
    simp

/-- The first-seen metric of a successful install is measured from that time. -/
theorem firstSeenMetric_value (firstSeen finish : Int) (w : World) (h : firstSeen ≤ finish) :
    (firstSeenMetric firstSeen finish w).trace = .metric (.successfulUpdateFromFirstSeen (finish - firstSeen).toNat) :: w.trace := by
  unfold firstSeenMetric; simp [h, metric, emit]

/-! ### Consecutive failed install attempts -/

/-- **install_attempts (when).** The attempt counter is touched — and the metric emitted — exactly
for checks in which some app failed to install (`some false`) or, failing that, some app was
installed (`some true`). -/
theorem installSuccess_spec (rs : List AppResp) :
    installSuccess rs =
      if rs.any (fun r => r.result == .installError) then some false
      else if rs.any (fun r => r.result == .updated) then some true
      else none := by
  unfold installSuccess
  have key : ∀ (acc : Option Bool) (rs : List AppResp),
      rs.foldl (fun acc r => match acc, r.result with
        | _, .installError => some false
        | none, .updated => some true
        | acc, _ => acc) acc =
      if rs.any (fun r => r.result == .installError) then some false
      else match acc with
        | some b => some b
        | none => if rs.any (fun r => r.result == .updated) then some true else none := by
    intro acc rs
    induction rs generalizing acc with
    | nil => cases acc <;> simp
    | cons r rest ih =>
      simp only [List.foldl_cons, List.any_cons]
      rw [ih]
      obtain ⟨rid, rc, ru, rr⟩ := r
      cases rr <;> cases acc <;> simp
  exact key none rs

/-- **install_attempts (how).** The count reported is the stored count plus one (saturating); a
failure stores it, a success removes the key. -/
theorem reportAttemptsInstall_spec (success : Bool) (w : World) (n : Int) (hn : w.store.getInt kFailedInstalls = some n)
    (h0 : 0 ≤ n) (hmax : n < i64Max) :
    ∃ ok, (reportAttemptsInstall success w).trace =
      [.storage (if success then .remove kFailedInstalls else .set kFailedInstalls (.int (n + 1))) ok,
       .metric (.attemptsToSuccessfulInstall (n + 1).toNat success)] ++ w.trace := by
  unfold reportAttemptsInstall
  simp only [hn, Option.getD_some]
  have h1 : ¬ (n + 1 > i64Max) := by omega
  have h2 : ¬ (n + 1 < 0) := by omega
  simp only [h1, if_false, h2]
  cases success
  · simp only [Bool.false_eq_true, if_false]
    refine ⟨(storeOp (.set kFailedInstalls (.int (n + 1))) (metric (.attemptsToSuccessfulInstall (n + 1).toNat false) w)).1, ?_⟩
    unfold storeOp_
    rw [(storeOp_frame _ _).2.2.2.2.2.2]
    rfl
  · simp only [if_true]
    refine ⟨(storeOp (.remove kFailedInstalls) (metric (.attemptsToSuccessfulInstall (n + 1).toNat true) w)).1, ?_⟩
    unfold storeOp_
    rw [(storeOp_frame _ _).2.2.2.2.2.2]
    rfl

theorem reportAttemptsInstall_first (success : Bool) (w : World) (hn : w.store.getInt kFailedInstalls = none) :
    ∃ ok, (reportAttemptsInstall success w).trace =
      [.storage (if success then .remove kFailedInstalls else .set kFailedInstalls (.int 1)) ok,
       .metric (.attemptsToSuccessfulInstall 1 success)] ++ w.trace := by
  unfold reportAttemptsInstall
  simp only [hn, Option.getD_none]
  have h1 : ¬ ((0 : Int) + 1 > i64Max) := by decide
  simp only [h1, if_false]
  cases success
  · refine ⟨(storeOp (.set kFailedInstalls (.int 1)) (metric (.attemptsToSuccessfulInstall 1 false) w)).1, ?_⟩
    simp only [Bool.false_eq_true, if_false]
    unfold storeOp_
    rw [(storeOp_frame _ _).2.2.2.2.2.2]
    rfl
  · refine ⟨(storeOp (.remove kFailedInstalls) (metric (.attemptsToSuccessfulInstall 1 true) w)).1, ?_⟩
    simp only [if_true]
    unfold storeOp_
    rw [(storeOp_frame _ _).2.2.2.2.2.2]
    rfl

/-! ### Finish time and target version are durable before any reboot question -/

/-- The key/value written as target version: the system app's manifest version (or "UNKNOWN" when
the manifest has none), and only when the system app was offered an update. -/
theorem setTargetVersion_spec (nv : List (Bytes × Option Bytes)) (w : World) :
    (setTargetVersion nv w).trace =
      match lookup w.sysApp nv with
      | some next => .storage (.set kTargetVersion (.str (next.getD (Bytes.ofString "UNKNOWN"))))
          (storeOp (.set kTargetVersion (.str (next.getD (Bytes.ofString "UNKNOWN")))) w).1 :: w.trace
      | none => w.trace := by
  unfold setTargetVersion
  cases lookup w.sysApp nv with
  | some next => simp only; unfold storeOp_; rw [(storeOp_frame _ _).2.2.2.2.2.2]
  | none => rfl

/-- **finish_before_reboot.** After an install with no failed app: the finish time (when it fits
storage) and the system app's target version are written and a commit is issued *before* the
policy is asked whether a reboot is needed — and hence before any reboot (`afterCheck`). -/
theorem recordFinish_order (planId : Nat) (firstSeen finish : Int) (nv : List (Bytes × Option Bytes)) (w : World) :
    ∃ ok1 okc okt, (recordFinish planId firstSeen finish nv w).2.trace =
      .policyRebootNeeded planId (recordFinish planId firstSeen finish nv w).1 ::
      .storage .commit okc ::
      ((match lookup w.sysApp nv with
        | some next => [.storage (.set kTargetVersion (.str (next.getD (Bytes.ofString "UNKNOWN")))) okt]
        | none => []) ++
      .storage (optOp kFinishTime (Time.toMicros finish)) ok1 :: (firstSeenMetric firstSeen finish w).trace) := by
  unfold recordFinish
  simp only
  have hsys0 : (firstSeenMetric firstSeen finish w).sysApp = w.sysApp := by
    unfold firstSeenMetric; split <;> rfl
  generalize firstSeenMetric firstSeen finish w = w1 at hsys0
  have e1 : (setTime kFinishTime finish w1).2.trace =
      .storage (optOp kFinishTime (Time.toMicros finish)) (setTime kFinishTime finish w1).1 :: w1.trace := by
    unfold setTime
    rw [setOptionInt_eq, (storeOp_frame _ _).2.2.2.2.2.2]
  have hsys : (setTime kFinishTime finish w1).2.sysApp = w.sysApp := by
    unfold setTime; rw [setOptionInt_eq, (storeOp_frame _ _).2.2.2.2.2.1, hsys0]
  generalize hw2 : (setTime kFinishTime finish w1).2 = w2 at e1 hsys
  have e2 := setTargetVersion_spec nv w2
  rw [hsys] at e2
  cases hl : lookup w.sysApp nv with
  | none =>
    refine ⟨(setTime kFinishTime finish w1).1, (storeOp .commit (setTargetVersion nv w2)).1, true, ?_⟩
    simp only [emit]
    unfold storeOp_
    rw [(storeOp_frame _ _).2.2.2.2.2.2, e2, hl, e1]
    rfl
  | some next =>
    refine ⟨(setTime kFinishTime finish w1).1, (storeOp .commit (setTargetVersion nv w2)).1,
      (storeOp (.set kTargetVersion (.str (next.getD (Bytes.ofString "UNKNOWN")))) w2).1, ?_⟩
    simp only [emit]
    unfold storeOp_
    rw [(storeOp_frame _ _).2.2.2.2.2.2, e2, hl, e1]
    rfl

/-! ### The waited-for-reboot report: once, on the target version, with consistent clocks -/

/-- **waited (whether to report).** The report is pending exactly when a finish time is readable
and the stored target version is the version this state machine runs on. -/
theorem runStart_shouldReport (w : World) (rs : RunState) (h : runStart w = some rs) :
    rs.shouldReport = true ↔
      (w.store.getTime kFinishTime).isSome ∧ w.store.getString kTargetVersion = some w.cfg.os.version := by
  unfold runStart at h
  split at h
  · cases h
  · cases h
    simp only [Bool.and_eq_true]
    cases hf : w.store.getTime kFinishTime <;> cases ht : w.store.getString kTargetVersion <;> simp

/-- **waited (value).** The duration reported is (wall now − finish) − (monotonic now − monotonic at
start); it is reported only when the wall clock is not before the finish time, the monotonic
clock not before the start, and the difference not negative. -/
theorem reportWaited_spec (finish startMono : Int) (w : World) :
    reportWaited finish startMono w =
      if finish ≤ w.clock.wall ∧ startMono ≤ w.clock.mono ∧ (w.clock.mono - startMono) ≤ (w.clock.wall - finish)
      then some (metric (.waitedForReboot ((w.clock.wall - finish) - (w.clock.mono - startMono)).toNat) w)
      else none := by
  unfold reportWaited
  simp only
  by_cases h1 : w.clock.wall < finish
  · simp [h1]; omega
  · by_cases h2 : w.clock.mono < startMono
    · simp [h1, h2]; omega
    · simp only [h1, h2, if_false]
      by_cases h3 : (w.clock.wall - finish).toNat < (w.clock.mono - startMono).toNat
      · simp only [h3, if_true]
        rw [if_neg]; omega
      · simp only [h3, if_false]
        rw [if_pos (by omega)]
        congr 3
        omega

/-- **unaffected by later delays.** If, since the state machine started, the wall clock and the
monotonic clock advanced by the same amount `δ`, the value reported is the wait from the finish
time to the *start* of the state machine, whenever the report is computed. -/
theorem waited_independent_of_delay (finish startMono wallAtStart : Int) (δ : Int) (w : World)
    (hw : w.clock.wall = wallAtStart + δ) (hm : w.clock.mono = startMono + δ) (hδ : 0 ≤ δ) (hf : finish ≤ wallAtStart) :
    reportWaited finish startMono w = some (metric (.waitedForReboot (wallAtStart - finish).toNat) w) := by
  rw [reportWaited_spec, if_pos (by omega)]
  congr 3
  omega

/-- **waited_reported_once.** When the report succeeds: the metric, removal of both keys, a commit —
and the flag is cleared, so no later iteration reports again. When it is not pending or cannot be
computed (clocks inconsistent): nothing is reported, nothing is removed, and the flag is unchanged
(it is tried again on the next iteration). -/
theorem waitedStep_spec (rs : RunState) (w : World) :
    (∀ fin w1, rs.shouldReport = true → rs.finishTime = some fin → reportWaited fin rs.startMono w = some w1 →
      (waitedStep rs w).1.shouldReport = false ∧
      ∃ o1 o2 o3, (waitedStep rs w).2.trace =
        [.storage .commit o3, .storage (.remove kTargetVersion) o2, .storage (.remove kFinishTime) o1] ++ w1.trace) ∧
    ((rs.shouldReport = false ∨ rs.finishTime = none ∨ ∃ fin, rs.finishTime = some fin ∧ reportWaited fin rs.startMono w = none) →
      waitedStep rs w = (rs, w)) := by
  constructor
  · intro fin w1 hs hf hr
    unfold waitedStep
    simp only [hs, if_true, hf, hr]
    refine ⟨trivial, (storeOp (.remove kFinishTime) w1).1,
      (storeOp (.remove kTargetVersion) (storeOp (.remove kFinishTime) w1).2).1,
      (storeOp .commit (storeOp (.remove kTargetVersion) (storeOp (.remove kFinishTime) w1).2).2).1, ?_⟩
    unfold storeOp_
    rw [(storeOp_frame _ _).2.2.2.2.2.2, (storeOp_frame _ _).2.2.2.2.2.2, (storeOp_frame _ _).2.2.2.2.2.2]
    rfl
  · intro h
    unfold waitedStep
    rcases h with h | h | ⟨fin, hf, hr⟩
    · simp [h]
    · cases hs : rs.shouldReport <;> simp [h]
    · cases hs : rs.shouldReport <;> simp [hf, hr]

/-! ### Non-vacuity -/

example : installSuccess [{ id := [1], cohort := {}, userCounting := none, result := .updated },
    { id := [2], cohort := {}, userCounting := none, result := .installError }] = some false := by decide

example : installSuccess [{ id := [1], cohort := {}, userCounting := none, result := .deferredByPolicy },
    { id := [2], cohort := {}, userCounting := none, result := .noUpdate }] = none := by decide

end Omaha.SM
