/-
C07 — Server-dictated poll interval (X-Retry-After) is honoured.
-/
import Omaha.Lemmas.SMTrace
import Omaha.Lemmas.Dec

namespace Omaha.SM

open Omaha

/-! ### The header value -/

/-- **retry_after_spec.** The poll interval is `min(N, 86400)` seconds exactly when the header is
present, consists of visible ASCII and is a plain decimal u64 `N` (Rust's `u64::from_str`: an
optional `+`, one or more digits, at most 2⁶⁴−1); it is absent otherwise. -/
theorem retry_after_spec (h : Option Bytes) (p : Nat) :
    parseRetryAfter h = some p ↔
      ∃ raw n, h = some raw ∧ raw.all Cup.visible = true ∧ Dec.parseU64 raw = some n ∧
        p = min n 86400 * 1000000000 := by
  cases h with
  | none =>
    constructor
    · intro h; cases h
    · rintro ⟨_, _, h, _⟩; cases h
  | some raw =>
    show (if raw.all Cup.visible = true then (Dec.parseU64 raw).map (fun secs => min secs 86400 * 1000000000) else none) = some p ↔ _
    by_cases hv : raw.all Cup.visible = true
    · rw [if_pos hv]
      cases hp : Dec.parseU64 raw with
      | none =>
        constructor
        · intro h; cases h
        · rintro ⟨raw', n, hr, _, hn, _⟩
          cases hr; rw [hp] at hn; cases hn
      | some n =>
        constructor
        · intro h
          have := Option.some.inj h
          exact ⟨raw, n, rfl, hv, hp, this.symm⟩
        · rintro ⟨raw', n', hr, _, hn, hpn⟩
          cases hr; rw [hp] at hn; cases hn
          rw [hpn]; rfl
    · rw [if_neg hv]
      constructor
      · intro h; cases h
      · rintro ⟨raw', n, hr, hv', _, _⟩
        cases hr; exact absurd hv' hv

theorem retry_after_none (h : Option Bytes) :
    parseRetryAfter h = none ↔
      h = none ∨ ∃ raw, h = some raw ∧ (raw.all Cup.visible = false ∨ Dec.parseU64 raw = none) := by
  cases hp : parseRetryAfter h with
  | none =>
    simp only [true_iff]
    cases h with
    | none => exact Or.inl rfl
    | some raw =>
      right
      refine ⟨raw, rfl, ?_⟩
      by_cases hv : raw.all Cup.visible = true
      · right
        cases hn : Dec.parseU64 raw with
        | none => rfl
        | some n =>
          have := (retry_after_spec (some raw) (min n 86400 * 1000000000)).2 ⟨raw, n, rfl, hv, hn, rfl⟩
          rw [hp] at this; cases this
      · left; simpa using hv
  | some p =>
    simp only [reduceCtorEq, false_iff, not_or, not_exists, not_and]
    obtain ⟨raw, n, hr, hv, hn, _⟩ := (retry_after_spec h p).1 hp
    subst hr
    refine ⟨by simp, ?_⟩
    intro raw' hr'
    cases hr'
    rw [hv, hn]
    simp

/-- The value never exceeds 24 hours. -/
theorem retry_after_le_day (h : Option Bytes) (p : Nat) (hp : parseRetryAfter h = some p) :
    p ≤ 86400 * 1000000000 := by
  obtain ⟨raw, n, _, _, _, rfl⟩ := (retry_after_spec h p).1 hp
  have : min n 86400 ≤ 86400 := Nat.min_le_right _ _
  exact Nat.mul_le_mul_right _ this

/-- The accepted grammar, written out (`Dec.parseUnsigned_eq_some_iff`). -/
theorem retry_after_grammar (raw : Bytes) (n : Nat) :
    Dec.parseU64 raw = some n ↔
      ∃ body, (raw = body ∨ raw = 43 :: body) ∧ body ≠ [] ∧ (∀ b ∈ body, Dec.isDigit b) ∧
        Dec.valueOf body = n ∧ n ≤ 18446744073709551615 :=
  Dec.parseUnsigned_eq_some_iff Dec.u64Max raw n

/-! ### After every authenticated response, whatever its status -/

/-- Context, apps and clock effects of `applyPoll`. -/
theorem applyPoll_poll (p : Option Nat) (w : World) : (applyPoll p w).ctx.st.poll = p := by
  unfold applyPoll
  split
  · simp only [storeOp_, (storeOp_frame _ _).1, (persistCtx_frame _).1, yieldEv, emit]
  · rename_i h
    simpa using h

/-- **poll_after_response.** After a response that is authenticated (or when no CUP handler is
configured), for any HTTP status, the context's poll interval is what the header says. -/
theorem poll_after_response (w : World) (status : Nat) (ra : Option Bytes) (body : Bytes) (auth : Bool)
    (dt : Clock) (hauth : w.cup = none ∨ auth = true) :
    (handleOutcome (.response status ra body auth dt) w).2.ctx.st.poll = parseRetryAfter ra := by
  unfold handleOutcome
  simp only
  have hcup : (tick dt w).cup = w.cup := rfl
  have hno : ¬ ((tick dt w).cup.isSome = true ∧ (!auth) = true) := by
    rcases hauth with h | h
    · simp [hcup, h]
    · simp [h]
  simp only [hno, if_false]
  split <;> exact applyPoll_poll _ _

/-- **poll_unchanged_no_response.** A transport failure, and a response that fails
authentication, leave the whole context, the apps and the store untouched. -/
theorem no_response_no_change (w : World) (o : HttpOutcome)
    (h : (∃ k dt, o = .fail k dt) ∨ (∃ st ra body dt, o = .response st ra body false dt ∧ w.cup.isSome)) :
    (handleOutcome o w).2.ctx = w.ctx ∧ (handleOutcome o w).2.apps = w.apps ∧
    (handleOutcome o w).2.store = w.store ∧ (handleOutcome o w).2.trace = w.trace := by
  rcases h with ⟨k, dt, rfl⟩ | ⟨st, ra, body, dt, rfl, hc⟩
  · simp [handleOutcome, tick]
  · have hc' : (tick dt w).cup.isSome = true ∧ (!false) = true := ⟨hc, rfl⟩
    unfold handleOutcome
    simp only [hc', and_self, if_true]
    simp [tick]

/-- **poll_change_announced_committed.** When the value changes, the very next actions are: the
protocol-state event carrying the new value, the three context writes (the poll key is written as
whole microseconds, or removed when absent), and a commit — before the flow continues.  When it
does not change, nothing is emitted. -/
theorem poll_change_announced (p : Option Nat) (w : World) (hne : w.ctx.st.poll ≠ p) :
    ∃ o1 o2 o3 o4 op1 op3,
      (applyPoll p w).trace =
        [.storage .commit o4, .storage op3 o3,
         .storage (optOp kPoll (p.map fun ns => ((ns / 1000 : Nat) : Int))) o2,
         .storage op1 o1, .event (.protocol { w.ctx.st with poll := p })] ++ w.trace := by
  unfold applyPoll
  rw [if_pos hne]
  simp only [storeOp_]
  obtain ⟨o1, o2, o3, ht⟩ := persistCtx_trace (yieldEv (.protocol { w.ctx.st with poll := p })
    { w with ctx := { w.ctx with st := { w.ctx.st with poll := p } } })
  rw [(storeOp_frame _ _).2.2.2.2.2.2, ht]
  exact ⟨o1, o2, o3, _, _, _, rfl⟩

theorem poll_same_silent (p : Option Nat) (w : World) (h : w.ctx.st.poll = p) : applyPoll p w = w := by
  simp [applyPoll, h]

/-! ### Latest authenticated response wins, over any sequence of exchanges -/

/-- The poll interval after a sequence of exchange outcomes, as a fold: each authenticated
response sets it from its header, every other outcome keeps it. -/
def pollAfter (cupOn : Bool) : Option Nat → List HttpOutcome → Option Nat
  | p, [] => p
  | p, .fail _ _ :: rest => pollAfter cupOn p rest
  | p, .response _ ra _ auth _ :: rest =>
    if cupOn && !auth then pollAfter cupOn p rest else pollAfter cupOn (parseRetryAfter ra) rest

def handleAll : List HttpOutcome → World → World
  | [], w => w
  | o :: rest, w => handleAll rest (handleOutcome o w).2

theorem applyPoll_cup (p : Option Nat) (w : World) : (applyPoll p w).cup = w.cup := by
  unfold applyPoll
  split
  · simp only [storeOp_, (storeOp_frame _ _).2.2.1, (persistCtx_frame _).2.2.1, yieldEv, emit]
  · rfl

theorem handleOutcome_cup (o : HttpOutcome) (w : World) : (handleOutcome o w).2.cup = w.cup := by
  unfold handleOutcome
  cases o with
  | fail k dt => rfl
  | response st ra body auth dt =>
    simp only
    split
    · rfl
    · split <;> simp [applyPoll_cup, tick]

/-- **poll_latest_wins.** -/
theorem poll_latest_wins (os : List HttpOutcome) (w : World) :
    (handleAll os w).ctx.st.poll = pollAfter w.cup.isSome w.ctx.st.poll os := by
  induction os generalizing w with
  | nil => rfl
  | cons o rest ih =>
    simp only [handleAll]
    rw [ih, handleOutcome_cup]
    cases o with
    | fail k dt =>
      have := (no_response_no_change w (.fail k dt) (Or.inl ⟨k, dt, rfl⟩)).1
      simp [pollAfter, this]
    | response st ra body auth dt =>
      simp only [pollAfter]
      by_cases hc : (w.cup.isSome && !auth) = true
      · simp only [hc, if_true]
        have hc' : w.cup.isSome = true ∧ auth = false := by simpa using hc
        have := (no_response_no_change w (.response st ra body auth dt)
          (Or.inr ⟨st, ra, body, dt, by rw [hc'.2], hc'.1⟩)).1
        rw [this]
      · simp only [hc, if_false]
        have hauth : w.cup = none ∨ auth = true := by
          cases hcup : w.cup with
          | none => exact Or.inl rfl
          | some k => right; simp [hcup] at hc; exact hc
        rw [poll_after_response w st ra body auth dt hauth]
        simp

/-! ### Restart: the stored value is what a rebuilt state machine starts from -/

theorem lookup_head {β} (k : Bytes) (v : β) (rest : List (Bytes × β)) : lookup k ((k, v) :: rest) = some v := by
  unfold lookup; rw [if_pos rfl]

theorem loadPoll_nat (k : Nat) (hk : k ≤ 86400000000) : loadPoll (some (k : Int)) = some (k * 1000) := by
  have h0 : (0 : Int) ≤ (k : Int) := Int.natCast_nonneg _
  have h1 : (k : Int) ≤ u64Max := by
    show (k : Int) ≤ 18446744073709551615
    omega
  unfold loadPoll
  simp only [h0, h1, and_self, if_true, Int.toNat_natCast]

theorem us_of_seconds (m : Nat) : m * 1000000000 / 1000 = m * 1000000 := by omega

theorem loadPoll_us (m : Nat) (hm : m ≤ 86400) :
    loadPoll (some (((m * 1000000000 / 1000 : Nat) : Int))) = some (m * 1000000000) := by
  have h := loadPoll_nat (m * 1000000) (by omega)
  have e2 : m * 1000000 * 1000 = m * 1000000000 := by omega
  rw [e2] at h
  rw [us_of_seconds]
  exact h

/-- **poll_restart.** The microsecond encoding written by `persistCtx` for a header value
(`min(N, 86400)` s in ns, divided by 1000) is read back exactly by `loadCtx`: a restarted state
machine starts from the stored value. -/
theorem poll_restart (n : Nat) (rest : List (Bytes × SVal)) :
    (loadCtx ⟨[], (kPoll, .int (((min n 86400 * 1000000000) / 1000 : Nat) : Int)) :: rest⟩).st.poll
      = some (min n 86400 * 1000000000) := by
  have hg : (Store.mk [] ((kPoll, SVal.int (((min n 86400 * 1000000000) / 1000 : Nat) : Int)) :: rest)).getInt kPoll
      = some (((min n 86400 * 1000000000) / 1000 : Nat) : Int) := by
    unfold Store.getInt Store.get
    rw [show lookup kPoll ([] : List (Bytes × Option SVal)) = none from rfl]
    simp only [lookup_head]
  unfold loadCtx
  simp only [hg]
  exact loadPoll_us _ (Nat.min_le_right _ _)

theorem poll_restart_absent (st : Store) (h : st.getInt kPoll = none) : (loadCtx st).st.poll = none := by
  simp [loadCtx, h, loadPoll]

/-! ### Non-vacuity -/

example : parseRetryAfter (some [52, 50, 57, 52, 57, 54, 55, 50, 57, 54]) = some 86400000000000 := by decide  -- "4294967296"
example : parseRetryAfter (some [43, 55]) = some 7000000000 := by decide        -- "+7"
example : parseRetryAfter (some [32, 53]) = none := by decide                   -- " 5"
example : pollAfter true (some 5) [.response 500 (some [49]) [] true ⟨0, 0⟩, .response 200 none [] false ⟨0, 0⟩, .fail .transport ⟨0, 0⟩]
    = some 1000000000 := by decide

end Omaha.SM
