/-
C13, liveness half: under a strict wake-only executor (the consumer polls only when its waker was
woken) and an environment in which every external event the task waits for eventually fires, the
generator stream runs to its end: every yielded item is delivered, then the completion, then the
stream terminates — no lost wake-up can stall it.

The proof is a variant argument: `nu` strictly decreases with every step such an executor takes,
and never increases under any step at all (spurious polls, unrelated events).
-/
import Omaha.Props.C13

namespace Omaha.Gen

/-! ### The variant -/

def opW : Op → Nat
  | .yield _ => 4
  | .yieldAll xs => 4 + 2 * xs.length
  | .selfWake => 2
  | .extWait _ => 2
  | .dropHandle => 1
  | .ret _ => 1

def W : List Op → Nat
  | [] => 0
  | op :: ops => opW op + W ops

def phi : Task → Nat
  | .run ops => 2 + W ops
  | .afterWake ops => 2 + W ops
  | .waiting _ ops => 2 + W ops
  | .sending xs ops => 2 + 2 * xs.length + W ops
  | .done => 0

def resFlag (s : St) : Nat := if s.res.isSome then 1 else 0
def termFlag (s : St) : Nat := if s.recvTerminated then 0 else 1

/-- Work left: in the task, in the channel, the undelivered completion, the unobserved closure. -/
def mu (s : St) : Nat := phi s.task + s.queue.length + resFlag s + termFlag s

/-- The external event the task is blocked on, if any. -/
def blockedOn (s : St) : Option Nat :=
  match s.task with
  | .waiting k _ => if s.fired.contains k then none else some k
  | _ => none

def nu (s : St) : Nat := 2 * mu s + (if (blockedOn s).isSome then 1 else 0)

/-! ### The task makes progress whenever it runs -/

theorem closeSender_same (s : St) : (closeSender s).task = s.task ∧ (closeSender s).queue = s.queue ∧
    (closeSender s).res = s.res ∧ (closeSender s).recvTerminated = s.recvTerminated := by
  unfold closeSender; split <;> exact ⟨rfl, rfl, rfl, rfl⟩

theorem resFlag_le (s : St) : resFlag s ≤ 1 := by unfold resFlag; split <;> omega

theorem finish_mu (r : Nat) (s : St) :
    phi (finish r s).task + (finish r s).queue.length + resFlag (finish r s) ≤ 1 + s.queue.length + resFlag s := by
  unfold finish
  obtain ⟨h1, h2, h3, h4⟩ := closeSender_same { s with task := .done, res := some r }
  have := resFlag_le (closeSender { s with task := .done, res := some r })
  rw [h1, h2]
  simp only [phi]
  omega

theorem runOps_term (ops : List Op) (s : St) : (runOps ops s).recvTerminated = s.recvTerminated := by
  fun_induction runOps ops s <;> simp_all (config := { zetaDelta := true }) [finish, closeSender_same, push]

/-- Running the task from `ops`: the work left afterwards is at most `1 + W ops` plus what was in the
channel — strictly less than before for every state the task can be resumed from. -/
theorem runOps_mu (ops : List Op) (s : St) :
    phi (runOps ops s).task + (runOps ops s).queue.length + resFlag (runOps ops s) ≤ 1 + W ops + s.queue.length + resFlag s := by
  fun_induction runOps ops s with
  | case1 s => have := finish_mu 0 s; simp only [W]; omega
  | case2 r rest s => have := finish_mu r s; simp only [W, opW]; omega
  | case3 ops s ih =>
    obtain ⟨_, h2, h3, h4⟩ := closeSender_same s
    have hr : resFlag (closeSender s) = resFlag s := by unfold resFlag; rw [h3]
    rw [h2, hr] at ih
    simp only [W, opW]; omega
  | case4 ops s => simp [W, opW, phi, resFlag]
  | case5 k ops s hf ih => simp only [W, opW]; omega
  | case6 k ops s hf => simp [W, opW, phi, resFlag]
  | case7 x ops s ha ih => simp only [W, opW]; omega
  | case8 x ops s ha hp => simp [W, opW, phi, resFlag]
  | case9 x ops s ha hp => simp (config := { zetaDelta := true }) [W, opW, phi, resFlag, push]; omega
  | case10 xs ops s ha ih => simp only [W, opW]; omega
  | case11 ops s ha hp => simp [W, opW, phi, resFlag]; omega
  | case12 ops s ha hp ih => simp only [W, opW, List.length_nil]; omega
  | case13 ops s ha x rest hp => simp [W, opW, phi, resFlag]; omega
  | case14 ops s ha x rest hp => simp (config := { zetaDelta := true }) [W, opW, phi, resFlag, push]; omega

theorem pollTask_term (s : St) : (pollTask s).recvTerminated = s.recvTerminated := by
  unfold pollTask
  split
  · rfl
  · exact runOps_term _ _
  · exact runOps_term _ _
  · split
    · rw [runOps_term]
    · rfl
  · split
    · rfl
    · split
      · exact runOps_term _ _
      · simp [push]

/-- One poll of the task: either the work left strictly shrinks, or the task could not move — it has
finished, it waits for an external event that has not fired, or its item has not been taken yet. -/
theorem pollTask_progress (s : St) :
    (phi (pollTask s).task + (pollTask s).queue.length + resFlag (pollTask s) < phi s.task + s.queue.length + resFlag s) ∨
    ((pollTask s).task = s.task ∧ (pollTask s).queue = s.queue ∧ (pollTask s).res = s.res ∧
      (pollTask s).fired = s.fired ∧ (pollTask s).woken = s.woken ∧ (pollTask s).parked = s.parked ∧
      (s.task = .done ∨ (∃ k ops, s.task = .waiting k ops ∧ s.fired.contains k = false) ∨
       (∃ xs ops, s.task = .sending xs ops ∧ s.parked = true))) := by
  obtain ⟨task, queue, parked, alive, rr, rt, res, fired, er, wk⟩ := s
  unfold pollTask
  cases task with
  | done => exact Or.inr ⟨rfl, rfl, rfl, rfl, rfl, rfl, Or.inl rfl⟩
  | run ops =>
    left; dsimp only
    have := runOps_mu ops { task := .run ops, queue := queue, parked := parked, senderAlive := alive, recvRegistered := rr, recvTerminated := rt, res := res, fired := fired, extRegistered := er, woken := wk }
    dsimp only at this
    have e : phi (Task.run ops) = 2 + W ops := rfl
    omega
  | afterWake ops =>
    left; dsimp only
    have := runOps_mu ops { task := .afterWake ops, queue := queue, parked := parked, senderAlive := alive, recvRegistered := rr, recvTerminated := rt, res := res, fired := fired, extRegistered := er, woken := wk }
    dsimp only at this
    have e : phi (Task.afterWake ops) = 2 + W ops := rfl
    omega
  | waiting k ops =>
    dsimp only
    split
    · left
      have := runOps_mu ops { task := .waiting k ops, queue := queue, parked := parked, senderAlive := alive, recvRegistered := rr, recvTerminated := rt, res := res, fired := fired, extRegistered := none, woken := wk }
      have e : phi (Task.waiting k ops) = 2 + W ops := rfl
      simp only [resFlag] at this ⊢
      omega
    · rename_i hk
      exact Or.inr ⟨rfl, rfl, rfl, rfl, rfl, rfl, Or.inr (Or.inl ⟨k, ops, rfl, by simpa using hk⟩)⟩
  | sending xs ops =>
    dsimp only
    split
    · rename_i hp
      exact Or.inr ⟨rfl, rfl, rfl, rfl, rfl, rfl, Or.inr (Or.inr ⟨xs, ops, rfl, hp⟩)⟩
    · left
      cases xs with
      | nil =>
        dsimp only
        have := runOps_mu ops { task := .sending [] ops, queue := queue, parked := parked, senderAlive := alive, recvRegistered := rr, recvTerminated := rt, res := res, fired := fired, extRegistered := er, woken := wk }
        dsimp only at this
        have e : phi (Task.sending [] ops) = 2 + W ops := by simp [phi]
        omega
      | cons x rest => cases res <;> simp [phi, resFlag, push] <;> omega

/-- The receiver half of `poll_next` (the text of `pollNext` after the task has been polled). -/
def recv (taskIsDone : Bool) (s : St) : PollResult × St :=
  let (early, s) : Option PollResult × St :=
    if s.recvTerminated then (Option.none, s)
    else
      match s.queue with
      | x :: rest =>
        (some (.item x), { s with queue := rest, woken := s.woken || s.parked, parked := false })
      | [] =>
        if !s.senderAlive then (Option.none, { s with recvTerminated := true })
        else (some .pending, { s with recvRegistered := true })
  match early with
  | some r => (r, s)
  | Option.none =>
    if !taskIsDone then (.pending, s)
    else
      match s.res with
      | some r => (.complete r, { s with res := Option.none })
      | Option.none => (.none, s)

theorem pollNext_eq (s : St) :
    pollNext s = recv (taskDone { s with woken := false } || taskDone (pollTask { s with woken := false })) (pollTask { s with woken := false }) := rfl

/-- The receiver half never adds work; when it removes none, the poll result says why. -/
theorem recv_mu (td : Bool) (s : St) :
    (recv td s).2.task = s.task ∧ (recv td s).2.fired = s.fired ∧ mu (recv td s).2 ≤ mu s ∧
    (mu (recv td s).2 = mu s →
      ((recv td s).1 = .pending ∧ (recv td s).2.woken = s.woken ∧
        ((s.queue = [] ∧ s.senderAlive = true ∧ s.recvTerminated = false) ∨ (s.recvTerminated = true ∧ td = false))) ∨
      ((recv td s).1 = .none ∧ (recv td s).2 = s ∧ s.recvTerminated = true ∧ td = true ∧ s.res = none)) := by
  obtain ⟨task, queue, parked, alive, rr, rt, res, fired, er, wk⟩ := s
  unfold recv mu resFlag termFlag
  cases rt <;> cases queue <;> cases alive <;> cases td <;> cases res <;> simp <;> omega

theorem mu_woken (s : St) (b : Bool) : mu { s with woken := b } = mu s := rfl

theorem blockedOn_eq {s s' : St} (ht : s'.task = s.task) (hf : s'.fired = s.fired) : blockedOn s' = blockedOn s := by
  unfold blockedOn; rw [ht, hf]

/-- The step from the state before the task's poll (`s0`) over the state after it (`s2`) to the
state after the receiver's half. -/
theorem progress_core {prog : List Op} {d : List Nat} {c : Bool} (s0 s2 : St) (td : Bool) (h2 : GInv prog d c s2)
    (ht : s2.recvTerminated = s0.recvTerminated) (htd : (taskDone s0 || taskDone s2) = td)
    (hp : (phi s2.task + s2.queue.length + resFlag s2 < phi s0.task + s0.queue.length + resFlag s0) ∨
      (s2.task = s0.task ∧ s2.queue = s0.queue ∧ s2.res = s0.res ∧ s2.fired = s0.fired ∧ s2.woken = s0.woken ∧
        s2.parked = s0.parked ∧
        (s0.task = .done ∨ (∃ k ops, s0.task = .waiting k ops ∧ s0.fired.contains k = false) ∨
         (∃ xs ops, s0.task = .sending xs ops ∧ s0.parked = true)))) :
    mu (recv td s2).2 < mu s0 ∨
    (mu (recv td s2).2 = mu s0 ∧ (recv td s2).2.task = s0.task ∧ (recv td s2).2.fired = s0.fired ∧
      (((recv td s2).1 = .pending ∧ (recv td s2).2.woken = s0.woken ∧ (blockedOn s0).isSome = true) ∨
       ((recv td s2).1 = .none ∧ isTerminated (recv td s2).2 = true))) := by
  obtain ⟨r1, r2, r3, r4⟩ := recv_mu td s2
  rcases hp with hlt | ⟨e1, e2, e3, e4, e5, e6, why⟩
  · left
    have : mu s2 < mu s0 := by unfold mu termFlag; rw [ht]; omega
    omega
  · have hmu2 : mu s2 = mu s0 := by unfold mu termFlag resFlag; rw [ht, e1, e2, e3]
    by_cases hlt : mu (recv td s2).2 < mu s2
    · left; omega
    · right
      have heq : mu (recv td s2).2 = mu s2 := by omega
      refine ⟨by omega, r1.trans e1, r2.trans e4, ?_⟩
      rcases r4 heq with ⟨hr, hw2, hc⟩ | ⟨hr, hsame, hrt, htdt, hres⟩
      · left
        refine ⟨hr, hw2.trans e5, ?_⟩
        rcases why with hd | ⟨k, ops, hw, hk⟩ | ⟨xs, ops, hs, hpk⟩
        · exfalso
          have hd2 : s2.task = .done := e1.trans hd
          have hcl := h2.done_closed hd2
          rcases hc with ⟨_, hal, _⟩ | ⟨_, htf⟩
          · rw [hcl.1] at hal; cases hal
          · have : taskDone s2 = true := by simp [taskDone, hd2]
            rw [this] at htd; simp at htd; rw [htd] at htf; cases htf
        · unfold blockedOn
          rw [hw]; simp only [hk]; rfl
        · exfalso
          have hq := h2.parked_iff
          rw [e6, hpk] at hq
          rcases hc with ⟨hq0, _, _⟩ | ⟨hrt, _⟩
          · rw [hq0] at hq; simp at hq
          · have := (h2.term_closed hrt).2; rw [this] at hq; simp at hq
      · right
        refine ⟨hr, ?_⟩
        rw [hsame]
        have : taskDone s2 = true := by
          rcases why with hd | ⟨k, ops, hw, hk⟩ | ⟨xs, ops, hs, hpk⟩
          · simp [taskDone, e1.trans hd]
          · have a1 : taskDone s0 = false := by simp [taskDone, hw]
            have a2 : taskDone s2 = false := by simp [taskDone, e1, hw]
            rw [a1, a2] at htd; simp at htd; rw [htd] at htdt; cases htdt
          · have a1 : taskDone s0 = false := by simp [taskDone, hs]
            have a2 : taskDone s2 = false := by simp [taskDone, e1, hs]
            rw [a1, a2] at htd; simp at htd; rw [htd] at htdt; cases htdt
        simp [isTerminated, this, hrt, hres]

/-- **progress.** One `poll_next` either removes work, or changes nothing because the task waits for
an external event that has not fired (the poll returns Pending with the waker not woken), or the
stream had already terminated. -/
theorem pollNext_progress {prog : List Op} {d : List Nat} {c : Bool} {s : St} (h : GInv prog d c s) :
    mu (pollNext s).2 < mu s ∨
    (mu (pollNext s).2 = mu s ∧ (pollNext s).2.task = s.task ∧ (pollNext s).2.fired = s.fired ∧
      (((pollNext s).1 = .pending ∧ (pollNext s).2.woken = false ∧ (blockedOn s).isSome = true) ∨
       ((pollNext s).1 = .none ∧ isTerminated (pollNext s).2 = true))) := by
  have h1 : GInv prog d c { s with woken := false } := h.congr rfl rfl rfl rfl rfl rfl
  have := progress_core { s with woken := false } (pollTask { s with woken := false }) _ (pollTask_inv h1)
    (pollTask_term _) rfl (pollTask_progress _)
  rw [pollNext_eq]
  exact this

/-! ### A strict executor in a fair environment -/

/-- One turn: the consumer polls (it does so only when it has been woken, or at the start); if that
leaves the stream Pending with the waker *not* woken, nothing would ever poll again — unless the
external event the task registered its waker with fires, which is what a fair environment does. -/
def fairTurn (s : St) : PollResult × St :=
  if (pollNext s).1 = .pending ∧ (pollNext s).2.woken = false then
    match (pollNext s).2.extRegistered with
    | some k => ((pollNext s).1, fire k { (pollNext s).2 with woken := false })
    | none => pollNext s
  else pollNext s

/-- The executor runs until the stream says it has terminated (or the fuel is spent). -/
def fairRun : Nat → St → List PollResult × St
  | 0, s => ([], s)
  | n + 1, s =>
    if isTerminated s then ([], s)
    else ((fairTurn s).1 :: (fairRun n (fairTurn s).2).1, (fairRun n (fairTurn s).2).2)

theorem mu_fire (k : Nat) (s : St) : mu (fire k s) = mu s := rfl

theorem fairTurn_fst (s : St) : (fairTurn s).1 = (pollNext s).1 := by
  unfold fairTurn
  split
  · split <;> rfl
  · rfl

theorem fairTurn_inv {prog : List Op} {d : List Nat} {c : Bool} {s : St} (h : GInv prog d c s) :
    resultOk prog d c (fairTurn s).1 ∧
    GInv prog (after d c (fairTurn s).1).1 (after d c (fairTurn s).1).2 (fairTurn s).2 := by
  obtain ⟨h1, h2⟩ := pollNext_inv h
  rw [fairTurn_fst]
  refine ⟨h1, ?_⟩
  unfold fairTurn
  split
  · split
    · exact fire_inv _ (h2.congr rfl rfl rfl rfl rfl rfl)
    · exact h2
  · exact h2

theorem fairTurn_cases (s : St) :
    ((fairTurn s).2 = (pollNext s).2 ∧
      ¬ ((pollNext s).1 = .pending ∧ (pollNext s).2.woken = false ∧ (pollNext s).2.extRegistered.isSome = true)) ∨
    (∃ k, (pollNext s).1 = .pending ∧ (pollNext s).2.woken = false ∧ (pollNext s).2.extRegistered = some k ∧
      (fairTurn s).2 = fire k { (pollNext s).2 with woken := false }) := by
  unfold fairTurn
  by_cases hc : (pollNext s).1 = .pending ∧ (pollNext s).2.woken = false
  · rw [if_pos hc]
    cases he : (pollNext s).2.extRegistered with
    | none => left; exact ⟨rfl, by simp [he]⟩
    | some k => right; exact ⟨k, hc.1, hc.2, rfl, rfl⟩
  · rw [if_neg hc]
    left
    exact ⟨rfl, fun h => hc ⟨h.1, h.2.1⟩⟩

theorem nu_le (x : St) : nu x ≤ 2 * mu x + 1 := by unfold nu; split <;> omega
theorem le_nu (x : St) : 2 * mu x ≤ nu x := by unfold nu; omega

theorem mu_afterFire (k : Nat) (x : St) : mu (fire k { x with woken := false }) = mu x := rfl

theorem blockedOn_afterFire (k : Nat) (ops : List Op) (x : St) (ht : x.task = .waiting k ops) :
    blockedOn (fire k { x with woken := false }) = none := by
  unfold blockedOn fire
  simp [ht]

theorem isTerminated_afterFire (k : Nat) (x : St) : isTerminated (fire k { x with woken := false }) = isTerminated x := rfl

/-- **Every turn of the strict executor makes progress** (or the stream has terminated): the variant
strictly decreases. A lost wake-up would be a turn after which nothing changes and nobody is woken. -/
theorem fairTurn_decreases {prog : List Op} {d : List Nat} {c : Bool} {s : St} (h : GInv prog d c s) :
    nu (fairTurn s).2 < nu s ∨ isTerminated (fairTurn s).2 = true := by
  rcases pollNext_progress h with hlt | ⟨heq, htask, hfired, hcase⟩
  · left
    rcases fairTurn_cases s with ⟨e, _⟩ | ⟨k, _, _, _, e⟩
    · rw [e]; have := nu_le (pollNext s).2; have := le_nu s; omega
    · rw [e]
      have := nu_le (fire k { (pollNext s).2 with woken := false })
      rw [mu_afterFire] at this
      have := le_nu s; omega
  · rcases hcase with ⟨hp, hw, hb⟩ | ⟨_, hterm⟩
    · left
      obtain ⟨k, ops, ht, hk, hreg⟩ := unwoken_pending_is_external_wait h hp hw
      rcases fairTurn_cases s with ⟨_, hn⟩ | ⟨k', _, _, hreg', e⟩
      · exact absurd ⟨hp, hw, by simp [hreg]⟩ hn
      · rw [hreg] at hreg'
        cases hreg'
        rw [e]
        have hb1 : nu s = 2 * mu s + 1 := by unfold nu; simp [hb]
        have e2 : nu (fire k { (pollNext s).2 with woken := false }) = 2 * mu (pollNext s).2 := by
          unfold nu
          rw [blockedOn_afterFire k ops _ ht, mu_afterFire]
          simp
        rw [e2]
        omega
    · right
      rcases fairTurn_cases s with ⟨e, _⟩ | ⟨k, _, _, _, e⟩
      · rw [e]; exact hterm
      · rw [e, isTerminated_afterFire]; exact hterm

def isComplete : PollResult → Bool
  | .complete _ => true
  | _ => false

/-- Within `nu s` turns the executor reaches the end of the stream. -/
theorem fairRun_terminates {prog : List Op} : ∀ (n : Nat) {d : List Nat} {c : Bool} {s : St}, GInv prog d c s → nu s < n →
    isTerminated (fairRun n s).2 = true := by
  intro n
  induction n with
  | zero => intro d c s _ h; omega
  | succ n ih =>
    intro d c s h hn
    unfold fairRun
    by_cases ht : isTerminated s = true
    · simp [ht]
    · simp only [ht, if_false]
      obtain ⟨_, h2⟩ := fairTurn_inv h
      rcases fairTurn_decreases h with hlt | hterm
      · exact ih h2 (by omega)
      · cases n with
        | zero => simpa [fairRun] using hterm
        | succ m => unfold fairRun; simp [hterm]

/-- What the consumer has seen, turn by turn: the invariant is carried along with the delivered items
appended and the completion flag raised by a `Complete` result; every result is admissible. -/
theorem fairRun_inv {prog : List Op} : ∀ (n : Nat) {d : List Nat} {c : Bool} {s : St}, GInv prog d c s →
    GInv prog (d ++ itemsOf (fairRun n s).1) (c || (fairRun n s).1.any isComplete) (fairRun n s).2 ∧
    AllOk prog d c (fairRun n s).1 := by
  intro n
  induction n with
  | zero => intro d c s h; simpa [fairRun, AllOk] using h
  | succ n ih =>
    intro d c s h
    unfold fairRun
    by_cases ht : isTerminated s = true
    · simpa [ht, AllOk] using h
    · simp only [ht, if_false]
      obtain ⟨h1, h2⟩ := fairTurn_inv h
      obtain ⟨i1, i2⟩ := ih h2
      refine ⟨?_, h1, i2⟩
      cases hr : (fairTurn s).1 with
      | item x => rw [hr] at i1; simpa [after, isComplete, List.append_assoc] using i1
      | pending => rw [hr] at i1; simpa [after, isComplete] using i1
      | complete r => rw [hr] at i1; simpa [after, isComplete] using i1
      | none => rw [hr] at i1; simpa [after, isComplete] using i1

/-- **strict_executor_live.** For every generator program: a consumer that polls only when woken
(a strict wake-only executor), in an environment where the external events the task waits for do
fire, sees the stream through to its end within `nu (init prog)` turns — every yielded item, in
order, then `Complete` with the program's return value, then termination. No schedule of the
task's own wake-ups can stall it: there is no lost wake-up. -/
theorem strict_executor_live (prog : List Op) :
    let run := fairRun (nu (init prog) + 1) (init prog)
    isTerminated run.2 = true ∧ itemsOf run.1 = yieldsOf prog ∧ run.1.any isComplete = true ∧
    (∀ r, PollResult.complete r ∈ run.1 → r = retOf prog) ∧ AllOk prog [] false run.1 := by
  intro run
  have hterm : isTerminated run.2 = true := fairRun_terminates _ (init_inv prog) (Nat.lt_succ_self _)
  obtain ⟨hinv, hall⟩ := fairRun_inv (nu (init prog) + 1) (init_inv prog)
  have hinv' : GInv prog (itemsOf run.1) (run.1.any isComplete) run.2 := by simpa using hinv
  have hdone : run.2.task = .done ∧ run.2.res = none := by
    have := hterm
    simp only [isTerminated, Bool.and_eq_true, taskDone, beq_iff_eq, Option.isNone_iff_eq_none] at this
    exact ⟨this.1.1, this.2⟩
  refine ⟨hterm, ?_, ?_, ?_, hall⟩
  · have hc := hinv'.conserve
    have hq := (hinv'.done_closed hdone.1).2
    have ht : todo run.2 = [] := by unfold todo; split <;> simp [hdone.1, todoTask]
    rw [hq, ht] at hc
    simpa using hc
  · cases hany : run.1.any isComplete with
    | true => rfl
    | false =>
      rw [hany] at hinv'
      have := hinv'.not_completed rfl hdone.1
      rw [hdone.2] at this
      cases this
  · -- every `Complete` carries the program's return value (from `AllOk`)
    have key : ∀ (rs : List PollResult) (d : List Nat) (c : Bool), AllOk prog d c rs → ∀ r, PollResult.complete r ∈ rs → r = retOf prog := by
      intro rs
      induction rs with
      | nil => intro _ _ _ r hr; cases hr
      | cons x rest ih =>
        intro d c hok r hr
        obtain ⟨h1, h2⟩ := hok
        simp only [List.mem_cons] at hr
        rcases hr with rfl | hr
        · exact h1.2.2
        · exact ih _ _ h2 r hr
    exact key _ _ _ hall

/-- Non-vacuity: a program that yields, waits for an external event, yields again and returns. -/
example : (fairRun 40 (init [.yield 1, .extWait 7, .selfWake, .yieldAll [2, 3], .ret 9])).1 =
    [.item 1, .pending, .pending, .item 2, .item 3, .complete 9] := by decide

end Omaha.Gen
