/-
C14 — No input can crash the updater; storage failures are harmless.

Two kinds of statement:
* non-interference (`storage_failures_invisible*`): whatever storage holds and whichever storage
  operations fail, everything else the state machine does — requests, events, policy and installer
  calls, timers, replies — is the same; proved for every unit of work and, by induction, for every
  history of units, via the simulation relation `Sim` of `Lemmas/SMSim`;
* range invariants: the arithmetic the state machine performs on stored or counted values stays
  inside the types the code uses (no overflow), for every stored value and every history.
Panic-freedom of the code itself (third-party parsers included) is what the correspondence runs
under `catch_unwind` establish; the model is total by construction.
-/
import Omaha.Lemmas.SMSim

namespace Omaha.SM

open Omaha

/-! ### Storage failures are invisible -/

/-- The same unit environment with another script of storage failures. -/
def UnitEnv.withStoreFail (u : UnitEnv) (sf : List Bool) : UnitEnv := { u with env := { u.env with storeFail := sf } }

theorem sim_unitStart (u : UnitEnv) (sf : List Bool) {w w' : World} (s : Sim w w') :
    Sim ({ w with env := u.env, nTimer := 0 } : World) ({ w' with env := (u.withStoreFail sf).env, nTimer := 0 } : World) :=
  ⟨s.cfg, s.cup, s.ctx, s.apps, s.sysApp, s.clock, s.nGuid, s.nNonce, rfl,
   ⟨rfl, rfl, rfl, rfl, rfl, rfl, rfl, rfl, rfl, rfl, rfl⟩, s.trace⟩

/-- **storage_failures_invisible (one iteration of `run`).** Two runs of an iteration that start
from `Sim`-related worlds (same context, apps, clock…; storage contents arbitrary) and differ in
which storage operations fail end in the same way, with the same loop state, in `Sim`-related
worlds: the visible parts of their traces are equal. -/
theorem storage_failures_invisible (u : UnitEnv) (sf : List Bool) (rs : RunState) {w w' : World} (s : Sim w w') :
    (runUnit u rs w).1 = (runUnit (u.withStoreFail sf) rs w').1 ∧
    (runUnit u rs w).2.1 = (runUnit (u.withStoreFail sf) rs w').2.1 ∧
    Sim (runUnit u rs w).2.2 (runUnit (u.withStoreFail sf) rs w').2.2 := by
  unfold runUnit
  simp only
  have s0 := sim_unitStart u sf s
  generalize ({ w with env := u.env, nTimer := 0 } : World) = x at s0
  generalize ({ w' with env := (u.withStoreFail sf).env, nTimer := 0 } : World) = x' at s0
  have hu : (u.withStoreFail sf).next = u.next ∧ (u.withStoreFail sf).wake = u.wake ∧ (u.withStoreFail sf).wakeDt = u.wakeDt :=
    ⟨rfl, rfl, rfl⟩
  rw [hu.1, hu.2.1, hu.2.2]
  obtain ⟨e1, s1⟩ := sim_waitedStep rs s0
  rw [e1]
  obtain ⟨e3, s3⟩ := sim_armWait u.next (sim_updateNext u.next s1)
  rw [e3]
  obtain ⟨e4, s4⟩ := sim_outerWait (armWait u.next (updateNext u.next (waitedStep rs x').2)).1 u.wake s3
  rw [e4]
  have s5 := sim_tick u.wakeDt s4
  generalize tick u.wakeDt (outerWait (armWait u.next (updateNext u.next (waitedStep rs x').2)).1 u.wake (armWait u.next (updateNext u.next (waitedStep rs x).2)).2).2 = y at s5
  generalize tick u.wakeDt (outerWait (armWait u.next (updateNext u.next (waitedStep rs x').2)).1 u.wake (armWait u.next (updateNext u.next (waitedStep rs x').2)).2).2 = y' at s5
  have key : ∀ opts ctl, (decideAndCheck u opts ctl y).1 = (decideAndCheck (u.withStoreFail sf) opts ctl y').1 ∧
      Sim (decideAndCheck u opts ctl y).2 (decideAndCheck (u.withStoreFail sf) opts ctl y').2 := by
    intro opts ctl
    have hd : decideAndCheck (u.withStoreFail sf) opts ctl y' = decideAndCheck u opts ctl y' := by
      unfold decideAndCheck afterCheck waitForReboot rebootWait doReboot; rfl
    rw [hd]
    exact sim_decideAndCheck u opts ctl s5
  split
  · exact ⟨rfl, rfl, s5⟩
  · obtain ⟨e, sk⟩ := key .scheduledTask none
    exact ⟨e, rfl, sk⟩
  · rename_i id src _
    obtain ⟨e, sk⟩ := key src (some id)
    exact ⟨e, rfl, sk⟩

/-- The requests sent and the events announced (indeed every non-storage, non-metric action), in
order. -/
def visibleTrace (w : World) : List Action := w.trace.filter visible

/-- **storage_failures_invisible (as the property states it).** From the same world, an iteration
with failing storage operations performs the same visible actions as the iteration in which
storage works. -/
theorem faulty_run_looks_healthy (u : UnitEnv) (sf : List Bool) (rs : RunState) (w : World) :
    visibleTrace (runUnit (u.withStoreFail sf) rs w).2.2 = visibleTrace (runUnit (u.withStoreFail []) rs w).2.2 ∧
    (runUnit (u.withStoreFail sf) rs w).1 = (runUnit (u.withStoreFail []) rs w).1 := by
  have h1 := storage_failures_invisible u sf rs (Sim.refl w)
  have h2 := storage_failures_invisible u [] rs (Sim.refl w)
  exact ⟨h1.2.2.trace.symm.trans h2.2.2.trace, h1.1.symm.trans h2.1⟩

/-- **storage_failures_invisible (oneshot_check).** -/
theorem storage_failures_invisible_oneshot (env : Env) (sf : List Bool) {w w' : World} (s : Sim w w') :
    (oneshot env w).1 = (oneshot { env with storeFail := sf } w').1 ∧
    Sim (oneshot env w).2 (oneshot { env with storeFail := sf } w').2 := by
  unfold oneshot
  simp only
  have s0 : Sim ({ w with env := env } : World) ({ w' with env := { env with storeFail := sf } } : World) :=
    ⟨s.cfg, s.cup, s.ctx, s.apps, s.sysApp, s.clock, s.nGuid, s.nNonce, s.nTimer,
     ⟨rfl, rfl, rfl, rfl, rfl, rfl, rfl, rfl, rfl, rfl, rfl⟩, s.trace⟩
  obtain ⟨e1, s1⟩ := sim_startUpdateCheck {} s0
  generalize startUpdateCheck {} ({ w with env := env } : World) = r at e1 s1
  generalize startUpdateCheck {} ({ w' with env := { env with storeFail := sf } } : World) = r' at e1 s1
  obtain ⟨a, x⟩ := r
  obtain ⟨a', x'⟩ := r'
  simp only at e1 s1
  subst e1
  cases a <;> exact ⟨rfl, s1⟩

/-! ### Histories: any number of iterations, any failure pattern in each -/

/-- **storage_failures_invisible (histories).** For every history of iterations and every
assignment of storage-failure scripts to them, the run is indistinguishable from the one with
working storage. -/
theorem storage_failures_invisible_history (us : List UnitEnv) (sfs : List (List Bool)) (rs : RunState)
    {w w' : World} (s : Sim w w') (hl : sfs.length = us.length) :
    (runUnits us rs w).1 = (runUnits (List.zipWith UnitEnv.withStoreFail us sfs) rs w').1 ∧
    (runUnits us rs w).2.1 = (runUnits (List.zipWith UnitEnv.withStoreFail us sfs) rs w').2.1 ∧
    Sim (runUnits us rs w).2.2 (runUnits (List.zipWith UnitEnv.withStoreFail us sfs) rs w').2.2 := by
  induction us generalizing sfs rs w w' with
  | nil => simp [runUnits]; exact s
  | cons u rest ih =>
    cases sfs with
    | nil => simp at hl
    | cons sf sfs' =>
      simp only [List.zipWith_cons_cons, runUnits]
      obtain ⟨e1, e2, s1⟩ := storage_failures_invisible u sf rs s
      generalize runUnit u rs w = r at e1 e2 s1
      generalize runUnit (u.withStoreFail sf) rs w' = r' at e1 e2 s1
      obtain ⟨a, b, x⟩ := r
      obtain ⟨a', b', x'⟩ := r'
      simp only at e1 e2 s1
      subst e1 e2
      cases a with
      | completed => exact ih sfs' b s1 (by simpa using hl)
      | stalled => exact ⟨rfl, rfl, s1⟩
      | outside => exact ⟨rfl, rfl, s1⟩

/-! ### Range invariants: no arithmetic leaves its type -/

/-- `u32::MAX`. -/
def u32MaxN : Nat := 4294967295

theorem satAdd32_le (n : Nat) (h : n ≤ u32MaxN) : satAdd32 n ≤ u32MaxN := by
  unfold satAdd32 u32MaxN at *
  have : Dec.u32Max = 4294967295 := rfl
  split <;> omega

/-- Whatever integer storage holds for the failure counter (any type, any magnitude), the loaded
count fits `u32`. -/
theorem loadFails_le (v : Option Int) : loadFails v ≤ u32MaxN := by
  unfold loadFails u32MaxN u32Max
  cases v with
  | none => simp
  | some n =>
    simp only
    split
    · omega
    · simp

theorem loadCtx_failures_le (st : Store) : (loadCtx st).st.failures ≤ u32MaxN := loadFails_le _

/-- The failure counter stays inside `u32` through a whole check: nothing before the end of the
check touches it (`frame_performUpdateCheck`), a success resets it, a failure increments it
saturating. -/
theorem failures_in_range_check (params : RequestParams) (w : World) (h : w.ctx.st.failures ≤ u32MaxN)
    (hm : (startUpdateCheck params w).1 ≠ none) :
    (startUpdateCheck params w).2.ctx.st.failures ≤ u32MaxN := by
  unfold startUpdateCheck at hm ⊢
  have hf := (frame_performUpdateCheck params w.apps w).failures
  generalize performUpdateCheck params w.apps w = pr at hf hm
  obtain ⟨res, w1⟩ := pr
  cases res with
  | none => exact absurd rfl hm
  | some cr =>
    cases cr with
    | ok ok => simp only; rw [finishCheckOk_failures]; exact Nat.zero_le _
    | error e =>
      simp only
      rw [finishCheckErr_failures]
      simp only at hf
      rw [hf]
      exact satAdd32_le _ h

/-- … and through a ping. -/
theorem failures_in_range_ping (w : World) (h : w.ctx.st.failures ≤ u32MaxN) (hm : (pingOmaha w).1 ≠ none) :
    (pingOmaha w).2.ctx.st.failures ≤ u32MaxN := by
  unfold pingOmaha at hm ⊢
  simp only at hm ⊢
  generalize (List.foldl (fun b app => b.apply (.ping app)) ({ params := { source := .scheduledTask, useConfiguredProxies := true } } : Request.Builder) w.apps) = b0 at hm ⊢
  generalize ({ b0 with sessionId := some (guidBytes (nextGuid w).1) } : Request.Builder) = b1 at hm ⊢
  have hf : (omahaRequest .ping (withRequestId b1 (nextGuid w).2).1 (withRequestId b1 (nextGuid w).2).2).2.ctx.st.failures = w.ctx.st.failures :=
    (frame_omahaRequest .ping _ _).failures
  generalize omahaRequest .ping (withRequestId b1 (nextGuid w).2).1 (withRequestId b1 (nextGuid w).2).2 = r at hf hm
  obtain ⟨res, w1⟩ := r
  simp only at hf
  cases res with
  | error f => simp only; rw [pingFailed_failures, hf]; exact satAdd32_le _ h
  | ok body =>
    simp only at hm ⊢
    split
    · rename_i hp
      simp [hp] at hm
    · rw [pingFailed_failures, hf]
      exact satAdd32_le _ h
    · rw [pingSucceeded_failures]; exact Nat.zero_le _

/-- The stored install-attempt counter: for every `i64` found in storage, the value written back
is an `i64` again and the count reported fits `u64`. -/
theorem attemptsInstall_in_range (n : Int) (h1 : -9223372036854775808 ≤ n) (h2 : n ≤ i64Max) :
    let attempts := if n + 1 > i64Max then i64Max else n + 1
    (-9223372036854775808 : Int) ≤ attempts ∧ attempts ≤ i64Max ∧
    (if attempts < 0 then (attempts + 18446744073709551616).toNat else attempts.toNat) < 18446744073709551616 := by
  intro attempts
  have hi : i64Max = 9223372036854775807 := rfl
  have ha : attempts = if n + 1 > i64Max then i64Max else n + 1 := rfl
  rw [hi] at h2 ha ⊢
  generalize attempts = a at ha ⊢
  split at ha <;> (refine ⟨by omega, by omega, ?_⟩; split <;> omega)

/-- Durations handed to the protocol as milliseconds fit `u64` or are dropped. -/
theorem durationMs_le (ns : Nat) (m : Nat) (h : durationMs ns = some m) : m ≤ Dec.u64Max := by
  unfold durationMs at h
  simp only at h
  split at h
  · cases h; assumption
  · cases h

/-- The stored poll interval: whatever integer storage holds, the loaded duration is that of a
`u64` count of microseconds. -/
theorem loadPoll_range (v : Option Int) (ns : Nat) (h : loadPoll v = some ns) : ns ≤ 18446744073709551615 * 1000 := by
  unfold loadPoll u64Max at h
  cases v with
  | none => cases h
  | some t =>
    simp only at h
    split at h
    · cases h; omega
    · cases h

/-- The server-dictated poll interval never exceeds one day, whatever the header says. -/
theorem poll_header_le_day (h : Option Bytes) (ns : Nat) (hp : parseRetryAfter h = some ns) : ns ≤ 86400 * 1000000000 := by
  unfold parseRetryAfter at hp
  cases h with
  | none => cases hp
  | some raw =>
    simp only at hp
    split at hp
    · cases hd : Dec.parseU64 raw with
      | none => simp [hd] at hp
      | some secs =>
        simp only [hd, Option.map_some, Option.some.injEq] at hp
        subst hp
        have : min secs 86400 ≤ 86400 := Nat.min_le_right _ _
        omega
    · cases hp

/-! ### Every check ends with a delivered result -/

/-- **check_terminates.** Whatever the environment does, a check the model describes delivers exactly
one result as its last event (`startUpdateCheck_evs`); the attempt loop has fuel 3 and nothing else
in a check loops, so the model's functions are total by structural recursion. -/
theorem check_delivers_result (params : RequestParams) (w : World) (h : (startUpdateCheck params w).1 ≠ none) :
    ∃ r rest, evs (startUpdateCheck params w).2 = .result r :: rest := by
  obtain ⟨r, mid, he, _⟩ := startUpdateCheck_evs params w h
  exact ⟨r, _, by rw [he]; rfl⟩

/-! ### Non-vacuity -/

example : satAdd32 4294967295 = 4294967295 ∧ satAdd32 7 = 8 := by decide
example : loadFails (some 4294967296) = 0 ∧ loadFails (some (-1)) = 0 ∧ loadFails (some 4294967295) = 4294967295 := by decide
example : (UnitEnv.withStoreFail { next := default, wake := [], allow := .tooSoon } [true, false]).env.storeFail = [true, false] := rfl

end Omaha.SM
