/-
C15 — Requests have exactly the Omaha v3 wire shape.

The theorems are about the builder state reached by *any* sequence of builder operations and
about the JSON value / header list built from it.  The text layer (`Json.render`) is tied to
serde_json by the byte-exact correspondence stream `wire-req`.
-/
import Omaha.Request

namespace Omaha.Request

open Omaha

/-! ### Specification of a builder-operation sequence, per app id -/

def opApp : Op → Option App
  | .updateCheck a => some a
  | .ping a => some a
  | .event a _ => some a
  | _ => none

/-- The apps mentioned by the operations, in order. -/
def appsOf (ops : List Op) : List App := ops.filterMap opApp

/-- Append unless already present: ids in first-insertion order, once each. -/
def dedupL (xs : List Bytes) : List Bytes :=
  xs.foldl (fun acc x => if x ∈ acc then acc else acc ++ [x]) []

def firstApp (ops : List Op) (i : Bytes) : Option App := (appsOf ops).find? (fun a => a.id = i)

def eventsOf (ops : List Op) (i : Bytes) : List Event :=
  ops.filterMap fun
    | .event a ev => if a.id = i then some ev else none
    | _ => none

def pingOf (ops : List Op) (i : Bytes) : Bool :=
  ops.any fun
    | .ping a => a.id = i
    | _ => false

def hasUc (ops : List Op) (i : Bytes) : Bool :=
  ops.any fun
    | .updateCheck a => a.id = i
    | _ => false

def fresh (p : RequestParams) : Builder := { params := p }

theorem snocInduction {α : Type} {P : List α → Prop} (h0 : P [])
    (hs : ∀ l a, P l → P (l ++ [a])) (l : List α) : P l := by
  have : ∀ r : List α, P r.reverse := by
    intro r
    induction r with
    | nil => exact h0
    | cons a r ih => rw [List.reverse_cons]; exact hs _ _ ih
  simpa using this l.reverse

/-! ### Lemmas on `insertAndModify` -/

theorem ids_insertAndModify (es : List AppEntry) (app : App) (f : AppEntry → AppEntry)
    (hf : ∀ e, (f e).app.id = e.app.id) :
    (insertAndModify es app f).map (·.app.id) =
      if app.id ∈ es.map (·.app.id) then es.map (·.app.id) else es.map (·.app.id) ++ [app.id] := by
  induction es with
  | nil => simp [insertAndModify, hf]
  | cons e es ih =>
    simp only [insertAndModify]
    by_cases he : e.app.id = app.id
    · simp [he, hf]
    · simp only [he, if_false, List.map_cons, ih, List.mem_cons]
      have : ¬ app.id = e.app.id := fun h => he h.symm
      by_cases hm : app.id ∈ es.map (·.app.id) <;> simp [hm, this]

theorem find_insertAndModify (es : List AppEntry) (app : App) (f : AppEntry → AppEntry)
    (hf : ∀ e, (f e).app.id = e.app.id) (i : Bytes) :
    (insertAndModify es app f).find? (fun e => e.app.id = i) =
      if app.id = i then
        some (f ((es.find? (fun e => e.app.id = app.id)).getD { app := app }))
      else es.find? (fun e => e.app.id = i) := by
  induction es with
  | nil =>
    by_cases h : app.id = i <;> simp [insertAndModify, hf, h]
  | cons e es ih =>
    simp only [insertAndModify]
    by_cases he : e.app.id = app.id
    · by_cases h : app.id = i
      · simp [he, h, hf]
      · have : ¬ e.app.id = i := by rw [he]; exact h
        simp [he, h, hf, this]
    · simp only [he, if_false, List.find?_cons, ih]
      by_cases h : app.id = i
      · have : ¬ e.app.id = i := by rw [← h]; exact he
        simp [h, this, he]
      · simp [h]

/-! ### Every reachable builder state -/

theorem applyAll_snoc (b : Builder) (ops : List Op) (op : Op) :
    b.applyAll (ops ++ [op]) = (b.applyAll ops).apply op := by
  simp [Builder.applyAll, List.foldl_append]

/-- **build_pure** (model side): continuing to add operations after a build is the same as
having applied all operations to a fresh builder; `build` itself is a function of the builder
value and cannot alter it. -/
theorem applyAll_append (b : Builder) (ops1 ops2 : List Op) :
    (b.applyAll ops1).applyAll ops2 = b.applyAll (ops1 ++ ops2) := by
  simp [Builder.applyAll, List.foldl_append]

theorem params_applyAll (b : Builder) (ops : List Op) : (b.applyAll ops).params = b.params := by
  induction ops using snocInduction with
  | h0 => rfl
  | hs ops op ih =>
    rw [applyAll_snoc]
    cases op <;> simp [Builder.apply, ih]

/-- **apps_once_first_order.** After any operation sequence the app ids of the request are the
ids mentioned by the operations, once each, in first-insertion order. -/
theorem apps_once_first_order (p : RequestParams) (ops : List Op) :
    ((fresh p).applyAll ops).entries.map (·.app.id) = dedupL ((appsOf ops).map (·.id)) := by
  induction ops using snocInduction with
  | h0 => rfl
  | hs ops op ih =>
    rw [applyAll_snoc]
    have snoc : ∀ x, dedupL ((appsOf ops).map (·.id) ++ [x]) =
        if x ∈ dedupL ((appsOf ops).map (·.id)) then dedupL ((appsOf ops).map (·.id))
        else dedupL ((appsOf ops).map (·.id)) ++ [x] := by
      intro x
      unfold dedupL
      rw [List.foldl_append]
      rfl
    cases op with
    | updateCheck a =>
      simp only [Builder.apply, appsOf, List.filterMap_append, List.filterMap_cons, opApp,
        List.filterMap_nil, List.map_append, List.map_cons, List.map_nil]
      rw [ids_insertAndModify _ _ (setUc _) (fun e => rfl), ih]
      exact (snoc a.id).symm
    | ping a =>
      simp only [Builder.apply, appsOf, List.filterMap_append, List.filterMap_cons, opApp,
        List.filterMap_nil, List.map_append, List.map_cons, List.map_nil]
      rw [ids_insertAndModify _ _ setPing (fun e => rfl), ih]
      exact (snoc a.id).symm
    | event a ev =>
      simp only [Builder.apply, appsOf, List.filterMap_append, List.filterMap_cons, opApp,
        List.filterMap_nil, List.map_append, List.map_cons, List.map_nil]
      rw [ids_insertAndModify _ _ (pushEvent ev) (fun e => rfl), ih]
      exact (snoc a.id).symm
    | requestId g =>
      have : appsOf (ops ++ [Op.requestId g]) = appsOf ops := by simp [appsOf, List.filterMap_append, opApp]
      rw [this]; simpa [Builder.apply] using ih
    | sessionId g =>
      have : appsOf (ops ++ [Op.sessionId g]) = appsOf ops := by simp [appsOf, List.filterMap_append, opApp]
      rw [this]; simpa [Builder.apply] using ih

theorem dedupL_aux_nodup (xs acc : List Bytes) (h : acc.Nodup) :
    (xs.foldl (fun acc x => if x ∈ acc then acc else acc ++ [x]) acc).Nodup := by
  induction xs generalizing acc with
  | nil => exact h
  | cons x xs ih =>
    simp only [List.foldl_cons]
    by_cases hx : x ∈ acc
    · simp only [hx, if_true]; exact ih acc h
    · simp only [hx, if_false]
      apply ih
      rw [List.nodup_append]
      exact ⟨h, by simp, by intro a ha b hb; simp at hb; subst hb; intro e; exact hx (e ▸ ha)⟩

theorem dedupL_aux_mem (xs acc : List Bytes) (y : Bytes) :
    y ∈ xs.foldl (fun acc x => if x ∈ acc then acc else acc ++ [x]) acc ↔ y ∈ acc ∨ y ∈ xs := by
  induction xs generalizing acc with
  | nil => simp
  | cons x xs ih =>
    simp only [List.foldl_cons, List.mem_cons]
    by_cases hx : x ∈ acc
    · simp only [hx, if_true, ih]
      constructor
      · rintro (h | h); exact Or.inl h; exact Or.inr (Or.inr h)
      · rintro (h | h | h); exact Or.inl h; exact Or.inl (h ▸ hx); exact Or.inr h
    · simp only [hx, if_false, ih, List.mem_append, List.mem_singleton]
      constructor
      · rintro ((h | h) | h); exact Or.inl h; exact Or.inr (Or.inl h); exact Or.inr (Or.inr h)
      · rintro (h | h | h); exact Or.inl (Or.inl h); exact Or.inl (Or.inr h); exact Or.inr h

/-- Each app appears once… -/
theorem dedupL_nodup (xs : List Bytes) : (dedupL xs).Nodup := dedupL_aux_nodup xs [] List.nodup_nil

/-- …and exactly the mentioned ids appear. -/
theorem mem_dedupL (xs : List Bytes) (y : Bytes) : y ∈ dedupL xs ↔ y ∈ xs := by
  simp [dedupL, dedupL_aux_mem]

/-- First-insertion order: reading the operations left to right, an id not seen before is
appended at the end and an id seen before keeps its place. -/
theorem dedupL_snoc (xs : List Bytes) (x : Bytes) :
    dedupL (xs ++ [x]) = if x ∈ dedupL xs then dedupL xs else dedupL xs ++ [x] := by
  unfold dedupL
  rw [List.foldl_append]
  rfl

theorem dedupL_nil : dedupL [] = [] := rfl

/-! Spec functions on a sequence extended by one operation. -/

theorem firstApp_snoc (ops : List Op) (op : Op) (i : Bytes) :
    firstApp (ops ++ [op]) i =
      (firstApp ops i).or (match opApp op with | some a => if a.id = i then some a else none | none => none) := by
  unfold firstApp appsOf
  rw [List.filterMap_append, List.find?_append]
  cases hop : opApp op with
  | none => simp [hop]
  | some a => by_cases h : a.id = i <;> simp [hop, h]

theorem eventsOf_snoc (ops : List Op) (op : Op) (i : Bytes) :
    eventsOf (ops ++ [op]) i =
      eventsOf ops i ++ (match op with | .event a ev => if a.id = i then [ev] else [] | _ => []) := by
  unfold eventsOf
  rw [List.filterMap_append]
  cases op with
  | event a ev => by_cases h : a.id = i <;> simp [h]
  | _ => simp

theorem pingOf_snoc (ops : List Op) (op : Op) (i : Bytes) :
    pingOf (ops ++ [op]) i = (pingOf ops i || (match op with | .ping a => decide (a.id = i) | _ => false)) := by
  unfold pingOf
  rw [List.any_append]
  cases op <;> simp

theorem hasUc_snoc (ops : List Op) (op : Op) (i : Bytes) :
    hasUc (ops ++ [op]) i = (hasUc ops i || (match op with | .updateCheck a => decide (a.id = i) | _ => false)) := by
  unfold hasUc
  rw [List.any_append]
  cases op <;> simp

/-- An id no operation mentions has no update check, ping or events. -/
theorem no_mention (ops : List Op) (i : Bytes) (h : firstApp ops i = none) :
    hasUc ops i = false ∧ pingOf ops i = false ∧ eventsOf ops i = [] := by
  induction ops using snocInduction with
  | h0 => simp [hasUc, pingOf, eventsOf]
  | hs ops op ih =>
    rw [firstApp_snoc] at h
    have h1 : firstApp ops i = none := by
      cases hf : firstApp ops i with
      | none => rfl
      | some a => rw [hf] at h; simp at h
    rw [h1] at h
    simp only [Option.none_or] at h
    obtain ⟨ih1, ih2, ih3⟩ := ih h1
    rw [hasUc_snoc, pingOf_snoc, eventsOf_snoc, ih1, ih2, ih3]
    cases op with
    | updateCheck a => by_cases ha : a.id = i <;> simp_all [opApp]
    | ping a => by_cases ha : a.id = i <;> simp_all [opApp]
    | event a ev => by_cases ha : a.id = i <;> simp_all [opApp]
    | requestId g => simp
    | sessionId g => simp

/-- **first insertion's app data kept / events_in_order / flags.** For every app id, the entry
of the request is determined by the operations that mention that id: the app data (version,
fingerprint, cohort, user counting, extras) of the *first* such operation, an update check (with
the parameters' two flags) iff one was added, a ping iff one was added, and exactly the events
added for it, in insertion order. -/
theorem entry_spec (p : RequestParams) (ops : List Op) (i : Bytes) :
    ((fresh p).applyAll ops).entries.find? (fun e => e.app.id = i) =
      (firstApp ops i).map fun a =>
        { app := a,
          updateCheck := if hasUc ops i then some (p.disableUpdates, p.offerUpdateIfSameVersion) else none,
          ping := pingOf ops i,
          events := eventsOf ops i } := by
  induction ops using snocInduction generalizing i with
  | h0 => rfl
  | hs ops op ih =>
    rw [applyAll_snoc, firstApp_snoc, hasUc_snoc, pingOf_snoc, eventsOf_snoc]
    have hp : ((fresh p).applyAll ops).params = p := params_applyAll _ _
    cases op with
    | updateCheck a =>
      simp only [Builder.apply, opApp]
      rw [find_insertAndModify _ _ (setUc _) (fun e => rfl), hp]
      by_cases h : a.id = i
      · subst h
        rw [ih a.id]
        cases hfa : firstApp ops a.id with
        | none =>
          obtain ⟨h1, h2, h3⟩ := no_mention ops a.id hfa
          simp [h1, h2, h3, setUc]
        | some a0 => simp [setUc]
      · rw [ih i]; simp [h]
    | ping a =>
      simp only [Builder.apply, opApp]
      rw [find_insertAndModify _ _ setPing (fun e => rfl)]
      by_cases h : a.id = i
      · subst h
        rw [ih a.id]
        cases hfa : firstApp ops a.id with
        | none =>
          obtain ⟨h1, h2, h3⟩ := no_mention ops a.id hfa
          simp [h1, h2, h3, setPing]
        | some a0 => simp [setPing]
      · rw [ih i]; simp [h]
    | event a ev =>
      simp only [Builder.apply, opApp]
      rw [find_insertAndModify _ _ (pushEvent ev) (fun e => rfl)]
      by_cases h : a.id = i
      · subst h
        rw [ih a.id]
        cases hfa : firstApp ops a.id with
        | none =>
          obtain ⟨h1, h2, h3⟩ := no_mention ops a.id hfa
          simp [h1, h2, h3, pushEvent]
        | some a0 => simp [pushEvent]
      · rw [ih i]; simp [h]
    | requestId g => simp [Builder.apply, opApp, ih i]
    | sessionId g => simp [Builder.apply, opApp, ih i]

/-- The request / session ids are those of the last `request_id` / `session_id` operation. -/
theorem ids_spec (p : RequestParams) (ops : List Op) :
    ((fresh p).applyAll ops).requestId =
      (ops.filterMap fun | .requestId g => some g | _ => none).getLast? ∧
    ((fresh p).applyAll ops).sessionId =
      (ops.filterMap fun | .sessionId g => some g | _ => none).getLast? := by
  induction ops using snocInduction with
  | h0 => exact ⟨rfl, rfl⟩
  | hs ops op ih =>
    rw [applyAll_snoc]
    cases op <;> simp [Builder.apply, List.filterMap_append, ih.1, ih.2]

/-! ### The JSON value, member by member -/

def keys (j : Json) : List Bytes :=
  match j with
  | .obj kvs => kvs.map (·.1)
  | _ => []

def member (j : Json) (k : String) : Option Json :=
  match j with
  | .obj kvs => (kvs.find? (fun kv => kv.1 = Bytes.ofString k)).map (·.2)
  | _ => none

/-- **flags_only_when_true.** -/
theorem updatecheck_flags (d s : Bool) :
    flagMember "updatedisabled" d ++ flagMember "sameversionupdate" s =
      (if d then [(Bytes.ofString "updatedisabled", Json.bool true)] else []) ++
      (if s then [(Bytes.ofString "sameversionupdate", Json.bool true)] else []) := by
  simp [flagMember]

/-- **cohort_only_set_fields.** -/
theorem cohort_only_set_fields (c : Cohort) :
    cohortMembers c =
      (match c.id with | some v => [(Bytes.ofString "cohort", Json.str v)] | none => []) ++
      (match c.hint with | some v => [(Bytes.ofString "cohorthint", Json.str v)] | none => []) ++
      (match c.name with | some v => [(Bytes.ofString "cohortname", Json.str v)] | none => []) := by
  cases c with
  | mk i h n => cases i <;> cases h <;> cases n <;> simp [cohortMembers, optStr]

/-- **body_shape** (app object): the members of an app object, in order. -/
theorem app_members (e : AppEntry) :
    appJson e = .obj (
      [(Bytes.ofString "appid", .str e.app.id), (Bytes.ofString "version", .str (Version.print e.app.version))]
      ++ (match e.app.fp with | some f => [(Bytes.ofString "fp", Json.str f)] | none => [])
      ++ cohortMembers e.app.cohort
      ++ (match e.updateCheck with
          | some (d, s) => [(Bytes.ofString "updatecheck", .obj (flagMember "updatedisabled" d ++ flagMember "sameversionupdate" s))]
          | none => [])
      ++ (if e.events = [] then [] else [(Bytes.ofString "event", .arr (e.events.map eventJson))])
      ++ (if e.ping then [(Bytes.ofString "ping", .obj (
            (match e.app.userCounting with | some n => [(Bytes.ofString "ad", Json.int n)] | none => []) ++
            (match e.app.userCounting with | some n => [(Bytes.ofString "rd", Json.int n)] | none => [])))] else [])
      ++ e.app.extras.map fun (k, v) => (k, .str v)) := by
  rcases e with ⟨⟨id, ver, fp, coh, uc, ex⟩, ucheck, ping, evs⟩
  unfold appJson
  cases fp <;> cases uc <;> cases ucheck <;> cases evs <;> simp [optStr, optNat]

/-- **ping_ad_eq_rd.** When a ping is sent, `ad` and `rd` are both the app's last day number, or
both absent. -/
theorem ping_ad_eq_rd (n : Option Nat) :
    optNat "ad" n ++ optNat "rd" n =
      match n with
      | some d => [(Bytes.ofString "ad", Json.int d), (Bytes.ofString "rd", Json.int d)]
      | none => [] := by
  cases n <;> simp [optNat]

/-- **events_in_order** (value level): the event array lists the entry's events in order with
the protocol's numeric codes and only the optional members that are set. -/
theorem event_members (ev : Event) :
    eventJson ev = .obj (
      [(Bytes.ofString "eventtype", .int ev.eventType), (Bytes.ofString "eventresult", .int ev.eventResult)]
      ++ (match ev.errorcode with | some c => [(Bytes.ofString "errorcode", Json.int c)] | none => [])
      ++ (match ev.previousVersion with | some v => [(Bytes.ofString "previousversion", Json.str v)] | none => [])
      ++ (match ev.nextVersion with | some v => [(Bytes.ofString "nextversion", Json.str v)] | none => [])
      ++ (match ev.downloadTimeMs with | some v => [(Bytes.ofString "download_time_ms", Json.int v)] | none => [])) := by
  rcases ev with ⟨ty, re, ec, pv, nv, dl⟩
  unfold eventJson
  cases ec <;> cases pv <;> cases nv <;> cases dl <;> simp [optStr, optNat]

/-- **body_shape** (request object): `{"request":{protocol "3.0", updater, updaterversion,
installsource, ismachine true, requestid?, sessionid?, os{platform,version,sp,arch}, app[…]}}`
with the app array following the entries. -/
theorem body_members (cfg : Config) (b : Builder) :
    ∃ req, bodyJson cfg b = .obj [(Bytes.ofString "request", req)] ∧
      keys req = [Bytes.ofString "protocol", Bytes.ofString "updater", Bytes.ofString "updaterversion",
                  Bytes.ofString "installsource", Bytes.ofString "ismachine"]
               ++ (if b.requestId.isSome then [Bytes.ofString "requestid"] else [])
               ++ (if b.sessionId.isSome then [Bytes.ofString "sessionid"] else [])
               ++ [Bytes.ofString "os", Bytes.ofString "app"] := by
  refine ⟨_, rfl, ?_⟩
  cases hr : b.requestId <;> cases hs : b.sessionId <;> simp [keys, optStr]

/-- A GUID is rendered in braces. -/
theorem braced_spec (g : Bytes) : braced g = [123] ++ g ++ [125] := by simp [braced]

/-- **headers_shape.** Content type, updater name, interactivity (`fg` iff on-demand) and the
first app's id (absent for a request without apps), in this order. -/
theorem headers_shape (cfg : Config) (b : Builder) :
    headers cfg b =
      [("content-type", Bytes.ofString "application/json"),
       ("X-Goog-Update-Updater", cfg.updaterName),
       ("X-Goog-Update-Interactivity", if b.params.source = .onDemand then Bytes.ofString "fg" else Bytes.ofString "bg")]
      ++ (match b.entries.head? with
          | some e => [("X-Goog-Update-AppId", e.app.id)]
          | none => []) := by
  unfold headers
  cases hsrc : b.params.source <;> cases hent : b.entries <;> simp

/-- The request is built iff every header value is acceptable to the `http` crate; the body is
then the rendering of `bodyJson`. -/
theorem build_spec (cfg : Config) (b : Builder) :
    build cfg b = if (headers cfg b).all (fun h => headerValueOk h.2) then
      some ⟨headers cfg b, Json.render (bodyJson cfg b)⟩ else none := rfl

/-! ### Non-vacuity -/

def appA : App := { id := [97], version := ⟨1, 2, 3, 4⟩, cohort := { id := some [99] } }
def appA' : App := { id := [97], version := ⟨9, 9, 9, 9⟩, cohort := { hint := some [104] } }
def appB : App := { id := [98], version := ⟨1, 0, 0, 0⟩ }

example : (((fresh {}).applyAll [.updateCheck appA, .ping appB, .event appA' {eventType := 3}, .ping appA']).entries.map
    fun e => (e.app.id, e.app.version.a, e.updateCheck.isSome, e.ping, e.events.length)) =
    [([97], 1, true, true, 1), ([98], 1, false, true, 0)] := by decide

example : dedupL [[97], [98], [97], [99], [98]] = [[97], [98], [99]] := by decide

end Omaha.Request
