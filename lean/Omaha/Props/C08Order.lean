/-
C08, the order of the writes inside one storage transaction is immaterial: two operation sequences
that differ by swapping adjacent writes (set / remove) to *different* keys lead to stores that no
reader can tell apart — now, after any further operations, after the commit, and after a crash.

This is what entitles the correspondence check to compare the implementation's and the model's
storage traces modulo the order of the writes between two commits (`check`: `canon_tx_order`, a
stable sort by key of every maximal run of consecutive writes — reachable by exactly these swaps):
a rewrite of the code that reorders independent writes of one transaction is not reported, while a
write moved across a commit, dropped, added or changed still is.
-/
import Omaha.Lemmas.Store

namespace Omaha.SM

open Omaha

/-- Indistinguishable stores: the same visible value and the same durable value for every key. -/
def Store.Eqv (s t : Store) : Prop := ∀ k, s.get k = t.get k ∧ lookup k s.committed = lookup k t.committed

theorem Store.Eqv.refl (s : Store) : s.Eqv s := fun _ => ⟨rfl, rfl⟩
theorem Store.Eqv.symm {s t : Store} (h : s.Eqv t) : t.Eqv s := fun k => ⟨(h k).1.symm, (h k).2.symm⟩
theorem Store.Eqv.trans {s t u : Store} (h : s.Eqv t) (g : t.Eqv u) : s.Eqv u :=
  fun k => ⟨(h k).1.trans (g k).1, (h k).2.trans (g k).2⟩

theorem committed_commit (s : Store) (k : Bytes) : lookup k s.commit.committed = s.get k := by
  unfold Store.commit Store.get
  simp only
  rw [lookup_applyPending]
  cases lookup k s.pending <;> rfl

theorem committed_applyOp_write (op : StoreOp) (s : Store) (h : op ≠ .commit) : (applyOp op s).committed = s.committed := by
  cases op <;> simp_all [applyOp]

/-- Every operation keeps indistinguishable stores indistinguishable. -/
theorem eqv_applyOp (op : StoreOp) {s t : Store} (h : s.Eqv t) : (applyOp op s).Eqv (applyOp op t) := by
  intro k
  constructor
  · rw [applyOp_get, applyOp_get]
    cases op <;> simp only [(h k).1]
  · cases op with
    | set k' v => simpa [applyOp] using (h k).2
    | remove k' => simpa [applyOp] using (h k).2
    | commit =>
      simp only [applyOp]
      rw [committed_commit, committed_commit]
      exact (h k).1

def runOps (ops : List StoreOp) (s : Store) : Store := ops.foldl (fun s o => applyOp o s) s

theorem eqv_runOps (ops : List StoreOp) {s t : Store} (h : s.Eqv t) : (runOps ops s).Eqv (runOps ops t) := by
  induction ops generalizing s t with
  | nil => exact h
  | cons o rest ih => exact ih (eqv_applyOp o h)

/-- A crash (the pending writes are lost) keeps them indistinguishable too. -/
theorem eqv_crash {s t : Store} (h : s.Eqv t) : s.crash.Eqv t.crash := by
  intro k
  rw [crash_get, crash_get]
  exact ⟨(h k).2, by simpa [Store.crash] using (h k).2⟩

/-- The key a write is about (`none` for a commit). -/
def writeKey : StoreOp → Option Bytes
  | .set k _ => some k
  | .remove k => some k
  | .commit => none

/-- **Writes to different keys commute.** -/
theorem writes_commute (a b : StoreOp) (ka kb : Bytes) (ha : writeKey a = some ka) (hb : writeKey b = some kb)
    (hne : ka ≠ kb) (s : Store) : (applyOp b (applyOp a s)).Eqv (applyOp a (applyOp b s)) := by
  intro k
  have hac : a ≠ .commit := by intro e; subst e; simp [writeKey] at ha
  have hbc : b ≠ .commit := by intro e; subst e; simp [writeKey] at hb
  constructor
  · rw [applyOp_get, applyOp_get, applyOp_get, applyOp_get]
    cases a with
    | commit => exact absurd rfl hac
    | set k1 v1 =>
      cases b with
      | commit => exact absurd rfl hbc
      | set k2 v2 =>
        simp only [writeKey, Option.some.injEq] at ha hb
        subst ha hb
        by_cases h1 : k1 = k <;> by_cases h2 : k2 = k <;> simp [h1, h2]
        exact absurd (h1.trans h2.symm) hne
      | remove k2 =>
        simp only [writeKey, Option.some.injEq] at ha hb
        subst ha hb
        by_cases h1 : k1 = k <;> by_cases h2 : k2 = k <;> simp [h1, h2]
        exact absurd (h1.trans h2.symm) hne
    | remove k1 =>
      cases b with
      | commit => exact absurd rfl hbc
      | set k2 v2 =>
        simp only [writeKey, Option.some.injEq] at ha hb
        subst ha hb
        by_cases h1 : k1 = k <;> by_cases h2 : k2 = k <;> simp [h1, h2]
        exact absurd (h1.trans h2.symm) hne
      | remove k2 =>
        simp only [writeKey, Option.some.injEq] at ha hb
        subst ha hb
        by_cases h1 : k1 = k <;> by_cases h2 : k2 = k <;> simp [h1, h2]
  · rw [committed_applyOp_write b _ hbc, committed_applyOp_write a _ hac, committed_applyOp_write a _ hac,
      committed_applyOp_write b _ hbc]

/-- Reorderings of a storage log that only swap adjacent writes to different keys (so: never across a
commit, never two writes to the same key). -/
inductive TxPerm : List StoreOp → List StoreOp → Prop
  | refl (l : List StoreOp) : TxPerm l l
  | swap (pre post : List StoreOp) (a b : StoreOp) (ka kb : Bytes) (ha : writeKey a = some ka) (hb : writeKey b = some kb)
      (hne : ka ≠ kb) : TxPerm (pre ++ a :: b :: post) (pre ++ b :: a :: post)
  | trans {l₁ l₂ l₃ : List StoreOp} : TxPerm l₁ l₂ → TxPerm l₂ l₃ → TxPerm l₁ l₃

theorem runOps_append (a b : List StoreOp) (s : Store) : runOps (a ++ b) s = runOps b (runOps a s) := by
  simp [runOps, List.foldl_append]

/-- **The order of the writes inside a transaction is invisible**: to every reader, after any further
operations (`eqv_runOps`), after the commit, and after a crash (`eqv_crash`). -/
theorem txPerm_eqv {l l' : List StoreOp} (h : TxPerm l l') (s : Store) : (runOps l s).Eqv (runOps l' s) := by
  induction h with
  | refl l => exact Store.Eqv.refl _
  | swap pre post a b ka kb ha hb hne =>
    rw [runOps_append, runOps_append]
    show (runOps post (applyOp b (applyOp a (runOps pre s)))).Eqv (runOps post (applyOp a (applyOp b (runOps pre s))))
    exact eqv_runOps post (writes_commute a b ka kb ha hb hne _)
  | trans _ _ ih1 ih2 => exact ih1.trans ih2

/-- In particular what survives a crash at any later point is the same. -/
theorem txPerm_crash {l l' : List StoreOp} (h : TxPerm l l') (s : Store) (rest : List StoreOp) (k : Bytes) :
    (runOps rest (runOps l s)).crash.get k = (runOps rest (runOps l' s)).crash.get k :=
  ((eqv_crash (eqv_runOps rest (txPerm_eqv h s))) k).1

/-- The hypotheses are satisfiable: two writes of one transaction swapped, then the commit. -/
example : TxPerm [.set [1] (.int 5), .remove [2], .commit] [.remove [2], .set [1] (.int 5), .commit] :=
  TxPerm.swap [] [.commit] (.set [1] (.int 5)) (.remove [2]) [1] [2] rfl rfl (by decide)

end Omaha.SM
