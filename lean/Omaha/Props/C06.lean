/-
C06 — Retries are bounded, only for transient failures, and backed off.
-/
import Omaha.Lemmas.SMTrace

namespace Omaha.SM

open Omaha

/-- Update-check requests on the wire. -/
def isUC : Action → Bool
  | .http r _ => r.kind == .updateCheck
  | _ => false

def ucCount (w : World) : Nat := (w.trace.filter isUC).length

/-- A function that only adds non-update-check actions leaves the count unchanged. -/
theorem ucCount_of_adds {P : Action → Prop} {w w' : World} (h : Adds P w w')
    (hp : ∀ a, P a → isUC a = false) : ucCount w' = ucCount w := by
  obtain ⟨d, e, p⟩ := h
  unfold ucCount
  rw [e, List.filter_append]
  have : d.filter isUC = [] := by
    rw [List.filter_eq_nil_iff]
    intro a ha; simp [hp a (p a ha)]
  simp [this]

theorem isUC_false_of_event {a : Action} (h : isEvent a) : isUC a = false := by
  cases a <;> simp_all [isEvent, isUC]
theorem isUC_false_of_storage {a : Action} (h : isStorage a) : isUC a = false := by
  cases a <;> simp_all [isStorage, isUC]
theorem isUC_false_of_metric {a : Action} (h : isMetric a) : isUC a = false := by
  cases a <;> simp_all [isMetric, isUC]

theorem ucCount_emit (a : Action) (w : World) : ucCount (emit a w) = ucCount w + (if isUC a then 1 else 0) := by
  unfold ucCount emit
  simp only [List.filter_cons]
  split <;> simp [Nat.add_comm]

/-- One request function call puts at most one update-check request on the wire. -/
theorem ucCount_omahaRequest_le (k : ReqKind) (b : Request.Builder) (w : World) :
    ucCount (omahaRequest k b w).2 ≤ ucCount w + 1 := by
  unfold omahaRequest
  split
  · rw [ucCount_emit]; simp [isUC]
  · simp only
    have h2 := ucCount_of_adds (adds_handleOutcome (sendRequest k b w).1 (sendRequest k b w).2)
      (fun a h => by rcases h with h | h; exact isUC_false_of_event h; exact isUC_false_of_storage h)
    rw [h2]
    obtain ⟨req, _, ht⟩ := sendRequest_trace k b w
    unfold ucCount
    rw [ht, List.filter_cons]
    split <;> simp

/-- A request of another kind adds none. -/
theorem ucCount_omahaRequest_other (k : ReqKind) (hk : k ≠ .updateCheck) (b : Request.Builder) (w : World) :
    ucCount (omahaRequest k b w).2 = ucCount w := by
  apply ucCount_of_adds (adds_omahaRequest k b w)
  intro a h
  rcases h with h | h | h | ⟨kk, e, rfl⟩
  · cases a <;> simp_all [isHttpKind, isUC]
  · exact isUC_false_of_event h
  · exact isUC_false_of_storage h
  · rfl

theorem withRequestId_trace (b : Request.Builder) (w : World) : (withRequestId b w).2.trace = w.trace := rfl

theorem popJitter_trace (w : World) : (popJitter w).2.2.trace = w.trace := by
  unfold popJitter
  cases w.env.jitter <;> cases w.env.backoffDt <;> rfl

/-- The back-off arms exactly one timer for the computed duration and sends nothing. -/
theorem backoff_trace (attempt : Nat) (w : World) :
    (backoff attempt w).trace = .timerArm (.for_ (backoffMs attempt (popJitter w).1 * 1000000)) :: w.trace := by
  unfold backoff
  simp [tick, emit, popJitter_trace]

theorem ucCount_backoff (attempt : Nat) (w : World) : ucCount (backoff attempt w) = ucCount w := by
  unfold ucCount
  rw [backoff_trace]
  simp [List.filter_cons, isUC]

/-- **attempts_le_three** (loop level). With `fuel` attempts left the loop sends at most `fuel`
update-check requests. -/
theorem attemptLoop_le (fuel attempt : Nat) (b : Request.Builder) (w : World) :
    ucCount (attemptLoop fuel attempt b w).2.2 ≤ ucCount w + fuel := by
  induction fuel generalizing attempt b w with
  | zero => unfold attemptLoop; exact Nat.le_refl _
  | succ fuel ih =>
    unfold attemptLoop
    simp only
    -- after the request and its response-time metric
    generalize hr : omahaRequest .updateCheck (withRequestId b w).1 (withRequestId b w).2 = r
    have hreq : ucCount r.2 ≤ ucCount w + 1 := by
      have := ucCount_omahaRequest_le .updateCheck (withRequestId b w).1 (withRequestId b w).2
      rw [hr] at this
      simpa [ucCount, withRequestId_trace] using this
    generalize hm : (if w.clock.mono ≤ r.2.clock.mono then metric (.responseTime (r.2.clock.mono - w.clock.mono).toNat (isOk r.1)) r.2 else r.2) = wm
    have hwm : ucCount wm = ucCount r.2 := by
      rw [← hm]; split
      · exact ucCount_of_adds (adds_metric _ _) (fun a h => isUC_false_of_metric h)
      · rfl
    cases hres : r.1 with
    | ok body => simp only; omega
    | error f =>
      simp only
      split
      · have := ucCount_of_adds (adds_yieldEv (.state .errorChecking) wm) (fun a h => isUC_false_of_event h)
        simp only [this]; omega
      · -- back off, then the remaining attempts
        refine Nat.le_trans (ih _ _ _) ?_
        rw [ucCount_backoff]; omega

/-- **attempts_le_three.** One update check sends at most three update-check requests
(`perform_update_check` enters the loop with three attempts left; everything after the loop sends
event reports only — see `ucCount_omahaRequest_other`). -/
theorem attempts_le_three (b : Request.Builder) (w : World) :
    ucCount (attemptLoop 3 1 b w).2.2 ≤ ucCount w + 3 := attemptLoop_le 3 1 b w

/-! ### When a further attempt is made (**retry_iff**) -/

/-- The loop goes on after a failed attempt exactly when the failure is transient — a transport
failure that is not a caller error, or a non-2xx status — it was not the third attempt, and no
server-dictated poll interval is in force after that attempt's header processing. -/
theorem retry_iff (f : ReqFail) (attempt : Nat) (poll : Option Nat) :
    giveUp f attempt poll = false ↔
      ((f.err = .transport ∧ f.user = false) ∨ f.err = .status) ∧ attempt < 3 ∧ poll = none := by
  unfold giveUp
  cases hf : f.err <;> cases hu : f.user <;> cases poll <;> simp <;> omega

/-- **never_retried.** Request-construction, CUP-decoration and authentication failures are never
retried, whatever the attempt number. -/
theorem never_retried (f : ReqFail) (attempt : Nat) (poll : Option Nat)
    (h : f.err = .json ∨ f.err = .httpBuilder ∨ f.err = .cupDecoration ∨ f.err = .cupValidation) :
    giveUp f attempt poll = true := by
  unfold giveUp
  rcases h with h | h | h | h <;> simp [h]

/-- Which failure each outcome of an exchange is: transport failures (flagged when caused by the
caller), authentication failures, or a non-2xx status; a 2xx response is a success whatever its
body (an unparseable body is not a request failure and is never retried — the loop has ended). -/
theorem outcome_classification (o : HttpOutcome) (w : World) :
    (handleOutcome o w).1 =
      match o with
      | .fail k _ => .error ⟨.transport, k == .user⟩
      | .response st _ body auth _ =>
        if w.cup.isSome ∧ !auth then .error ⟨.cupValidation, false⟩
        else if 200 ≤ st ∧ st < 300 then .ok body else .error ⟨.status, false⟩ := by
  unfold handleOutcome
  cases o with
  | fail k dt => rfl
  | response st ra body auth dt =>
    simp only
    have : (tick dt w).cup = w.cup := rfl
    rw [this]
    split
    · rfl
    · split <;> rfl

/-! ### Back-off (**backoff_window**) -/

/-- The wait armed after the `k`-th failure lies in `[2^(k-1) s − 500 ms, 2^(k-1) s + 500 ms)`. -/
theorem backoff_window (k : Nat) (j : Int) (hk : 1 ≤ k) :
    2 ^ (k - 1) * 1000 - 500 ≤ backoffMs k j ∧ backoffMs k j < 2 ^ (k - 1) * 1000 + 500 := by
  unfold backoffMs
  have hp : 1 ≤ 2 ^ (k - 1) := Nat.one_le_two_pow
  have h1 : 0 ≤ j % 1000 := Int.emod_nonneg _ (by decide)
  have h2 : j % 1000 < 1000 := Int.emod_lt_of_pos _ (by decide)
  constructor
  · omega
  · have : (j % 1000).toNat < 1000 := by omega
    omega

/-- The three possible bases: 1 s, 2 s (and 4 s, never armed because the third failure ends the
loop). -/
theorem backoff_bases : (2 ^ (1 - 1) * 1000 = 1000) ∧ (2 ^ (2 - 1) * 1000 = 2000) := by decide

/-! ### Event reports and pings are sent once (**single_shot_reports**) -/

def isHttpB : Action → Bool
  | .http _ _ => true
  | _ => false

def httpCount (w : World) : Nat := (w.trace.filter isHttpB).length

theorem httpCount_omahaRequest_le (k : ReqKind) (b : Request.Builder) (w : World) :
    httpCount (omahaRequest k b w).2 ≤ httpCount w + 1 := by
  unfold omahaRequest
  split
  · simp [httpCount, emit, isHttpB]
  · simp only
    obtain ⟨d, e, p⟩ := adds_handleOutcome (sendRequest k b w).1 (sendRequest k b w).2
    obtain ⟨req, _, ht⟩ := sendRequest_trace k b w
    unfold httpCount
    rw [e, ht, List.filter_append]
    have : d.filter isHttpB = [] := by
      rw [List.filter_eq_nil_iff]
      intro a ha
      rcases p a ha with h | h <;> cases a <;> simp_all [isEvent, isStorage, isHttpB]
    simp [this, List.filter_cons, isHttpB]

theorem httpCount_of_adds {P : Action → Prop} {w w' : World} (h : Adds P w w')
    (hp : ∀ a, P a → isHttpB a = false) : httpCount w' = httpCount w := by
  obtain ⟨d, e, p⟩ := h
  unfold httpCount
  rw [e, List.filter_append]
  have : d.filter isHttpB = [] := by
    rw [List.filter_eq_nil_iff]
    intro a ha; simp [hp a (p a ha)]
  simp [this]

/-- An event report is one exchange at most, delivered or not (a lost report is counted by a
metric, never re-sent). -/
theorem report_single_shot (params : RequestParams) (ev : Omaha.Event) (apps : List App) (session : Nat)
    (nv : List (Bytes × Option Bytes)) (ns : Option Nat) (w : World) :
    httpCount (reportEvent params ev apps session nv ns w) ≤ httpCount w + 1 := by
  unfold reportEvent
  simp only
  generalize hb : (withRequestId _ w) = bw
  have hbw : bw.2.trace = w.trace := by rw [← hb]; rfl
  have := httpCount_omahaRequest_le .eventReport bw.1 bw.2
  split
  · simpa [httpCount, hbw] using this
  · rw [httpCount_of_adds (adds_metric _ _) (fun a h => by cases a <;> simp_all [isMetric, isHttpB])]
    simpa [httpCount, hbw] using this

/-! ### Metrics account for the attempts made (**metrics_account**) -/

theorem giveUp_third (f : ReqFail) (attempt : Nat) (poll : Option Nat) (h : 3 ≤ attempt) :
    giveUp f attempt poll = true := by
  unfold giveUp
  cases f.err <;> simp <;> omega

/-- The attempt number the loop returns — which `perform_update_check` reports as
`RequestsPerCheck.count` — is the number of attempts made: between the starting number and 3. -/
theorem attempts_range (fuel attempt : Nat) (b : Request.Builder) (w : World)
    (h : attempt + fuel = 4) (hf : 1 ≤ fuel) :
    attempt ≤ (attemptLoop fuel attempt b w).2.1 ∧ (attemptLoop fuel attempt b w).2.1 ≤ 3 := by
  induction fuel generalizing attempt b w with
  | zero => omega
  | succ fuel ih =>
    unfold attemptLoop
    simp only
    generalize omahaRequest .updateCheck (withRequestId b w).1 (withRequestId b w).2 = r
    generalize (if w.clock.mono ≤ r.2.clock.mono then metric (.responseTime (r.2.clock.mono - w.clock.mono).toNat (isOk r.1)) r.2 else r.2) = wm
    cases r.1 with
    | ok body => exact ⟨Nat.le_refl attempt, by show attempt ≤ 3; omega⟩
    | error f =>
      simp only
      by_cases hg : giveUp f attempt wm.ctx.st.poll = true
      · rw [if_pos hg]
        exact ⟨Nat.le_refl attempt, by show attempt ≤ 3; omega⟩
      · rw [if_neg hg]
        cases fuel with
        | zero => exact absurd (giveUp_third f attempt _ (by omega)) hg
        | succ fuel' =>
          have := ih (attempt + 1) (withRequestId b w).1 (backoff attempt wm) (by omega) (by omega)
          exact ⟨Nat.le_trans (Nat.le_succ _) this.1, this.2⟩

/-- For a check: `RequestsPerCheck.count ∈ {1, 2, 3}`. -/
theorem requests_per_check_range (b : Request.Builder) (w : World) :
    1 ≤ (attemptLoop 3 1 b w).2.1 ∧ (attemptLoop 3 1 b w).2.1 ≤ 3 := attempts_range 3 1 b w rfl (by omega)

/-! ### The metrics account for exactly the attempts made -/

/-- An attempt of an update check: the request went on the wire, or could not be built. -/
def isAttempt : Action → Bool
  | .http r _ => r.kind == .updateCheck
  | .buildError k _ => k == .updateCheck
  | _ => false

def isRT : Action → Bool
  | .metric (.responseTime _ _) => true
  | _ => false

def countA (p : Action → Bool) (w : World) : Nat := (w.trace.filter p).length

theorem countA_of_adds (p : Action → Bool) {P : Action → Prop} {w w' : World} (h : Adds P w w')
    (hp : ∀ a, P a → p a = false) : countA p w' = countA p w := by
  obtain ⟨d, e, q⟩ := h
  unfold countA
  rw [e, List.filter_append]
  have : d.filter p = [] := by
    rw [List.filter_eq_nil_iff]
    intro a ha; simp [hp a (q a ha)]
  simp [this]

theorem countA_emit (p : Action → Bool) (a : Action) (w : World) : countA p (emit a w) = countA p w + (if p a then 1 else 0) := by
  unfold countA emit
  simp only [List.filter_cons]
  split <;> simp [Nat.add_comm]

/-- One call of the request function for an update check is exactly one attempt and emits no
response-time metric itself. -/
theorem omahaRequest_uc_counts (b : Request.Builder) (w : World) :
    countA isAttempt (omahaRequest .updateCheck b w).2 = countA isAttempt w + 1 ∧
    countA isRT (omahaRequest .updateCheck b w).2 = countA isRT w := by
  unfold omahaRequest
  split
  · rw [countA_emit, countA_emit]; simp [isAttempt, isRT]
  · simp only
    have hA := countA_of_adds isAttempt (adds_handleOutcome (sendRequest .updateCheck b w).1 (sendRequest .updateCheck b w).2)
      (fun a h => by rcases h with h | h <;> cases a <;> simp_all [isEvent, isStorage, isAttempt])
    have hR := countA_of_adds isRT (adds_handleOutcome (sendRequest .updateCheck b w).1 (sendRequest .updateCheck b w).2)
      (fun a h => by rcases h with h | h <;> cases a <;> simp_all [isEvent, isStorage, isRT])
    rw [hA, hR]
    obtain ⟨req, hk, ht⟩ := sendRequest_trace .updateCheck b w
    unfold countA
    rw [ht, List.filter_cons, List.filter_cons]
    simp [isAttempt, isRT, hk]

/-- **requests_per_check_counts_attempts.** The attempt number the loop returns (reported as
`RequestsPerCheck.count`) is exactly the number of attempts made — requests sent plus requests that
could not be built — and the loop emits at most one response-time metric per attempt (exactly one
whenever the monotonic clock has not gone backwards during the attempt: the `if` in the code). -/
theorem attemptLoop_accounting (fuel attempt : Nat) (b : Request.Builder) (w : World) (h : attempt + fuel = 4) (hf : 1 ≤ fuel) :
    countA isAttempt (attemptLoop fuel attempt b w).2.2 + attempt = countA isAttempt w + (attemptLoop fuel attempt b w).2.1 + 1 ∧
    countA isRT (attemptLoop fuel attempt b w).2.2 + attempt ≤ countA isRT w + (attemptLoop fuel attempt b w).2.1 + 1 := by
  induction fuel generalizing attempt b w with
  | zero => omega
  | succ fuel ih =>
    unfold attemptLoop
    simp only
    generalize hr : omahaRequest .updateCheck (withRequestId b w).1 (withRequestId b w).2 = r
    have hreq := omahaRequest_uc_counts (withRequestId b w).1 (withRequestId b w).2
    rw [hr] at hreq
    have hw0 : countA isAttempt (withRequestId b w).2 = countA isAttempt w ∧ countA isRT (withRequestId b w).2 = countA isRT w := ⟨rfl, rfl⟩
    rw [hw0.1, hw0.2] at hreq
    generalize hm : (if w.clock.mono ≤ r.2.clock.mono then metric (.responseTime (r.2.clock.mono - w.clock.mono).toNat (isOk r.1)) r.2 else r.2) = wm
    have hwmA : countA isAttempt wm = countA isAttempt r.2 := by
      rw [← hm]; split
      · unfold metric; rw [countA_emit]; simp [isAttempt]
      · rfl
    have hwmR : countA isRT wm ≤ countA isRT r.2 + 1 := by
      rw [← hm]; split
      · unfold metric; rw [countA_emit]; simp [isRT]
      · omega
    cases hres : r.1 with
    | ok body => simp only; omega
    | error f =>
      simp only
      split
      · unfold yieldEv
        rw [countA_emit, countA_emit]
        simp [isAttempt, isRT]
        obtain ⟨hw1, hw2⟩ := hw0
        omega
      · cases fuel with
        | zero =>
          rename_i hg
          exact absurd (giveUp_third f attempt _ (by omega)) hg
        | succ fuel' =>
          have hb : countA isAttempt (backoff attempt wm) = countA isAttempt wm ∧ countA isRT (backoff attempt wm) = countA isRT wm := by
            unfold countA
            rw [backoff_trace]
            simp [List.filter_cons, isAttempt, isRT]
          have := ih (attempt + 1) (withRequestId b w).1 (backoff attempt wm) (by omega) (by omega)
          rw [hb.1, hb.2] at this
          omega

/-- For a whole check the loop is entered with `attempt = 1`: `count` attempts, at most `count`
response-time metrics. -/
theorem requests_per_check_counts_attempts (b : Request.Builder) (w : World) :
    countA isAttempt (attemptLoop 3 1 b w).2.2 = countA isAttempt w + (attemptLoop 3 1 b w).2.1 ∧
    countA isRT (attemptLoop 3 1 b w).2.2 ≤ countA isRT w + (attemptLoop 3 1 b w).2.1 := by
  have := attemptLoop_accounting 3 1 b w rfl (by omega)
  omega

/-! ### Non-vacuity -/

example : giveUp ⟨.transport, false⟩ 1 none = false ∧ giveUp ⟨.transport, true⟩ 1 none = true ∧
    giveUp ⟨.status, false⟩ 2 none = false ∧ giveUp ⟨.status, false⟩ 3 none = true ∧
    giveUp ⟨.status, false⟩ 1 (some 5) = true ∧ giveUp ⟨.cupValidation, false⟩ 1 none = true := by decide
example : backoffMs 1 123 = 623 ∧ backoffMs 2 123 = 1623 := by decide

end Omaha.SM
