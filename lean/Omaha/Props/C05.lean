/-
C05 — Policy consent gates every network, install and reboot action.
-/
import Omaha.Lemmas.SMRequests
import Omaha.Props.C04

namespace Omaha.SM

open Omaha

/-! ### The validity gate: the machine never starts with an invalid app -/

theorem valid_iff (a : App) : valid a = true ↔ a.id ≠ [] ∧ a.version ≠ ⟨0, 0, 0, 0⟩ := by
  unfold valid
  cases h : a.id <;> simp

/-- **invalid_apps_inert.** If any app has an empty id or version 0.0.0.0, `run` does nothing at all:
no policy question, no timer, no request. -/
theorem invalid_apps_inert (w : World) (h : ∃ a ∈ w.apps, a.id = [] ∨ a.version = ⟨0, 0, 0, 0⟩) :
    runStart w = none := by
  unfold runStart
  obtain ⟨a, ha, hbad⟩ := h
  have : w.apps.all valid = false := by
    rw [List.all_eq_false]
    refine ⟨a, ha, ?_⟩
    have := (valid_iff a)
    rcases hbad with h | h
    · intro hv; exact (this.1 hv).1 h
    · intro hv; exact (this.1 hv).2 h
  simp [this]

theorem valid_apps_start (w : World) (h : ∀ a ∈ w.apps, a.id ≠ [] ∧ a.version ≠ ⟨0, 0, 0, 0⟩) :
    (runStart w).isSome := by
  unfold runStart
  have : w.apps.all valid = true := by
    rw [List.all_eq_true]
    intro a ha; exact (valid_iff a).2 (h a ha)
  simp [this]

/-! ### Every request of a check carries the parameters the policy returned -/

/-- The request says what the parameters say: install source (and hence the interactivity header,
which the builder derives from it), and update-check flags wherever an update check is present. -/
def CarriesParams (params : RequestParams) : Action → Prop
  | .http r _ => r.source = params.source ∧
      ∀ x ∈ r.apps, x.updateCheck = none ∨ x.updateCheck = some (params.disableUpdates, params.offerUpdateIfSameVersion)
  | _ => True

theorem carries_of_canon (params : RequestParams) (session : Nat) (a : Action)
    (h : HttpFrom (Canon params session) a) : CarriesParams params a := by
  cases a with
  | http r o =>
    obtain ⟨b, n, ⟨hp, _, he⟩, hr⟩ := h
    rw [hr]
    refine ⟨by simp [mkReq, hp], ?_⟩
    intro x hx
    simp only [mkReq, wireApps, List.mem_map] at hx
    obtain ⟨e, hem, rfl⟩ := hx
    exact he e hem
  | _ => trivial

/-- **params_on_every_request.** Every request the check puts on the wire — each update-check
attempt including retries, and each event report — carries the check's parameters. -/
theorem check_requests_carry_params (params : RequestParams) (apps : List App) (w : World) :
    Adds (CarriesParams params) w (performUpdateCheck params apps w).2 :=
  (addsR_performUpdateCheck params apps w).mono (carries_of_canon params _)

/-- In `run`, those parameters are the ones of the policy's positive answer. -/
theorem run_check_uses_policy_params (u : UnitEnv) (opts : InstallSource) (ctl : Option Nat) (w : World)
    (params : RequestParams) (h : u.allow = .ok params ∨ u.allow = .okUpdateDeferred params) :
    (decideAndCheck u opts ctl w).2 =
      (afterCheck u (upgradeOpts u.during opts)
        (startUpdateCheck params (replyDuring u.during (replyCtl ctl .started
          (emit (.policyAllowed w.apps w.ctx.sched w.ctx.st opts u.allow) w)))).1
        (startUpdateCheck params (replyDuring u.during (replyCtl ctl .started
          (emit (.policyAllowed w.apps w.ctx.sched w.ctx.st opts u.allow) w)))).2).2 := by
  unfold decideAndCheck
  rcases h with h | h <;> simp [h]

/-- The update-check request itself asks for every app with exactly the policy's flags. -/
def AllUc (params : RequestParams) (b : Request.Builder) : Prop :=
  b.params = params ∧ ∀ e ∈ b.entries, e.updateCheck = some (params.disableUpdates, params.offerUpdateIfSameVersion)

theorem insertAndModify_allUc (flags : Bool × Bool) (entries : List Request.AppEntry) (app : App)
    (f : Request.AppEntry → Request.AppEntry) (he : ∀ e ∈ entries, e.updateCheck = some flags)
    (hf : ∀ e, (f e).updateCheck = some flags) :
    ∀ e ∈ Request.insertAndModify entries app f, e.updateCheck = some flags := by
  induction entries with
  | nil =>
    intro e h
    simp only [Request.insertAndModify, List.mem_singleton] at h
    subst h; exact hf _
  | cons x xs ih =>
    intro e h
    unfold Request.insertAndModify at h
    split at h
    · simp only [List.mem_cons] at h
      rcases h with rfl | h
      · exact hf _
      · exact he e (by simp [h])
    · simp only [List.mem_cons] at h
      rcases h with rfl | h
      · exact he e (by simp)
      · exact ih (fun e' h' => he e' (by simp [h'])) e h

theorem insertAndModify_keepUc (flags : Bool × Bool) (entries : List Request.AppEntry) (app : App)
    (f : Request.AppEntry → Request.AppEntry) (he : ∀ e ∈ entries, e.updateCheck = some flags)
    (hf : ∀ e, (f e).updateCheck = e.updateCheck) (hin : ∃ e ∈ entries, e.app.id = app.id) :
    ∀ e ∈ Request.insertAndModify entries app f, e.updateCheck = some flags := by
  induction entries with
  | nil => obtain ⟨_, h, _⟩ := hin; simp at h
  | cons x xs ih =>
    intro e h
    unfold Request.insertAndModify at h
    split at h
    · simp only [List.mem_cons] at h
      rcases h with rfl | h
      · rw [hf]; exact he x (by simp)
      · exact he e (by simp [h])
    · rename_i hne
      simp only [List.mem_cons] at h
      rcases h with rfl | h
      · exact he e (by simp)
      · refine ih (fun e' h' => he e' (by simp [h'])) ?_ e h
        obtain ⟨y, hy, hid⟩ := hin
        simp only [List.mem_cons] at hy
        rcases hy with rfl | hy
        · exact absurd hid hne
        · exact ⟨y, hy, hid⟩

theorem insertAndModify_has (entries : List Request.AppEntry) (app : App) (f : Request.AppEntry → Request.AppEntry)
    (hf : ∀ e, (f e).app.id = e.app.id) :
    ∃ e ∈ Request.insertAndModify entries app f, e.app.id = app.id := by
  induction entries with
  | nil => exact ⟨f { app := app }, by simp [Request.insertAndModify], by rw [hf]⟩
  | cons x xs ih =>
    unfold Request.insertAndModify
    split
    · rename_i h; exact ⟨f x, by simp, by rw [hf]; exact h⟩
    · obtain ⟨e, he, hid⟩ := ih; exact ⟨e, by simp [he], hid⟩

theorem allUc_checkFold (params : RequestParams) (apps : List App) (b : Request.Builder) (h : AllUc params b) :
    AllUc params (apps.foldl (fun b app => (b.apply (.updateCheck app)).apply (.ping app)) b) := by
  induction apps generalizing b with
  | nil => exact h
  | cons a rest ih =>
    simp only [List.foldl_cons]
    apply ih
    obtain ⟨hp, he⟩ := h
    refine ⟨hp, ?_⟩
    simp only [Request.Builder.apply]
    rw [hp]
    refine insertAndModify_keepUc (params.disableUpdates, params.offerUpdateIfSameVersion) _ a Request.setPing ?_
      (fun e => rfl) ?_
    · exact insertAndModify_allUc _ _ _ _ he (fun e => rfl)
    · exact insertAndModify_has _ _ _ (fun e => rfl)

theorem allUc_checkBuilder (params : RequestParams) (apps : List App) (session : Nat) :
    AllUc params (checkBuilder params apps session) := by
  unfold checkBuilder
  have := allUc_checkFold params apps { params := params } ⟨rfl, fun _ h => by simp at h⟩
  exact ⟨this.1, this.2⟩

/-- **uc_requests_flags.** Every attempt of the check's update-check request, retries included,
lists an update check for every entry, with the policy's flags and install source. -/
theorem attempts_carry_flags (params : RequestParams) (apps : List App) (session : Nat) (fuel attempt : Nat) (w : World) :
    Adds (HttpFrom (AllUc params)) w (attemptLoop fuel attempt (checkBuilder params apps session) w).2.2 :=
  addsB_attemptLoop (AllUc params) (fun _ _ h => h) fuel attempt _ w (allUc_checkBuilder params apps session)

/-! ### Negative decisions: nothing happens -/

/-- What may happen in an iteration of `run` up to and including a negative policy decision: the
pending reboot-duration report (metric, storage), the timing question and its announcement, timers,
the decision, replies. No request, no plan, no install, no reboot. -/
def tInert : Tag → Bool
  | .metric | .storage | .pNext | .schedEv | .timerArm | .timerFire | .pAllowed | .reply => true
  | _ => false

theorem addsT_waitedStep (rs : RunState) (w : World) : AddsT tInert w (waitedStep rs w).2 := by
  unfold waitedStep
  split
  · split
    · split
      · rename_i w1 hw
        have h1 : AddsT tInert w w1 := by
          unfold reportWaited at hw
          simp only at hw
          split at hw
          · cases hw
          · split at hw
            · cases hw
            · split at hw
              · cases hw
              · cases hw; exact addsT_metric tInert _ _ rfl
        exact ((h1.trans (addsT_storeOp_ tInert rfl _ _)).trans (addsT_storeOp_ tInert rfl _ _)).trans
          (addsT_storeOp_ tInert rfl _ _)
      · exact AddsT.refl _ _
    · exact AddsT.refl _ _
  · exact AddsT.refl _ _

theorem addsT_outerWait (need : List Nat) (steps : List WaitStep) (w : World) :
    AddsT tInert w (outerWait need steps w).2 := by
  induction steps generalizing need w with
  | nil => unfold outerWait; exact AddsT.refl _ _
  | cons s rest ih =>
    cases s with
    | fire i =>
      unfold outerWait
      simp only
      split
      · exact addsT_emit tInert _ _ rfl
      · exact (addsT_emit tInert (.timerFire i) w rfl).trans (ih _ _)
    | ctl id src => unfold outerWait; exact AddsT.refl _ _

theorem addsT_replyCtl (ok : Tag → Bool) (hr : ok .reply = true) (ctl : Option Nat) (r : Reply) (w : World) :
    AddsT ok w (replyCtl ctl r w) := by
  unfold replyCtl
  split
  · exact addsT_emit ok _ _ (by simpa [Action.tag] using hr)
  · exact AddsT.refl _ _

/-- **negative_decision_inert.** When the policy answers TooSoon, ThrottledByPolicy or
DeniedByPolicy, the iteration consists of the question and (for a requested check) the Throttled
reply — no request is sent, nothing is installed, no reboot. -/
theorem negative_decision_inert (u : UnitEnv) (opts : InstallSource) (ctl : Option Nat) (w : World)
    (h : u.allow = .tooSoon ∨ u.allow = .throttled ∨ u.allow = .denied) :
    AddsT tInert w (decideAndCheck u opts ctl w).2 ∧ (decideAndCheck u opts ctl w).1 = .completed := by
  unfold decideAndCheck
  have h0 : ∀ d, AddsT tInert w (emit (.policyAllowed w.apps w.ctx.sched w.ctx.st opts d) w) :=
    fun d => addsT_emit tInert _ w rfl
  rcases h with h | h | h <;> simp only [h] <;>
    exact ⟨(h0 _).trans (addsT_replyCtl tInert rfl _ _ _), trivial⟩

/-- Nothing is sent, installed or rebooted before the policy has been asked, in any iteration. -/
theorem before_decision_inert (u : UnitEnv) (rs : RunState) (w : World) :
    let w0 : World := { w with env := u.env, nTimer := 0 }
    let w1 := (waitedStep rs w0).2
    let w2 := updateNext u.next w1
    let w3 := (armWait u.next w2).2
    AddsT tInert w0 (tick u.wakeDt (outerWait (armWait u.next w2).1 u.wake w3).2) := by
  intro w0 w1 w2 w3
  exact ((((addsT_waitedStep rs w0).trans (addsT_updateNext tInert rfl rfl u.next w1)).trans
    (addsT_armWait tInert rfl u.next w2)).trans (addsT_outerWait _ u.wake w3)).trans (addsT_tick _ _ _)

/-- A whole iteration with a negative decision is inert. -/
theorem runUnit_negative_inert (u : UnitEnv) (rs : RunState) (w : World)
    (h : u.allow = .tooSoon ∨ u.allow = .throttled ∨ u.allow = .denied) :
    AddsT tInert { w with env := u.env, nTimer := 0 } (runUnit u rs w).2.2 := by
  unfold runUnit
  simp only
  have hb := before_decision_inert u rs w
  simp only at hb
  generalize (tick u.wakeDt (outerWait (armWait u.next (updateNext u.next (waitedStep rs { w with env := u.env, nTimer := 0 }).2)).1 u.wake
    (armWait u.next (updateNext u.next (waitedStep rs { w with env := u.env, nTimer := 0 }).2)).2).2) = w4 at hb
  split
  · exact hb
  · exact hb.trans (negative_decision_inert u _ _ w4 h).1
  · exact hb.trans (negative_decision_inert u _ _ w4 h).1


/-! ### The install gate: plan, policy decision, install, reboot-needed question -/

inductive Gate where
  | plan (answer : Option Nat)
  | canStart (plan : Nat) (d : UpdateDecision)
  | install (plan : Nat)
  | rebootNeeded (plan : Nat) (answer : Bool)
  deriving DecidableEq, Repr

def πGate : Action → Option Gate
  | .plan _ _ a => some (.plan a)
  | .policyCanStart p d => some (.canStart p d)
  | .install p _ _ => some (.install p)
  | .policyRebootNeeded p b => some (.rebootNeeded p b)
  | _ => none

def gates (w : World) : List Gate := proj πGate w

def NoGates (ok : Tag → Bool) : Prop :=
  ok .plan = false ∧ ok .pCanStart = false ∧ ok .install = false ∧ ok .pRebootNeeded = false

theorem πGate_none {ok : Tag → Bool} (h : NoGates ok) (a : Action) (ha : ok a.tag = true) : πGate a = none := by
  cases a <;> first | rfl | (simp [Action.tag, h.1, h.2.1, h.2.2.1, h.2.2.2] at ha)

theorem gates_of_addsT {ok : Tag → Bool} (hq : NoGates ok) {w w' : World} (h : AddsT ok w w') : gates w' = gates w :=
  proj_of_addsT πGate h (πGate_none hq)

theorem noGates_tQuiet : NoGates tQuiet := ⟨rfl, rfl, rfl, rfl⟩

theorem gates_emit (a : Action) (w : World) : gates (emit a w) = (πGate a).toList ++ gates w := proj_emit _ _ _

/-- The install-path questions and calls the script leads to, in order: the plan; if there is one,
the policy's decision; only if that is Ok, the install; and only if no app failed, the
reboot-needed question. -/
def gatesOf (env : Env) : List Gate :=
  match env.plan with
  | none => [.plan none]
  | some p =>
    match env.canStart with
    | .ok => [.plan (some p), .canStart p .ok, .install p] ++
        (if noFailure env.results then [.rebootNeeded p env.rebootNeeded] else [])
    | d => [.plan (some p), .canStart p d]

def tEvState : Tag → Bool
  | .stateEv _ | .insterrEv | .progressEv => true
  | t => tQuiet t

theorem noGates_tEvState : NoGates tEvState := ⟨rfl, rfl, rfl, rfl⟩

theorem tQuiet_le_tEvState (t : Tag) (h : tQuiet t = true) : tEvState t = true := by
  cases t <;> simp_all [tQuiet, tEvState]

theorem gates_yield (e : Event) (w : World) : gates (yieldEv e w) = gates w := by
  unfold yieldEv; rw [gates_emit]; rfl

theorem gates_reportEvent (params : RequestParams) (ev : Omaha.Event) (apps : List App) (session : Nat)
    (nv : List (Bytes × Option Bytes)) (ns : Option Nat) (w : World) :
    gates (reportEvent params ev apps session nv ns w) = gates w :=
  gates_of_addsT noGates_tQuiet (addsQ_reportEvent _ _ _ _ _ _ _)

theorem gates_insterrFold (ms : List Nat) (w : World) :
    gates (ms.foldl (fun w m => yieldEv (.installerError m) w) w) = gates w :=
  gates_of_addsT noGates_tEvState (addsG_insterrFold tEvState rfl ms w)

theorem gates_progressFold (ps : List Nat) (w : World) :
    gates (ps.foldl (fun w k => yieldEv (.progress k) w) w) = gates w :=
  gates_of_addsT noGates_tEvState (addsG_progressFold tEvState rfl ps w)

theorem gates_runInstall (planId : Nat) (w : World) : gates (runInstall planId w) = .install planId :: gates w := by
  unfold runInstall
  have : gates (tick w.env.installDt (w.env.progress.foldl (fun w k => yieldEv (.progress k) w)
      (emit (.install planId w.env.progress w.env.results) w))) =
      gates (w.env.progress.foldl (fun w k => yieldEv (.progress k) w) (emit (.install planId w.env.progress w.env.results) w)) := rfl
  rw [this, gates_progressFold, gates_emit]; rfl

theorem gates_recordFinish (planId : Nat) (firstSeen finish : Int) (nv : List (Bytes × Option Bytes)) (w : World) :
    gates (recordFinish planId firstSeen finish nv w).2 =
      .rebootNeeded planId (recordFinish planId firstSeen finish nv w).1 :: gates w := by
  unfold recordFinish
  simp only
  rw [gates_emit]
  have h1 : AddsT tQuiet w (firstSeenMetric firstSeen finish w) := by
    unfold firstSeenMetric
    split
    · exact addsT_metric _ _ _ rfl
    · exact AddsT.refl _ _
  have h2 := h1.trans (addsT_setTime tQuiet rfl kFinishTime finish _)
  generalize (setTime kFinishTime finish (firstSeenMetric firstSeen finish w)).2 = w2 at h2
  have h3 : AddsT tQuiet w (setTargetVersion nv w2) := by
    unfold setTargetVersion
    split
    · exact h2.trans (addsT_storeOp_ _ rfl _ _)
    · exact h2
  rw [gates_of_addsT noGates_tQuiet (h3.trans (addsT_storeOp_ tQuiet rfl .commit _))]
  rfl

/-- **install_only_after_ok / reboot question only on full success.** For every world and
environment, the plan / decision / install / reboot-needed actions of the update path are exactly
`gatesOf`: the installer runs iff the policy answered Ok for that plan, after that answer; a
deferral or denial is followed by no install; the reboot-needed question is asked iff the install
ran and no app failed. -/
theorem updatePhase_gates (params : RequestParams) (apps : List App) (session : Nat) (response : Resp.Response)
    (w : World) : gates (updatePhase params apps session response w).2 = (gatesOf w.env).reverse ++ gates w := by
  unfold updatePhase gatesOf
  simp only
  split
  · rename_i hp
    simp only [emit] at hp
    unfold planFailedPhase
    rw [gates_reportEvent, gates_yield, gates_yield, gates_emit, hp]
    rfl
  · rename_i planId hp
    simp only [emit] at hp
    simp only [hp]
    split
    · rename_i hc
      simp only [emit] at hc
      unfold deferredPhase
      rw [gates_yield, gates_reportEvent, gates_emit, gates_emit]
      simp only [emit_env, hc]; rfl
    · rename_i hc
      simp only [emit] at hc
      unfold deniedPhase
      rw [gates_reportEvent, gates_emit, gates_emit]
      simp only [emit_env, hc]; rfl
    · rename_i hc
      simp only [emit] at hc
      simp only [emit_env, hc]
      generalize hw0 : emit (.policyCanStart planId UpdateDecision.ok) (emit (.plan params.source w.cup.isSome (some planId)) w) = w0
      have g0 : gates w0 = [.canStart planId .ok, .plan (some planId)] ++ gates w := by
        rw [← hw0, gates_emit, gates_emit]; rfl
      have f0 : Frame w w0 := by rw [← hw0]; exact (frame_emit _ _).trans (frame_emit _ _)
      unfold installPhase
      simp only
      have f1 := (f0.trans (frame_yield (.state .installing) w0)).trans
        (frame_reportEvent params (eventSuccess 13) apps session (nextVersions response) none _)
      have g1 : gates (reportEvent params (eventSuccess 13) apps session (nextVersions response) none (yieldEv (.state .installing) w0)) = gates w0 := by
        rw [gates_reportEvent, gates_yield]
      generalize reportEvent params (eventSuccess 13) apps session (nextVersions response) none (yieldEv (.state .installing) w0) = w1 at f1 g1
      have f2 := f1.trans (frame_recordFirstSeen (planIdText planId) w1.clock.wall w1)
      have g2 : gates (recordFirstSeen (planIdText planId) w1.clock.wall w1).2 = gates w0 := by
        rw [gates_of_addsT noGates_tQuiet (addsQ_recordFirstSeen _ _ _), g1]
      generalize recordFirstSeen (planIdText planId) w1.clock.wall w1 = r2 at f2 g2
      have f3 := f2.trans (frame_runInstall planId r2.2)
      have g3 : gates (runInstall planId r2.2) = .install planId :: gates w0 := by rw [gates_runInstall, g2]
      generalize runInstall planId r2.2 = w3 at f3 g3
      have f4 := f3.trans (frame_durationMetric w1.clock.wall r2.2.env.results w3)
      have g4 : gates (durationMetric w1.clock.wall r2.2.env.results w3).2 = .install planId :: gates w0 := by
        rw [gates_of_addsT noGates_tQuiet (addsQ_durationMetric _ _ _), g3]
      generalize durationMetric w1.clock.wall r2.2.env.results w3 = r4 at f4 g4
      have f5 := f4.trans (frame_reportInstall params apps session (nextVersions response) response r2.2.env.results r4.1 r4.2)
      have g5 : gates (reportInstall params apps session (nextVersions response) response r2.2.env.results r4.1 r4.2) = .install planId :: gates w0 := by
        rw [gates_of_addsT noGates_tQuiet (addsQ_reportInstall _ _ _ _ _ _ _ _), g4]
      generalize reportInstall params apps session (nextVersions response) response r2.2.env.results r4.1 r4.2 = w5 at f5 g5
      rw [f2.results]
      unfold finishInstall
      have hE := failedMessages_isEmpty w.env.results
      split
      · rename_i h
        have hn : noFailure w.env.results = false := by rw [← hE]; simpa using h
        rw [gates_yield, gates_insterrFold, g5, g0]
        simp [hn]
      · rename_i h
        have hn : noFailure w.env.results = true := by rw [← hE]; simpa using h
        rw [gates_recordFinish, g5, g0, recordFinish_fst, (f5.trans (frame_recordFinish _ _ _ _ _)).rebootNeeded]
        simp [hn]

theorem install_iff (env : Env) :
    (∃ p, Gate.install p ∈ gatesOf env) ↔ (∃ p, env.plan = some p) ∧ env.canStart = .ok := by
  unfold gatesOf
  cases env.plan with
  | none => simp
  | some p => cases env.canStart <;> simp

theorem install_after_ok (env : Env) (p : Nat) (h : Gate.install p ∈ gatesOf env) :
    ∃ rest, gatesOf env = [.plan (some p), .canStart p .ok, .install p] ++ rest := by
  unfold gatesOf at h ⊢
  cases hp : env.plan with
  | none => simp [hp] at h
  | some q =>
    simp only [hp] at h ⊢
    cases hc : env.canStart <;> simp [hc] at h ⊢
    exact h.symm

theorem rebootNeeded_iff (env : Env) :
    (∃ p b, Gate.rebootNeeded p b ∈ gatesOf env) ↔
      (∃ p, env.plan = some p) ∧ env.canStart = .ok ∧ noFailure env.results = true := by
  unfold gatesOf
  cases env.plan with
  | none => simp
  | some p =>
    cases env.canStart <;> simp

/-! ### The reboot gate -/

/-- The reboot wait says "reboot now" only as its very last step, right after the policy answered
`true` to "may I reboot now" — so the most recent answer is yes. -/
theorem rebootLoop_true_last (opts : InstallSource) (t30 : Nat) (pingNeed : List Nat) (steps : List (WaitStep × Clock))
    (answers : List Bool) (nexts : List Timing) (w : World)
    (h : (rebootLoop opts t30 pingNeed steps answers nexts w).1 = some true) :
    ∃ o rest, (rebootLoop opts t30 pingNeed steps answers nexts w).2.trace = .policyRebootAllowed o true :: rest := by
  fun_induction rebootLoop opts t30 pingNeed steps answers nexts w <;>
    first | exact ⟨_, _, rfl⟩ | simp_all

theorem rebootWait_true_last (opts : InstallSource) (u : UnitEnv) (w : World)
    (h : (rebootWait opts u w).1 = some true) :
    ∃ o rest, (rebootWait opts u w).2.trace = .policyRebootAllowed o true :: rest := by
  unfold rebootWait at h ⊢
  by_cases ha : (popBool u.rebootAllowed).1 = true
  · simp only [ha, if_true]
    exact ⟨opts, _, rfl⟩
  · simp only [ha] at h ⊢
    exact rebootLoop_true_last _ _ _ _ _ _ _ h

/-- **reboot_gate.** `wait_for_reboot` calls the installer's reboot iff the wait ended with the
policy's most recent answer being yes; the reboot call is then the next action after that answer,
and no other reboot call is made. -/
theorem waitForReboot_reboot (opts : InstallSource) (u : UnitEnv) (w : World) :
    ((waitForReboot opts u w).1 = some true →
      ∃ o rest, (waitForReboot opts u w).2.trace = .reboot u.rebootOk :: .policyRebootAllowed o true :: rest) ∧
    ((waitForReboot opts u w).1 ≠ some true → AddsT tRebootWait w (waitForReboot opts u w).2) := by
  unfold waitForReboot doReboot
  have hl := rebootWait_true_last opts u w
  have ha := addsT_rebootWait opts u w
  generalize rebootWait opts u w = p at hl ha
  obtain ⟨d, w1⟩ := p
  cases d with
  | none => exact ⟨fun h => by simp at h, fun _ => ha⟩
  | some b =>
    cases b with
    | false => exact ⟨fun h => by simp at h, fun _ => ha⟩
    | true =>
      refine ⟨fun _ => ?_, fun h => absurd rfl h⟩
      obtain ⟨o, rest, hr⟩ := hl rfl
      exact ⟨o, rest, by simp only [emit] at hr ⊢; simp [hr]⟩

/-- The reboot wait — and with it any ping and any reboot — is entered only when the check reported
that a reboot is pending; by `performUpdateCheck_result` that is exactly an install in which no
app failed and for which the policy said a reboot is needed. -/
theorem afterCheck_no_reboot (u : UnitEnv) (opts : InstallSource) (w : World) :
    (afterCheck u opts (some false) w).2 = yieldEv (.state .idle) w ∧ (afterCheck u opts none w).2 = w := by
  unfold afterCheck; exact ⟨rfl, rfl⟩

/-! ### Non-vacuity -/

example : gatesOf { plan := some 3, canStart := .ok, results := [.installed, .deferred], rebootNeeded := true } =
    [.plan (some 3), .canStart 3 .ok, .install 3, .rebootNeeded 3 true] := by decide

example : gatesOf { plan := some 3, canStart := .denied, results := [.installed], rebootNeeded := true } =
    [.plan (some 3), .canStart 3 .denied] := by decide

example : gatesOf { plan := some 3, canStart := .ok, results := [.installed, .failed 1], rebootNeeded := true } =
    [.plan (some 3), .canStart 3 .ok, .install 3] := by decide

example : valid { id := [], version := ⟨1, 0, 0, 0⟩ } = false ∧ valid { id := [97], version := ⟨0, 0, 0, 0⟩ } = false ∧
    valid { id := [97], version := ⟨0, 0, 0, 1⟩ } = true := by decide

end Omaha.SM
