/-
Bytes, hexadecimal and decimal text, and Rust's unsigned-integer grammar.

Model files import nothing outside core Lean so that the driver links as a `lean_exe`.
Text is modelled as the list of its UTF-8 bytes (every parser of the library that is modelled
here works byte-wise on ASCII delimiters).
-/

namespace Omaha

abbrev Bytes := List UInt8

namespace Bytes

/-- Bytes of an ASCII Lean string literal (used for literals only; written through `toList` so
that the kernel can evaluate it). -/
def ofString (s : String) : Bytes := s.toList.map fun c => UInt8.ofNat c.toNat

/-- Render bytes that are known to be ASCII as a Lean string (driver output only). -/
def toAsciiString (b : Bytes) : String :=
  String.ofList (b.map fun x => Char.ofNat x.toNat)

/-- Split on a delimiter byte, as `str::split(char)` does for an ASCII delimiter:
always at least one part, empty parts kept. -/
def splitOn (d : UInt8) : Bytes → List Bytes
  | [] => [[]]
  | x :: xs =>
    if x = d then [] :: splitOn d xs
    else match splitOn d xs with
      | [] => [[x]]            -- unreachable, `splitOn` is never empty
      | p :: ps => (x :: p) :: ps

/-- Join parts with a delimiter byte. -/
def joinWith (d : UInt8) : List Bytes → Bytes
  | [] => []
  | [p] => p
  | p :: q :: ps => p ++ d :: joinWith d (q :: ps)

end Bytes

/-! ## Decimal -/

namespace Dec

/-- Value of an ASCII decimal digit. -/
def digitVal (b : UInt8) : Option Nat :=
  if 48 ≤ b.toNat ∧ b.toNat ≤ 57 then some (b.toNat - 48) else none

/-- The ASCII digit for `d < 10`. -/
def digitByte (d : Nat) : UInt8 := UInt8.ofNat (48 + d % 10)

/-- Accumulate decimal digits left to right; `none` on the first non-digit. -/
def foldDigits : Nat → Bytes → Option Nat
  | acc, [] => some acc
  | acc, b :: bs =>
    match digitVal b with
    | some d => foldDigits (acc * 10 + d) bs
    | none => none

/-- Rust's `uN::from_str` (radix 10): an optional single leading `+`, then at least one ASCII
digit and nothing else, value at most `max`. (`-` is not stripped for unsigned types and is
therefore an invalid digit; the empty string and a lone sign are errors.) -/
def stripPlus : Bytes → Bytes
  | 43 :: rest => rest
  | s => s

/-- At least one digit, nothing else, value at most `max`. -/
def parseBody (max : Nat) (body : Bytes) : Option Nat :=
  if body = [] then none
  else match foldDigits 0 body with
    | some n => if n ≤ max then some n else none
    | none => none

def parseUnsigned (max : Nat) (s : Bytes) : Option Nat := parseBody max (stripPlus s)

def u32Max : Nat := 4294967295
def u64Max : Nat := 18446744073709551615

def parseU32 := parseUnsigned u32Max
def parseU64 := parseUnsigned u64Max

/-- Digits of `n`, least significant first, for `n > 0`; `[]` for 0.  Structural recursion on a
fuel argument (`n` itself is always enough) so that the kernel can evaluate it. -/
def revDigitsAux : Nat → Nat → List Nat
  | 0, _ => []
  | fuel + 1, n => if n = 0 then [] else (n % 10) :: revDigitsAux fuel (n / 10)

def revDigits (n : Nat) : List Nat := revDigitsAux n n

/-- Decimal rendering as Rust's `Display` for unsigned integers: no sign, no leading zeros,
`"0"` for zero. -/
def render (n : Nat) : Bytes :=
  if n = 0 then [48] else (revDigits n).reverse.map digitByte

/-- Rendering of a (possibly negative) integer as Rust's `Display` for signed integers. -/
def renderInt (i : Int) : Bytes :=
  if i < 0 then 45 :: render i.natAbs else render i.toNat

end Dec

/-! ## Hexadecimal -/

namespace Hex

def nibbleVal (b : UInt8) : Option Nat :=
  let n := b.toNat
  if 48 ≤ n ∧ n ≤ 57 then some (n - 48)
  else if 97 ≤ n ∧ n ≤ 102 then some (n - 87)
  else if 65 ≤ n ∧ n ≤ 70 then some (n - 55)
  else none

/-- Lower-case hex digit of `d < 16`. -/
def nibbleByte (d : Nat) : UInt8 :=
  if d % 16 < 10 then UInt8.ofNat (48 + d % 16) else UInt8.ofNat (87 + d % 16)

/-- `hex::encode`: two lower-case digits per byte. -/
def encode : Bytes → Bytes
  | [] => []
  | b :: bs => nibbleByte (b.toNat / 16) :: nibbleByte (b.toNat % 16) :: encode bs

/-- `hex::decode`: even length, digits of either case. -/
def decode : Bytes → Option Bytes
  | [] => some []
  | [_] => none
  | h :: l :: rest =>
    match nibbleVal h, nibbleVal l, decode rest with
    | some a, some b, some r => some (UInt8.ofNat (a * 16 + b) :: r)
    | _, _, _ => none

end Hex

end Omaha
