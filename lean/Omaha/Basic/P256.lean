/-
NIST P-256 ECDSA verification as an executable oracle (Jacobian coordinates over `Nat`).
Not proved against SEC 1 / FIPS 186; validated on the RFC 6979 A.2.5 vectors and against the
`p256` crate through the correspondence streams.
-/
import Omaha.Basic.Sha256

namespace Omaha.P256

def p : Nat := 0xffffffff00000001000000000000000000000000ffffffffffffffffffffffff
def n : Nat := 0xffffffff00000000ffffffffffffffffbce6faada7179e84f3b9cac2fc632551
def a : Nat := p - 3
def b : Nat := 0x5ac635d8aa3a93e7b3ebbd55769886bc651d06b0cc53b0f63bce3c3e27d2604b
def gx : Nat := 0x6b17d1f2e12c4247f8bce6e563a440f277037d812deb33a0f4a13945d898c296
def gy : Nat := 0x4fe342e2fe1a7f9b8ee7eb4a7c0f9e162bce33576b315ececbb6406837bf51f5

/-- `base ^ e mod m` by repeated squaring (fuel = bit length bound). -/
def powMod (m : Nat) : Nat → Nat → Nat → Nat → Nat
  | 0, _, _, acc => acc
  | fuel + 1, base, e, acc =>
    if e = 0 then acc
    else powMod m fuel (base * base % m) (e / 2) (if e % 2 = 1 then acc * base % m else acc)

def invMod (m x : Nat) : Nat := powMod m 300 (x % m) (m - 2) 1

/-- Jacobian point; `z = 0` is the point at infinity. -/
structure Jac where
  x : Nat
  y : Nat
  z : Nat

def Jac.inf : Jac := ⟨1, 1, 0⟩

def sub (x y : Nat) : Nat := (x + p - y % p) % p

def dbl (P : Jac) : Jac :=
  if P.z = 0 ∨ P.y = 0 then Jac.inf
  else
    let y2 := P.y * P.y % p
    let s := 4 * P.x * y2 % p
    let z2 := P.z * P.z % p
    let m := (3 * P.x * P.x + a * (z2 * z2 % p)) % p
    let x' := sub (m * m % p) (2 * s % p)
    let y' := sub (m * sub s x' % p) (8 * (y2 * y2 % p) % p)
    let z' := 2 * P.y * P.z % p
    ⟨x', y', z'⟩

def add (P Q : Jac) : Jac :=
  if P.z = 0 then Q
  else if Q.z = 0 then P
  else
    let z1z1 := P.z * P.z % p
    let z2z2 := Q.z * Q.z % p
    let u1 := P.x * z2z2 % p
    let u2 := Q.x * z1z1 % p
    let s1 := P.y * Q.z % p * z2z2 % p
    let s2 := Q.y * P.z % p * z1z1 % p
    if u1 = u2 then
      if s1 = s2 then dbl P else Jac.inf
    else
      let h := sub u2 u1
      let r := sub s2 s1
      let h2 := h * h % p
      let h3 := h * h2 % p
      let u1h2 := u1 * h2 % p
      let x' := sub (sub (r * r % p) h3) (2 * u1h2 % p)
      let y' := sub (r * sub u1h2 x' % p) (s1 * h3 % p)
      let z' := h * P.z % p * Q.z % p
      ⟨x', y', z'⟩

/-- Scalar multiplication, most significant bit first (fuel = number of bits processed). -/
def mulBits (P : Jac) : Nat → Nat → Jac → Jac
  | 0, _, acc => acc
  | bits + 1, k, acc =>
    let acc := dbl acc
    let acc := if (k >>> bits) % 2 = 1 then add acc P else acc
    mulBits P bits k acc

def mul (k : Nat) (P : Jac) : Jac := mulBits P 256 k Jac.inf

/-- Affine x-coordinate, `none` for the point at infinity. -/
def affineX (P : Jac) : Option Nat :=
  if P.z = 0 then none
  else
    let zi := invMod p P.z
    some (P.x * (zi * zi % p) % p)

def onCurve (x y : Nat) : Bool :=
  x < p && y < p && (y * y % p == (x * x % p * x + a * x + b) % p)

/-- Big-endian bytes to a natural number. -/
def beNat (bs : Bytes) : Nat := bs.foldl (fun acc x => acc * 256 + x.toNat) 0

/-- ECDSA verification of the prehashed message `z` (already reduced to a number) against the
public key `(qx, qy)`; requires `0 < r, s < n`. -/
def verifyPrehashed (qx qy : Nat) (z : Nat) (r s : Nat) : Bool :=
  if r = 0 ∨ s = 0 ∨ r ≥ n ∨ s ≥ n then false
  else
    let w := invMod n s
    let u1 := z % n * w % n
    let u2 := r * w % n
    let R := add (mul u1 ⟨gx, gy, 1⟩) (mul u2 ⟨qx, qy, 1⟩)
    match affineX R with
    | none => false
    | some x => x % n == r

/-- ECDSA-with-SHA-256 over the message bytes, as `p256::ecdsa::VerifyingKey::verify` does. -/
def verify (qx qy : Nat) (msg : Bytes) (r s : Nat) : Bool :=
  verifyPrehashed qx qy (beNat (Sha256.hash msg)) r s

end Omaha.P256
