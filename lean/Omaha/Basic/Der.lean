/-
ASN.1 DER decoding of an ECDSA signature `SEQUENCE { r INTEGER, s INTEGER }` exactly as the
`ecdsa::der::Signature<NistP256>::try_from(&[u8])` path of the `ecdsa`/`der` crates accepts it:
definite short-form lengths, canonical (minimal) unsigned INTEGER contents, at most 32 magnitude
bytes each, nothing after `s` and nothing after the SEQUENCE.

Long-form lengths are accepted by the `der` crate only when canonical (value ≥ 128); a signature
whose INTEGERs have at most 33 content bytes has at most 70 content bytes, so no input using a
long-form length can pass the later size checks — the model rejects them outright.
-/
import Omaha.Basic.Bytes

namespace Omaha.Der

/-- Big-endian bytes to a natural number. -/
def beNat (bs : Bytes) : Nat := bs.foldl (fun acc x => acc * 256 + x.toNat) 0

/-- The magnitude bytes of a canonical unsigned INTEGER content (`der::asn1::integer::uint::
decode_to_slice` followed by the re-encoding length check of `UIntRef::decode_value`). -/
def uintContent : Bytes → Option Bytes
  | [] => none
  | [0] => some [0]
  | 0 :: b :: tl => if b.toNat < 128 then none else some (b :: tl)
  | b :: tl => if b.toNat ≥ 128 then none else some (b :: tl)

/-- One INTEGER TLV; returns the magnitude bytes and the remaining input. -/
def readUInt : Bytes → Option (Bytes × Bytes)
  | 2 :: l :: rest =>
    if l.toNat < 128 ∧ l.toNat ≤ rest.length then
      match uintContent (rest.take l.toNat) with
      | some m => some (m, rest.drop l.toNat)
      | none => none
    else none
  | _ => none

/-- Decode a DER signature into `(r, s)`. -/
def decodeSig : Bytes → Option (Nat × Nat)
  | 48 :: l :: content =>
    if l.toNat < 128 ∧ content.length = l.toNat then
      match readUInt content with
      | some (r, rest) =>
        match readUInt rest with
        | some (s, []) => if r.length ≤ 32 ∧ s.length ≤ 32 then some (beNat r, beNat s) else none
        | _ => none
      | none => none
    else none
  | _ => none

end Omaha.Der
