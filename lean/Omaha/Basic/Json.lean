/-
JSON values and the compact text rendering `serde_json::to_vec` produces.
Strings are UTF-8 byte strings; object members keep their order (serde_json writes struct
fields and map entries in the order the serializer emits them).
-/
import Omaha.Basic.Bytes

namespace Omaha

inductive Json where
  | null
  | bool (b : Bool)
  | int (i : Int)                       -- integers only (the protocol has no fractional numbers)
  | str (s : Bytes)
  | arr (xs : List Json)
  | obj (kvs : List (Bytes × Json))
  deriving Repr, Inhabited

namespace Json

/-- `serde_json`'s string escaping: `"` and `\` are backslash-escaped, control characters use the
short forms `\b \t \n \f \r` or `\u00xx` (lower-case hex); every other byte, including DEL and
non-ASCII UTF-8, is written as is. -/
def escapeByte (b : UInt8) : Bytes :=
  if b = 34 then [92, 34]
  else if b = 92 then [92, 92]
  else if b = 8 then [92, 98]
  else if b = 9 then [92, 116]
  else if b = 10 then [92, 110]
  else if b = 12 then [92, 102]
  else if b = 13 then [92, 114]
  else if b.toNat < 32 then [92, 117, 48, 48, Hex.nibbleByte (b.toNat / 16), Hex.nibbleByte (b.toNat % 16)]
  else [b]

def renderStr (s : Bytes) : Bytes := 34 :: (s.flatMap escapeByte ++ [34])

mutual
  def render : Json → Bytes
    | .null => [110, 117, 108, 108]
    | .bool true => [116, 114, 117, 101]
    | .bool false => [102, 97, 108, 115, 101]
    | .int i => Dec.renderInt i
    | .str s => renderStr s
    | .arr xs => 91 :: (renderList xs ++ [93])
    | .obj kvs => 123 :: (renderMembers kvs ++ [125])
  def renderList : List Json → Bytes
    | [] => []
    | [x] => render x
    | x :: y :: rest => render x ++ 44 :: renderList (y :: rest)
  def renderMembers : List (Bytes × Json) → Bytes
    | [] => []
    | [(k, v)] => renderStr k ++ 58 :: render v
    | (k, v) :: kv :: rest => renderStr k ++ 58 :: (render v ++ 44 :: renderMembers (kv :: rest))
end

end Json
end Omaha
