/-
JSON text → value, following serde_json's `from_slice` reader: RFC 8259 grammar, no BOM, the four
whitespace bytes, strings must be valid UTF-8 with escapes `\" \\ \/ \b \f \n \r \t \uXXXX`
(surrogate escapes must come in pairs), raw control characters rejected, nesting limited.

Two strictness levels are provided, because serde_json is stricter for values it materialises
than for values it skips (`IgnoredAny`: no depth limit, strings not checked for UTF-8 or surrogate
pairing, numbers checked syntactically only):
  * `strict`  — accepted in *every* position (depth below the limit, valid strings, tame numbers);
  * `lenient` — the superset accepted in skipped positions.
A text that is lenient-valid but not strict-valid is outside the model's domain.
-/
import Omaha.Basic.Json

namespace Omaha.JsonP

/-- Numbers as far as the protocol cares: a non-negative integer literal that fits u64 is `uint`;
every other syntactically valid number (negative, fractional, exponent, too large) is `other`,
with its source text kept. -/
inductive Num where
  | uint (n : Nat)
  | other (text : Bytes)
  deriving Repr, DecidableEq, Inhabited

/-- Parsed JSON (numbers classified, object members in document order, duplicates kept). -/
inductive Val where
  | null
  | bool (b : Bool)
  | num (n : Num)
  | str (s : Bytes)
  | arr (xs : List Val)
  | obj (kvs : List (Bytes × Val))
  deriving Repr, Inhabited

structure Mode where
  strict : Bool
  maxDepth : Nat

def skipWs : Bytes → Bytes
  | b :: rest => if b = 32 ∨ b = 9 ∨ b = 10 ∨ b = 13 then skipWs rest else b :: rest
  | [] => []

/-! ### UTF-8 validation (as `core::str::from_utf8`) -/

def isCont (b : UInt8) : Bool := 128 ≤ b.toNat && b.toNat ≤ 191

def validUtf8 : Bytes → Bool
  | [] => true
  | b0 :: rest =>
    let n := b0.toNat
    if n < 128 then validUtf8 rest
    else if 194 ≤ n ∧ n ≤ 223 then
      match rest with
      | b1 :: r => isCont b1 && validUtf8 r
      | _ => false
    else if 224 ≤ n ∧ n ≤ 239 then
      match rest with
      | b1 :: b2 :: r =>
        let m := b1.toNat
        let ok1 := if n = 224 then 160 ≤ m ∧ m ≤ 191
                   else if n = 237 then 128 ≤ m ∧ m ≤ 159
                   else 128 ≤ m ∧ m ≤ 191
        decide ok1 && isCont b2 && validUtf8 r
      | _ => false
    else if 240 ≤ n ∧ n ≤ 244 then
      match rest with
      | b1 :: b2 :: b3 :: r =>
        let m := b1.toNat
        let ok1 := if n = 240 then 144 ≤ m ∧ m ≤ 191
                   else if n = 244 then 128 ≤ m ∧ m ≤ 143
                   else 128 ≤ m ∧ m ≤ 191
        decide ok1 && isCont b2 && isCont b3 && validUtf8 r
      | _ => false
    else false

/-- UTF-8 encoding of a scalar value. -/
def encodeUtf8 (c : Nat) : Bytes :=
  if c < 0x80 then [UInt8.ofNat c]
  else if c < 0x800 then [UInt8.ofNat (0xC0 + c / 64), UInt8.ofNat (0x80 + c % 64)]
  else if c < 0x10000 then
    [UInt8.ofNat (0xE0 + c / 4096), UInt8.ofNat (0x80 + c / 64 % 64), UInt8.ofNat (0x80 + c % 64)]
  else
    [UInt8.ofNat (0xF0 + c / 262144), UInt8.ofNat (0x80 + c / 4096 % 64),
     UInt8.ofNat (0x80 + c / 64 % 64), UInt8.ofNat (0x80 + c % 64)]

def hex4 : Bytes → Option (Nat × Bytes)
  | a :: b :: c :: d :: rest =>
    match Hex.nibbleVal a, Hex.nibbleVal b, Hex.nibbleVal c, Hex.nibbleVal d with
    | some a, some b, some c, some d => some (((a * 16 + b) * 16 + c) * 16 + d, rest)
    | _, _, _, _ => none
  | _ => none

/-- String body after the opening quote: returns the decoded bytes and the input after the
closing quote.  In lenient mode surrogate escapes are not paired (each becomes U+FFFD) and the
result is not checked for UTF-8. -/
def parseStrBody (strict : Bool) : Nat → Bytes → Bytes → Option (Bytes × Bytes)
  | 0, _, _ => none
  | fuel + 1, acc, s =>
    match s with
    | [] => none
    | 34 :: rest => some (acc.reverse, rest)
    | 92 :: e :: rest =>
      let simple (c : UInt8) := parseStrBody strict fuel (c :: acc) rest
      if e = 34 then simple 34
      else if e = 92 then simple 92
      else if e = 47 then simple 47
      else if e = 98 then simple 8
      else if e = 102 then simple 12
      else if e = 110 then simple 10
      else if e = 114 then simple 13
      else if e = 116 then simple 9
      else if e = 117 then
        match hex4 rest with
        | none => none
        | some (u, rest') =>
          if 0xD800 ≤ u ∧ u ≤ 0xDBFF then
            if strict then
              match rest' with
              | 92 :: 117 :: r2 =>
                match hex4 r2 with
                | some (lo, r3) =>
                  if 0xDC00 ≤ lo ∧ lo ≤ 0xDFFF then
                    let c := 0x10000 + (u - 0xD800) * 1024 + (lo - 0xDC00)
                    parseStrBody strict fuel ((encodeUtf8 c).reverse ++ acc) r3
                  else none
                | none => none
              | _ => none
            else parseStrBody strict fuel ([0xBD, 0xBF, 0xEF] ++ acc) rest'
          else if 0xDC00 ≤ u ∧ u ≤ 0xDFFF then
            if strict then none else parseStrBody strict fuel ([0xBD, 0xBF, 0xEF] ++ acc) rest'
          else parseStrBody strict fuel ((encodeUtf8 u).reverse ++ acc) rest'
      else none
    | [92] => none
    | b :: rest => if b.toNat < 32 then none else parseStrBody strict fuel (b :: acc) rest

def parseStr (strict : Bool) (s : Bytes) : Option (Bytes × Bytes) :=
  match parseStrBody strict (s.length + 1) [] s with
  | some (str, rest) => if strict && !validUtf8 str then none else some (str, rest)
  | none => none

/-! ### Numbers -/

def takeDigits : Bytes → Bytes × Bytes
  | b :: rest =>
    if 48 ≤ b.toNat ∧ b.toNat ≤ 57 then
      let (ds, r) := takeDigits rest
      (b :: ds, r)
    else ([], b :: rest)
  | [] => ([], [])

/-- An optional minus sign. -/
def takeSign (s : Bytes) : Bytes × Bytes :=
  match s with
  | 45 :: r => ([45], r)
  | _ => ([], s)

/-- An optional fraction: the dot and the digits after it (`[46]` alone = a dot without digits). -/
def takeFrac (s : Bytes) : Bytes × Bytes :=
  match s with
  | 46 :: r =>
    let (ds, r') := takeDigits r
    (46 :: ds, r')
  | _ => ([], s)

/-- An optional exponent; a 0 byte in the result marks "no digits". -/
def takeExp (s : Bytes) : Bytes × Bytes :=
  match s with
  | e :: r =>
    if e = 101 ∨ e = 69 then
      let (sign, r1) : Bytes × Bytes := match r with
        | 43 :: r' => ([43], r')
        | 45 :: r' => ([45], r')
        | _ => ([], r)
      let (ds, r2) := takeDigits r1
      (e :: sign ++ (if ds = [] then [0] else ds), r2)
    else ([], s)
  | [] => ([], s)

/-- Number token: `-? (0 | [1-9][0-9]*) (\.[0-9]+)? ([eE][+-]?[0-9]+)?`; returns the token text and
the rest. -/
def numberToken (s : Bytes) : Option (Bytes × Bytes) :=
  let (neg, s1) := takeSign s
  let (int, s2) := takeDigits s1
  if int = [] then none
  else if int.length > 1 ∧ int.head? = some 48 then
    -- a leading zero ends the integer part: "01" is the number 0 followed by garbage
    some (neg ++ [48], int.drop 1 ++ s2)
  else
    let (frac, s3) := takeFrac s2
    if frac = [46] then none
    else
      let (exp, s4) := takeExp s3
      if exp.contains 0 then none
      else some (neg ++ int ++ frac ++ exp, s4)

def classify (tok : Bytes) : Num :=
  if tok.all (fun b => 48 ≤ b.toNat && b.toNat ≤ 57) then
    match Dec.foldDigits 0 tok with
    | some n => if n ≤ Dec.u64Max then .uint n else .other tok
    | none => .other tok
  else .other tok

/-- Numbers whose value serde_json would have to round or could overflow are "wild": they are
syntactically fine but the model does not say whether a materialising position accepts them. -/
def wildNumber (tok : Bytes) : Bool :=
  tok.length > 18 && !(tok.all (fun b => 48 ≤ b.toNat && b.toNat ≤ 57) && tok.length ≤ 20)

/-! ### Values -/

def lit (w : Bytes) (v : Val) (s : Bytes) : Option (Val × Bytes) :=
  if w.isPrefixOf s then some (v, s.drop w.length) else none

mutual
  /-- `fuel` bounds the total work (input length suffices), `depth` is the remaining nesting. -/
  def parseValue (m : Mode) : Nat → Nat → Bytes → Option (Val × Bytes)
    | 0, _, _ => none
    | fuel + 1, depth, s =>
      match skipWs s with
      | [] => none
      | 110 :: r => lit [117, 108, 108] .null r
      | 116 :: r => lit [114, 117, 101] (.bool true) r
      | 102 :: r => lit [97, 108, 115, 101] (.bool false) r
      | 34 :: r =>
        match parseStr m.strict r with
        | some (str, rest) => some (.str str, rest)
        | none => none
      | 91 :: r =>
        if depth ≤ 1 then none
        else match skipWs r with
          | 93 :: rest => some (.arr [], rest)
          | _ => parseElems m fuel (depth - 1) r []
      | 123 :: r =>
        if depth ≤ 1 then none
        else match skipWs r with
          | 125 :: rest => some (.obj [], rest)
          | _ => parseMembers m fuel (depth - 1) r []
      | b :: r =>
        if b = 45 ∨ (48 ≤ b.toNat ∧ b.toNat ≤ 57) then
          match numberToken (b :: r) with
          | some (tok, rest) =>
            if m.strict && wildNumber tok then none else some (.num (classify tok), rest)
          | none => none
        else none
  def parseElems (m : Mode) : Nat → Nat → Bytes → List Val → Option (Val × Bytes)
    | 0, _, _, _ => none
    | fuel + 1, depth, s, acc =>
      match parseValue m fuel depth s with
      | none => none
      | some (v, rest) =>
        match skipWs rest with
        | 44 :: r => parseElems m fuel depth r (v :: acc)
        | 93 :: r => some (.arr (v :: acc).reverse, r)
        | _ => none
  def parseMembers (m : Mode) : Nat → Nat → Bytes → List (Bytes × Val) → Option (Val × Bytes)
    | 0, _, _, _ => none
    | fuel + 1, depth, s, acc =>
      match skipWs s with
      | 34 :: r =>
        match parseStr m.strict r with
        | none => none
        | some (k, rest) =>
          match skipWs rest with
          | 58 :: r2 =>
            match parseValue m fuel depth r2 with
            | none => none
            | some (v, rest2) =>
              match skipWs rest2 with
              | 44 :: r3 => parseMembers m fuel depth r3 ((k, v) :: acc)
              | 125 :: r3 => some (.obj ((k, v) :: acc).reverse, r3)
              | _ => none
          | _ => none
      | _ => none
end

/-- A whole document: one value, then only whitespace. -/
def parseDoc (m : Mode) (s : Bytes) : Option Val :=
  match parseValue m (2 * s.length + 2) m.maxDepth s with
  | some (v, rest) => if skipWs rest = [] then some v else none
  | none => none

/-- Depth every materialising position of serde_json accepts (its limit is 128; the margin keeps
the model clear of how each deserialisation path counts levels). -/
def strictMode : Mode := ⟨true, 100⟩
def lenientMode (len : Nat) : Mode := ⟨false, len + 2⟩

inductive Parsed where
  | ok (v : Val)            -- valid in every position
  | outside                 -- valid only for the lenient reader: outside the model
  | err                     -- rejected by every reader
  deriving Repr

def parse (s : Bytes) : Parsed :=
  match parseDoc strictMode s with
  | some v => .ok v
  | none =>
    match parseDoc (lenientMode s.length) s with
    | some _ => .outside
    | none => .err

end Omaha.JsonP
