/-
SHA-256 (FIPS 180-4) as an executable oracle.  Not proved against the standard; validated against
the `sha2` crate through the correspondence streams and on the standard test vectors below.
-/
import Omaha.Basic.Bytes

namespace Omaha.Sha256

def K : Array UInt32 := #[
  0x428a2f98, 0x71374491, 0xb5c0fbcf, 0xe9b5dba5, 0x3956c25b, 0x59f111f1, 0x923f82a4, 0xab1c5ed5,
  0xd807aa98, 0x12835b01, 0x243185be, 0x550c7dc3, 0x72be5d74, 0x80deb1fe, 0x9bdc06a7, 0xc19bf174,
  0xe49b69c1, 0xefbe4786, 0x0fc19dc6, 0x240ca1cc, 0x2de92c6f, 0x4a7484aa, 0x5cb0a9dc, 0x76f988da,
  0x983e5152, 0xa831c66d, 0xb00327c8, 0xbf597fc7, 0xc6e00bf3, 0xd5a79147, 0x06ca6351, 0x14292967,
  0x27b70a85, 0x2e1b2138, 0x4d2c6dfc, 0x53380d13, 0x650a7354, 0x766a0abb, 0x81c2c92e, 0x92722c85,
  0xa2bfe8a1, 0xa81a664b, 0xc24b8b70, 0xc76c51a3, 0xd192e819, 0xd6990624, 0xf40e3585, 0x106aa070,
  0x19a4c116, 0x1e376c08, 0x2748774c, 0x34b0bcb5, 0x391c0cb3, 0x4ed8aa4a, 0x5b9cca4f, 0x682e6ff3,
  0x748f82ee, 0x78a5636f, 0x84c87814, 0x8cc70208, 0x90befffa, 0xa4506ceb, 0xbef9a3f7, 0xc67178f2]

def H0 : Array UInt32 := #[
  0x6a09e667, 0xbb67ae85, 0x3c6ef372, 0xa54ff53a, 0x510e527f, 0x9b05688c, 0x1f83d9ab, 0x5be0cd19]

@[inline] def rotr (x : UInt32) (n : UInt32) : UInt32 := (x >>> n) ||| (x <<< (32 - n))

/-- Padding: 0x80, zeros to 56 mod 64, 64-bit big-endian bit length. -/
def pad (msg : Bytes) : Bytes :=
  let l := msg.length
  let zeros := (119 - l % 64) % 64
  let bits := l * 8
  let lenBytes : Bytes := (List.range 8).map fun i => UInt8.ofNat ((bits >>> (8 * (7 - i))) % 256)
  msg ++ ((0x80 : UInt8) :: (List.replicate zeros (0 : UInt8) ++ lenBytes))

def word (a b c d : UInt8) : UInt32 :=
  (a.toUInt32 <<< 24) ||| (b.toUInt32 <<< 16) ||| (c.toUInt32 <<< 8) ||| d.toUInt32

/-- The sixteen message words of one 64-byte block (shorter input is zero-extended; never
happens after `pad`). -/
def blockWords : Nat → Bytes → Array UInt32 → Array UInt32
  | 0, _, acc => acc
  | n + 1, a :: b :: c :: d :: rest, acc => blockWords n rest (acc.push (word a b c d))
  | n + 1, _, acc => blockWords n [] (acc.push 0)

def schedule (w16 : Array UInt32) : Array UInt32 := Id.run do
  let mut w := w16
  for i in [16:64] do
    let w15 := w[i - 15]!
    let w2 := w[i - 2]!
    let s0 := rotr w15 7 ^^^ rotr w15 18 ^^^ (w15 >>> 3)
    let s1 := rotr w2 17 ^^^ rotr w2 19 ^^^ (w2 >>> 10)
    w := w.push (w[i - 16]! + s0 + w[i - 7]! + s1)
  return w

def compress (h : Array UInt32) (block : Bytes) : Array UInt32 := Id.run do
  let w := schedule (blockWords 16 block #[])
  let mut a := h[0]!; let mut b := h[1]!; let mut c := h[2]!; let mut d := h[3]!
  let mut e := h[4]!; let mut f := h[5]!; let mut g := h[6]!; let mut hh := h[7]!
  for i in [0:64] do
    let s1 := rotr e 6 ^^^ rotr e 11 ^^^ rotr e 25
    let ch := (e &&& f) ^^^ ((~~~ e) &&& g)
    let t1 := hh + s1 + ch + K[i]! + w[i]!
    let s0 := rotr a 2 ^^^ rotr a 13 ^^^ rotr a 22
    let maj := (a &&& b) ^^^ (a &&& c) ^^^ (b &&& c)
    let t2 := s0 + maj
    hh := g; g := f; f := e; e := d + t1
    d := c; c := b; b := a; a := t1 + t2
  return #[h[0]! + a, h[1]! + b, h[2]! + c, h[3]! + d, h[4]! + e, h[5]! + f, h[6]! + g, h[7]! + hh]

def blocks : Nat → Bytes → Array UInt32 → Array UInt32
  | 0, _, h => h
  | n + 1, bs, h => blocks n (bs.drop 64) (compress h (bs.take 64))

def wordBytes (w : UInt32) : Bytes :=
  [(w >>> 24).toUInt8, (w >>> 16).toUInt8, (w >>> 8).toUInt8, w.toUInt8]

/-- SHA-256 digest (32 bytes). -/
def hash (msg : Bytes) : Bytes :=
  let p := pad msg
  let h := blocks (p.length / 64) p H0
  h.toList.flatMap wordBytes

end Omaha.Sha256
