/-
Model of omaha-client/src/async_generator.rs: `generate`, `Yield::{yield_, yield_all}`,
`Generator::poll_next` (transcribed branch by branch), `FusedStream::is_terminated`, on top of a
model of the zero-capacity futures mpsc channel with its single sender (queue of at most one item,
the sender parked from the moment it has pushed an item until the receiver pops it, the receiver's
registered waker, closure when the sender is dropped) and of the `send` / `send_all` futures.

The task is a program over a small alphabet of operations; the environment is a schedule of polls
and external events.  Every poll is one call of `poll_next` with the harness' root waker; `woken`
records whether that waker was woken.
-/

namespace Omaha.Gen

/-- What the generator task does next. -/
inductive Op where
  | yield (x : Nat)                 -- `co.yield_(x).await`
  | yieldAll (xs : List Nat)        -- `co.yield_all(xs).await`
  | selfWake                        -- wake the own waker, return Pending once
  | extWait (k : Nat)               -- await the external event `k`
  | dropHandle                      -- `drop(co)`
  | ret (r : Nat)                   -- return `r`
  deriving DecidableEq, Repr

/-- Where the task is suspended (or that it has not been polled / has finished). -/
inductive Task where
  | run (ops : List Op)                         -- about to execute `ops`
  | sending (xs : List Nat) (ops : List Op)     -- inside `yield_` / `yield_all`: `xs` still to be sent
                                                -- (`[]`: only the final flush is outstanding), then `ops`
  | afterWake (ops : List Op)                   -- second half of a self-wake
  | waiting (k : Nat) (ops : List Op)           -- awaiting external event `k`
  | done                                        -- the future has completed (`Fuse` is terminated)
  deriving DecidableEq, Repr

/-- The channel, the generator's own fields, and the observation `woken`. -/
structure St where
  task : Task
  queue : List Nat := []             -- messages pushed and not yet popped (never more than one)
  parked : Bool := false             -- the sender pushed an item that has not been popped yet
  senderAlive : Bool := true         -- the `Yield` handle has not been dropped
  recvRegistered : Bool := false     -- the receiver's waker is registered (it returned Pending)
  recvTerminated : Bool := false     -- `Receiver::is_terminated()`
  res : Option Nat := none           -- `Generator::res`
  fired : List Nat := []             -- external events that have fired
  extRegistered : Option Nat := none -- the task's waker is registered with this external event
  woken : Bool := false              -- the root waker was woken since the flag was last cleared
  deriving DecidableEq, Repr

inductive PollResult where
  | pending
  | item (x : Nat)                   -- `Ready(Some(Yielded(x)))`
  | complete (r : Nat)               -- `Ready(Some(Complete(r)))`
  | none                             -- `Ready(None)`
  deriving DecidableEq, Repr

/-- `queue_push_and_signal` after `park`: the item is in the queue, the sender is parked, a registered
receiver waker is woken (and consumed). -/
def push (x : Nat) (s : St) : St :=
  { s with queue := s.queue ++ [x], parked := true,
           woken := s.woken || s.recvRegistered, recvRegistered := false }

/-- Dropping the sender closes the channel and wakes a registered receiver. -/
def closeSender (s : St) : St :=
  if s.senderAlive then
    { s with senderAlive := false, woken := s.woken || s.recvRegistered, recvRegistered := false }
  else s

/-- The task returns `r`: its future completes and the `Yield` handle it owns is dropped. -/
def finish (r : Nat) (s : St) : St := closeSender { s with task := .done, res := some r }

/-- Run the task from `ops` until it suspends or returns. -/
def runOps : List Op → St → St
  | [], s => finish 0 s                                               -- falling off the end returns 0
  | .ret r :: _, s => finish r s
  | .dropHandle :: ops, s => runOps ops (closeSender s)
  | .selfWake :: ops, s => { s with task := .afterWake ops, woken := true }
  | .extWait k :: ops, s =>
    if s.fired.contains k then runOps ops s
    else { s with task := .waiting k ops, extRegistered := some k }
  | .yield x :: ops, s =>
    if !s.senderAlive then runOps ops s                 -- cannot be written in Rust; skipped
    else if s.parked then { s with task := .sending [x] ops }
    else { push x s with task := .sending [] ops }
  | .yieldAll xs :: ops, s =>
    if !s.senderAlive then runOps ops s
    else
      match xs with
      | [] => if s.parked then { s with task := .sending [] ops } else runOps ops s
      | x :: rest =>
        if s.parked then { s with task := .sending (x :: rest) ops }
        else { push x s with task := .sending rest ops }

/-- One poll of the task future (`Fuse<F>`). -/
def pollTask (s : St) : St :=
  match s.task with
  | .done => s
  | .run ops => runOps ops s
  | .afterWake ops => runOps ops s
  | .waiting k ops =>
    if s.fired.contains k then runOps ops { s with extRegistered := none }
    else { s with extRegistered := some k }
  | .sending xs ops =>
    if s.parked then s                                   -- `poll_ready` / `poll_flush` Pending
    else
      match xs with
      | [] => runOps ops s                               -- flushed
      | x :: rest => { push x s with task := .sending rest ops }

def taskDone (s : St) : Bool := s.task == .done

/-- `Generator::poll_next`. -/
def pollNext (s0 : St) : PollResult × St :=
  let s := { s0 with woken := false }
  let doneBefore := taskDone s
  let s := pollTask s
  let taskIsDone := doneBefore || taskDone s
  -- the receiver
  let (early, s) : Option PollResult × St :=
    if s.recvTerminated then (Option.none, s)
    else
      match s.queue with
      | x :: rest =>
        -- pop: the parked sender is notified (its waker is the root waker)
        (some (.item x), { s with queue := rest, woken := s.woken || s.parked, parked := false })
      | [] =>
        if !s.senderAlive then (Option.none, { s with recvTerminated := true })
        else (some .pending, { s with recvRegistered := true })
  match early with
  | some r => (r, s)
  | Option.none =>
    if !taskIsDone then (.pending, s)
    else
      match s.res with
      | some r => (.complete r, { s with res := Option.none })
      | Option.none => (.none, s)

/-- `FusedStream::is_terminated`. -/
def isTerminated (s : St) : Bool := taskDone s && s.recvTerminated && s.res.isNone

/-- The external event `k` fires: a task waiting on it (with its waker registered) is woken. -/
def fire (k : Nat) (s : St) : St :=
  { s with fired := k :: s.fired, woken := s.woken || (s.extRegistered == some k),
           extRegistered := if s.extRegistered == some k then none else s.extRegistered }

/-- What the environment does. -/
inductive Step where
  | poll
  | fire (k : Nat)
  deriving DecidableEq, Repr

inductive Obs where
  | polled (r : PollResult) (woken : Bool) (terminated : Bool)
  | fired (woken : Bool)
  deriving DecidableEq, Repr

def step (s : St) : Step → Obs × St
  | .poll =>
    let (r, s') := pollNext s
    (.polled r s'.woken (isTerminated s'), s')
  | .fire k =>
    let s' := fire k { s with woken := false }
    (.fired s'.woken, s')

def init (prog : List Op) : St := { task := .run prog }

/-- Drive a program through a schedule; the observations, in order. -/
def drive : St → List Step → List Obs
  | _, [] => []
  | s, e :: rest => (step s e).1 :: drive (step s e).2 rest

def finalState : St → List Step → St
  | s, [] => s
  | s, e :: rest => finalState (step s e).2 rest

/-- The items a program yields, in order (a program cannot yield after dropping its handle). -/
def yieldsOf : List Op → List Nat
  | [] => []
  | .yield x :: ops => x :: yieldsOf ops
  | .yieldAll xs :: ops => xs ++ yieldsOf ops
  | .ret _ :: _ => []
  | .dropHandle :: _ => []
  | _ :: ops => yieldsOf ops

def retOf : List Op → Nat
  | [] => 0
  | .ret r :: _ => r
  | _ :: ops => retOf ops

end Omaha.Gen
