/-
Model of the control channel between `ControlHandle`s and the state machine, as far as a caller of
`ControlHandle::start_update_check` can see it (state_machine.rs: `ControlHandle`, `ControlRequest`,
`StateMachineGone`, the three `control.select_next_some()` arms of `run` / `wait_for_reboot`).

A request is *pending* from the moment it is sent until the machine answers it; the machine answers a
request it has taken through the request's responder; when the machine goes away (its stream is
dropped) the receiver and every responder it still holds are dropped with it: `send` fails or the
reply channel is cancelled, and `start_update_check` maps both to `StateMachineGone`.

Which reply the machine gives (and that it gives exactly one per request it takes) is the subject of
`Props/C11.lean`; here the machine's replies are inputs (`Op.reply`).
-/
import Omaha.SM.Types

namespace Omaha.Chan

open Omaha.SM (Reply)

/-- What the caller of `start_update_check` has got so far. -/
inductive Status where
  | pending
  | replied (r : Reply)
  | gone
  deriving DecidableEq, Repr

structure St where
  alive : Bool := true                      -- the state machine (receiver and responders) exists
  pending : List Nat := []                  -- sent, not answered (in the channel or taken), oldest first
  done : List (Nat × Status) := []          -- resolved, newest first
  deriving Repr

inductive Op where
  | send (id : Nat)                         -- a caller starts `start_update_check`
  | reply (id : Nat) (r : Reply)            -- the machine answers a request it has taken
  | dropMachine                             -- the embedder drops the machine's stream
  | dropHandles                             -- every `ControlHandle` is dropped (no effect on requests made)
  deriving Repr

def step (s : St) : Op → St
  | .send id =>
    if s.alive then { s with pending := s.pending ++ [id] }
    else { s with done := (id, .gone) :: s.done }
  | .reply id r =>
    if s.alive && s.pending.contains id then
      { s with pending := s.pending.erase id, done := (id, .replied r) :: s.done }
    else s
  | .dropMachine =>
    { alive := false, pending := [], done := s.pending.map (fun id => (id, Status.gone)) ++ s.done }
  | .dropHandles => s

def run (ops : List Op) : St := ops.foldl step {}

/-- The status of a request (`none`: no such request was ever made). -/
def status (s : St) (id : Nat) : Option Status :=
  match s.done.lookup id with
  | some st => some st
  | none => if s.pending.contains id then some .pending else none

/-- The ids of the requests made by a sequence of operations. -/
def sent : List Op → List Nat
  | [] => []
  | .send id :: rest => id :: sent rest
  | _ :: rest => sent rest

end Omaha.Chan
