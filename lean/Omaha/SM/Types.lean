/-
State-machine model: data types shared by the model, its environment and its trace.
(omaha-client/src/state_machine.rs, state_machine/{update_check,builder,observer}.rs, common.rs,
policy.rs, installer.rs, metrics.rs, storage.rs as far as the state machine uses them.)
-/
import Omaha.Time
import Omaha.Request
import Omaha.Response

namespace Omaha.SM

open Omaha

/-- A reading of the two clocks: wall in ns since the epoch, monotonic in ns since the harness
origin. -/
structure Clock where
  wall : Int
  mono : Int
  deriving DecidableEq, Repr, Inhabited

abbrev PCT := Time.PCT

structure Timing where
  time : PCT
  minWait : Option Nat            -- ns
  deriving DecidableEq, Repr

instance : Inhabited Timing := ⟨⟨.mono 0, none⟩⟩

/-- `UpdateCheckSchedule`. -/
structure Schedule where
  lastUpdate : Option PCT := none
  lastCheck : Option PCT := none
  next : Option Timing := none
  deriving DecidableEq, Repr, Inhabited

/-- `ProtocolState`: poll interval in ns, the two u32 counters. -/
structure Proto where
  poll : Option Nat := none
  failures : Nat := 0
  proxied : Nat := 0
  deriving DecidableEq, Repr, Inhabited

structure Ctx where
  sched : Schedule := {}
  st : Proto := {}
  deriving DecidableEq, Repr, Inhabited

/-! ### Storage -/

inductive SVal where
  | str (s : Bytes) | int (i : Int) | bool (b : Bool)
  deriving DecidableEq, Repr, Inhabited

/-- A `Storage` that caches writes until `commit`: `pending` holds the uncommitted writes (newest
first; `none` is a removal), `committed` the durable map. -/
structure Store where
  pending : List (Bytes × Option SVal) := []
  committed : List (Bytes × SVal) := []
  deriving DecidableEq, Repr, Inhabited

def lookup {β} (k : Bytes) : List (Bytes × β) → Option β
  | [] => none
  | (k', v) :: rest => if k' = k then some v else lookup k rest

def Store.get (s : Store) (k : Bytes) : Option SVal :=
  match lookup k s.pending with
  | some v => v
  | none => lookup k s.committed

def Store.getString (s : Store) (k : Bytes) : Option Bytes :=
  match s.get k with
  | some (.str b) => some b
  | _ => none

def Store.getInt (s : Store) (k : Bytes) : Option Int :=
  match s.get k with
  | some (.int i) => some i
  | _ => none

/-- `StorageExt::get_time`. -/
def Store.getTime (s : Store) (k : Bytes) : Option Int := (s.getInt k).map Time.fromMicros

def eraseAssoc {β} (k : Bytes) (l : List (Bytes × β)) : List (Bytes × β) := l.filter fun kv => kv.1 ≠ k

def setAssoc {β} (k : Bytes) (v : β) (l : List (Bytes × β)) : List (Bytes × β) := (k, v) :: eraseAssoc k l

/-- Apply the pending writes, oldest first. -/
def applyPending (committed : List (Bytes × SVal)) : List (Bytes × Option SVal) → List (Bytes × SVal)
  | [] => committed
  | (k, v) :: older =>
    let c := applyPending committed older
    match v with
    | some x => setAssoc k x c
    | none => eraseAssoc k c

def Store.commit (s : Store) : Store := { pending := [], committed := applyPending s.committed s.pending }

/-- A crash loses the uncommitted writes. -/
def Store.crash (s : Store) : Store := { s with pending := [] }

inductive StoreOp where
  | set (k : Bytes) (v : SVal)
  | remove (k : Bytes)
  | commit
  deriving DecidableEq, Repr

/-! ### Environment answers -/

inductive ErrKind | user | transport | timeout
  deriving DecidableEq, Repr

inductive HttpOutcome where
  | fail (kind : ErrKind) (dt : Clock)
  /-- status, raw `X-Retry-After` header value if any, body, whether the response carries a valid
  CUP signature for this exchange, clock advance while the exchange was in flight -/
  | response (status : Nat) (retryAfter : Option Bytes) (body : Bytes) (authentic : Bool) (dt : Clock)
  deriving Repr

instance : Inhabited HttpOutcome := ⟨.fail .transport ⟨0, 0⟩⟩

inductive CheckDecision where
  | ok (p : RequestParams) | okUpdateDeferred (p : RequestParams)
  | tooSoon | throttled | denied
  deriving DecidableEq, Repr, Inhabited

inductive UpdateDecision | ok | deferred | denied
  deriving DecidableEq, Repr, Inhabited

inductive AppResult | installed | deferred | failed (msg : Nat)
  deriving DecidableEq, Repr, Inhabited

/-- Which construction step of a request fails, if any (header value or URL not acceptable). -/
inductive BuildErr | http | cupDecoration
  deriving DecidableEq, Repr

/-! ### Observable actions -/

inductive State where
  | idle | checking (src : InstallSource) | errorChecking | noUpdate | deferred | installing
  | waitingForReboot | installationError
  deriving DecidableEq, Repr

inductive ReqErr | json | httpBuilder | cupDecoration | cupValidation | transport | status
  deriving DecidableEq, Repr

inductive CheckErr | omahaRequest (e : ReqErr) | responseParser | installPlan
  deriving DecidableEq, Repr

/-- `update_check::Action`. -/
inductive AppAction | noUpdate | deferredByPolicy | deniedByPolicy | installError | updated
  deriving DecidableEq, Repr

/-- `update_check::AppResponse`. -/
structure AppResp where
  id : Bytes
  cohort : Cohort
  userCounting : Option Nat
  result : AppAction
  deriving DecidableEq, Repr

inductive Event where
  | state (s : State)
  | schedule (s : Schedule)
  | protocol (p : Proto)
  | result (r : Except CheckErr (List AppResp))
  | progress (k : Nat)
  | serverResponse (r : Resp.Response)
  | installerError (msg : Nat)
  deriving Repr

/-- What a request on the wire says, as far as the state machine determines it. -/
structure WireApp where
  id : Bytes
  version : Version
  fp : Option Bytes
  cohort : Cohort
  updateCheck : Option (Bool × Bool)
  ping : Option (Option Nat)            -- present?; ad = rd = value
  events : List Omaha.Event
  deriving Repr

inductive ReqKind | updateCheck | eventReport | ping
  deriving DecidableEq, Repr

structure WireReq where
  kind : ReqKind
  source : InstallSource
  sessionDraw : Option Nat             -- index of the GUID draw used as session id
  requestDraw : Option Nat
  nonceDraw : Option Nat               -- index of the nonce draw when CUP is configured
  apps : List WireApp
  deriving Repr

inductive Metric where
  | responseTime (ns : Nat) (ok : Bool)
  | checkInterval (ns : Nat) (mono : Bool) (src : InstallSource)
  | successfulUpdateDuration (ns : Nat)
  | successfulUpdateFromFirstSeen (ns : Nat)
  | failedUpdateDuration (ns : Nat)
  | failureReason (r : Nat)              -- 0 Omaha, 1 Network, 4 Internal
  | requestsPerCheck (n : Nat) (ok : Bool)
  | attemptsToSuccessfulCheck (n : Nat)
  | attemptsToSuccessfulInstall (n : Nat) (ok : Bool)
  | waitedForReboot (ns : Nat)
  | eventLost (e : Omaha.Event)
  deriving Repr

inductive Reply | started | alreadyRunning | throttled
  deriving DecidableEq, Repr

inductive TimerKind where
  | for_ (ns : Nat)
  | until_ (t : PCT)
  deriving DecidableEq, Repr

inductive Action where
  | event (e : Event)
  | policyNext (apps : List App) (s : Schedule) (p : Proto) (answer : Timing)
  | policyAllowed (apps : List App) (s : Schedule) (p : Proto) (opts : InstallSource) (answer : CheckDecision)
  | policyCanStart (plan : Nat) (answer : UpdateDecision)
  | policyRebootAllowed (opts : InstallSource) (answer : Bool)
  | policyRebootNeeded (plan : Nat) (answer : Bool)
  | http (req : WireReq) (outcome : HttpOutcome)
  | buildError (kind : ReqKind) (e : BuildErr)
  | timerArm (k : TimerKind)
  | timerFire (idx : Nat)
  | plan (source : InstallSource) (metaOk : Bool) (answer : Option Nat)
  | install (plan : Nat) (progress : List Nat) (results : List AppResult)
  | reboot (ok : Bool)
  | storage (op : StoreOp) (ok : Bool)
  | metric (m : Metric)
  | reply (ctl : Nat) (r : Reply)
  deriving Repr

end Omaha.SM
