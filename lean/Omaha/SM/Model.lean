/-
The state-machine model: one Lean definition per Rust function of state_machine.rs (same names
in camelCase), written as state transformers over `World`.  Every call the real code makes on one
of its trait objects and every event it yields is appended to `World.trace`; every answer of the
environment is taken from the queues in `World.env`.
-/
import Omaha.SM.Types
import Omaha.Uri
import Omaha.Cup

namespace Omaha.SM

open Omaha

/-- Answers of the environment for one unit of work, consumed front to back, per kind of call. -/
structure Env where
  httpUC : List HttpOutcome := []
  httpEV : List HttpOutcome := []
  httpPing : List HttpOutcome := []
  plan : Option Nat := some 0
  canStart : UpdateDecision := .ok
  progress : List Nat := []
  results : List AppResult := []
  installDt : Clock := ⟨0, 0⟩
  rebootNeeded : Bool := false
  storeFail : List Bool := []
  jitter : List Int := []               -- observed `rand::random::<u64>() % 1000` per back-off
  backoffDt : List Clock := []          -- clock advance while each back-off timer runs
  deriving Repr, Inhabited

structure World where
  cfg : Config
  cup : Option Nat := none              -- latest key id when a CUP handler is configured
  ctx : Ctx := {}
  apps : List App := []
  sysApp : Bytes := []
  store : Store := {}
  clock : Clock := ⟨0, 0⟩
  env : Env := {}
  nGuid : Nat := 0
  nNonce : Nat := 0
  nTimer : Nat := 0
  trace : List Action := []             -- newest first
  deriving Repr, Inhabited

def emit (a : Action) (w : World) : World := { w with trace := a :: w.trace }

def yieldEv (e : Event) (w : World) : World := emit (.event e) w

def metric (m : Metric) (w : World) : World := emit (.metric m) w

def tick (dt : Clock) (w : World) : World :=
  { w with clock := ⟨w.clock.wall + dt.wall, w.clock.mono + dt.mono⟩ }

/-! ### Storage keys -/

def kLastUpdateTime : Bytes := Bytes.ofString "last_update_time"
def kPoll : Bytes := Bytes.ofString "server_dictated_poll_interval"
def kFailedChecks : Bytes := Bytes.ofString "consecutive_failed_update_checks"
def kInstallPlanId : Bytes := Bytes.ofString "install_plan_id"
def kFirstSeen : Bytes := Bytes.ofString "update_first_seen_time"
def kFinishTime : Bytes := Bytes.ofString "update_finish_time"
def kTargetVersion : Bytes := Bytes.ofString "target_version"
def kFailedInstalls : Bytes := Bytes.ofString "consecutive_failed_install_attempts"

/-! ### Storage operations (each may fail according to the environment; failures have no effect
on the store and are otherwise ignored by the callers, except where noted) -/

def popFail (w : World) : Bool × World :=
  match w.env.storeFail with
  | [] => (false, w)
  | f :: rest => (f, { w with env := { w.env with storeFail := rest } })

/-- Effect of a successful storage operation. -/
def applyOp (op : StoreOp) (s : Store) : Store :=
  match op with
  | .set k v => { s with pending := (k, some v) :: s.pending }
  | .remove k => { s with pending := (k, none) :: s.pending }
  | .commit => s.commit

/-- Returns whether the operation succeeded. -/
def storeOp (op : StoreOp) (w : World) : Bool × World :=
  let (fail, w) := popFail w
  if fail then (false, emit (.storage op false) w)
  else (true, emit (.storage op true) { w with store := applyOp op w.store })

def storeOp_ (op : StoreOp) (w : World) : World := (storeOp op w).2

/-- `set_option_int`. -/
def setOptionInt (k : Bytes) (v : Option Int) (w : World) : Bool × World :=
  match v with
  | some i => storeOp (.set k (.int i)) w
  | none => storeOp (.remove k) w

/-- `set_time`: microseconds, or removal when the time does not fit. -/
def setTime (k : Bytes) (t : Int) (w : World) : Bool × World := setOptionInt k (Time.toMicros t) w

def pctWall : PCT → Option Int
  | .wall w => some w
  | .mono _ => none
  | .complex c => some c.wall

/-- `Context::persist`. -/
def persistCtx (w : World) : World :=
  let w := (setOptionInt kLastUpdateTime ((w.ctx.sched.lastUpdate.bind pctWall).bind Time.toMicros) w).2
  let w := (setOptionInt kPoll (w.ctx.st.poll.map fun ns => ((ns / 1000 : Nat) : Int)) w).2
  (setOptionInt kFailedChecks (if w.ctx.st.failures = 0 then none else some (w.ctx.st.failures : Int)) w).2

/-- `serde_json::to_string(&PersistedApp::from(app))`. -/
def persistedAppJson (a : App) : Bytes :=
  Json.render (.obj [
    (Bytes.ofString "cohort", .obj (Request.cohortMembers a.cohort)),
    (Bytes.ofString "user_counting", .obj [(Bytes.ofString "ClientRegulatedByDate",
      match a.userCounting with | some n => .int n | none => .null)])])

def persistApps : List App → World → World
  | [], w => w
  | a :: rest, w => persistApps rest (storeOp_ (.set a.id (.str (persistedAppJson a))) w)

/-- `persist_data`. -/
def persistData (w : World) : World :=
  storeOp_ .commit (persistApps w.apps (persistCtx w))

/-! ### Loading (builder.rs `build`) -/

structure PersistedApp where
  cohort : Cohort
  userCounting : Option Nat

open JsonP Resp in
/-- `serde_json::from_str::<PersistedApp>`; `none` = not decodable (the stored value is then
ignored), `some none` = outside the model. -/
def decodePersistedApp (text : Bytes) : Option (Option PersistedApp) :=
  match JsonP.parse text with
  | .err => some none
  | .outside => none
  | .ok v =>
    let r : R PersistedApp := (asStruct 2 fun kvs =>
      (req kvs "cohort" (asStruct 3 fun c =>
        (opt c "cohort" asStr).bind fun i =>
        (opt c "cohorthint" asStr).bind fun h =>
        (opt c "cohortname" asStr).bind fun n => .ok (⟨i, h, n⟩ : Cohort))).bind fun cohort =>
      (req kvs "user_counting" (fun uc =>
        match uc with
        | .obj [(k, v)] =>
          if k = s "ClientRegulatedByDate" then
            match v with
            | .null => .ok none
            | other => (asUint Dec.u32Max other).bind fun n => .ok (some n)
          else .err
        | .obj _ => .outside
        | .str _ => .outside
        | _ => .err)).bind fun uc =>
      .ok ⟨cohort, uc⟩) v
    match r with
    | .ok p => some (some p)
    | .err => some none
    | .outside => none

/-- `App::load`: stored values fill only the fields the embedder left unset. -/
def loadApp (st : Store) (a : App) : Option App :=
  match st.getString a.id with
  | none => some a
  | some text =>
    match decodePersistedApp text with
    | none => none
    | some none => some a
    | some (some p) =>
      some { a with
        cohort := { id := a.cohort.id.orElse fun _ => p.cohort.id,
                    hint := a.cohort.hint.orElse fun _ => p.cohort.hint,
                    name := a.cohort.name.orElse fun _ => p.cohort.name },
        userCounting := match a.userCounting with
          | none => p.userCounting
          | some n => some n }

def loadApps (st : Store) : List App → Option (List App)
  | [] => some []
  | a :: rest =>
    match loadApp st a, loadApps st rest with
    | some a', some rest' => some (a' :: rest')
    | _, _ => none

def u64Max : Int := 18446744073709551615
def u32Max : Int := 4294967295

/-- The stored poll interval: microseconds that fit `u64`, as nanoseconds. -/
def loadPoll : Option Int → Option Nat
  | some t => if 0 ≤ t ∧ t ≤ u64Max then some (t.toNat * 1000) else none
  | none => none

/-- The stored failure count: a value that fits `u32`, otherwise 0. -/
def loadFails : Option Int → Nat
  | some n => if 0 ≤ n ∧ n ≤ u32Max then n.toNat else 0
  | none => 0

/-- `Context::load`. -/
def loadCtx (st : Store) : Ctx :=
  let lut := (st.getTime kLastUpdateTime).map Time.PCT.wall
  let poll := loadPoll (st.getInt kPoll)
  let fails := loadFails (st.getInt kFailedChecks)
  { sched := { lastUpdate := lut, lastCheck := lut, next := none },
    st := { poll := poll, failures := fails, proxied := 0 } }

/-! ### Requests -/

/-- GUID draws are carried through the builder as a byte string whose *length* is the draw index
(an encoding that is injective for every index; the text of a GUID never matters to the state
machine). -/
def guidBytes (n : Nat) : Bytes := List.replicate n 0

def guidOf (b : Bytes) : Nat := b.length

def nextGuid (w : World) : Nat × World := (w.nGuid, { w with nGuid := w.nGuid + 1 })

/-- The builder state as the wire request summary. -/
def wireApps (b : Request.Builder) : List WireApp :=
  b.entries.map fun e =>
    { id := e.app.id, version := e.app.version, fp := e.app.fp, cohort := e.app.cohort,
      updateCheck := e.updateCheck,
      ping := if e.ping then some e.app.userCounting else none,
      events := e.events }

/-- Does constructing the HTTP request fail, and how (`RequestBuilder::build`)? -/
def buildError (w : World) (b : Request.Builder) : Option ReqErr :=
  let urlOk := match Uri.parse w.cfg.serviceUrl with
    | .ok _ => true
    | _ => false
  if w.cup.isSome ∧ !urlOk then some .cupDecoration
  else if !urlOk then some .httpBuilder
  else if (Request.headers w.cfg b).all (fun h => Request.headerValueOk h.2) then none
  else some .httpBuilder

def popHttp (kind : ReqKind) (w : World) : HttpOutcome × World :=
  match kind with
  | .updateCheck =>
    match w.env.httpUC with
    | o :: rest => (o, { w with env := { w.env with httpUC := rest } })
    | [] => (default, w)
  | .eventReport =>
    match w.env.httpEV with
    | o :: rest => (o, { w with env := { w.env with httpEV := rest } })
    | [] => (default, w)
  | .ping =>
    match w.env.httpPing with
    | o :: rest => (o, { w with env := { w.env with httpPing := rest } })
    | [] => (default, w)

/-- The header value → poll interval in ns (`to_str` then `parse::<u64>` then `min(_, 86400)` s). -/
def parseRetryAfter (h : Option Bytes) : Option Nat :=
  match h with
  | none => none
  | some raw =>
    if raw.all Cup.visible then
      (Dec.parseU64 raw).map fun secs => (min secs 86400) * 1000000000
    else none

structure ReqFail where
  err : ReqErr
  user : Bool := false

/-- The header-processing step: a changed poll interval is stored in the context, announced and
committed at once. -/
def applyPoll (poll : Option Nat) (w : World) : World :=
  if w.ctx.st.poll ≠ poll then
    let w := { w with ctx := { w.ctx with st := { w.ctx.st with poll := poll } } }
    let w := yieldEv (.protocol w.ctx.st) w
    storeOp_ .commit (persistCtx w)
  else w

/-- Put the request on the wire: draw the nonce (with CUP), take the environment's outcome, log
the exchange. -/
def sendRequest (kind : ReqKind) (b : Request.Builder) (w : World) : HttpOutcome × World :=
  let nonce := if w.cup.isSome then some w.nNonce else none
  let w := if w.cup.isSome then { w with nNonce := w.nNonce + 1 } else w
  let (outcome, w) := popHttp kind w
  let req : WireReq := { kind := kind, source := b.params.source,
                         sessionDraw := b.sessionId.map guidOf, requestDraw := b.requestId.map guidOf,
                         nonceDraw := nonce, apps := wireApps b }
  (outcome, emit (.http req outcome) w)

/-- What the state machine does with the outcome of an exchange: verification first, then the
poll-interval header, then the status. -/
def handleOutcome (outcome : HttpOutcome) (w : World) : Except ReqFail Bytes × World :=
  match outcome with
  | .fail k dt => (.error ⟨.transport, k == .user⟩, tick dt w)
  | .response status retryAfter body authentic dt =>
    let w := tick dt w
    if w.cup.isSome ∧ !authentic then (.error ⟨.cupValidation, false⟩, w)
    else
      let w := applyPoll (parseRetryAfter retryAfter) w
      if 200 ≤ status ∧ status < 300 then (.ok body, w)
      else (.error ⟨.status, false⟩, w)

/-- `do_omaha_request_and_update_context`. -/
def omahaRequest (kind : ReqKind) (b : Request.Builder) (w : World) : Except ReqFail Bytes × World :=
  match buildError w b with
  | some e => (.error ⟨e, false⟩, emit (.buildError kind (if e = .cupDecoration then .cupDecoration else .http)) w)
  | none =>
    let (outcome, w) := sendRequest kind b w
    handleOutcome outcome w


def withRequestId (b : Request.Builder) (w : World) : Request.Builder × World :=
  let (g, w) := nextGuid w
  ({ b with requestId := some (guidBytes g) }, w)

/-! ### The update check -/

/-- `report_check_interval`. -/
def reportCheckInterval (src : InstallSource) (w : World) : World :=
  let now := w.clock
  let w := match w.ctx.sched.lastCheck with
    | some (.wall t) => if t ≤ now.wall then metric (.checkInterval (now.wall - t).toNat false src) w else w
    | some (.complex c) => if c.mono ≤ now.mono then metric (.checkInterval (now.mono - c.mono).toNat true src) w else w
    | _ => w
  { w with ctx := { w.ctx with sched := { w.ctx.sched with lastCheck := some (.complex ⟨now.wall, now.mono⟩) } } }

def popJitter (w : World) : Int × Clock × World :=
  let (j, env) := match w.env.jitter with
    | j :: rest => (j, { w.env with jitter := rest })
    | [] => (0, w.env)
  let (dt, env) := match env.backoffDt with
    | d :: rest => (d, { env with backoffDt := rest })
    | [] => (⟨0, 0⟩, env)
  (j, dt, { w with env := env })

/-- The decision after a failed attempt: stop (`true`) or back off and retry.  Only a transport
failure that is not a caller error and a non-2xx status are retryable, only before the third
attempt and only while no server-dictated poll interval is in force. -/
def giveUp (f : ReqFail) (attempt : Nat) (poll : Option Nat) : Bool :=
  match f.err with
  | .transport => attempt ≥ 3 || f.user || poll.isSome
  | .status => attempt ≥ 3 || poll.isSome
  | _ => true

/-- Randomised exponential back-off after the `attempt`-th failure: `2^(attempt-1)` s ± 500 ms. -/
def backoffMs (attempt : Nat) (j : Int) : Nat := 2 ^ (attempt - 1) * 1000 - 500 + (j % 1000).toNat

def isOk {ε α} : Except ε α → Bool
  | .ok _ => true
  | .error _ => false

/-- Arm the back-off timer after the `attempt`-th failure and wait for it. -/
def backoff (attempt : Nat) (w : World) : World :=
  let (j, dt, w) := popJitter w
  let w := emit (.timerArm (.for_ (backoffMs attempt j * 1000000))) w
  tick dt { w with nTimer := w.nTimer + 1 }

/-- The attempt loop of `perform_update_check`: `fuel` attempts are left, `attempt` is 1-based. -/
def attemptLoop : Nat → Nat → Request.Builder → World → Except ReqFail Bytes × Nat × World
  | 0, attempt, _, w => (.error ⟨.transport, false⟩, attempt, w)      -- unreachable: fuel = 3
  | fuel + 1, attempt, b, w =>
    let start := w.clock.mono
    let (b, w) := withRequestId b w
    let (res, w) := omahaRequest .updateCheck b w
    let w := if start ≤ w.clock.mono then metric (.responseTime (w.clock.mono - start).toNat (isOk res)) w else w
    match res with
    | .ok body => (.ok body, attempt, w)
    | .error f =>
      if giveUp f attempt w.ctx.st.poll then (.error f, attempt, yieldEv (.state .errorChecking) w)
      else attemptLoop fuel (attempt + 1) b (backoff attempt w)

def eventError (code : Int) : Omaha.Event := { eventType := 3, eventResult := 0, errorcode := some code }
def eventSuccess (ty : Nat) : Omaha.Event := { eventType := ty, eventResult := 1 }
def eventDeferred : Omaha.Event := { eventType := 3, eventResult := 9 }

/-- `next_versions`: app id → manifest version, for response apps offered an update (a later
duplicate id replaces an earlier one). -/
def nextVersions (r : Resp.Response) : List (Bytes × Option Bytes) :=
  (r.apps.filter fun a => match a.updateCheck with
    | some u => u.status == .ok
    | none => false).foldl (fun acc a => setAssoc a.id a.manifestVersion acc) []

def durationMs (ns : Nat) : Option Nat :=
  let ms := ns / 1000000
  if ms ≤ Dec.u64Max then some ms else none

/-- `report_omaha_event_and_update_context`. -/
def reportEvent (params : RequestParams) (ev : Omaha.Event) (apps : List App) (session : Nat)
    (nv : List (Bytes × Option Bytes)) (installNs : Option Nat) (w : World) : World :=
  let b : Request.Builder := { params := params }
  let b := apps.foldl (fun b app =>
    match lookup app.id nv with
    | some next =>
      b.apply (.event app { ev with previousVersion := some (Version.print app.version), nextVersion := next,
                                    downloadTimeMs := installNs.bind durationMs })
    | none => b) b
  let b := { b with sessionId := some (guidBytes session) }
  let (b, w) := withRequestId b w
  let (res, w) := omahaRequest .eventReport b w
  match res with
  | .ok _ => w
  | .error _ => metric (.eventLost ev) w

def makeAppResponses (r : Resp.Response) (action : AppAction) : List AppResp :=
  r.apps.map fun a =>
    { id := a.id, cohort := a.cohort, userCounting := r.daystart.bind (·.elapsedDays), result := action }

/-- Is this the plan whose first-seen time is on record? -/
def samePlan (w : World) (planId : Bytes) : Bool :=
  match w.store.getString kInstallPlanId with
  | some prev => prev == planId
  | none => false

/-- A different plan: record its id and first-seen time (both or neither), and commit. -/
def recordNewPlan (planId : Bytes) (now : Int) (w : World) : Int × World :=
  if !(storeOp (.set kInstallPlanId (.str planId)) w).1 then (now, (storeOp (.set kInstallPlanId (.str planId)) w).2)
  else if !(setTime kFirstSeen now (storeOp (.set kInstallPlanId (.str planId)) w).2).1 then
    (now, storeOp_ (.remove kInstallPlanId) (setTime kFirstSeen now (storeOp (.set kInstallPlanId (.str planId)) w).2).2)
  else (now, storeOp_ .commit (setTime kFirstSeen now (storeOp (.set kInstallPlanId (.str planId)) w).2).2)

/-- `record_update_first_seen_time`. -/
def recordFirstSeen (planId : Bytes) (now : Int) (w : World) : Int × World :=
  if samePlan w planId then ((w.store.getTime kFirstSeen).getD now, w)
  else recordNewPlan planId now w

def planIdText (n : Nat) : Bytes := Bytes.ofString "plan-" ++ Dec.render n

structure CheckOk where
  responses : List AppResp
  reboot : Bool

/-- The per-app result events and the result list (`zip` with the installer's results, unknown
apps skipped; `remove(0)` alignment for the result list). -/
def resultEvent (r : AppResult) : Omaha.Event :=
  match r with
  | .installed => eventSuccess 14
  | .deferred => eventDeferred
  | .failed _ => eventError 2

def isOffered (a : Resp.App) : Bool :=
  match a.updateCheck with
  | some u => u.status == .ok
  | none => false

def alignResults (apps : List Resp.App) (results : List AppResult) : List AppAction :=
  match apps with
  | [] => []
  | a :: rest =>
    if isOffered a then
      match results with
      | r :: rs =>
        (match r with
         | .installed => AppAction.updated
         | .deferred => .deferredByPolicy
         | .failed _ => .installError) :: alignResults rest rs
      | [] => .noUpdate :: alignResults rest []          -- contract violation (Rust would panic)
    else .noUpdate :: alignResults rest results

def offeredApps (r : Resp.Response) : List Resp.App := r.apps.filter isOffered

abbrev CheckResult := Option (Except CheckErr CheckOk)

/-- The body could not be parsed: ErrorCheckingForUpdate, a parse-error event for all apps. -/
def parseFailedPhase (params : RequestParams) (apps : List App) (session : Nat) (w : World) : CheckResult × World :=
  let w := yieldEv (.state .errorChecking) w
  let w := reportEvent params (eventError 0) apps session (apps.map fun a => (a.id, none)) none w
  (some (.error .responseParser), w)

/-- No app was offered an update. -/
def noUpdatePhase (response : Resp.Response) (w : World) : CheckResult × World :=
  let w := yieldEv (.state .noUpdate) w
  (some (.ok ⟨makeAppResponses response .noUpdate, false⟩), w)

/-- The installer could not make a plan out of the response. -/
def planFailedPhase (params : RequestParams) (apps : List App) (session : Nat)
    (nv : List (Bytes × Option Bytes)) (w : World) : CheckResult × World :=
  let w := yieldEv (.state .installing) w
  let w := yieldEv (.state .installationError) w
  let w := reportEvent params (eventError 1) apps session nv none w
  (some (.error .installPlan), w)

def deferredPhase (params : RequestParams) (apps : List App) (session : Nat)
    (nv : List (Bytes × Option Bytes)) (response : Resp.Response) (w : World) : CheckResult × World :=
  let w := reportEvent params eventDeferred apps session nv none w
  let w := yieldEv (.state .deferred) w
  (some (.ok ⟨makeAppResponses response .deferredByPolicy, false⟩), w)

def deniedPhase (params : RequestParams) (apps : List App) (session : Nat)
    (nv : List (Bytes × Option Bytes)) (response : Resp.Response) (w : World) : CheckResult × World :=
  let w := reportEvent params (eventError 3) apps session nv none w
  (some (.ok ⟨makeAppResponses response .deniedByPolicy, false⟩), w)

def noFailure (results : List AppResult) : Bool :=
  results.all fun r => match r with
    | .failed _ => false
    | _ => true

/-- The apps of the set that were offered an update, with the response entry and the installer's
result for each (`zip`, unknown app ids skipped). -/
def knownResults (apps : List App) (response : Resp.Response) (results : List AppResult) :
    List (App × Resp.App × AppResult) :=
  ((offeredApps response).zip results).filterMap fun (ra, r) =>
    match apps.find? (fun a => a.id == ra.id) with
    | some a => some (a, ra, r)
    | none => none

def resultEvents (known : List (App × Resp.App × AppResult)) (installNs : Option Nat) : List (App × Omaha.Event) :=
  known.map fun (a, ra, r) =>
    (a, { resultEvent r with previousVersion := some (Version.print a.version),
                              nextVersion := ra.manifestVersion,
                              downloadTimeMs := installNs.bind durationMs })

def installedApps (known : List (App × Resp.App × AppResult)) : List App :=
  known.filterMap fun (a, _, r) => match r with
    | .installed => some a
    | _ => none

/-- The per-app result report: one request carrying one event per known offered app. -/
def reportResults (params : RequestParams) (evs : List (App × Omaha.Event)) (session : Nat) (w : World) : World :=
  let b : Request.Builder := { params := params }
  let b := evs.foldl (fun b (a, e) => b.apply (.event a e)) b
  let b := { b with sessionId := some (guidBytes session) }
  let (b, w) := withRequestId b w
  let (res, w) := omahaRequest .eventReport b w
  match res with
  | .ok _ => w
  | .error _ => evs.foldl (fun w (_, e) => metric (.eventLost e) w) w

def failedMessages (results : List AppResult) : List Nat :=
  results.filterMap fun r => match r with
    | .failed m => some m
    | _ => none

/-- The system app's target version (manifest version, or "UNKNOWN"), when the system app was
offered an update. -/
def setTargetVersion (nv : List (Bytes × Option Bytes)) (w : World) : World :=
  match lookup w.sysApp nv with
  | some next => storeOp_ (.set kTargetVersion (.str (next.getD (Bytes.ofString "UNKNOWN")))) w
  | none => w

def firstSeenMetric (firstSeen finish : Int) (w : World) : World :=
  if firstSeen ≤ finish then metric (.successfulUpdateFromFirstSeen (finish - firstSeen).toNat) w else w

/-- After an install with no failed app: first-seen metric, finish time and the system app's
target version recorded durably, then the reboot-needed question. -/
def recordFinish (planId : Nat) (firstSeen finish : Int) (nv : List (Bytes × Option Bytes)) (w : World) : Bool × World :=
  let w4 := storeOp_ .commit (setTargetVersion nv (setTime kFinishTime finish (firstSeenMetric firstSeen finish w)).2)
  (w4.env.rebootNeeded, emit (.policyRebootNeeded planId w4.env.rebootNeeded) w4)

/-- `perform_install` joined with the progress forwarding: the call, every progress value in
order, then the clock advance of the install. -/
def runInstall (planId : Nat) (w : World) : World :=
  tick w.env.installDt
    (w.env.progress.foldl (fun w k => yieldEv (.progress k) w) (emit (.install planId w.env.progress w.env.results) w))

/-- The update-duration metric (when the wall clock did not go backwards). -/
def durationMetric (startWall : Int) (results : List AppResult) (w : World) : Option Nat × World :=
  if startWall ≤ w.clock.wall then
    (some (w.clock.wall - startWall).toNat,
     metric (if noFailure results then .successfulUpdateDuration (w.clock.wall - startWall).toNat
             else .failedUpdateDuration (w.clock.wall - startWall).toNat) w)
  else (none, w)

/-- The reports after an install: one request with the per-app result events, then
UpdateComplete for the apps that installed (if any). -/
def reportInstall (params : RequestParams) (apps : List App) (session : Nat) (nv : List (Bytes × Option Bytes))
    (response : Resp.Response) (results : List AppResult) (installNs : Option Nat) (w : World) : World :=
  let known := knownResults apps response results
  let w := reportResults params (resultEvents known installNs) session w
  if (installedApps known).isEmpty then w
  else reportEvent params (eventSuccess 3) (installedApps known) session nv installNs w

def installResponses (response : Resp.Response) (results : List AppResult) : List AppResp :=
  (response.apps.zip (alignResults response.apps results)).map fun (a, act) =>
    ({ id := a.id, cohort := a.cohort, userCounting := response.daystart.bind (·.elapsedDays),
       result := act } : AppResp)

/-- The end of the install path: installer errors announced and InstallationError, or the finish
record and the reboot question. -/
def finishInstall (planId : Nat) (firstSeen finish : Int) (nv : List (Bytes × Option Bytes))
    (response : Resp.Response) (results : List AppResult) (w : World) : CheckResult × World :=
  if !(failedMessages results).isEmpty then
    (some (.ok ⟨installResponses response results, false⟩),
     yieldEv (.state .installationError) ((failedMessages results).foldl (fun w m => yieldEv (.installerError m) w) w))
  else
    (some (.ok ⟨installResponses response results, (recordFinish planId firstSeen finish nv w).1⟩),
     (recordFinish planId firstSeen finish nv w).2)

/-- The policy approved: install, report, record. -/
def installPhase (params : RequestParams) (apps : List App) (session : Nat)
    (nv : List (Bytes × Option Bytes)) (response : Resp.Response) (planId : Nat) (w : World) : CheckResult × World :=
  let w1 := reportEvent params (eventSuccess 13) apps session nv none (yieldEv (.state .installing) w)
  let r2 := recordFirstSeen (planIdText planId) w1.clock.wall w1
  let w3 := runInstall planId r2.2
  let r4 := durationMetric w1.clock.wall r2.2.env.results w3
  let w5 := reportInstall params apps session nv response r2.2.env.results r4.1 r4.2
  finishInstall planId r2.1 w3.clock.wall nv response r2.2.env.results w5

/-- A usable response offered an update to at least one app: plan, policy, then one of the four
continuations. -/
def updatePhase (params : RequestParams) (apps : List App) (session : Nat) (response : Resp.Response)
    (w : World) : CheckResult × World :=
  let nv := nextVersions response
  let w := emit (.plan params.source w.cup.isSome w.env.plan) w
  match w.env.plan with
  | none => planFailedPhase params apps session nv w
  | some planId =>
    let w := emit (.policyCanStart planId w.env.canStart) w
    match w.env.canStart with
    | .deferred => deferredPhase params apps session nv response w
    | .denied => deniedPhase params apps session nv response w
    | .ok => installPhase params apps session nv response planId w

/-- What is done with the body of a successful update-check exchange. `none` in the first component
means the body is outside the model's JSON domain. -/
def responsePhase (params : RequestParams) (apps : List App) (session : Nat) (body : Bytes) (w : World) :
    CheckResult × World :=
  match Resp.parseJsonResponse body with
  | .outside => (none, w)
  | .err => parseFailedPhase params apps session w
  | .ok response =>
    let w := yieldEv (.serverResponse response) w
    if (offeredApps response).isEmpty then noUpdatePhase response w
    else updatePhase params apps session response w

/-- The request of a check: all apps with update check and ping, one session id. -/
def checkBuilder (params : RequestParams) (apps : List App) (session : Nat) : Request.Builder :=
  let b : Request.Builder := { params := params }
  let b := apps.foldl (fun b app => (b.apply (.updateCheck app)).apply (.ping app)) b
  { b with sessionId := some (guidBytes session) }

/-- `perform_update_check`. -/
def performUpdateCheck (params : RequestParams) (apps : List App) (w : World) : CheckResult × World :=
  let w := yieldEv (.state (.checking params.source)) w
  let w := reportCheckInterval params.source w
  let (session, w) := nextGuid w
  let (res, attempts, w) := attemptLoop 3 1 (checkBuilder params apps session) w
  let w := metric (.requestsPerCheck attempts (isOk res)) w
  match res with
  | .error f => (some (.error (.omahaRequest f.err)), w)
  | .ok body => responsePhase params apps session body w

/-- `Cohort::update_from_omaha` and `AppSetExt::update_from_omaha`. -/
def updateCohort (c o : Cohort) : Cohort :=
  { id := o.id.orElse fun _ => c.id, hint := o.hint.orElse fun _ => c.hint, name := o.name.orElse fun _ => c.name }

def updateFromOmaha (apps : List App) (rs : List AppResp) : List App :=
  apps.map fun a =>
    match rs.find? (fun r => r.id == a.id) with
    | some r => { a with cohort := updateCohort a.cohort r.cohort, userCounting := r.userCounting }
    | none => a

def satAdd32 (n : Nat) : Nat := if n + 1 > Dec.u32Max then Dec.u32Max else n + 1

/-- `report_attempts_to_successful_check`. -/
def reportAttemptsCheck (success : Bool) (w : World) : World :=
  let attempts := satAdd32 w.ctx.st.failures
  if success then
    metric (.attemptsToSuccessfulCheck attempts) { w with ctx := { w.ctx with st := { w.ctx.st with failures := 0 } } }
  else { w with ctx := { w.ctx with st := { w.ctx.st with failures := attempts } } }

def i64Max : Int := 9223372036854775807

/-- `report_attempts_to_successful_install` (the count is reported as `attempts as u64`). -/
def reportAttemptsInstall (success : Bool) (w : World) : World :=
  let stored := (w.store.getInt kFailedInstalls).getD 0
  let attempts := if stored + 1 > i64Max then i64Max else stored + 1
  let asU64 : Nat := if attempts < 0 then (attempts + 18446744073709551616).toNat else attempts.toNat
  let w := metric (.attemptsToSuccessfulInstall asU64 success) w
  if success then storeOp_ (.remove kFailedInstalls) w
  else storeOp_ (.set kFailedInstalls (.int attempts)) w

def setLastUpdate (w : World) : World :=
  { w with ctx := { w.ctx with sched := { w.ctx.sched with lastUpdate := some (.complex ⟨w.clock.wall, w.clock.mono⟩) } } }

/-- The `install_success` fold of `start_update_check`. -/
def installSuccess (rs : List AppResp) : Option Bool :=
  rs.foldl (fun acc r =>
    match acc, r.result with
    | _, .installError => some false
    | none, .updated => some true
    | acc, _ => acc) none

/-- The three closing events of every check, then the data is persisted. -/
def closeCheck (r : Except CheckErr (List AppResp)) (w : World) : World :=
  let w := yieldEv (.schedule w.ctx.sched) w
  let w := yieldEv (.protocol w.ctx.st) w
  let w := yieldEv (.result r) w
  persistData w

/-- `start_update_check`, success branch, up to the closing events. -/
def prepareOk (ok : CheckOk) (w : World) : World :=
  let w := setLastUpdate w
  let w := reportAttemptsCheck true w
  let w := { w with apps := updateFromOmaha w.apps ok.responses }
  match installSuccess ok.responses with
  | some s => reportAttemptsInstall s w
  | none => w

/-- `start_update_check`, success branch. -/
def finishCheckOk (ok : CheckOk) (w : World) : World :=
  closeCheck (.ok ok.responses) (prepareOk ok w)

/-- The failure reason metric: 0 Omaha, 1 Network, 4 Internal. -/
def failureReason : CheckErr → Nat
  | .responseParser => 0
  | .installPlan => 0
  | .omahaRequest .transport => 1
  | .omahaRequest .status => 1
  | .omahaRequest _ => 4

/-- Did the server answer? (An unparseable body or an unusable install plan still counts as
contact; transport, status, construction and authentication failures do not.) -/
def talkedToOmaha : CheckErr → Bool
  | .responseParser => true
  | .installPlan => true
  | .omahaRequest _ => false

/-- `start_update_check`, failure branch, up to the closing events. -/
def prepareErr (e : CheckErr) (w : World) : World :=
  let w := if talkedToOmaha e then setLastUpdate w else w
  let w := metric (.failureReason (failureReason e)) w
  reportAttemptsCheck false w

/-- `start_update_check`, failure branch. -/
def finishCheckErr (e : CheckErr) (w : World) : World :=
  closeCheck (.error e) (prepareErr e w)

/-- `start_update_check`: returns whether a reboot is needed; `none` = outside the model. -/
def startUpdateCheck (params : RequestParams) (w : World) : Option Bool × World :=
  let (res, w) := performUpdateCheck params w.apps w
  match res with
  | none => (none, w)
  | some (.ok ok) => (some ok.reboot, finishCheckOk ok w)
  | some (.error e) => (some false, finishCheckErr e w)

/-- A failed ping counts as one failed check and is persisted. -/
def pingFailed (w : World) : World :=
  persistData { w with ctx := { w.ctx with st := { w.ctx.st with failures := satAdd32 w.ctx.st.failures } } }

/-- A successful ping resets the failure count, is a contact with the server, and updates the
apps from the response. -/
def pingSucceeded (response : Resp.Response) (w : World) : World :=
  let w := { w with ctx := { w.ctx with st := { w.ctx.st with failures := 0 } } }
  let w := setLastUpdate w
  let w := yieldEv (.schedule w.ctx.sched) w
  let w := { w with apps := updateFromOmaha w.apps (makeAppResponses response .noUpdate) }
  persistData w

/-- `ping_omaha`. -/
def pingOmaha (w : World) : Option Unit × World :=
  let params : RequestParams := { source := .scheduledTask, useConfiguredProxies := true }
  let b : Request.Builder := { params := params }
  let b := w.apps.foldl (fun b app => b.apply (.ping app)) b
  let (session, w) := nextGuid w
  let b := { b with sessionId := some (guidBytes session) }
  let (b, w) := withRequestId b w
  let (res, w) := omahaRequest .ping b w
  match res with
  | .error _ => (some (), pingFailed w)
  | .ok body =>
    match Resp.parseJsonResponse body with
    | .outside => (none, w)
    | .err => (some (), pingFailed w)
    | .ok response => (some (), pingSucceeded response w)

end Omaha.SM
