/-
`StateMachine::run`, `wait_for_reboot`, `report_waited_for_reboot_duration`, the builder's
`build` / `start` / `oneshot_check`, crash and rebuild — as units of work over `World`.
-/
import Omaha.SM.Model

namespace Omaha.SM

open Omaha

/-- One step the environment takes while the machine is blocked in a `select!`. -/
inductive WaitStep where
  | fire (timer : Nat)                        -- the timer with this arm index (of the unit) fires
  | ctl (id : Nat) (src : InstallSource)      -- a start-update-check request arrives
  deriving Repr, DecidableEq

/-- What the environment does during one iteration of `run`'s loop. -/
structure UnitEnv where
  next : Timing                               -- answer of `compute_next_update_time`
  wake : List WaitStep                        -- steps taken during the outer wait
  wakeDt : Clock := ⟨0, 0⟩                    -- clock advance during the outer wait
  allow : CheckDecision
  env : Env := {}
  /-- control requests that arrive during the check (all answered AlreadyRunning) -/
  during : List (Nat × InstallSource) := []
  rebootAllowed : List Bool := []             -- successive answers of `reboot_allowed`
  /-- answers of `compute_next_update_time` while waiting to reboot (at entry, then after each ping) -/
  rebootNext : List Timing := []
  /-- (step, clock advance before it) while waiting to reboot -/
  rebootSteps : List (WaitStep × Clock) := []
  rebootOk : Bool := true
  deriving Repr

def valid (a : App) : Bool := !a.id.isEmpty && a.version != ⟨0, 0, 0, 0⟩

/-- `update_next_update_time`. -/
def updateNext (t : Timing) (w : World) : World :=
  let w := emit (.policyNext w.apps w.ctx.sched w.ctx.st t) w
  let w := { w with ctx := { w.ctx with sched := { w.ctx.sched with next := some t } } }
  yieldEv (.schedule w.ctx.sched) w

/-- `make_wait_to_next_check`: arms `wait_for(min)` then `wait_until(time)`; returns the arm
indices that must all fire. -/
def armWait (t : Timing) (w : World) : List Nat × World :=
  match t.minWait with
  | some d =>
    let w := emit (.timerArm (.for_ d)) w
    let w := emit (.timerArm (.until_ t.time)) w
    ([w.nTimer, w.nTimer + 1], { w with nTimer := w.nTimer + 2 })
  | none =>
    let w := emit (.timerArm (.until_ t.time)) w
    ([w.nTimer], { w with nTimer := w.nTimer + 1 })

/-- `report_waited_for_reboot_duration`: `some w'` when the metric was reported. -/
def reportWaited (finish : Int) (startMono : Int) (w : World) : Option World :=
  let now := w.clock
  if now.wall < finish then none
  else if now.mono < startMono then none
  else
    let a := (now.wall - finish).toNat
    let b := (now.mono - startMono).toNat
    if a < b then none else some (metric (.waitedForReboot (a - b)) w)

/-- State carried across iterations of `run`'s loop. -/
structure RunState where
  startMono : Int
  finishTime : Option Int
  shouldReport : Bool
  deriving Repr

/-- The prelude of `run`: validity gate and the start-up reads. `none` = the machine does not
start (invalid app set). -/
def runStart (w : World) : Option RunState :=
  if !w.apps.all valid then none
  else
    let fin := w.store.getTime kFinishTime
    let should := fin.isSome && (match w.store.getString kTargetVersion with
      | some tv => tv == w.cfg.os.version
      | none => false)
    some ⟨w.clock.mono, fin, should⟩

/-- The outer wait: process the scripted steps until the wait is over. Returns the trigger:
`none` = all timers fired (default options), `some (id, src)` = a control request. `stalled` when
the steps end before the wait does. -/
inductive Wake where
  | timers | ctl (id : Nat) (src : InstallSource) | stalled

def outerWait (need : List Nat) : List WaitStep → World → Wake × World
  | [], w => (if need.isEmpty then .timers else .stalled, w)
  | .fire i :: rest, w =>
    let w := emit (.timerFire i) w
    let need := need.filter (· ≠ i)
    if need.isEmpty then (.timers, w) else outerWait need rest w
  | .ctl id src :: _, w => (.ctl id src, w)

def popTiming : List Timing → Timing × List Timing
  | t :: r => (t, r)
  | [] => (default, [])

def popBool : List Bool → Bool × List Bool
  | a :: r => (a, r)
  | [] => (false, [])

/-- The waiting-for-reboot loop over the scripted steps. `some true` = reboot now, `some false` =
the script ended while still waiting, `none` = outside the model. -/
def rebootLoop (opts : InstallSource) (t30 : Nat) (pingNeed : List Nat) :
    List (WaitStep × Clock) → List Bool → List Timing → World → Option Bool × World
  | [], _, _, w => (some false, w)
  | (step, dt) :: rest, answers, nexts, w =>
    let w := tick dt w
    match step with
    | .fire i =>
      let w := emit (.timerFire i) w
      if i = t30 then
        -- the 30-minute timer: ask again
        let (ans, answers) := popBool answers
        let w := emit (.policyRebootAllowed opts ans) w
        if ans then (some true, w)
        else
          let w := emit (.timerArm (.for_ (1800 * 1000000000))) w
          rebootLoop opts w.nTimer pingNeed rest answers nexts { w with nTimer := w.nTimer + 1 }
      else
        let pingNeed' := pingNeed.filter (· ≠ i)
        if pingNeed'.isEmpty ∧ pingNeed.contains i then
          -- the ping wait is over: ping, ask for the next timing, re-arm
          let (r, w) := pingOmaha w
          match r with
          | none => (none, w)
          | some () =>
            let (t, nexts) := popTiming nexts
            let w := updateNext t w
            let (need, w) := armWait t w
            rebootLoop opts t30 need rest answers nexts w
        else rebootLoop opts t30 pingNeed' rest answers nexts w
    | .ctl id src =>
      let w := emit (.reply id .alreadyRunning) w
      if src = .onDemand then
        let (ans, answers) := popBool answers
        let w := emit (.policyRebootAllowed .onDemand ans) w
        if ans then (some true, w) else rebootLoop .onDemand t30 pingNeed rest answers nexts w
      else rebootLoop opts t30 pingNeed rest answers nexts w

/-- The waiting part of `wait_for_reboot`: the first question, then (if refused) the 30-minute
timer, the ping schedule and the loop. `some true` = reboot now. -/
def rebootWait (opts : InstallSource) (u : UnitEnv) (w : World) : Option Bool × World :=
  let w := emit (.policyRebootAllowed opts (popBool u.rebootAllowed).1) w
  if (popBool u.rebootAllowed).1 then (some true, w)
  else
    let w := emit (.timerArm (.for_ (1800 * 1000000000))) w
    let t30 := w.nTimer
    let w := { w with nTimer := w.nTimer + 1 }
    let w := updateNext (popTiming u.rebootNext).1 w
    let (need, w) := armWait (popTiming u.rebootNext).1 w
    rebootLoop opts t30 need u.rebootSteps (popBool u.rebootAllowed).2 (popTiming u.rebootNext).2 w

/-- The reboot is attempted exactly when the wait ended with a positive answer. -/
def doReboot (u : UnitEnv) (p : Option Bool × World) : Option Bool × World :=
  match p.1 with
  | some true => (some true, emit (.reboot u.rebootOk) p.2)
  | other => (other, p.2)

/-- `wait_for_reboot`. Returns `some true` when the reboot was attempted. -/
def waitForReboot (opts : InstallSource) (u : UnitEnv) (w : World) : Option Bool × World :=
  doReboot u (rebootWait opts u w)

inductive UnitResult where
  | completed | stalled | outside
  deriving Repr, DecidableEq

/-- The pending waited-for-reboot report, retried at the top of every loop iteration until it
succeeds: metric, removal of both keys, commit. -/
def waitedStep (rs : RunState) (w : World) : RunState × World :=
  if rs.shouldReport then
    match rs.finishTime with
    | some fin =>
      match reportWaited fin rs.startMono w with
      | some w =>
        let w := storeOp_ (.remove kFinishTime) w
        let w := storeOp_ (.remove kTargetVersion) w
        ({ rs with shouldReport := false }, storeOp_ .commit w)
      | none => (rs, w)
    | none => (rs, w)
  else (rs, w)

/-- What follows a check in `run`: Idle, or WaitingForReboot, the reboot wait, and Idle. -/
def afterCheck (u : UnitEnv) (opts : InstallSource) (reboot : Option Bool) (w : World) : UnitResult × World :=
  match reboot with
  | none => (.outside, w)
  | some false => (.completed, yieldEv (.state .idle) w)
  | some true =>
    let w := yieldEv (.state .waitingForReboot) w
    let (r, w) := waitForReboot opts u w
    match r with
    | none => (.outside, w)
    | some false => (.stalled, w)
    | some true => (.completed, yieldEv (.state .idle) w)

/-- Control requests arriving during the check are answered AlreadyRunning. -/
def replyDuring (during : List (Nat × InstallSource)) (w : World) : World :=
  during.foldl (fun w (id, _) => emit (.reply id .alreadyRunning) w) w

/-- An on-demand request during the check upgrades the options used for the reboot question. -/
def upgradeOpts (during : List (Nat × InstallSource)) (opts : InstallSource) : InstallSource :=
  if during.any (fun (_, src) => src == .onDemand) then .onDemand else opts

def replyCtl (ctl : Option Nat) (r : Reply) (w : World) : World :=
  match ctl with
  | some id => emit (.reply id r) w
  | none => w

/-- The wait is over (all timers fired: `ctl = none`, default options; or a control request):
ask the policy, reply, and run the check if allowed. -/
def decideAndCheck (u : UnitEnv) (opts : InstallSource) (ctl : Option Nat) (w : World) : UnitResult × World :=
  let w := emit (.policyAllowed w.apps w.ctx.sched w.ctx.st opts u.allow) w
  match u.allow with
  | .tooSoon | .throttled | .denied => (.completed, replyCtl ctl .throttled w)
  | .ok params | .okUpdateDeferred params =>
    let w := replyDuring u.during (replyCtl ctl .started w)
    let (reboot, w) := startUpdateCheck params w
    afterCheck u (upgradeOpts u.during opts) reboot w

/-- One iteration of `run`'s loop. -/
def runUnit (u : UnitEnv) (rs : RunState) (w : World) : UnitResult × RunState × World :=
  let w := { w with env := u.env, nTimer := 0 }
  let (rs, w) := waitedStep rs w
  let w := updateNext u.next w
  let (need, w) := armWait u.next w
  let (wake, w) := outerWait need u.wake w
  let w := tick u.wakeDt w
  match wake with
  | .stalled => (.stalled, rs, w)
  | .timers => let (r, w) := decideAndCheck u .scheduledTask none w; (r, rs, w)
  | .ctl id src => let (r, w) := decideAndCheck u src (some id) w; (r, rs, w)

/-- `StateMachineBuilder::build`: load apps and context from storage. `none` = a stored app
record is outside the model's JSON domain. -/
def build (cfg : Config) (cup : Option Nat) (apps : List App) (sysApp : Bytes) (store : Store)
    (clock : Clock) (w0 : World) : Option World :=
  match loadApps store apps with
  | none => none
  | some apps' =>
    some { w0 with cfg := cfg, cup := cup, ctx := loadCtx store, apps := apps', sysApp := sysApp,
                   store := store, clock := clock }

/-- `oneshot_check`: one `start_update_check` with default parameters. -/
def oneshot (env : Env) (w : World) : UnitResult × World :=
  let w := { w with env := env }
  let (r, w) := startUpdateCheck {} w
  match r with
  | none => (.outside, w)
  | some _ => (.completed, w)

/-- Consecutive iterations of `run`'s loop; stops at the first iteration that does not complete. -/
def runUnits : List UnitEnv → RunState → World → UnitResult × RunState × World
  | [], rs, w => (.completed, rs, w)
  | u :: rest, rs, w =>
    match runUnit u rs w with
    | (.completed, rs', w') => runUnits rest rs' w'
    | other => other

end Omaha.SM
