/-
Model of mock-omaha-server/src/lib.rs as far as `handle_request` is concerned: `handle_omaha_request`
(per-app response assembly in request order, the configured assertions as `panic` outcomes, the
response document with serde_json's sorted object keys), `make_etag` (cup2key extraction from the
request URI, `PrivateKeys::find`, the digest that is signed) and `handle_set_responses`.  The TCP
serving code and `main.rs` are not modelled.
-/
import Omaha.Response
import Omaha.Cup

namespace Omaha.Mock

open Omaha.JsonP

/-- `OmahaResponse`. -/
inductive Kind | noUpdate | update | urgentUpdate | invalidResponse | invalidURL
  deriving DecidableEq, Repr

/-- `ResponseAndMetadata`. -/
structure RespMeta where
  kind : Kind := .noUpdate
  assertDisabled : Bool := false              -- `check_assertion == UpdatesDisabled`
  version : Option Bytes := none
  cohortAssertion : Option Bytes := none
  codebase : Bytes := []
  packageName : Bytes := []
  deriving Repr

/-- `OmahaServer` (keys by id; the key material itself is the environment's). -/
structure Cfg where
  responses : List (Bytes × RespMeta)         -- `responses_by_appid` (a map: first entry per id)
  latest : Nat
  historical : List Nat
  etagOverride : Option Bytes := none
  requireCup : Bool := false
  deriving Repr

/-- What the server reads of one `app` object of the request. -/
structure ReqApp where
  id : Bytes
  version : Bytes                              -- the `version` string
  updateCheck : Option Bool                    -- present? with `updatedisabled` (absent = false)
  cohort : Option Bytes
  hasEvent : Bool
  deriving Repr

open Omaha.Resp (s)

def lookup (k : Bytes) : List (Bytes × RespMeta) → Option RespMeta
  | [] => none
  | (k', v) :: rest => if k' = k then some v else lookup k rest

/-- The manifest / urls part of an update offer (keys in serde_json's sorted order). -/
def offer (codebase pkg : Bytes) (urgent : Bool) : Val :=
  .obj ((if urgent then [(s "_urgent_update", Val.bool true)] else []) ++
    [(s "manifest", .obj [
        (s "actions", .obj [(s "action", .arr [
            .obj [(s "event", .str (s "install")), (s "run", .str pkg)],
            .obj [(s "event", .str (s "postinstall"))]])]),
        (s "packages", .obj [(s "package", .arr [
            .obj [(s "fp", .str (s "2.0.1.2.3")), (s "name", .str pkg), (s "required", .bool true)]])]),
        (s "version", .str (s "0.1.2.3"))]),
     (s "status", .str (s "ok")),
     (s "urls", .obj [(s "url", .arr [.obj [(s "codebase", .str codebase)]])])])

def updateCheckVal (m : RespMeta) : Val :=
  match m.kind with
  | .update => offer m.codebase m.packageName false
  | .urgentUpdate => offer m.codebase m.packageName true
  | .noUpdate => .obj [(s "status", .str (s "noupdate"))]
  | .invalidResponse => .obj [(s "invalid_status", .str (s "invalid"))]
  | .invalidURL => offer (s "http://integration.test.fuchsia.com/") m.packageName false

/-- The `version` assertion. -/
def versionOk (m : RespMeta) (a : ReqApp) : Bool :=
  match m.version with
  | some v => v == a.version
  | none => true

/-- The `cohort` assertion (made on update checks only). -/
def cohortOk (m : RespMeta) (a : ReqApp) : Bool :=
  match m.cohortAssertion with
  | some c => a.cohort == some c
  | none => true

/-- An app object of the response (keys in sorted order). -/
def appObj (id : Bytes) (uc : Option Val) : Val :=
  .obj ([(s "appid", .str id), (s "cohort", .str (s "1:1:")), (s "cohorthint", .str (s "integration-test")),
         (s "cohortname", .str (s "integration-test")), (s "status", .str (s "ok"))] ++
        (match uc with
         | some u => [(s "updatecheck", u)]
         | none => []))

/-- One app of the response; `none` = an assertion of the mock fails (it panics). -/
def appVal (cfg : Cfg) (a : ReqApp) : Option Val :=
  match lookup a.id cfg.responses with
  | none => none                                                    -- `responses_by_appid[appid]`
  | some m =>
    if !versionOk m a then none
    else
      match a.updateCheck with
      | some disabled =>
        if disabled != m.assertDisabled || !cohortOk m a then none
        else some (appObj a.id (some (updateCheckVal m)))
      | none => if !a.hasEvent then none else some (appObj a.id none)

def appVals (cfg : Cfg) : List ReqApp → Option (List Val)
  | [] => some []
  | a :: rest =>
    match appVal cfg a, appVals cfg rest with
    | some v, some vs => some (v :: vs)
    | _, _ => none

/-- The response document. -/
def responseVal (apps : List Val) : Val :=
  .obj [(s "response", .obj [
    (s "app", .arr apps),
    (s "daystart", .obj [(s "elapsed_days", .num (.uint 4775)), (s "elapsed_seconds", .num (.uint 48810))]),
    (s "protocol", .str (s "3.0")),
    (s "server", .str (s "prod"))])]

mutual
  /-- `serde_json::to_vec` of a value (the documents built here contain u64 integers only). -/
  def toJson : Val → Json
    | .null => .null
    | .bool b => .bool b
    | .num (.uint n) => .int n
    | .num (.other _) => .null
    | .str b => .str b
    | .arr xs => .arr (toJsons xs)
    | .obj kvs => .obj (toJsonMembers kvs)
  def toJsons : List Val → List Json
    | [] => []
    | x :: xs => toJson x :: toJsons xs
  def toJsonMembers : List (Bytes × Val) → List (Bytes × Json)
    | [] => []
    | (k, v) :: rest => (k, toJson v) :: toJsonMembers rest
end

def render (v : Val) : Bytes := Json.render (toJson v)

/-! ### The ETag -/

/-- Split a query string into its `key=value` pairs (no percent-decoding: the client's own
`cup2key` parameter never needs any). -/
def splitOn (d : UInt8) : Bytes → List Bytes
  | [] => [[]]
  | x :: xs =>
    match splitOn d xs with
    | cur :: rest => if x = d then [] :: cur :: rest else (x :: cur) :: rest
    | [] => [[x]]

def queryOf (uri : Bytes) : Option Bytes := (Cup.splitOnce 63 uri).map (·.2)

/-- The value of the last `cup2key` pair of the request URI's query. -/
def cup2keyOf (uri : Bytes) : Option Bytes :=
  match queryOf uri with
  | none => none
  | some q =>
    ((splitOn 38 q).filterMap fun pair =>
      match Cup.splitOnce 61 pair with
      | some (k, v) => if k = s "cup2key" then some v else none
      | none => if pair = s "cup2key" then some [] else none).getLast?

/-- `PrivateKeys::find`. -/
def holdsKey (cfg : Cfg) (id : Nat) : Bool := cfg.latest = id || cfg.historical.contains id

inductive Etag where
  | none
  | panic                                       -- malformed cup2key (`unwrap` on split / parse)
  | signed (keyId : Nat) (cup2key : Bytes)      -- signature by the key with this id over `digest … cup2key`
  deriving DecidableEq, Repr

/-- `make_etag` up to the signing itself. -/
def inducedEtag (cfg : Cfg) (uri : Bytes) : Etag :=
  if uri = [47] then .none
  else
    match cup2keyOf uri with
    | Option.none => .none
    | some v =>
      match Cup.splitOnce 58 v with
      | Option.none => .panic
      | some (idText, _) =>
        match Dec.parseU64 idText with
        | Option.none => .panic
        | some id => if holdsKey cfg id then .signed id v else .none

/-- The digest the server signs. -/
def digest (C : Cup.Crypto) (reqBody respBody cup2key : Bytes) : Bytes :=
  C.sha256 (C.sha256 reqBody ++ (C.sha256 respBody ++ cup2key))

/-! ### `handle_omaha_request` -/

inductive Outcome where
  | status500                                   -- no responses configured
  | panic
  | ok (body : Bytes) (etagOverride : Option Bytes) (induced : Etag)
  deriving Repr

def handle (cfg : Cfg) (uri : Bytes) (apps : List ReqApp) : Outcome :=
  if cfg.responses.isEmpty then .status500
  else
    let nuc := (apps.filter fun a => a.updateCheck.isSome).length
    if nuc ≠ 0 ∧ nuc ≠ cfg.responses.length then .panic
    else
      match appVals cfg apps with
      | none => .panic
      | some vs =>
        let body := render (responseVal vs)
        match inducedEtag cfg uri with
        | .panic => .panic
        | e =>
          if cfg.requireCup ∧ e = .none then .panic
          else .ok body cfg.etagOverride e

/-- `handle_set_responses`: the new map replaces the old one. -/
def setResponses (cfg : Cfg) (m : List (Bytes × RespMeta)) : Cfg := { cfg with responses := m }

end Omaha.Mock
