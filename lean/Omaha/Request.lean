/-
Model of omaha-client/src/request_builder.rs and the serde attributes of protocol/request.rs,
protocol.rs (`Cohort`): builder operations, header construction, and the JSON *value* that is
serialised (member by member, in serde's field order), rendered by `Json.render`.
-/
import Omaha.Basic.Json
import Omaha.Version

namespace Omaha

structure Cohort where
  id : Option Bytes := none
  hint : Option Bytes := none
  name : Option Bytes := none
  deriving DecidableEq, Repr, Inhabited

/-- `common::App`. `extras` lists the `HashMap` entries in the map's iteration order (observed by
the harness on the very map instance handed to the library). -/
structure App where
  id : Bytes
  version : Version
  fp : Option Bytes := none
  cohort : Cohort := {}
  userCounting : Option Nat := none
  extras : List (Bytes × Bytes) := []
  deriving DecidableEq, Repr, Inhabited

structure OS where
  platform : Bytes
  version : Bytes
  sp : Bytes
  arch : Bytes
  deriving DecidableEq, Repr, Inhabited

inductive InstallSource | onDemand | scheduledTask
  deriving DecidableEq, Repr, Inhabited

structure Config where
  updaterName : Bytes
  updaterVersion : Version
  os : OS
  serviceUrl : Bytes
  deriving Repr, Inhabited

structure RequestParams where
  source : InstallSource := .scheduledTask
  useConfiguredProxies : Bool := false
  disableUpdates : Bool := false
  offerUpdateIfSameVersion : Bool := false
  deriving DecidableEq, Repr, Inhabited

/-- `protocol::request::Event` with the numeric codes of `EventType` / `EventResult` /
`EventErrorCode`. -/
structure Event where
  eventType : Nat := 0
  eventResult : Nat := 0
  errorcode : Option Int := none
  previousVersion : Option Bytes := none
  nextVersion : Option Bytes := none
  downloadTimeMs : Option Nat := none
  deriving DecidableEq, Repr, Inhabited

namespace Request

structure AppEntry where
  app : App
  updateCheck : Option (Bool × Bool) := none      -- (updatedisabled, sameversionupdate)
  ping : Bool := false
  events : List Event := []
  deriving Repr, Inhabited

structure Builder where
  params : RequestParams
  entries : List AppEntry := []
  requestId : Option Bytes := none                 -- the 36-character hyphenated GUID text
  sessionId : Option Bytes := none
  deriving Repr, Inhabited

/-- `insert_and_modify_entry`: modify the first entry with this app id, or append a new entry
made from `app`. -/
def insertAndModify (entries : List AppEntry) (app : App) (f : AppEntry → AppEntry) : List AppEntry :=
  match entries with
  | [] => [f { app := app }]
  | e :: es => if e.app.id = app.id then f e :: es else e :: insertAndModify es app f

inductive Op where
  | updateCheck (app : App)
  | ping (app : App)
  | event (app : App) (ev : Event)
  | requestId (g : Bytes)
  | sessionId (g : Bytes)
  deriving Repr, Inhabited

def setUc (uc : Bool × Bool) (e : AppEntry) : AppEntry := { e with updateCheck := some uc }
def setPing (e : AppEntry) : AppEntry := { e with ping := true }
def pushEvent (ev : Event) (e : AppEntry) : AppEntry := { e with events := e.events ++ [ev] }

def Builder.apply (b : Builder) : Op → Builder
  | .updateCheck app =>
    { b with entries := (insertAndModify b.entries app
        (setUc (b.params.disableUpdates, b.params.offerUpdateIfSameVersion))) }
  | .ping app => { b with entries := (insertAndModify b.entries app setPing) }
  | .event app ev => { b with entries := (insertAndModify b.entries app (pushEvent ev)) }
  | .requestId g => { b with requestId := some g }
  | .sessionId g => { b with sessionId := some g }

def Builder.applyAll (b : Builder) (ops : List Op) : Builder := ops.foldl Builder.apply b

/-! ### JSON value -/

def optStr (k : String) : Option Bytes → List (Bytes × Json)
  | some s => [(Bytes.ofString k, .str s)]
  | none => []

def optNat (k : String) : Option Nat → List (Bytes × Json)
  | some n => [(Bytes.ofString k, .int n)]
  | none => []

def flagMember (k : String) (b : Bool) : List (Bytes × Json) :=
  if b then [(Bytes.ofString k, .bool true)] else []

def cohortMembers (c : Cohort) : List (Bytes × Json) :=
  optStr "cohort" c.id ++ optStr "cohorthint" c.hint ++ optStr "cohortname" c.name

def eventJson (e : Event) : Json :=
  .obj ([(Bytes.ofString "eventtype", .int e.eventType), (Bytes.ofString "eventresult", .int e.eventResult)]
    ++ (match e.errorcode with | some c => [(Bytes.ofString "errorcode", .int c)] | none => [])
    ++ optStr "previousversion" e.previousVersion ++ optStr "nextversion" e.nextVersion
    ++ optNat "download_time_ms" e.downloadTimeMs)

/-- `From<AppEntry> for protocol::request::App` followed by its `Serialize` impl. -/
def appJson (e : AppEntry) : Json :=
  .obj ([(Bytes.ofString "appid", .str e.app.id),
         (Bytes.ofString "version", .str (Version.print e.app.version))]
    ++ optStr "fp" e.app.fp
    ++ cohortMembers e.app.cohort
    ++ (match e.updateCheck with
        | some (d, s) => [(Bytes.ofString "updatecheck",
            .obj (flagMember "updatedisabled" d ++ flagMember "sameversionupdate" s))]
        | none => [])
    ++ (if e.events.isEmpty then [] else [(Bytes.ofString "event", .arr (e.events.map eventJson))])
    ++ (if e.ping then [(Bytes.ofString "ping",
            .obj (optNat "ad" e.app.userCounting ++ optNat "rd" e.app.userCounting))] else [])
    ++ e.app.extras.map fun (k, v) => (k, .str v))

def sourceText : InstallSource → Bytes
  | .onDemand => Bytes.ofString "ondemand"
  | .scheduledTask => Bytes.ofString "scheduledtask"

def braced (g : Bytes) : Bytes := 123 :: (g ++ [125])

def bodyJson (cfg : Config) (b : Builder) : Json :=
  .obj [(Bytes.ofString "request", .obj (
    [(Bytes.ofString "protocol", .str (Bytes.ofString "3.0")),
     (Bytes.ofString "updater", .str cfg.updaterName),
     (Bytes.ofString "updaterversion", .str (Version.print cfg.updaterVersion)),
     (Bytes.ofString "installsource", .str (sourceText b.params.source)),
     (Bytes.ofString "ismachine", .bool true)]
    ++ optStr "requestid" (b.requestId.map braced)
    ++ optStr "sessionid" (b.sessionId.map braced)
    ++ [(Bytes.ofString "os", .obj [
          (Bytes.ofString "platform", .str cfg.os.platform), (Bytes.ofString "version", .str cfg.os.version),
          (Bytes.ofString "sp", .str cfg.os.sp), (Bytes.ofString "arch", .str cfg.os.arch)]),
        (Bytes.ofString "app", .arr (b.entries.map appJson))]))]

/-! ### Headers -/

/-- Bytes `http::HeaderValue` accepts: visible ASCII, space, tab and bytes ≥ 0x80. -/
def headerByteOk (b : UInt8) : Bool := b = 9 || (32 ≤ b.toNat && b.toNat ≠ 127)

def headerValueOk (v : Bytes) : Bool := v.all headerByteOk

/-- `build_intermediate`'s header list (name, value), in order. -/
def headers (cfg : Config) (b : Builder) : List (String × Bytes) :=
  [("content-type", Bytes.ofString "application/json"),
   ("X-Goog-Update-Updater", cfg.updaterName),
   ("X-Goog-Update-Interactivity",
     match b.params.source with
     | .onDemand => Bytes.ofString "fg"
     | .scheduledTask => Bytes.ofString "bg")]
  ++ (match b.entries with
      | e :: _ => [("X-Goog-Update-AppId", e.app.id)]
      | [] => [])

structure Wire where
  headers : List (String × Bytes)
  body : Bytes
  deriving Repr

/-- `RequestBuilder::build` without a CUP handler, for a service URL that `http::Uri` accepts:
`none` is `Error::Http` (a header value the `http` crate rejects). The method is POST and the URI
is the configured service URL (compared separately, see C03 for the URI model). -/
def build (cfg : Config) (b : Builder) : Option Wire :=
  let hs := headers cfg b
  if hs.all (fun h => headerValueOk h.2) then
    some ⟨hs, Json.render (bodyJson cfg b)⟩
  else none

end Request
end Omaha
